"""C12 - the framework store is a faithful set model under any update history."""
from lib import *


def canon_line(l):
    t = l.split(" ")
    if t[0] in ("atts", "args"):
        return t[0] + " " + " ".join(sorted(t[1:]))
    if t[0] in ("from", "to"):
        return " ".join(t[:2]) + " " + " ".join(sorted(x for x in t[2:] if x))
    return l


class SetModel:
    """Independent python rendering of the plain set model (the spec of C12)."""

    def __init__(self, init):
        self.next_id = 0
        self.live = {}   # label -> id
        self.rel = set()
        for l in init:
            self.new_arg(l)

    def new_arg(self, l):
        if l not in self.live:
            self.live[l] = self.next_id
            self.next_id += 1

    def step(self, op):
        k = op[0]
        if k == "+a":
            self.new_arg(op[1])
            return "ok"
        if k == "-a":
            if op[1] not in self.live:
                return "err"
            i = self.live.pop(op[1])
            self.rel = {(a, b) for (a, b) in self.rel if a != i and b != i}
            return "ok"
        a, b = op[1], op[2]
        if a not in self.live or b not in self.live:
            return "err"
        p = (self.live[a], self.live[b])
        if k == "+t":
            self.rel.add(p)
            return "ok"
        if p in self.rel:
            self.rel.discard(p)
            return "ok"
        return "err"

    def observe(self, universe):
        ids = sorted(self.live.values())
        byid = {i: l for l, i in self.live.items()}
        o = ["obs nargs=%d natt=%d maxid=%s" % (len(ids), len(self.rel), "-" if self.next_id == 0 else str(self.next_id - 1))]
        o.append("args " + " ".join(sorted("%d:%s" % (i, byid[i]) for i in ids)))
        o.append("atts " + " ".join(sorted("%d>%d" % p for p in self.rel)))
        for i in ids:
            o.append(("from %d " % i) + " ".join(sorted("%d>%d" % p for p in self.rel if p[0] == i)))
            o.append(("to %d " % i) + " ".join(sorted("%d>%d" % p for p in self.rel if p[1] == i)))
        o.append("get " + " ".join("%s=%s" % (l, self.live[l] if l in self.live else "-") for l in universe))
        o.append("has " + "".join("1" if i in byid else "0" for i in range(self.next_id + 1)))
        return o


def oracle_case(c):
    """Replays the history on the python set model; returns None or (index, impl, expected)."""
    init, universe, ops = [], [], []
    for l in c.ins:
        t = l.split()
        if t[0] == "init":
            init = t[1:]
        elif t[0] == "universe":
            universe = t[1:]
        elif t[0] == "op":
            ops.append(t[1:])
    m = SetModel(init)
    exp = [canon_line(x) for x in m.observe(universe)]
    for op in ops:
        r = m.step(op)
        exp.append("r " + r)
        exp += [canon_line(x) for x in m.observe(universe)]
    got = [canon_line(x) for x in c.outs]
    # raw duplicate check on the implementation's own output
    for x in c.outs:
        t = x.split(" ")
        if t[0] == "atts":
            items = [y for y in t[1:] if y]
            if len(items) != len(set(items)):
                return (0, x, "duplicate attack in iteration")
    return first_diff(got, exp[: len(got)] if len(got) < len(exp) and got and got[-1].startswith("r panic") else exp)


def main(ctx):
    proofs_ok = check_proofs(ctx)
    h = build_harness(ctx)
    d = build_driver(ctx)
    if not h or not d:
        ctx.violation("build of harness/driver failed (cannot tie the model to /repo)", "build failure\n", found_input=False)
        ctx.finish()
    total = 12000 if ctx.thorough else 2400
    shards = run_mode(ctx, h, d, "store", total)
    n_cases = n_steps = 0
    distinct = set()
    kinds = {}
    samples = []
    corr_broken = None
    for sh_ in shards:
        if isinstance(sh_[0], str):
            ctx.violation("%s: %s" % (sh_[0], sh_[1][1][-500:]), "command: %s\n" % sh_[2], found_input=False)
            continue
        impl, models, path = sh_
        model = models[0]
        mm = {c.id: c for c in model}
        for c in impl:
            n_cases += 1
            ops = [l for l in c.ins if l.startswith("op ")]
            n_steps += len(ops)
            for o in ops:
                kinds[o.split()[1]] = kinds.get(o.split()[1], 0) + 1
            for o in c.outs:
                if o.startswith("r "):
                    kinds[o] = kinds.get(o, 0) + 1
            if any(o.startswith("op -") for o in ops) and any(o.startswith("op +t") for o in ops):
                distinct.add(hash(tuple(c.ins)))
            if len(samples) < 2:
                samples.append({"history": c.ins[:12], "final_observation": c.outs[-9:]})
            # (a) implementation against the python set model: a real failing history
            od = oracle_case(c)
            if od is not None:
                ctx.violation("store observable differs from the set model at output line %d: impl `%s` expected `%s`" % od,
                              c.text(), found_input=True)
                continue
            # (b) implementation against the Coq model (canonical level: attack lists as sets)
            m = mm.get(c.id)
            if m is None:
                corr_broken = corr_broken or (c, "model produced no output for the case")
                continue
            dd = first_diff([canon_line(x) for x in c.outs], [canon_line(x) for x in m.outs])
            if dd is not None:
                corr_broken = corr_broken or (c, "line %d: impl `%s` model `%s`" % dd)
    if corr_broken and not ctx.violations:
        c, why = corr_broken
        ctx.violation("correspondence Model.Store vs AAFramework no longer checks (%s); the set-model oracle found no failing history" % why,
                      c.text(), found_input=False)
    if not proofs_ok and not ctx.violations:
        bad = [o[0] for o in ctx.obligations if not o[1]]
        ctx.violation("proof obligations not discharged: %s" % ", ".join(bad), "theorems: %s\n" % ", ".join(bad), found_input=False)
    ctx.cov.update({
        "evaluations": n_steps,
        "histories": n_cases,
        "distinct_nontrivial": len(distinct),
        "rule": "random update histories over a label universe of 1-6; one history in three starts with a planned churn scenario (fan-in, fan-out or dense attack set inserted in a random order, then removed in another random order, then possibly the hub argument removed) (weights: 30% new_argument, 15% remove_argument, 35% new_attack, 20% remove_attack; 1/6 self-attacks; initial label lists with repetitions); after every operation result and all observables compared with (a) an independent python set model and (b) the extracted Coq model; non-trivial = history containing a removal and an attack insertion; distinct = distinct operation lists",
        "samples": samples,
        "distribution": kinds,
        "traces_validated_against_impl": n_cases,
    })
    ctx.assumptions += ["labels are usize in the harness (the model and theorems are generic in the label type with decidable equality)",
                        "HashMap label_to_id modelled as a lookup over live slots"]
    ctx.finish()
