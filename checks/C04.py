"""C04 - certificates are valid witnesses and appear exactly when promised."""
import time

from solvers_common import *


# ------------------------------------------------------------------ label route (Properties/C04labels.v)
# Mode `components`: the connected-component computer of /repo (exported under cfg(crustabri_verif))
# against the extracted LABEL ROUTE functions of Proofs/LabelRouteDefs.v, on stores built by update
# histories, plus an oracle on the implementation's output alone.


def _kv(tokens):
    """'a=b' tokens -> list of (a, b)."""
    return [tuple(t.split("=", 1)) for t in tokens if t]


def _parse_group(lines, prefix):
    """The lines of one run (iteration: prefix '', merged: prefix 'm<j> '), already stripped of the
    prefix.  Returns (components, panicked, ended); a component = dict(args, atts, local, glob)."""
    comps, cur, panicked, ended = [], None, False, False
    for l in lines:
        t = l.split(" ")
        if t[0] == "cc" and len(t) >= 3 and t[2] == "panic":
            panicked = True
        elif t[0] == "cc":
            body = " ".join(t[2:])
            a, _, b = body.partition(" ; ")
            args = [tuple(x.split(":", 1)) for x in a.split(" ")[1:] if x]
            atts = [tuple(x.split(">", 1)) for x in b.split(" ")[1:] if x]
            cur = {"k": t[1], "args": args, "atts": atts, "local": None, "glob": None}
            comps.append(cur)
        elif t[0] == "local" and cur is not None and t[1] == cur["k"]:
            cur["local"] = _kv(t[2:])
        elif t[0] == "global" and cur is not None and t[1] == cur["k"]:
            cur["glob"] = _kv(t[2:])
        elif t[0] == "end":
            ended = True
    return comps, panicked, ended


def label_route_oracle(c):
    """Judges the implementation's output alone.  Returns (verdict, n_components, n_fcc1) where the
    verdict is None or a string describing the first failure."""
    outs = c.outs
    if any(o.startswith("op panic") for o in outs):
        return "an update operation of the public API panicked", 0, 0
    orig = atts0 = maxid = None
    groups = {}
    order = []
    for o in outs:
        if o.startswith("maxid "):
            maxid = o[6:]
        elif o.startswith("args ") or o == "args":
            orig = [tuple(x.split(":", 1)) for x in o.split(" ")[1:] if x]
        elif o.startswith("atts ") or o == "atts":
            atts0 = [tuple(x.split(">", 1)) for x in o.split(" ")[1:] if x]
        else:
            p = ""
            body = o
            if o[0] == "m" and " " in o and o.split(" ", 1)[0][1:].isdigit():
                p, body = o.split(" ", 1)
            if p not in groups:
                groups[p] = []
                order.append(p)
            groups[p].append(body)
    if orig is None or atts0 is None:
        return "no observation of the store", 0, 0
    merged_lists = [l.split(" ")[1:] for l in c.ins if l.startswith("merged")]
    merged_lists = [[x for x in l if x] for l in merged_lists]
    orig_set = set(orig)
    live = [i for i, _ in orig]
    ncomp = nf = 0
    for p in order:
        comps, panicked, ended = _parse_group(groups[p], p)
        ncomp += len(comps)
        what = "iter_connected_components" if p == "" else "merged_connected_components_of #%s" % p[1:]
        if panicked:
            j = int(p[1:]) if p else -1
            if p and maxid == "-" and not orig and j < len(merged_lists) and not merged_lists[j] and not comps:
                nf += 1      # F-cc-1: empty list on the framework that never had an argument
                continue
            return "%s: panic" % what, ncomp, nf
        if not ended:
            return "%s: output not terminated" % what, ncomp, nf
        seen = {}
        mapped_atts = []
        for cc in comps:
            k = cc["k"]
            if cc["local"] is None or cc["glob"] is None:
                return "%s: component %s without translation lines" % (what, k), ncomp, nf
            labels = [l for _, l in cc["args"]]
            if len(set(labels)) != len(labels):
                return "%s: component %s has two arguments with the same label" % (what, k), ncomp, nf
            if [i for i, _ in cc["args"]] != [str(i) for i in range(len(cc["args"]))]:
                return "%s: component %s is not numbered 0..k-1" % (what, k), ncomp, nf
            glob = dict(cc["glob"])
            local = dict(cc["local"])
            if list(local.keys()) != live:
                return "%s: component %s: local line does not range over the arguments of the framework" % (what, k), ncomp, nf
            for i, l in cc["args"]:
                gv = glob.get(i)
                if gv is None or gv == "-":
                    return "%s: component %s: argument %s (label %s) not found in the framework by its label" % (what, k, i, l), ncomp, nf
                gid, _, gl = gv.partition(":")
                if (gid, gl) not in orig_set:
                    return "%s: component %s: %s -> %s is not an (id,label) pair of the caller's argument set" % (what, k, i, gv), ncomp, nf
                if gl != l:
                    return "%s: component %s: %s has label %s but is translated to %s" % (what, k, i, l, gv), ncomp, nf
                if local.get(gid) != i:
                    return "%s: component %s: global(%s) = %s but local(%s) = %s" % (what, k, i, gid, gid, local.get(gid)), ncomp, nf
                if gid in seen:
                    return "%s: argument %s is in the components %s and %s" % (what, gid, seen[gid], k), ncomp, nf
                seen[gid] = k
            for a, li in cc["local"]:
                if li != "-":
                    gv = glob.get(li)
                    if gv is None or gv.partition(":")[0] != a:
                        return "%s: component %s: local(%s) = %s but global(%s) = %s" % (what, k, a, li, li, gv), ncomp, nf
            for a, b in cc["atts"]:
                if a not in glob or b not in glob:
                    return "%s: component %s: attack %s>%s over an unknown local id" % (what, k, a, b), ncomp, nf
                mapped_atts.append((glob[a].partition(":")[0], glob[b].partition(":")[0]))
        if sorted(seen.keys(), key=int) != sorted(live, key=int):
            return "%s: the components do not partition the live arguments (%s vs %s)" % (what, sorted(seen.keys(), key=int), live), ncomp, nf
        if sorted(mapped_atts) != sorted(atts0):
            return "%s: the attacks of the components, translated back, are not the attacks of the framework" % what, ncomp, nf
        if p:
            j = int(p[1:])
            if j < len(merged_lists) and comps:
                first = set(g.partition(":")[0] for _, g in comps[0]["glob"])
                if not set(merged_lists[j]) <= first:
                    return "%s: a listed argument is not in the merged component" % what, ncomp, nf
    return None, ncomp, nf


def label_route_stage(ctx):
    t0 = time.time()
    h = build_harness(ctx)
    d = build_driver(ctx)
    if not h or not d:
        return
    total = 6000 if ctx.thorough else 600
    shards = run_mode(ctx, h, d, "components", total)
    n_cases = n_comp = n_fcc1 = n_sparse = n_multi = 0
    scen = {}
    corr = None
    sample = None
    for sh_ in shards:
        if isinstance(sh_[0], str):
            ctx.violation("label route: %s: %s" % (sh_[0], sh_[1][1][-500:]), "command: %s\n" % sh_[2], found_input=False)
            continue
        impl, models, _ = sh_
        mm = {c.id: c for c in models[0]}
        for c in impl:
            n_cases += 1
            scen[c.kind] = scen.get(c.kind, 0) + 1
            v, nc, nf = label_route_oracle(c)
            n_comp += nc
            n_fcc1 += nf
            ids = [int(x.split(":")[0]) for o in c.outs if o.startswith("args ") for x in o.split(" ")[1:] if x]
            if ids and ids != list(range(len(ids))):
                n_sparse += 1
            if any(o.startswith("cc 1 ") for o in c.outs):
                n_multi += 1
            if sample is None and ids and ids != list(range(len(ids))) and any(o.startswith("cc 1 ") for o in c.outs):
                sample = {"kind": c.kind, "input": c.ins[:14], "output": c.outs[:9]}
            if v is not None:
                ctx.violation("label route (%s): %s" % (c.kind, v), c.text(), found_input=True, key="labels:" + v.split(":")[0][:40])
                continue
            m = mm.get(c.id)
            if m is None:
                corr = corr or (c, "the model produced no output for the case", None)
                continue
            dd = first_diff(c.outs, m.outs)
            if dd is not None:
                corr = corr or (c, "line %d: impl `%s` model `%s`" % (dd[0], dd[1][:160], dd[2][:160]), m)
    if corr and not any(w.startswith("label route") for w, _, _ in ctx.violations):
        c, why, m = corr
        ctx.violation("correspondence Proofs/LabelRouteDefs (label route) vs ConnectedComponentsComputer no longer checks (%s); the oracle on the implementation's output found no failing store among %d"
                      % (why, n_cases), c.text() + "".join("MODEL " + x + "\n" for x in (m.outs if m else [])), found_input=False)
    ctx.cov["label_route_cases"] = n_cases
    ctx.cov["label_route_components"] = n_comp
    ctx.cov["label_route_sparse_id_stores"] = n_sparse
    ctx.cov["label_route_stores_with_several_components"] = n_multi
    ctx.cov["label_route_scenarios"] = scen
    ctx.cov["label_route_fcc1_panics"] = n_fcc1
    ctx.cov["label_route_wall_s"] = round(time.time() - t0, 1)
    ctx.cov["label_route_rule"] = (
        "stores AAFramework<usize> built by update histories (planned blocks: chains, cycles, stars, dense blocks, isolated arguments, "
        "self-attacks, duplicate insertions, then removals and re-insertions of labels; random operation mixes; ICCMA texts with repeated attack "
        "lines; the framework that never had an argument; all arguments removed); iter_connected_components and merged_connected_components_of("
        "1-3 random lists, repetitions and the empty list included) + next_connected_component: component frameworks (argument and attack lists in "
        "order), get_argument(label) of every argument of the store in every component, get_argument(label) of every component argument in the "
        "store; compared line by line with Proofs/LabelRouteDefs.comp_store / to_local_lab / to_global_lab on the extracted Model.Store, and judged "
        "alone: global entries are (id,label) pairs of the store with the component argument's label, local/global mutually inverse, component "
        "labels pairwise distinct, components partition the live ids, attacks translated back are the store's attacks")
    if sample:
        ctx.cov["label_route_sample"] = sample
    if n_fcc1:
        ctx.notes.append("F-cc-1 (FINDINGS-cc.md, not classified yet): merged_connected_components_of(&[]) panics on the framework that never had "
                         "an argument (%d generated cases; iter_connected_components returns no component there; the label-route model "
                         "comp_store renders the same panic, so the two sides agree)" % n_fcc1)


def main(ctx):
    total = 30000 if ctx.thorough else 3000
    static_check(
        ctx, "static", total, extra="--q DC,DS --cert 1",
        more_runs=[("static", 0, "--q DC,DS --cert 1 --exhaustive %d" % 3),
                   ("static", 600 if ctx.thorough else 60, "--q DC,DS --cert 1 --large")],
        rule="acceptance queries WITH certificate (all DC/DS trait implementations x selectable encoders) on all frameworks with <= %d arguments exhaustively and generated frameworks with several components and sparse ids; traces replayed on Model.Solvers; judged by brute force: certificate present exactly for DC-YES / DS-NO, is an extension of the queried semantics (complete for the CO solver) containing / omitting the argument, members are (id,label) pairs of the caller's framework, each once"
             % 3,
        finish=False, extra_props=("C04labels",),
    )
    label_route_stage(ctx)
    ctx.finish()
