"""C04 - certificates are valid witnesses and appear exactly when promised."""
from solvers_common import *


def main(ctx):
    total = 30000 if ctx.thorough else 3000
    static_check(
        ctx, "static", total, extra="--q DC,DS --cert 1",
        extra_props=("C04labels",),
        more_runs=[("static", 0, "--q DC,DS --cert 1 --exhaustive %d" % 3)],
        rule="acceptance queries WITH certificate (all DC/DS trait implementations x selectable encoders) on all frameworks with <= %d arguments exhaustively and generated frameworks with several components and sparse ids; traces replayed on Model.Solvers; judged by brute force: certificate present exactly for DC-YES / DS-NO, is an extension of the queried semantics (complete for the CO solver) containing / omitting the argument, members are (id,label) pairs of the caller's framework, each once"
             % 3,
    )
