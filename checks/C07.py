"""C07 - multi-argument queries are answered as disjunctions."""
from solvers_common import *


def _preferred(n, rel):
    """brute force: the preferred extensions of a framework with arguments 0..n-1 (bit sets)"""
    att = [0] * n      # att[b] = bit set of the attackers of b
    tg = [0] * n
    for (a, b) in rel:
        att[b] |= 1 << a
        tg[a] |= 1 << b
    adm = []
    for S in range(1 << n):
        hit = 0
        for a in range(n):
            if S >> a & 1:
                hit |= tg[a]
        if S & hit:
            continue
        if all(not (S >> a & 1) or (att[a] & ~hit) == 0 for a in range(n)):
            adm.append(S)
    return [S for S in adm if not any(T != S and (T & S) == S for T in adm)]


def pairs_stage(ctx):
    """EVERY pair of arguments of medium frameworks (9-13 arguments, several preferred extensions) as a skeptical preferred
    (ideal) query with and without certificate on fresh objects: the statuses must coincide - both are the disjunction
    semantics (C07), whatever the entry point (C06).  A disagreement is resolved by brute force and reported with the
    framework."""
    h = build_harness(ctx)
    if not h:
        return
    per = 30000 if ctx.thorough else 3000
    cmds, files = [], []
    for s in range(NCPU):
        cf = os.path.join(ctx.work, "pairs.%d.cases" % s)
        seed = (ctx.seed * 1000003 + 4242 + s * 101) % (2 ** 62)
        cmds.append("%s pairs --seed %d --count %d --tier %s --out %s --shard %d/%d" % (h, seed, per, ctx.tier, cf, s, NCPU))
        files.append(cf)
    res = run_parallel(cmds, 1200)
    n_fw = n_q = 0
    for (rc, out), cf, cmd in zip(res, files, cmds):
        if rc not in (0, 3) or not os.path.exists(cf):
            ctx.violation("pairs: harness-failed: %s" % out[-300:], "command: %s\n" % cmd, found_input=False, key="pairs-harness")
            continue
        for c in parse_cases(cf):
            n_fw += 1
            for o in c.outs:
                t = o.split()
                if t[0] == "queries":
                    n_q += int(t[1])
                elif t[0] == "mismatch":
                    n, rel = None, []
                    for l in c.ins:
                        u = l.split()
                        if u and u[0] == "iccma":
                            n = int(u[1]); ids = [int(x) for x in u[2:]]; rel = list(zip(ids[0::2], ids[1::2]))
                    why = "%s-%s of the list [%s, %s]: status %s without certificate, %s with certificate" % (t[2], t[1], t[3], t[4], t[5].split("=")[1], t[6].split("=")[1])
                    if n is not None and n <= 14 and t[1] == "PR":
                        pr = _preferred(n, rel)
                        x, y = int(t[3]) - 1, int(t[4]) - 1
                        truth = all((S >> x & 1) or (S >> y & 1) for S in pr)
                        why += "; by brute force (%d preferred extensions) every one contains a listed argument: %s" % (len(pr), "YES" if truth else "NO")
                    ctx.violation("pairs: " + why, c.text(), found_input=True, key="pairs" + t[1])
                elif t[0] == "panic":
                    ctx.violation("pairs: the harness panicked: " + o[:200], c.text(), found_input=True, key="pairs-panic")
    ctx.cov["all_pairs_stage"] = {"frameworks_of_9_to_13_arguments": n_fw, "queries_with_and_without_certificate": n_q}
    ctx.floor("all_pairs_queries", n_q)


def main(ctx):
    total = 30000 if ctx.thorough else 3200
    static_check(
        ctx, "static-multi", total, extra="--q DC,DS",
        more_runs=[("static-multi", 0, "--q DC,DS --exhaustive %d" % (3 if ctx.thorough else 2))],
        rule="generated frameworks (recipes: components of mixed kinds, cycles, self-attacks, funnels across the hybrid threshold, duplicated attack lines, sparse ids through removal histories) x acceptance queries over lists of 1-3 arguments with forced spreads (different components, one component, attacker/attacked pair, repetitions) x all static solvers x selectable encoders x with/without certificate; each run replayed on Model.Solvers with the recorded SAT answers and judged by the brute-force disjunction semantics (credb/skepb) extracted from Spec.AF",
        finish=False,
    )
    pairs_stage(ctx)
    ctx.finish()
