"""C07 - multi-argument queries are answered as disjunctions."""
from solvers_common import *


def main(ctx):
    total = 30000 if ctx.thorough else 3200
    static_check(
        ctx, "static-multi", total, extra="--q DC,DS",
        more_runs=[("static-multi", 0, "--q DC,DS --exhaustive %d" % (3 if ctx.thorough else 2))],
        rule="generated frameworks (recipes: components of mixed kinds, cycles, self-attacks, funnels across the hybrid threshold, duplicated attack lines, sparse ids through removal histories) x acceptance queries over lists of 1-3 arguments with forced spreads (different components, one component, attacker/attacked pair, repetitions) x all static solvers x selectable encoders x with/without certificate; each run replayed on Model.Solvers with the recorded SAT answers and judged by the brute-force disjunction semantics (credb/skepb) extracted from Spec.AF",
    )
