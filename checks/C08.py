"""C08 - dynamic solvers always answer for the current framework."""
from dyn_common import *

RULE = ("random histories of VALID updates (new_argument / remove_argument / new_attack / remove_attack over a label universe of 4-8, "
        "re-insertion of removed labels, sparse ids through add-and-remove preludes) interleaved with credulous / skeptical queries with and "
        "without certificate (probability 0.4 after an update, 0.6 after a removal, 1/3 immediately repeated: same argument, other certificate "
        "flag, other argument), planted grounded-insensitive motifs (k mutually attacking pairs all attacking t, t attacking y; an even cycle "
        "next to a self-attacker; a component without stable extension that appears and disappears) x the six dynamic solvers (complete, stable, "
        "preferred, complete/stable with assumptions on attacks at factors 1, 3/2, 2, 3, and the recompute-from-scratch wrapper over the static "
        "complete / stable / preferred solvers); every update result, status and certificate judged by the spec store + brute-force enumeration "
        "(AF.all_exts) of the framework as it stands at that moment; every run replayed on the extracted Model/Dynamic.v with the recorded SAT answers")


def main(ctx):
    total = 24000 if ctx.thorough else 3200
    dynamic_check(ctx, invalid=False, total=total, rule=RULE, modelled=MODELLED)


MODELLED = True
