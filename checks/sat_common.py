"""Model-independent python pieces shared by C15 and C16: replay of a solver-object history,
evaluation of models, brute-force unsatisfiability, an independent DIMACS instance parser."""
import os
import re

from lib import HARNESS, ROOT


def parse_ops(ins):
    """IN lines of a satobj/dimacs-hist case -> list of (kind, payload)."""
    ops = []
    for l in ins:
        t = l.split()
        if not t or t[0] != "op":
            continue
        if t[1] == "add":
            ops.append(("add", [int(x) for x in t[2:]]))
        elif t[1] == "res":
            ops.append(("res", int(t[2])))
        elif t[1] == "solve":
            ops.append(("solve", [int(x) for x in t[2:]]))
        elif t[1] == "solve0":
            ops.append(("solve", []))
        elif t[1] == "nv":
            ops.append(("nv", None))
    return ops


def is_solve(op):
    return op[0] == "solve"


class Shadow:
    """What the contract says a solver object has been told so far."""

    def __init__(self):
        self.clauses = []
        self.n_vars = 0

    def apply(self, op):
        k, p = op
        if k == "add":
            self.clauses.append(list(p))
            self.n_vars = max([self.n_vars] + [abs(x) for x in p])
        elif k == "res":
            self.n_vars = max(self.n_vars, p)
        elif k == "solve":
            self.n_vars = max([self.n_vars] + [abs(x) for x in p])


def bits_to_model(bits):
    if bits == "e":
        return []
    return [None if ch == "-" else ch == "1" for ch in bits]


def lit_true(model, l):
    v = abs(l)
    if v > len(model) or model[v - 1] is None:
        return False
    return model[v - 1] == (l > 0)


def model_ok(model, clauses, assumptions):
    """None when the model satisfies everything, else a description of the first failure."""
    for c in clauses:
        if not any(lit_true(model, l) for l in c):
            return "clause %s not satisfied" % c
    for a in assumptions:
        if not lit_true(model, a):
            return "assumption %d not satisfied" % a
    return None


_bf_cache = {}


def brute_force_model(clauses, assumptions, limit=20):
    """Exhaustive search over the occurring variables.  Returns a model (dict var->bool), None when
    there is none, or "skipped" above `limit` variables."""
    cls = [tuple(c) for c in clauses] + [(a,) for a in assumptions]
    key = tuple(sorted(set(cls)))
    if key in _bf_cache:
        return _bf_cache[key]
    vs = sorted({abs(l) for c in cls for l in c})
    if len(vs) > limit:
        return "skipped"
    idx = {v: i for i, v in enumerate(vs)}
    masks = []
    for c in set(cls):
        pos = neg = 0
        for l in c:
            if l > 0:
                pos |= 1 << idx[l]
            else:
                neg |= 1 << idx[-l]
        masks.append((pos, neg))
    full = (1 << len(vs)) - 1
    res = None
    for a in range(1 << len(vs)):
        na = full & ~a
        ok = True
        for pos, neg in masks:
            if not (a & pos or na & neg):
                ok = False
                break
        if ok:
            res = {v: bool(a >> idx[v] & 1) for v in vs}
            break
    _bf_cache[key] = res
    return res


def parse_dimacs(data):
    """Independent, layout-tolerant DIMACS CNF reader used on the captured bytes.
    Returns (n_vars, n_clauses_declared, clauses) or raises ValueError."""
    try:
        txt = data.decode("ascii")
    except UnicodeDecodeError:
        raise ValueError("non-ASCII byte")
    header = None
    nums = []
    for ln in txt.split("\n"):
        s = ln.strip()
        if not s or s.startswith("c"):
            continue
        if s.startswith("p"):
            if header is not None:
                raise ValueError("two problem lines")
            m = re.fullmatch(r"p\s+cnf\s+(\d+)\s+(\d+)", s)
            if not m:
                raise ValueError("bad problem line %r" % s)
            header = (int(m.group(1)), int(m.group(2)))
            if nums:
                raise ValueError("clause before the problem line")
            continue
        for tok in s.split():
            if not re.fullmatch(r"-?\d+", tok):
                raise ValueError("bad token %r" % tok)
            nums.append(int(tok))
    if header is None:
        raise ValueError("no problem line")
    clauses, cur = [], []
    for n in nums:
        if n == 0:
            clauses.append(cur)
            cur = []
        else:
            cur.append(n)
    if cur:
        raise ValueError("last clause not terminated")
    if data and not data.endswith(b"\n"):
        raise ValueError("no final newline")
    return header[0], header[1], clauses


def unhex(h):
    return b"" if h == "-" else bytes.fromhex(h)


def norm_obs(s):
    """panic messages are not compared, only that a panic happened"""
    return "panic" if s.startswith("panic") else s


def repo_in_use():
    """The crustabri tree the harness is built against (harness/Cargo.toml's path)."""
    try:
        m = re.search(r'crustabri\s*=\s*\{\s*path\s*=\s*"([^"]+)"', open(os.path.join(HARNESS, "Cargo.toml")).read())
        if m:
            return m.group(1)
    except OSError:
        pass
    return "/repo"


def exec_solver_order():
    """'dw' when exec_solver reads the child's stdout to the end before waiting for it, 'wd' when it
    waits first (positions of the two calls in the function body; the Consts translator of C16)."""
    try:
        src = open(os.path.join(repo_in_use(), "src/sat/external_sat_solver.rs")).read()
    except OSError:
        return "dw", "source not readable"
    i = src.find("fn exec_solver")
    body = src[i:] if i >= 0 else src
    j = body.find("#[cfg(test)]")
    if j >= 0:
        body = body[:j]
    w = body.find(".wait()")
    r = body.find("read_to_end")
    if r < 0:
        r = body.find("read_to_string(&mut out")
    if w >= 0 and (r < 0 or w < r):
        return "wd", "child.wait() precedes the read of stdout"
    return "dw", "stdout is read to the end before child.wait()"
