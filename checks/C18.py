"""C18 - every query terminates within a bounded number of SAT calls."""
import re
from solvers_common import *


def judge(c, sp, v):
    if any("sat-call-cap-exceeded" in o for o in c.outs):
        return "bad did-not-terminate-within-%d-sat-calls" % 3000
    if sp is None:
        return v
    b = [o for o in sp.outs if o.startswith("bound ")]
    if not b:
        return v
    m = re.match(r"bound sum=(\d+) max=(\d+)", b[0])
    bsum, bmax = int(m.group(1)), int(m.group(2))
    per = {}
    for e in c.evs:
        t = e.split()
        if len(t) > 1 and t[1] == "solve":
            per[t[0]] = per.get(t[0], 0) + 1
    total = sum(per.values())
    if total > bsum:
        return "bad sat-calls-%d-exceed-the-bound-%d" % (total, bsum)
    if per and max(per.values()) > bmax:
        return "bad sat-calls-of-one-component-%d-exceed-the-bound-%d" % (max(per.values()), bmax)
    if any(o.startswith("outoffuel") for o in c.outs):
        return "bad did-not-terminate"
    return v


def extra(c, sp, stats):
    if sp is None:
        return
    b = [o for o in sp.outs if o.startswith("bound ")]
    if not b:
        return
    m = re.match(r"bound sum=(\d+) max=(\d+)", b[0])
    n = n_solves(c.evs)
    stats.setdefault("calls_over_bound_pct", {})
    bsum = int(m.group(1))
    k = "n/a" if bsum == 0 else "%d-%d%%" % (10 * (10 * n // bsum), 10 * (10 * n // bsum) + 9)
    stats["calls_over_bound_pct"][k] = stats["calls_over_bound_pct"].get(k, 0) + 1
    stats["max_calls_seen"] = max(stats.get("max_calls_seen", 0), n)


def main(ctx):
    total = 30000 if ctx.thorough else 3000
    static_check(
        ctx, "static", total, extra="--nopre", judge=judge, extra_stats=extra, spec_opts="--bound", extra_props=("C18dyn", "C18log", "C18pr"),
        more_runs=[("static", 0, "--nopre --exhaustive 3")],
        rule="all 18 library problems x encoders x certificate flag on exhaustive small and generated frameworks; the number of SAT calls per session (= per connected component) and in total is compared with the bound of the property computed by brute force per component (|base| = number of conflict-free / admissible / complete sets of the encoder in use, |PR| = number of preferred extensions): PR <= |base|+|PR|+1, ID <= 2|base|+|PR|+2, SST/STG <= (n+2)|base|+3, CO/ST <= 2; traces replayed on Model.Solvers (same call count by construction of the replay)",
    )
