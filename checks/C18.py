"""C18 - every query terminates within a bounded number of SAT calls."""
import re
from solvers_common import *


def judge(c, sp, v):
    if any("sat-call-cap-exceeded" in o for o in c.outs):
        if sp is not None and any(o.startswith("verdict skipped") for o in sp.outs):
            # a LARGE framework (no bound computed): thousands of SAT calls can be legitimate there (the range-based
            # semantics are allowed a linear factor); the harness's cap is not evidence of anything
            return "ok capped-large-case"
        return "bad did-not-terminate-within-%d-sat-calls" % 3000
    if sp is None:
        return v
    b = [o for o in sp.outs if o.startswith("bound ")]
    if not b:
        return v
    m = re.match(r"bound sum=(\d+) max=(\d+)", b[0])
    bsum, bmax = int(m.group(1)), int(m.group(2))
    per = {}
    for e in c.evs:
        t = e.split()
        if len(t) > 1 and t[1] == "solve":
            per[t[0]] = per.get(t[0], 0) + 1
    total = sum(per.values())
    if total > bsum:
        return "bad sat-calls-%d-exceed-the-bound-%d" % (total, bsum)
    if per and max(per.values()) > bmax:
        return "bad sat-calls-of-one-component-%d-exceed-the-bound-%d" % (max(per.values()), bmax)
    if any(o.startswith("outoffuel") for o in c.outs):
        return "bad did-not-terminate"
    return v


def extra(c, sp, stats):
    if sp is None:
        return
    b = [o for o in sp.outs if o.startswith("bound ")]
    if not b:
        return
    m = re.match(r"bound sum=(\d+) max=(\d+)", b[0])
    n = n_solves(c.evs)
    stats.setdefault("calls_over_bound_pct", {})
    bsum = int(m.group(1))
    k = "n/a" if bsum == 0 else "%d-%d%%" % (10 * (10 * n // bsum), 10 * (10 * n // bsum) + 9)
    stats["calls_over_bound_pct"][k] = stats["calls_over_bound_pct"].get(k, 0) + 1
    stats["max_calls_seen"] = max(stats.get("max_calls_seen", 0), n)


def never_twice(c, sp, v):
    """Used ONLY in the search that starts after the correspondence broke (so never on the unchanged tree): in a
    session of the preferred search every SAT call is preceded, since the previous call, by a clause that contains
    the search selector positively - the clause that blocks the candidate examined before the call.  A call without
    one re-examines a candidate ('for PR ... no candidate set is ever examined twice'; the theorem about the model is
    C18_log_preferred_no_candidate_twice)."""
    if "/PR/" not in c.kind:
        return v
    since = {}
    seen_solve = set()
    for e in c.evs:
        t = e.split()
        if len(t) < 2:
            continue
        k, what = t[0], t[1]
        if what == "cl":
            since.setdefault(k, []).append([int(x) for x in t[2:]])
        elif what == "solve":
            arrow = t.index("=>")
            neg = [int(x) for x in t[2:arrow] if int(x) < 0]
            first = k not in seen_solve
            seen_solve.add(k)
            # (the first call of a session is exempt: when the grounded extension of the component is empty the search
            # starts with a bare call, which is legitimate and indistinguishable here from a lost block of the start set)
            if len(neg) == 1 and not first:
                sel = -neg[0]
                if not any(sel in cl for cl in since.get(k, [])):
                    return "bad candidate-examined-twice: a SAT call of the preferred search in session %s is not preceded by a clause blocking the candidate examined before it" % k
            since[k] = []
    return v


def notwice_selftest(ctx):
    """The judge of recorded traces (driver/d_static.ml: notwice_judge) on four hand-made traces: the original DS-PR
    trace of the chain a0->a1->a2 queried on a0 (ok), the same trace as the seeded change `first discard adds no
    blocking clause` produces it (the grounded set handed back by the solver: bad, examined twice), an answer that
    is not a complete set (bad, not a base set), a set answered twice later in the search (bad)."""
    d = build_driver(ctx)
    f = os.path.join(DRIVER, "tests", "notwice_selftest.cases")
    if not d or not os.path.exists(f):
        return
    rc, out = sh("%s static %s --thr 32" % (d, f), timeout=120)
    got = [l[4:] for l in out.splitlines() if l.startswith("OUT notwice")]
    exp = ["notwice ok 1", "notwice bad session 1 candidate {0,2} examined twice",
           "notwice bad session 1 candidate {0,1,2} is not a base set", "notwice bad session 1 candidate {0} examined twice"]
    ctx.cov["notwice_selftest"] = got
    if rc != 0 or got != exp:
        ctx.violation("the judge `notwice` of recorded traces no longer detects the hand-made traces of driver/tests/notwice_selftest.cases: got %s expected %s" % (got, exp),
                      open(f).read(), found_input=False)


def main(ctx):
    total = 30000 if ctx.thorough else 3000
    static_check(
        ctx, "static", total, extra="--nopre", judge=judge, extra_stats=extra, spec_opts="--bound", extra_props=("C18dyn", "C18log", "C18pr"), search_judge=never_twice,
        more_runs=[("static", 0, "--nopre --exhaustive 3"),
                   # large frameworks (20-120 / 300 arguments, well-founded ones with start candidates of 16+ members in
                   # any id order): "no candidate twice" is judged on the recorded log at any size
                   ("static", 600 if ctx.thorough else 80, "--nopre --large")],
        rule="all 18 library problems x encoders x certificate flag on exhaustive small and generated frameworks; the number of SAT calls per session (= per connected component) and in total is compared with the bound of the property computed by brute force per component (|base| = number of conflict-free / admissible / complete sets of the encoder in use, |PR| = number of preferred extensions): PR <= |base|+|PR|+1, ID <= 2|base|+|PR|+2, SST/STG <= (n+2)|base|+3, CO/ST <= 2; traces replayed on Model.Solvers (same call count by construction of the replay); for every PR and ID case the RECORDED trace of the implementation is judged by the driver (`notwice`): per session = connected component (components from the extracted Graph functions, as query_comps) and per search phase (one for PR; two for ID, told apart by the search selector), the start candidate (grounded extension of the component, extracted Graph.grounded) followed by the sets decoded from the recorded Sat models (extracted Encoders.assignment_to_extension) are pairwise different as sets, and every decoded set is a base set of the component (AF.baseb, components of <= 10 arguments); counts in distribution.notwice",
        finish=False,
    )
    notwice_selftest(ctx)
    ctx.finish()
