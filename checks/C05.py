"""C05 - the command-line tools print exactly the right answer, or none.

Both binaries are built from /repo's current working tree (lib.build_bins, target directory under
work/) and run as child processes by the harness (mode `cli`); driver mode `cli` judges every
invocation with the answer grammar + the brute-force semantics (model independent) and adds the
prediction of Model.Cli."""
from lib import *


def hx(h):
    return b"" if h == "-" else bytes.fromhex(h)


def field(lines, tag):
    for l in lines:
        if l.startswith(tag + " "):
            return l[len(tag) + 1:]
        if l == tag:
            return ""
    return None


def strip_log(b):
    return b"".join(l for l in b.splitlines(True) if not l.startswith(b"!["))


# ---------------------------------------------------------------- known findings (see FINDINGS-cli.md)
# matcher(case, verdict) -> finding text or None.  Empty: no violation of C05 is known on the pinned tree.
def cli_dcpr_complete_witness(c, verdict):
    """F-CLI-1: DC-PR with a certificate; right status; the witness is a complete extension containing
    the argument but not a preferred one (the driver establishes all of this before using this verdict)."""
    if verdict != "bad witness-is-complete-but-not-preferred":
        return None
    if hx(field(c.ins, "problem") or "-").decode("ascii", "replace").upper() != "DC-PR":
        return None
    if "cert=1" not in (field(c.ins, "opts") or ""):
        return None
    return "F-CLI-1 DC-PR with certificate: the witness line is a complete extension containing the argument that is not preferred (e.g. `crustabri_iccma23 -p DC-PR -f f1.af -a 3` on `p af 3 / 1 2 / 2 1` prints `YES / w 3`; see FINDINGS-cli.md)"


# not a finding: property C04 states that for DC-PR a complete extension containing the argument is a
# sufficient witness; the driver accepts it (the matcher is kept for reference but not registered)
KNOWN = []


def match_known(c, verdict):
    for f in KNOWN:
        r = f(c, verdict)
        if r:
            return r
    return None


def main(ctx):
    proofs_ok = check_proofs(ctx)
    bins = build_bins(ctx)
    h = build_harness(ctx)
    d = build_driver(ctx)
    if not bins or not h or not d:
        ctx.violation("build of the command-line tools / harness / driver failed (cannot tie the model to /repo)",
                      "build failure\n", found_input=False)
        ctx.finish()
    per_shard = 24 if ctx.thorough else 3
    max_n = 9
    extra = "--crustabri %s --wrapper %s" % bins
    shards = run_mode(ctx, h, d, "cli", per_shard * NCPU, extra=extra, drv_modes=[("cli", "--cli-max-n %d" % max_n)],
                      timeout=2400 if ctx.thorough else 1200)
    st = {"invocations": 0, "by_tool": {}, "by_class": {}, "problems": {}, "readers": {}, "encodings": {}, "certificate": {},
          "logging": {}, "exit_codes": {}, "recipes": {}, "file_features": {}, "answers": {}, "judged_by_brute_force": 0,
          "model_predictions": 0, "model_not_applicable": 0, "instances": 0,
          "non_ascii_label_invocations": 0, "non_ascii_arg_invocations": 0, "non_ascii_witness_lines": 0,
          "non_ascii_model_predictions": 0, "witness_lines_rerendered_by_model": 0, "label_styles": {}}
    distinct = set()
    instances = set()
    samples, err_samples = [], []
    corr = None
    accepted = set()
    listed = {}
    for sh_ in shards:
        if isinstance(sh_[0], str):
            ctx.violation("%s: %s" % (sh_[0], sh_[1][1][-500:]), "command: %s\n" % sh_[2], found_input=False)
            continue
        impl, (model,), path = sh_
        mm = {c.id: c for c in model}
        for c in impl:
            st["invocations"] += 1
            _, tool, cls = c.kind.split("/", 2)
            st["by_tool"][tool] = st["by_tool"].get(tool, 0) + 1
            st["by_class"][cls] = st["by_class"].get(cls, 0) + 1
            ex = field(c.outs, "exit")
            so = hx(field(c.outs, "stdout") or "-")
            st["exit_codes"][ex] = st["exit_codes"].get(ex, 0) + 1
            cmdline = field(c.ins, "cmdline") or ""
            m = mm.get(c.id)
            verdict = field(m.outs, "verdict") if m else "missing"
            mline = field(m.outs, "model") if m else None
            mwit = field(m.outs, "modelwitness") if m else None
            na = dict(kv.split("=", 1) for kv in (field(c.ins, "nonascii") or "").split())
            na_labels = na.get("labels") == "1"
            if cls == "ok":
                if na_labels:
                    st["non_ascii_label_invocations"] += 1
                if na.get("arg") == "1":
                    st["non_ascii_arg_invocations"] += 1
                if any(b >= 0x80 for b in strip_log(so)):
                    st["non_ascii_witness_lines"] += 1
                prob = hx(field(c.ins, "problem")).decode("ascii", "replace").upper()
                st["problems"][prob] = st["problems"].get(prob, 0) + 1
                opts = dict(kv.split("=", 1) for kv in (field(c.ins, "opts") or "").split())
                fmt = field(c.ins, "fmt")
                rd = ("wrapper:forced-iccma23" if tool == "wrapper" else
                      ("default(iccma23)" if opts.get("reader") == "-" else opts.get("reader")))
                st["readers"][rd] = st["readers"].get(rd, 0) + 1
                for key, name in (("encoding", "encodings"), ("cert", "certificate"), ("logging", "logging")):
                    v = opts.get(key, "-")
                    st[name][v] = st[name].get(v, 0) + 1
                r = field(c.ins, "recipe")
                st["recipes"][r] = st["recipes"].get(r, 0) + 1
                for ft in (field(c.ins, "features") or "-").split(","):
                    st["file_features"][ft] = st["file_features"].get(ft, 0) + 1
                    if ft.startswith("labels:"):
                        st["label_styles"][ft[7:]] = st["label_styles"].get(ft[7:], 0) + 1
                ans = strip_log(so)
                a0 = ans.split(b"\n")[0][:3].decode("ascii", "replace")
                a0 = "witness-only" if a0[:1] in ("w", "[") else a0
                st["answers"][a0 + ("+witness" if ans.count(b"\n") == 2 else "")] = st["answers"].get(a0 + ("+witness" if ans.count(b"\n") == 2 else ""), 0) + 1
                inst_key = (fmt, field(c.ins, fmt))
                instances.add(inst_key)
                if verdict != "skipped-too-large":
                    st["judged_by_brute_force"] += 1
                distinct.add(hash((tool, prob, inst_key, field(c.ins, "arg"), field(c.ins, "opts"))))
                if ex == "0":
                    accepted.add(prob)
                if len(samples) < 3 and b"\n" in ans and ans.count(b"\n") == 2:
                    samples.append({"command": cmdline, "file": hx(field(c.ins, "file")).decode("utf8", "replace"),
                                    "exit": ex, "stdout": so.decode("utf8", "replace"), "oracle": field(m.outs, "spec") if m else ""})
            elif cls == "problems":
                listed[tool] = so
            elif cls.startswith("err") and len(err_samples) < 400:
                err_samples.append((cls, {"command": cmdline, "exit": ex, "stdout": so.decode("utf8", "replace")[:160]}))
            # ---- implementation-level oracle
            if verdict is None or verdict.startswith("bad") or verdict == "missing":
                shown = strip_log(so) if cls == "ok" else so
                what = "%s: `%s` -> exit %s, stdout%s %r: %s" % (c.kind, cmdline, ex, " (log lines removed)" if shown != so else "", shown[:160], verdict)
                kf = match_known(c, verdict or "")
                if kf:
                    if kf not in ctx.known:
                        ctx.known.append(kf)
                else:
                    ctx.violation(what, c.text() + "".join("DRIVER " + x + "\n" for x in (m.outs if m else [])),
                                  found_input=True, key=cls + "|" + tool + "|" + (verdict or "").split(":")[0])
                continue
            # ---- correspondence with Model.Cli
            if mline is None or mline.startswith("n/a"):
                st["model_not_applicable"] += 1
                continue
            st["model_predictions"] += 1
            if cls == "ok" and na_labels:
                st["non_ascii_model_predictions"] += 1
            # the witness line the tool printed, re-rendered by the model (labels byte for byte)
            if mwit is not None and (mwit == "same" or mwit.startswith("differs")):
                st["witness_lines_rerendered_by_model"] += 1
                if mwit != "same":
                    corr = corr or (c, "witness line: the model renders the ids named by the tool as %r, the tool printed %r"
                                    % (hx(mwit.split()[1] if len(mwit.split()) > 1 else "-"), strip_log(so)))
            mt = mline.split()
            if mt[0] == "nonzero":
                if ex == "0":
                    corr = corr or (c, "model predicts a non-zero exit, the tool exits with 0")
            elif mt[0] == "exit0":
                mb = hx(mt[1] if len(mt) > 1 else "-")
                ans = strip_log(so)
                if ex != "0":
                    corr = corr or (c, "model predicts exit 0 and %r, the tool exits with %s" % (mb, ex))
                elif cls == "problems":
                    if mb != ans:
                        corr = corr or (c, "problems listing: model %r, tool %r" % (mb, ans))
                else:
                    il, ml = ans.split(b"\n"), mb.split(b"\n")
                    q = prob[:2]
                    if len(il) != len(ml):
                        corr = corr or (c, "number of lines: model %r, tool %r" % (mb, ans))
                    elif q != "SE" and il[0] != ml[0]:
                        corr = corr or (c, "status line: model %r, tool %r" % (ml[0], il[0]))
                    elif q == "SE" and (il[0] == b"NO") != (ml[0] == b"NO"):
                        corr = corr or (c, "SE answer: model %r, tool %r" % (mb, ans))
            else:
                corr = corr or (c, "model: %s" % mline)
    st["instances"] = len(instances)
    # ---- the listing of `problems` vs. what is accepted
    names = ["%s-%s" % (q, s) for s in ("GR", "CO", "PR", "ST", "SST", "STG", "ID") for q in ("SE", "DC", "DS")]
    for tool, so in sorted(listed.items()):
        got = so.decode("ascii", "replace").strip()
        lst = got[1:-1].split(",") if got.startswith("[") and got.endswith("]") else []
        if sorted(lst) != sorted(names) or len(lst) != 21:
            ctx.violation("`problems` listing of the %s tool is not the 21 problems: %r" % (tool, got), "stdout %r\n" % so, found_input=True,
                          key="listing" + tool)
        elif accepted and not set(lst) <= accepted:
            ctx.violation("listed but not accepted (%s tool): %s" % (tool, sorted(set(lst) - accepted)), "stdout %r\n" % so,
                          found_input=True, key="listed-not-accepted" + tool)
    if len(listed) < 2 and not ctx.violations:
        ctx.violation("the `problems` listing of a tool was not produced", "listed: %s\n" % sorted(listed), found_input=False)
    if corr and not ctx.violations:
        c, why = corr
        ctx.violation("correspondence Model.Cli vs the command-line tools no longer checks at %s `%s` (%s); the oracle (answer grammar + brute-force semantics) found no failing invocation among %d"
                      % (c.kind, field(c.ins, "cmdline"), why, st["invocations"]), c.text(), found_input=False)
    if st["invocations"] > 500 and not ctx.violations and (st["non_ascii_label_invocations"] == 0 or st["non_ascii_arg_invocations"] == 0
                                                            or st["non_ascii_witness_lines"] == 0):
        ctx.violation("the run did not exercise non-ASCII Aspartix labels (labels %d, -a operands %d, witness lines %d): the generator of harness/src/cli.rs changed"
                      % (st["non_ascii_label_invocations"], st["non_ascii_arg_invocations"], st["non_ascii_witness_lines"]),
                      "no case\n", found_input=False)
    if not proofs_ok and not ctx.violations:
        bad = [o[0] for o in ctx.obligations if not o[1]]
        ctx.violation("proof obligations not discharged: %s" % ", ".join(bad), "theorems: %s\n" % ", ".join(bad), found_input=False)
    seen = set()
    es = []
    for cls, e in err_samples:
        if cls not in seen:
            seen.add(cls)
            es.append(dict(e, **{"class": cls}))
    ctx.cov.update({
        "evaluations": st["invocations"],
        "distinct_nontrivial": len(distinct),
        "rule": "both tools built from /repo's working tree and run as child processes (stdout, exit status captured; 20 s watchdog). "
                "Well-formed stream: generated frameworks (<= %d arguments; all recipes of gen.rs) written as ICCMA'23 text (comments, CRLF, wide blanks, blank tail, missing final newline, duplicated attack lines) AND as Aspartix text (6 label styles incl. labels `YES`, `NO`, `w` and identifiers with NON-ASCII decimal digits: Arabic-Indic, Devanagari, Bengali, Thai, fullwidth, mathematical bold (outside the BMP), also as -a operand; inner blanks; blank lines), each with all 21 problems in mixed-case spellings x a valid argument x reader spelling (-r/--reader/default) x --encoding (absent, aux_var, exp, hybrid) x certificate flag (-c/--with-certificate/absent) x --logging-level (off for 3 of 4; other levels: `![` log lines removed before judging), options shuffled; the ICCMA'23 wrapper on the same files. "
                "Oracle (model independent): exit 0; stdout matches the answer grammar exactly (status line YES/NO and/or ONE witness line `w( <id>)*` / `[l1,...,lk]`, every line terminated, nothing else); status = brute-force credulous/skeptical acceptance (AF.all_exts); witness = an extension of the problem's semantics without duplicate, containing (DC) / omitting (DS) the argument, present iff the certificate was requested and the status has one; SE prints NO only when no extension exists. "
                "Malformed stream: a FIXED enumerated family (exploration, not proof) of usage and input errors: non-zero exit (a panic status 101 is allowed) and no answer-looking line (YES, NO, w..., [...) on stdout. `problems` listing compared with the 21 names and with what was accepted. "
                "Model.Cli predicts exit class and stdout from the argv tokens AND THE BYTES OF THE FILE (the extracted readers build the instance; status line compared byte for byte; the witness line the tool printed is re-rendered by the model from the ids it names and compared byte for byte: label bytes, UTF-8 included) where the token form is modelled | non-trivial = a well-formed invocation; distinct = distinct (tool, problem, instance, argument, options)" % (8 if ctx.thorough else 7),
        "samples": samples + es[:6],
        "distribution": st,
        "error_classes": sorted(k for k in st["by_class"] if k.startswith("err")),
        "traces_validated_against_impl": st["model_predictions"],
        "non_ascii_label_invocations": st["non_ascii_label_invocations"],
        "non_ascii_arg_invocations": st["non_ascii_arg_invocations"],
        "non_ascii_witness_lines": st["non_ascii_witness_lines"],
        "non_ascii_model_predictions": st["non_ascii_model_predictions"],
        "witness_lines_rerendered_by_model": st["witness_lines_rerendered_by_model"],
        "malformed_family_is": "exploration (fixed enumerated family), not proof: clap's tokenizer is not modelled",
    })
    ctx.assumptions += ["clap rejects what it documents (the tokenizer of clap 2 is not modelled; Model.Cli.parse_solve covers the `-o value` token form only)",
                        "file contents -> framework is the readers' business (C13); Model.Cli takes the framework the reader returns"]
    ctx.finish()


def replay(ctx, path):
    """bin/check C05 --replay FILE: re-runs the invocation of a replay file (one case) against the
    tools built from the current tree and judges it with the driver."""
    bins = build_bins(ctx)
    d = build_driver(ctx)
    if not bins or not d:
        print("build failed")
        sys.exit(2)
    case_path = os.path.join(ctx.work, "replay.cases")
    open(case_path, "w").write("".join(l for l in open(path) if not l.startswith(("WHY ", "DRIVER "))))
    cs = parse_cases(case_path)
    if not cs:
        print("no case in %s" % path)
        sys.exit(2)
    c = cs[0]
    rd = os.path.join(ctx.work, "replay-files")
    os.makedirs(os.path.join(rd, "somedir"), exist_ok=True)
    open(os.path.join(rd, "good.af"), "w").write("p af 3\n1 2\n2 3\n")
    open(os.path.join(rd, "good.apx"), "w").write("arg(a).\narg(b).\narg(c).\natt(a,b).\natt(b,c).\n")
    argv = [hx(t) for t in (field(c.ins, "argv") or "").split()]
    fb = field(c.ins, "file")
    for i, t in enumerate(argv):
        if t == b"-f" and i + 1 < len(argv) and fb is not None and argv[i + 1] not in (b"good.af", b"good.apx", b""):
            open(os.path.join(rd, os.path.basename(argv[i + 1].decode("utf8", "replace"))), "wb").write(hx(fb))
    tool = bins[1] if c.kind.split("/")[1] == "wrapper" else bins[0]
    p = subprocess.run([tool.encode()] + argv, cwd=rd, stdout=subprocess.PIPE, stderr=subprocess.PIPE, timeout=60)
    print("recorded : %s ; %s" % (field(c.outs, "exit"), hx(field(c.outs, "stdout") or "-")))
    print("now      : exit %d ; %r" % (p.returncode, p.stdout))
    now = Case(c.id, c.kind)
    now.raw = [l for l in c.raw if not l.startswith("OUT ")] + ["OUT exit %d\n" % p.returncode, "OUT stdout %s\n" % (p.stdout.hex() or "-")]
    open(case_path, "w").write(now.text())
    rc, out = sh("%s cli %s --cli-max-n 9" % (d, case_path), timeout=300)
    print("driver   :\n" + out)
