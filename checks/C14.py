"""C14 - written frameworks and answers read back to the same objects.

Obligations: the theorems of Properties/C14.v.
Correspondence: bytes written by the Rust writers vs Model.Writers on generated stores (update
histories with removals, string and usize labels), extensions and statuses (exact byte equality),
and Model.Readers on those bytes vs the Rust Aspartix reader.
Implementation-level oracles (independent of the Coq model):
  * the Rust Aspartix reader applied to the Rust writer's bytes returns the same labels in the same
    order and the same attack set, whenever all live labels are Aspartix identifiers;
  * a python re-parse of the written bytes: the file is exactly one `arg(l).` line per live
    argument (iteration order) then one `att(a,b).` line per live attack, nothing else;
    `w` lines / bracketed lists parse back to exactly the labels of the extension;
    statuses are exactly YES\\n / NO\\n.
"""
import re

from lib import *

IDENT = re.compile(r"[_A-Za-z][_A-Za-z\d]*\Z")


def str_of_tok(t):
    return "" if t == "-" else "".join(chr(int(x, 16)) for x in t.split("."))


def tok_of_str(s):
    return ".".join("%x" % ord(c) for c in s) if s else "-"


def split_obs(line):
    """'<labels> ; <pairs>' -> (labels, pairs) as token lists"""
    left, _, right = line.partition(";")
    return [x for x in left.split(" ") if x], [x for x in right.split(" ") if x]


def parse_apx_bytes(raw, is_str):
    """Independent strict re-parse of a written framework.  Returns (labels, label pairs) in file
    order as tokens, or a string describing what is wrong."""
    if raw and not raw.endswith(b"\n"):
        return "last line not terminated"
    try:
        text = raw.decode("utf-8")
    except UnicodeDecodeError:
        return "not UTF-8"
    labels, atts = [], []
    lines = text.split("\n")[:-1] if text else []
    for l in lines:
        m = re.match(r"arg\(([^(),]*)\)\.\Z", l, re.S)
        if m:
            if atts:
                return "argument after attack"
            labels.append(m.group(1))
            continue
        m = re.match(r"att\(([^(),]*),([^(),]*)\)\.\Z", l, re.S)
        if m:
            atts.append((m.group(1), m.group(2)))
            continue
        return "unexpected line %r" % l
    tk = tok_of_str if is_str else (lambda s: s)
    return [tk(x) for x in labels], ["%s>%s" % (tk(a), tk(b)) for a, b in atts]


def main(ctx):
    proofs_ok = check_proofs(ctx)
    h = build_harness(ctx)
    d = build_driver(ctx)
    if not h or not d:
        ctx.violation("build of harness/driver failed (cannot tie the model to /repo)", "build failure\n", found_input=False)
        ctx.finish()
    total = 200000 if ctx.thorough else 24000
    shards = run_mode(ctx, h, d, "writers", total)
    n_cases = 0
    dist = {}
    distinct = set()
    samples = {}
    corr_broken = None

    def bump(k):
        dist[k] = dist.get(k, 0) + 1

    for sh_ in shards:
        if isinstance(sh_[0], str):
            ctx.violation("%s: %s" % (sh_[0], sh_[1][1][-500:]), "command: %s\n" % sh_[2], found_input=False)
            continue
        impl, models, path = sh_
        mm = {c.id: c for c in models[0]}
        for c in impl:
            n_cases += 1
            if len(ctx.violations) >= 12:
                continue
            bump(c.kind)
            outs = {}
            for o in c.outs:
                k, _, v = o.partition(" ")
                outs[k] = v
            ins = {}
            for l in c.ins:
                k, _, v = l.partition(" ")
                ins.setdefault(k, v)
            # ---------------- correspondence (exact)
            m = mm.get(c.id)
            if m is None:
                corr_broken = corr_broken or (c, "model produced no output for the case")
            elif any(o.startswith("skipped-big") for o in m.outs):
                bump("fw huge (oracles only, model skipped)")
            else:
                mo = [o.rstrip() for o in m.outs if not o.startswith("parsed")]
                dd = first_diff([o.rstrip() for o in c.outs], mo)
                if dd is not None:
                    corr_broken = corr_broken or (c, "line %d: impl `%s` model `%s`" % dd)
                for o in m.outs:
                    if o.startswith("parsed"):
                        exp = ("parsed ok " + ins.get("ext", "")).rstrip()
                        if o.rstrip() != exp:
                            corr_broken = corr_broken or (c, "model reference parser: `%s` expected `%s`" % (o, exp))
            bh = outs.get("bytes", "")
            if bh in ("panic", "ioerr") or not bh:
                ctx.violation("writer failed (%s) in %s" % (bh or "no output", c.kind), c.text())
                continue
            raw = bytes.fromhex("" if bh == "-" else bh)
            if c.kind not in samples and len(samples) < 8:
                samples[c.kind] = {"kind": c.kind, "input": c.ins[:8], "bytes": repr(raw)[:200]}
            if c.kind.startswith("writers/fw/"):
                is_str = c.kind.endswith("/str")
                labels, pairs = split_obs(outs.get("fwobs", ";"))
                if pairs and ins.get("removals", "0") != "0":
                    distinct.add(hash(bh))
                bump("fw removals>0" if ins.get("removals", "0") != "0" else "fw removals=0")
                bump("fw attacks>0" if pairs else "fw attacks=0")
                # exact bytes: nothing else is emitted
                disp = (lambda t: str_of_tok(t).encode("utf-8")) if is_str else (lambda t: t.encode())
                exp = b"".join(b"arg(" + disp(l) + b").\n" for l in labels)
                exp += b"".join(b"att(" + disp(p.split(">")[0]) + b"," + disp(p.split(">")[1]) + b").\n" for p in pairs)
                if raw != exp:
                    ctx.violation("write_framework emitted %r, expected exactly %r" % (raw[:200], exp[:200]), c.text())
                    continue
                if len(set(pairs)) != len(pairs):
                    ctx.violation("write_framework emitted a duplicate attack line: %r" % raw[:200], c.text())
                    continue
                ident = is_str and all(IDENT.match(str_of_tok(l)) for l in labels)
                plain = all(not (set("(),\n") & set(str_of_tok(l) if is_str else l)) for l in labels)
                bump("fw labels all identifiers" if ident else ("fw usize labels" if not is_str else "fw some non-identifier label"))
                # python re-parse
                if plain:
                    pr = parse_apx_bytes(raw, is_str)
                    if isinstance(pr, str) or pr[0] != labels or pr[1] != pairs:
                        ctx.violation("re-parse of the written framework differs: %s (bytes %r)" % (pr if isinstance(pr, str) else "labels/attacks", raw[:200]), c.text())
                        continue
                # Rust reader on Rust writer's bytes
                if ident:
                    rr = outs.get("reread", "")
                    if not rr.startswith("ok"):
                        ctx.violation("a written framework with identifier labels is not read back: `%s` (bytes %r)" % (rr[:80], raw[:200]), c.text())
                        continue
                    rl, rp = split_obs(rr[2:])
                    # reread attacks are id pairs of the NEW framework: translate through its labels
                    try:
                        rpl = ["%s>%s" % (rl[int(p.split(">")[0])], rl[int(p.split(">")[1])]) for p in rp]
                    except (ValueError, IndexError):
                        rpl = None
                    if rl != labels or rpl is None or sorted(rpl) != sorted(pairs) or len(set(rpl)) != len(rpl):
                        ctx.violation("write_framework then read: labels %s attacks %s, the store has labels %s attacks %s" % (rl, rpl, labels, pairs), c.text())
                        continue
            elif c.kind == "writers/ext/w":
                ext = [x for x in ins.get("ext", "").split(" ") if x]
                bump("ext/w size %s" % (len(ext) if len(ext) < 3 else "3+"))
                distinct.add(hash(bh))
                exp = b"w" + b"".join(b" " + x.encode() for x in ext) + b"\n"
                back = raw[:-1].split(b" ") if raw.endswith(b"\n") else None
                if raw != exp or back is None or back[0] != b"w" or [x.decode() for x in back[1:]] != ext:
                    ctx.violation("ICCMA'23 extension line %r does not read back to %s" % (raw[:200], ext), c.text())
            elif c.kind == "writers/ext/bracket":
                ext = [x for x in ins.get("ext", "").split(" ") if x]
                bump("ext/bracket size %s" % (len(ext) if len(ext) < 3 else "3+"))
                distinct.add(hash(bh))
                exp = b"[" + b",".join(str_of_tok(x).encode("utf-8") for x in ext) + b"]\n"
                ok = raw == exp and raw.startswith(b"[") and raw.endswith(b"]\n")
                if ok:
                    body = raw[1:-2].decode("utf-8")
                    back = body.split(",") if body else []
                    ok = [tok_of_str(x) for x in back] == ext
                if not ok:
                    ctx.violation("Aspartix extension line %r does not read back to %s" % (raw[:200], ext), c.text())
            elif c.kind == "writers/status":
                st = ins.get("status")
                bump("status %s/%s" % (st, ins.get("writer")))
                exp = b"YES\n" if st == "yes" else b"NO\n"
                if raw != exp:
                    ctx.violation("status %s written as %r, expected exactly %r" % (st, raw, exp), c.text())

    if corr_broken and not ctx.violations:
        c, why = corr_broken
        ctx.violation("correspondence Model.Writers vs the Rust writers no longer checks (%s); the oracles found no failing input" % why,
                      c.text(), found_input=False)
    if not proofs_ok and not ctx.violations:
        bad = [o[0] for o in ctx.obligations if not o[1]]
        ctx.violation("proof obligations not discharged: %s" % ", ".join(bad), "theorems: %s\n" % ", ".join(bad), found_input=False)
    ctx.cov.update({
        "evaluations": n_cases,
        "distinct_nontrivial": len(distinct),
        "rule": "per 10 cases: 4 stores over string labels (identifiers, 1/4 with Unicode decimal digits; 1/6 of the cases mix in non-identifier labels) and 1 over usize labels, each built by a random update history of up to 24 (quick) / 40 operations with the C12 operation mix (removals, re-insertions, redundant and invalid operations); 2 ICCMA'23 extensions over usize labels (0, powers of ten, 2^32, usize::MAX, random 64-bit), 2 Aspartix extensions over identifier labels, empty extensions included; 1 status. Written bytes compared exactly with the extracted Coq model and with the bytes recomputed in python from the store; the Rust Aspartix reader is applied to the Rust writer's bytes; non-trivial = store with at least one attack and one successful removal in its history, or any extension; distinct = distinct written byte strings",
        "samples": list(samples.values()),
        "distribution": dist,
        "traces_validated_against_impl": n_cases,
        "not_yet_proved": [],
    })
    ctx.assumptions += [
        "io::Write accepts every byte (write errors are not modelled)",
        "Display of String is its UTF-8 bytes, Display of usize is decimal without sign or leading zeros (checked by the byte comparison)",
    ]
    ctx.finish()
