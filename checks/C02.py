"""C02 - credulous acceptance answers match the semantics."""
from solvers_common import *


def main(ctx):
    total = 30000 if ctx.thorough else 3000
    static_check(
        ctx, "static", total, extra="--q DC --cert 0",
        more_runs=[("static", 0, "--q DC --cert 0 --exhaustive %d" % 3),
                   ("static", 600 if ctx.thorough else 60, "--q DC --cert 0 --large")],
        rule="credulous acceptance of single arguments (GR, CO, ST, SST, STG, ID solver types; DC-PR is CO by dispatch) x selectable encoders on all frameworks with <= %d arguments exhaustively (every argument), generated frameworks and large ones (replay only); traces replayed on Model.Solvers; status judged by brute force (credb from Spec.AF), including NO for every argument when no stable extension exists"
             % 3,
    )
