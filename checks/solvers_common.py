"""Shared check logic for the static-solver properties (C01-C04, C07, C11 replay part, C18):
trace replay of the real solvers against Model.Solvers + brute-force spec oracle."""
from lib import *
from trace import *


def until_unknown(evs):
    """Events up to and including the first Unknown answer: what Rust does after the panic started
    (Drop of MaximalExtensionComputer adds its selector clause while unwinding) is not part of the
    query any more."""
    for i, e in enumerate(evs):
        if " solve " in e and e.endswith("=> X"):
            return evs[: i + 1]
    return evs


def verdict_of(spec_case):
    for o in spec_case.outs:
        if o.startswith("verdict "):
            return o[8:]
    return "missing"


def spec_info(spec_case):
    for o in spec_case.outs:
        if o.startswith("spec "):
            return o
    return ""


def _framework_of_case(c):
    """(live: label -> id, rel: set of (id, id)) rebuilt from the IN lines (`iccma n a b ...` or `init` / `op` lines)"""
    live, rel, nxt = {}, set(), 0
    for l in c.ins:
        t = l.split()
        if not t:
            continue
        if t[0] == "iccma":
            n = int(t[1])
            live = {str(i + 1): i for i in range(n)}
            ids = [int(x) for x in t[2:]]
            rel = set(zip(ids[0::2], ids[1::2]))
            return live, rel
        if t[0] == "init":
            for x in t[1:]:
                if x not in live:
                    live[x] = nxt
                    nxt += 1
        elif t[0] == "op":
            k = t[1]
            if k == "+a":
                if t[2] not in live:
                    live[t[2]] = nxt
                    nxt += 1
            elif k == "-a":
                if t[2] in live:
                    i = live.pop(t[2])
                    rel = {(a, b) for (a, b) in rel if a != i and b != i}
            elif k in ("+t", "-t") and t[2] in live and t[3] in live:
                p = (live[t[2]], live[t[3]])
                if k == "+t":
                    rel.add(p)
                else:
                    rel.discard(p)
    return live, rel


POLY_STATS = {"statuses_decided": 0, "returned_sets_tested": 0, "structural": 0}


def poly_judge(c):
    """Polynomial part of the semantic oracle, for frameworks of ANY size (used where the brute-force oracle skips a case):
    members of a returned set are (id, label) pairs of the framework, each once; the set is conflict-free, admissible
    (all but STG), complete (GR, CO, PR, SST, ID), stable (ST), the grounded extension (GR); a credulous YES certificate
    contains / a skeptical NO certificate omits the listed arguments; GR statuses are grounded membership.
    Returns None or a `bad ...` verdict."""
    k = c.kind.split("/")
    if len(k) < 4 or k[0] not in ("static", "static-multi") or not c.outs:
        return None
    sem, q = k[1], k[2]
    want_cert = len(k) >= 4 and k[3] == "cert"
    o = parse_outcome(c.outs[0])
    POLY_STATS["structural"] += 1
    # the structural part of the brute-force oracle (driver/d_spec.ml), which needs no enumeration: a panic is a panic at
    # any size; the kind of answer must fit the question; a certificate appears exactly when promised
    if o["kind"] == "panic":
        # (the harness cuts a case after 3000 SAT calls: on a large framework that is no library panic)
        return None if "sat-call-cap-exceeded" in o.get("msg", "") else "panic"
    if o["kind"] == "noext" and (q != "SE" or sem != "ST"):
        return "bad poly-no-extension-reported-by-a-semantics-that-always-has-one"
    if o["kind"] == "ext" and q != "SE":
        return "bad unexpected-extension-output"
    if o["kind"] == "acc":
        if q == "SE":
            return "bad acceptance-output-for-SE"
        promised = want_cert and ((q == "DC" and o["status"] == "YES") or (q == "DS" and o["status"] == "NO"))
        if promised and o.get("ext") is None:
            return "bad certificate-missing"
        if not promised and o.get("ext") is not None:
            return "bad certificate-not-promised"
    if o["kind"] not in ("ext", "acc", "noext"):
        return "bad unparsable-output"
    live, rel = _framework_of_case(c)
    ids = set(live.values())
    byid = {i: l for l, i in live.items()}
    attackers, targets = {i: set() for i in ids}, {i: set() for i in ids}
    for (a, b) in rel:
        if a in ids and b in ids:
            attackers[b].add(a)
            targets[a].add(b)
    args = []
    for l in c.ins:
        if l.startswith("args "):
            args = [live[x] for x in l.split()[1:] if x in live]
    # grounded extension
    G, D, ch = set(), set(), True
    while ch:
        ch = False
        for a in ids:
            if a not in G and a not in D and attackers[a] <= D:
                G.add(a); D |= targets[a]; ch = True
    if o["kind"] == "noext":
        # stable semantics: "no extension" is wrong at least when the grounded extension is stable
        return "bad no-extension-reported-but-one-exists" if not (ids - G - D) else None
    if sem == "GR" and o["kind"] == "acc":
        want = any(a in G for a in args)
        POLY_STATS["statuses_decided"] += 1
        if (o["status"] == "YES") != want:
            return "bad poly-grounded-status-%s-expected-%s" % (o["status"], "YES" if want else "NO")
    # statuses decided by the grounded extension alone, at any size: an argument of G is in every complete extension,
    # an argument defeated by G in none; when G is stable it is the only extension of every semantics
    if o["kind"] == "acc" and args and sem != "GR":
        g_stable = not (ids - G - D)
        some_in_g, all_in_d = any(a in G for a in args), all(a in D for a in args)
        want = None
        if g_stable:
            want = some_in_g
        elif sem in ("CO", "PR", "ID", "SST"):
            want = True if some_in_g else (False if all_in_d else None)
        elif sem == "ST":
            if q == "DS" and some_in_g:
                want = True
            if q == "DC" and all_in_d:
                want = False
        if want is not None:
            POLY_STATS["statuses_decided"] += 1
        if want is not None and (o["status"] == "YES") != want:
            return "bad poly-status-%s-decided-by-the-grounded-extension-expected-%s" % (o["status"], "YES" if want else "NO")
    e = o.get("ext")
    if e is None:
        return None
    S = set()
    POLY_STATS["returned_sets_tested"] += 1
    for m in e:
        i, _, lab = m.partition(":")
        if not i.isdigit() or byid.get(int(i)) != lab:
            return "bad poly-member-%s-is-not-an-argument-of-the-framework" % m
        if int(i) in S:
            return "bad poly-duplicate-member"
        S.add(int(i))
    hit = set()
    for a in S:
        hit |= targets[a]
    if S & hit:
        return "bad poly-returned-set-is-not-conflict-free"
    base = "CO" if (sem == "PR" and q == "DC") else sem
    if base != "STG":
        for a in S:
            if not attackers[a] <= hit:
                return "bad poly-returned-set-is-not-admissible"
    if base in ("GR", "CO", "PR", "SST", "ID"):
        for a in ids - S:
            if attackers[a] <= hit:
                return "bad poly-returned-set-is-not-complete"
    if base == "ST" and (ids - S) - hit:
        return "bad poly-returned-set-is-not-stable"
    if base == "GR" and S != G:
        return "bad poly-returned-set-is-not-the-grounded-extension"
    if o["kind"] == "acc" and args:
        if q == "DC" and o["status"] == "YES" and not (set(args) & S):
            return "bad poly-credulous-certificate-contains-no-listed-argument"
        if q == "DS" and o["status"] == "NO" and (set(args) & S):
            return "bad poly-skeptical-certificate-contains-a-listed-argument"
    return None


def static_check(ctx, mode, total, extra="", select=None, oracle_relevant=None, rule="", max_n=None,
                 finish=True, tag=None, extra_props=(), count_bound=False, judge=None, extra_stats=None, more_runs=(), spec_opts="", search_judge=None):
    """select(case) -> bool: which generated cases belong to this property.
    oracle_relevant(verdict string) -> bool: which oracle verdicts are violations of THIS property."""
    proofs_ok = check_proofs(ctx, extra_props=extra_props)
    h = build_harness(ctx)
    d = build_driver(ctx)
    if not h or not d:
        ctx.violation("build of harness/driver failed (cannot tie the model to /repo)", "build failure\n", found_input=False)
        ctx.finish()
    thr = hybrid_threshold()
    mn = max_n or (9 if ctx.thorough else 8)
    # one small case in sixteen runs on driver/vdpll --partial (a correct external backend that leaves don't-care
    # variables unassigned) behind the recording solver: exercises every reading of a None value, with exact replay
    vd = os.path.join(DRIVER, "vdpll")
    if os.path.exists(vd) and "--faults" not in extra and "--large" not in extra:
        extra = (extra + " --external " + vd).strip()
    shards = run_mode(ctx, h, d, mode, total, extra=extra, tag=tag,
                      drv_modes=[("static", "--thr %d" % thr), ("spec", ("--max-n %d " % mn) + spec_opts)])
    for i, (mode2, total2, extra2) in enumerate(more_runs):
        shards += run_mode(ctx, h, d, mode2, total2, extra=extra2, tag="%s-%d" % (tag or mode, i + 2), seed_offset=i + 1,
                           drv_modes=[("static", "--thr %d" % thr), ("spec", ("--max-n %d " % mn) + spec_opts)])
    known = ctx.load_known()
    stats = {"cases": 0, "by_kind": {}, "recipes": {}, "sat_calls": 0, "judged": 0, "skipped_large": 0,
             "status": {}, "hybrid_aux_branch": 0}
    distinct = set()
    samples = []
    corr = None
    for sh_ in shards:
        if isinstance(sh_[0], str):
            ctx.violation("%s: %s" % (sh_[0], sh_[1][1][-500:]), "command: %s\n" % sh_[2], found_input=False)
            continue
        impl, (model, spec), path = sh_
        mm = {c.id: c for c in model}
        ss = {c.id: c for c in spec}
        for c in impl:
            if select and not select(c):
                continue
            stats["cases"] += 1
            k = "/".join(c.kind.split("/")[1:3])
            stats["by_kind"][k] = stats["by_kind"].get(k, 0) + 1
            for l in c.ins:
                if l.startswith("recipe "):
                    stats["recipes"][l[7:]] = stats["recipes"].get(l[7:], 0) + 1
            ns = n_solves(c.evs)
            stats["sat_calls"] += ns
            o0 = c.outs[0] if c.outs else ""
            st = o0.split(" cert")[0]
            st = "ext" if st.startswith("ext") else st
            stats["status"][st] = stats["status"].get(st, 0) + 1
            if ns >= 2 or any(l.startswith("op -") for l in c.ins):
                distinct.add(hash((c.kind, tuple(c.ins))))
            if len(samples) < 3 and ns >= 2:
                samples.append({"kind": c.kind, "input": c.ins[:6], "outcome": o0[:200], "sat_calls": ns,
                                "oracle": spec_info(ss[c.id]) if c.id in ss else ""})
            # ---- implementation-level oracle
            sp = ss.get(c.id)
            v = verdict_of(sp) if sp else "missing"
            if v.startswith("skipped"):
                stats["skipped_large"] += 1
                pv = poly_judge(c)
                stats["judged_by_the_polynomial_oracle"] = stats.get("judged_by_the_polynomial_oracle", 0) + 1
                if pv is not None:
                    v = pv
            elif v == "missing":
                stats["oracle_verdict_missing"] = stats.get("oracle_verdict_missing", 0) + 1
            else:
                stats["judged"] += 1
            if has_dup(o0):
                v = "bad duplicate-member"
            if judge is not None:
                v = judge(c, sp, v)
            if extra_stats is not None:
                extra_stats(c, sp, stats)
            if v.startswith("bad") or v == "panic":
                if oracle_relevant is None or oracle_relevant(v, c):
                    what = "%s: %s (%s)" % (c.kind, v, spec_info(sp) if sp else "")
                    kf = match_known(known, c, v)
                    if kf:
                        msg = "%s %s" % (kf["id"], kf["class"])
                        if msg not in ctx.known:
                            ctx.known.append(msg)
                    else:
                        ctx.violation(what, c.text() + ("".join("SPEC " + x + "\n" for x in sp.outs) if sp else ""), found_input=True,
                                      key=c.kind + v)
                    continue
            # ---- correspondence with the Coq model
            if any("sat-call-cap-exceeded" in o for o in c.outs):
                # cut by the harness after 3000 SAT calls and not flagged above (a LARGE framework, where thousands of
                # calls can be legitimate): the driver does not replay such a case - nothing to compare
                stats["capped_large_cases_not_replayed"] = stats.get("capped_large_cases_not_replayed", 0) + 1
                continue
            m = mm.get(c.id)
            if m is None:
                corr = corr or (c, "model produced no output")
                continue
            # ---- "no candidate set examined twice" (PR / ID), judged by the driver on the RECORDED events of the
            # implementation (driver/d_static.ml: notwice_judge); independent of the impl/model comparison below
            for vl in m.outs[1:]:
                if vl.startswith("notwice "):
                    nt = stats.setdefault("notwice", {"judged": 0, "candidates": 0, "skipped": 0, "bad": 0})
                    t = vl.split(" ", 2)
                    if t[1] == "ok":
                        nt["judged"] += 1
                        nt["candidates"] += int(t[2])
                    elif t[1] == "skipped":
                        nt["skipped"] += 1
                    else:
                        nt["bad"] += 1
                        if ctx.prop == "C18":
                            ctx.violation("%s: a candidate set of the maximal-extension search is examined twice / is not a base set (recorded trace of the implementation): %s"
                                          % (c.kind, vl[len("notwice bad "):]), c.text(), found_input=True, key="notwice" + c.kind)
            de = first_diff(canon_events(until_unknown(c.evs)), canon_events(until_unknown(m.evs)))
            if de is not None:
                corr = corr or (c, "event %d: impl `%s` model `%s`" % de)
                continue
            mo = m.outs[0] if m.outs else ""
            for vl in m.outs[1:]:
                if vl.startswith("val "):
                    kv = dict(x.split("=") for x in vl.split()[1:])
                    stats["sat_answers_validated"] = stats.get("sat_answers_validated", 0) + int(kv["sat_ok"])
                    stats["unsat_answers_seen"] = stats.get("unsat_answers_seen", 0) + int(kv["unsat"])
                    stats["unsat_answers_confirmed_by_verified_dpll"] = stats.get("unsat_answers_confirmed_by_verified_dpll", 0) + int(kv.get("unsat_ok", 0))
                    if int(kv.get("unsat_bad", 0)) > 0:
                        ctx.violation("%s: a recorded UNSAT answer is wrong: the verified reference solver finds a model (hypothesis valid_oracle fails on this run)" % c.kind,
                                      c.text(), found_input=True, key="badunsat")
                    if int(kv["sat_bad"]) > 0:
                        ctx.violation("%s: a recorded SAT model does not satisfy the clauses and assumptions of its call (the backend's answer is invalid: hypothesis valid_oracle fails on this run)" % c.kind,
                                      c.text(), found_input=True, key="badsat")
            if canon_outcome(o0) != canon_outcome(mo):
                corr = corr or (c, "outcome: impl `%s` model `%s`" % (o0[:120], mo[:120]))
    stats["polynomial_oracle"] = dict(POLY_STATS)
    if any("--large" in e2 for (_, t2, e2) in more_runs if t2 > 0) and "--faults" not in extra:
        # the --large run exists to be judged by the polynomial oracle: it must have decided something
        ctx.floor("large_cases_decided_by_the_polynomial_oracle", POLY_STATS["statuses_decided"] + POLY_STATS["returned_sets_tested"])
    if stats.get("oracle_verdict_missing", 0) and not ctx.violations:
        ctx.violation("the brute-force oracle (driver spec) produced no verdict for %d of %d cases: the implementation-level judge is not running"
                      % (stats["oracle_verdict_missing"], stats["cases"]), "driver spec: missing verdicts\n", found_input=False)
    if stats["cases"] > 0 and stats["judged"] == 0 and not ctx.violations:
        ctx.violation("no generated case was judged by the brute-force oracle (%d cases, %d skipped as too large)" % (stats["cases"], stats["skipped_large"]),
                      "coverage floor\n", found_input=False)
    if corr and not ctx.violations and not getattr(ctx, "_searching", False):
        # the correspondence broke and the oracle is silent: search harder for a concrete failing
        # input (more cases, other seeds) before reporting no-failing-input-found
        ctx._searching = True
        for rnd in range(3):
            if ctx.violations:
                break
            ctx.log("correspondence broken at %s; search round %d for a failing input" % (corr[0].kind, rnd + 1))
            sh2 = run_mode(ctx, h, d, mode, max(total, 2000) * (4 + 4 * rnd), extra=extra, tag="search%d" % rnd, seed_offset=100 + rnd,
                           drv_modes=[("spec", ("--max-n %d " % mn) + spec_opts)])
            # the additional runs of this check (e.g. `--large`: judged by the polynomial oracle) are searched as well
            for i, (mode2, total2, extra2) in enumerate(more_runs):
                if total2 > 0:
                    sh2 += run_mode(ctx, h, d, mode2, total2 * (4 + 4 * rnd), extra=extra2, tag="search%d-%d" % (rnd, i), seed_offset=120 + 10 * rnd + i,
                                    drv_modes=[("spec", ("--max-n %d " % mn) + spec_opts)])
            for sh_ in sh2:
                if isinstance(sh_[0], str):
                    continue
                impl2, (spec2,), _ = sh_
                ss2 = {c.id: c for c in spec2}
                for c in impl2:
                    if select and not select(c):
                        continue
                    sp = ss2.get(c.id)
                    v = verdict_of(sp) if sp else "missing"
                    if v.startswith("skipped"):
                        pv = poly_judge(c)
                        if pv is not None:
                            v = pv
                    o0 = c.outs[0] if c.outs else ""
                    if has_dup(o0):
                        v = "bad duplicate-member"
                    if judge is not None:
                        v = judge(c, sp, v)
                    if search_judge is not None and not (v.startswith("bad") or v == "panic"):
                        v = search_judge(c, sp, v)
                    if (v.startswith("bad") or v == "panic") and (oracle_relevant is None or oracle_relevant(v, c)) and not match_known(known, c, v):
                        ctx.violation("%s: %s (%s) [found by the search started after the correspondence broke: %s]" % (c.kind, v, spec_info(sp) if sp else "", corr[1]),
                                      c.text() + ("".join("SPEC " + x + "\n" for x in sp.outs) if sp else ""), found_input=True, key=c.kind + v)
        stats["search_rounds"] = rnd + 1
    if corr and not ctx.violations:
        c, why = corr
        ctx.violation("correspondence Model.Solvers vs the Rust solvers no longer checks at %s (%s); the brute-force oracle found no failing input among %d judged cases"
                      % (c.kind, why, stats["judged"]), c.text(), found_input=False)
    if not proofs_ok and not ctx.violations:
        bad = [o[0] for o in ctx.obligations if not o[1]]
        ctx.violation("proof obligations not discharged: %s" % ", ".join(bad), "theorems: %s\n" % ", ".join(bad), found_input=False)
    ctx.cov.update({
        "evaluations": stats["cases"],
        "distinct_nontrivial": len(distinct),
        "rule": rule + " | non-trivial = at least two SAT calls or a framework built through removals; distinct = distinct (problem, configuration, input)",
        "samples": samples,
        "distribution": stats,
        "traces_validated_against_impl": stats["cases"],
        "hybrid_threshold_read_from_source": thr,
    })
    if finish:
        ctx.finish()
    return stats


# ------------------------------------------------------------------ known findings


def match_known(known, case, verdict):
    for k in known:
        if k.get("status") != "known":
            continue
        f = MATCHERS.get(k.get("matcher"))
        if f and f(case, verdict):
            return k
    return None


def _args(case):
    for l in case.ins:
        if l.startswith("args "):
            return l.split()[1:]
    return []


MATCHERS = {
    # D1: CompleteSemanticsSolver credulous acceptance WITH certificate over >= 2 distinct arguments
    "co_dc_cert_multi": lambda c, v: c.kind.startswith("static/CO/DC/cert/") and len(set(_args(c))) >= 2 and "status-NO-expected-YES" in v,
    # D2: StableSemanticsSolver credulous acceptance over >= 2 distinct arguments
    "st_dc_multi": lambda c, v: c.kind.startswith("static/ST/DC/") and len(set(_args(c))) >= 2 and "status-NO-expected-YES" in v,
}
