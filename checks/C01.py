"""C01 - single-extension answers are genuine extensions of the framework."""
from solvers_common import *


def main(ctx):
    total = 30000 if ctx.thorough else 3000
    static_check(
        ctx, "static", total, extra="--q SE",
        more_runs=[("static", 0, "--q SE --exhaustive %d" % 3),
                   ("static", 600 if ctx.thorough else 60, "--q SE --large")],
        rule="single-extension queries of the 6 solver types (GR, ST, PR, SST, STG, ID) x every selectable encoder (aux_var, exp, hybrid; admissibility for SE-PR; conflict-freeness for STG) on: all frameworks with <= %d arguments exhaustively, generated frameworks (recipes: cycles, self-attacks, several components, funnels across the hybrid threshold, duplicated attack lines, sparse ids through removal histories), and large frameworks of 20-%d arguments (replay only); every SAT interaction recorded and replayed on Model.Solvers; the returned set is judged by the brute-force definition of the semantics (extb / all_exts extracted from Spec.AF): extension, caller's own (id,label) members, no duplicate, NO only when no extension exists"
             % (3 if ctx.thorough else 2, 300 if ctx.thorough else 120),
    )
