"""C13 - instance readers are total and faithful.

Obligations: the theorems of Properties/C13.v (faithfulness on every rendering of every abstract
instance, one rejection lemma per ill-formed class, read_arg_from_str exact) + the side conditions
that tie the hand-written matchers to the code: the five regular-expression source strings of
aspartix_reader.rs are the ones the matchers were written for, and Model/UnicodeTables.v equals the
tables of the locked regex-syntax.

Correspondence: both Rust readers and the extracted model on the same byte strings (exact).

Implementation-level oracles (independent of the Coq model):
  * never a panic;
  * grammar stream: the framework returned equals the abstract instance the generator rendered;
  * every stream: an independent python parser (python `re` for the Aspartix patterns) agrees;
  * corruption streams: each class named in the property is rejected;
  * read_arg_from_str on the framework just read: exactly the argument with that index / label.
"""
import re
import unicodedata

from lib import *

# ------------------------------------------------------------------ side conditions

EXPECTED_PATTERNS = {
    "ARG_AND_SPACE_PATTERN": r"\s*[_[:alpha:]][_[:alpha:]\d]*\s*",
    "ARG_LINE_PATTERN": r"^\s*arg\([^)]+\).\s*$",
    "ARG_LINE_ARG_NAME_PATTERN": r"^\s*arg\(({})\).\s*$",
    "ATT_LINE_PATTERN": r"^\s*att\([^,]+,[^)]+\).\s*$",
    "ATT_LINE_ARG_NAMES_PATTERN": r"^\s*att\(({}),({})\).\s*$",
}


def repo_patterns():
    try:
        src = open(os.path.join(REPO, "src/io/aspartix_reader.rs")).read()
    except OSError:
        return None
    got = {}
    m = re.search(r'const ARG_AND_SPACE_PATTERN: &str = r"([^"]*)";', src)
    if m:
        got["ARG_AND_SPACE_PATTERN"] = m.group(1)
    for name in ("ARG_LINE_PATTERN", "ATT_LINE_PATTERN"):
        m = re.search(r'static ref %s: Regex = Regex::new\(r"([^"]*)"\)' % name, src)
        if m:
            got[name] = m.group(1)
    for name in ("ARG_LINE_ARG_NAME_PATTERN", "ATT_LINE_ARG_NAMES_PATTERN"):
        m = re.search(r'static ref %s: Regex =\s*Regex::new\(&format!\(\s*r"([^"]*)"' % name, src)
        if m:
            got[name] = m.group(1)
    return got


# ------------------------------------------------------------------ independent reference parsers

WS_CP = [9, 10, 11, 12, 13, 32, 0x85, 0xA0, 0x1680] + list(range(0x2000, 0x200B)) + [0x2028, 0x2029, 0x202F, 0x205F, 0x3000]
WS = set(chr(c) for c in WS_CP)
WS_STR = "".join(sorted(WS))
WSC = "[" + "".join("\\u%04x" % c for c in WS_CP) + "]"
NAME = WSC + r"*[_A-Za-z][_A-Za-z\d]*" + WSC + "*"
RE_ARG = re.compile(r"^" + WSC + r"*arg\([^)]+\)." + WSC + r"*\Z", re.S)
RE_ARG_NAME = re.compile(r"^" + WSC + r"*arg\((" + NAME + r")\)." + WSC + r"*\Z", re.S)
RE_ATT = re.compile(r"^" + WSC + r"*att\([^,]+,[^)]+\)." + WSC + r"*\Z", re.S)
RE_ATT_NAMES = re.compile(r"^" + WSC + r"*att\((" + NAME + r"),(" + NAME + r")\)." + WSC + r"*\Z", re.S)
RE_INT = re.compile(r"[+-]?[0-9]+\Z")


def rust_lines(b):
    out, i = [], 0
    while i < len(b):
        j = b.find(b"\n", i)
        if j < 0:
            out.append(b[i:])
            break
        l = b[i:j]
        if l.endswith(b"\r"):
            l = l[:-1]
        out.append(l)
        i = j + 1
    return out


def split_ws(s):
    out, cur = [], []
    for ch in s:
        if ch in WS:
            if cur:
                out.append("".join(cur))
                cur = []
        else:
            cur.append(ch)
    if cur:
        out.append("".join(cur))
    return out


def parse_isize(w):
    if not RE_INT.match(w) or w in ("+", "-"):
        return None
    v = int(w)
    if v < -(2 ** 63) or v > 2 ** 63 - 1:
        return None
    return v


def parse_usize(w):
    if not re.match(r"\+?[0-9]+\Z", w):
        return None
    v = int(w)
    return v if v <= 2 ** 64 - 1 else None


def ref_iccma(b):
    """('ok', n, [(a, b)...]) with 0-based ids, or ('err',)"""
    af, found_empty = None, False
    for raw in rust_lines(b):
        try:
            l = raw.decode("utf-8")
        except UnicodeDecodeError:
            return ("err",)
        if l.startswith("#"):
            continue
        if l == "":
            found_empty = True
            continue
        if found_empty:
            return ("err",)
        w = split_ws(l)
        if af is None:
            if len(w) != 3 or w[0] != "p" or w[1] != "af":
                return ("err",)
            n = parse_isize(w[2])
            if n is None or n < 0:
                return ("err",)
            af = (n, [])
            continue
        if len(w) != 2:
            return ("err",)
        x, y = parse_isize(w[0]), parse_isize(w[1])
        if x is None or y is None or not (1 <= x <= af[0]) or not (1 <= y <= af[0]):
            return ("err",)
        af[1].append((x - 1, y - 1))
    if af is None:
        return ("err",)
    return ("ok", af[0], af[1])


def ref_apx(b):
    """('ok', [labels], [(ida, idb)...]) or ('err',)"""
    labels, index, atts, seen, started = [], {}, [], set(), False
    for raw in rust_lines(b):
        try:
            l = raw.decode("utf-8")
        except UnicodeDecodeError:
            return ("err",)
        if l.strip(WS_STR) == "":
            continue
        if RE_ARG.match(l):
            m = RE_ARG_NAME.match(l)
            if not m or started:
                return ("err",)
            a = m.group(1).strip(WS_STR)
            if a not in index:
                index[a] = len(labels)
                labels.append(a)
            continue
        if RE_ATT.match(l):
            m = RE_ATT_NAMES.match(l)
            if not m:
                return ("err",)
            started = True
            a, c = m.group(1).strip(WS_STR), m.group(2).strip(WS_STR)
            if a not in index or c not in index:
                return ("err",)
            p = (index[a], index[c])
            if p not in seen:
                seen.add(p)
                atts.append(p)
            continue
        return ("err",)
    return ("ok", labels, atts)


def tok_of_str(s):
    return ".".join("%x" % ord(c) for c in s) if s else "-"


def fmt_iccma(r):
    if r[0] != "ok":
        return "err"
    return "ok %s ; %s" % (" ".join(str(i + 1) for i in range(r[1])), " ".join("%d>%d" % p for p in r[2]))


def fmt_apx(r):
    if r[0] != "ok":
        return "err"
    return "ok %s ; %s" % (" ".join(tok_of_str(l) for l in r[1]), " ".join("%d>%d" % p for p in r[2]))


def expected_from_inst(inst):
    """The framework the generator rendered (IN inst ...), in OUT syntax."""
    t = inst.split(" ")
    sep = t.index(";")
    if t[0] == "iccma":
        n = int(t[1])
        return "ok %s ; %s" % (" ".join(str(i + 1) for i in range(n)), " ".join(x for x in t[sep + 1:] if x))
    decls = [x for x in t[1:sep] if x]
    index, labels = {}, []
    for d in decls:
        if d not in index:
            index[d] = len(labels)
            labels.append(d)
    atts, seen = [], set()
    for x in t[sep + 1:]:
        if not x:
            continue
        a, c = x.split(">")
        p = (index[a], index[c])
        if p not in seen:
            seen.add(p)
            atts.append(p)
    return "ok %s ; %s" % (" ".join(labels), " ".join("%d>%d" % p for p in atts))


def norm(o):
    t = o.split(" ")
    if len(t) >= 2 and t[1] == "panic":
        return t[0] + " panic"
    if t[0] == "arg" and len(t) >= 3 and t[2] == "panic":
        return " ".join(t[:3])
    return o.rstrip()


def expected_arg(fmt, ok_line, arg_hex):
    """Expected `arg` line for read_arg_from_str on the framework described by ok_line."""
    t = ok_line.split(" ")
    sep = t.index(";")
    labels = [x for x in t[1:sep] if x]
    try:
        s = bytes.fromhex("" if arg_hex == "-" else arg_hex).decode("utf-8")
    except UnicodeDecodeError:
        return None
    if fmt == "iccma":
        v = parse_usize(s)
        if v is not None and 1 <= v <= len(labels):
            return "arg %s ok %d %s" % (arg_hex, v - 1, labels[v - 1])
        return "arg %s err" % arg_hex
    k = tok_of_str(s)
    if k in labels and s != "":
        return "arg %s ok %d %s" % (arg_hex, labels.index(k), k)
    return "arg %s err" % arg_hex


def show_bytes(h):
    try:
        return repr(bytes.fromhex("" if h == "-" else h))
    except ValueError:
        return h


def main(ctx):
    proofs_ok = check_proofs(ctx)
    # side conditions of the tie
    pats = repo_patterns()
    pat_ok = pats == EXPECTED_PATTERNS
    ctx.obligations.append(("aspartix_regex_sources_as_modelled", pat_ok,
                            "the 5 pattern strings of aspartix_reader.rs equal the ones the matchers of Model/Readers.v mirror" if pat_ok
                            else "pattern strings changed: %s" % pats))
    rc, outp = sh([os.path.join(ROOT, "bin", "gen-unicode"), "--check"], env={"VERIF_REPO": REPO}, timeout=60)
    if rc == 2:
        # the vendored sources of the locked regex-syntax version are not on this machine: not an obligation of this
        # run (the non-ASCII blanks and digits are still exercised by the tie against the real readers)
        ctx.notes.append("unicode tables NOT compared with the locked regex-syntax sources on this run: " + outp.strip()[-120:])
        ctx.cov["unicode_tables_compared_with_vendored_sources"] = False
    else:
        ctx.obligations.append(("unicode_tables_match_locked_regex_syntax", rc == 0, outp.strip()[-200:]))
        ctx.cov["unicode_tables_compared_with_vendored_sources"] = True
    side_ok = pat_ok and rc in (0, 2)

    h = build_harness(ctx)
    d = build_driver(ctx)
    if not h or not d:
        ctx.violation("build of harness/driver failed (cannot tie the model to /repo)", "build failure\n", found_input=False)
        ctx.finish()
    total = 400000 if ctx.thorough else 40000
    shards = run_mode(ctx, h, d, "readers", total)

    n_cases = n_reader_runs = n_args = 0
    distinct = set()
    dist = {}
    samples = {}
    corr_broken = None
    observations = {"read_arg_panic_on_store_with_removed_ids": 0}
    skipped = 0

    def bump(k):
        dist[k] = dist.get(k, 0) + 1

    for sh_ in shards:
        if isinstance(sh_[0], str):
            ctx.violation("%s: %s" % (sh_[0], sh_[1][1][-500:]), "command: %s\n" % sh_[2], found_input=False)
            continue
        impl, models, path = sh_
        mm = {c.id: c for c in models[0]}
        for c in impl:
            if c.kind == "readers/meta":
                for l in c.ins:
                    if l.startswith("skipped_declared_too_big"):
                        skipped += int(l.split()[1])
                continue
            n_cases += 1
            if len(ctx.violations) >= 12:
                continue   # enough replay files; keep counting
            ins = {}
            args = []
            for l in c.ins:
                k, _, v = l.partition(" ")
                if k == "arg":
                    args.append(v)
                elif k not in ins:
                    ins[k] = v
            stream = c.kind.split("/")[1]
            fmt = c.kind.split("/")[2]
            m = mm.get(c.id)
            iouts = [norm(o) for o in c.outs]
            # ---------------- correspondence with the Coq model (exact)
            if m is None:
                corr_broken = corr_broken or (c, "model produced no output for the case")
            else:
                dd = first_diff(iouts, [norm(o) for o in m.outs])
                if dd is not None:
                    corr_broken = corr_broken or (c, "line %d: impl `%s` model `%s`" % dd)
            # ---------------- read_arg_from_str on history-built stores
            if stream == "readarg":
                n_args += len(c.outs)
                gaps = ins.get("removed") == "1"
                for o in iouts:
                    if o.endswith(" panic"):
                        if fmt == "iccma" and gaps:
                            observations["read_arg_panic_on_store_with_removed_ids"] += 1
                            bump("readarg/iccma/panic(removed ids: observation)")
                        else:
                            ctx.violation("read_arg_from_str panicked (%s reader, store without removed ids): %s" % (fmt, o), c.text())
                    else:
                        bump("readarg/%s/%s" % (fmt, o.split(" ")[2]))
                continue
            # ---------------- reader streams
            bh = ins.get("bytes", "-")
            n_reader_runs += 2
            cls = ins.get("class", "").split(":")[0]
            bump("%s/%s%s" % (stream, fmt, "/" + cls if cls else ""))
            for f_ in ins.get("feat", "").split():
                if not f_.endswith("=0"):
                    bump("feature " + f_)
            res = {}
            for o in iouts:
                t = o.split(" ", 1)
                if t[0] in ("iccma", "apx"):
                    res[t[0]] = t[1] if len(t) > 1 else ""
            own = res.get(fmt, "")
            verdict = own.split(" ")[0] if own else "-"
            bump("outcome %s/%s %s" % (stream, fmt, verdict))
            if stream != "grammar" or (";" in own and own.split(";")[1].strip()):
                distinct.add(hash(bh))
            if (stream, fmt, cls) not in samples and len(samples) < 40:
                samples[(stream, fmt, cls)] = {"kind": c.kind, "class": ins.get("class"), "bytes": show_bytes(bh)[:160], "outcome": own[:120]}
            # (a) totality
            bad = False
            for rname in ("iccma", "apx"):
                if res.get(rname, "").startswith("panic"):
                    ctx.violation("the %s reader panicked on %s" % (rname, show_bytes(bh)[:200]), c.text())
                    bad = True
            if bad:
                continue
            # (b) independent parsers, every stream, both readers
            try:
                raw = bytes.fromhex("" if bh == "-" else bh)
            except ValueError:
                raw = b""
            ri, ra = fmt_iccma(ref_iccma(raw)), fmt_apx(ref_apx(raw))
            if res.get("iccma", "").rstrip() != ri.rstrip():
                ctx.violation("ICCMA reader: got `%s`, the reference parser says `%s` on %s" % (res.get("iccma", "")[:100], ri[:100], show_bytes(bh)[:200]), c.text())
                continue
            if res.get("apx", "").rstrip() != ra.rstrip():
                ctx.violation("Aspartix reader: got `%s`, the reference parser says `%s` on %s" % (res.get("apx", "")[:100], ra[:100], show_bytes(bh)[:200]), c.text())
                continue
            # (c) grammar stream: exactly the instance that was rendered
            if "inst" in ins:
                exp = expected_from_inst(ins["inst"])
                if own.rstrip() != exp.rstrip():
                    ctx.violation("well-formed %s file not read as the framework it declares: got `%s` expected `%s`; file %s" % (fmt, own[:120], exp[:120], show_bytes(bh)[:200]), c.text())
                    continue
            # (d) expected verdicts (classes named in the property => err; hand-written cases)
            e = ins.get("expect", "any")
            if e in ("ok", "err") and verdict != e:
                ctx.violation("%s reader: expected %s for class `%s`, got `%s`; file %s" % (fmt, e, ins.get("class", stream), own[:100], show_bytes(bh)[:200]), c.text())
                continue
            # (e) read_arg_from_str on the framework just read
            arg_outs = [o for o in iouts if o.startswith("arg ")]
            if verdict == "ok":
                n_args += len(arg_outs)
                for a, o in zip(args, arg_outs):
                    ea = expected_arg(fmt, own, a)
                    if ea is not None and o != ea:
                        ctx.violation("read_arg_from_str(%s) on the framework read from %s: got `%s` expected `%s`" % (show_bytes(a), show_bytes(bh)[:120], o, ea), c.text())
                        break
                if len(arg_outs) != len(args):
                    ctx.violation("read_arg_from_str: %d answers for %d queries" % (len(arg_outs), len(args)), c.text())

    if corr_broken and not ctx.violations:
        c, why = corr_broken
        ctx.violation("correspondence Model.Readers vs the Rust readers no longer checks (%s); the oracles found no failing input" % why,
                      c.text(), found_input=False)
    if not side_ok and not ctx.violations:
        ctx.violation("the matchers of Model/Readers.v are no longer the patterns/tables of the code (regex sources or Unicode tables changed); no failing input found",
                      "patterns: %s\n" % pats, found_input=False)
    if not proofs_ok and not ctx.violations:
        bad = [o[0] for o in ctx.obligations if not o[1]]
        ctx.violation("proof obligations not discharged: %s" % ", ".join(bad), "theorems: %s\n" % ", ".join(bad), found_input=False)
    ctx.cov.update({
        "evaluations": n_reader_runs + n_args,
        "byte_strings": n_cases,
        "reader_runs": n_reader_runs,
        "read_arg_queries": n_args,
        "distinct_nontrivial": len(distinct),
        "skipped_declared_size_over_2000": skipped,
        "rule": "streams per 20 cases: 8 grammar (both formats; features toggled independently: LF/CRLF/mixed, missing final newline, comments (ICCMA) or blank/whitespace-only lines (Aspartix), trailing empty lines, surrounding blanks incl. non-ASCII White_Space, + signs and leading zeros / Unicode decimal digits in identifiers, duplicate declarations and attack lines), 6 token-level corruptions (class printed), 4 byte-level corruptions, 2 read_arg_from_str on history-built stores; plus 44 fixed edge cases. Both readers run on every byte string; outcomes compared exactly with the extracted Coq model, with an independent python parser, with the rendered instance (grammar) and with the expected verdict of the class; non-trivial = grammar case with at least one attack or any corrupted file; distinct = distinct byte strings",
        "samples": list(samples.values())[:12],
        "distribution": dist,
        "observations": observations,
        "traces_validated_against_impl": n_cases,
        "python_unicode_version": unicodedata.unidata_version,
        "not_yet_proved": [],
    })
    ctx.notes.append("observation (not in the property's quantifier): Iccma23Reader::read_arg_from_str indexes by id = n-1 and unwraps; on a framework with removed arguments (never produced by the reader itself) it panics or returns another argument: %d panics seen in the readarg stream, model agrees" % observations["read_arg_panic_on_store_with_removed_ids"])
    ctx.notes.append("observation D11: the Aspartix line patterns end with an unescaped dot: `arg(a)x` is accepted (mirrored by the model, class odd_terminator, expectation any)")
    ctx.assumptions += [
        "regex crate matching replaced by hand-written matchers (agreement checked on every generated line, incl. non-ASCII White_Space and Nd digits; pattern strings and Unicode tables compared with the sources on every run)",
        "declared argument counts above 2000 are not run (memory / unary arithmetic in the model)",
        "io::Read delivers the bytes unchanged; only InvalidData (bad UTF-8) is modelled as a read error",
    ]
    ctx.finish()
