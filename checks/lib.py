"""Shared machinery of the /verif checks (python3 stdlib only).

A check for property Cxx does, in this order:
  1. proof obligations: (re)build the cone of coq/theories/Properties/Cxx.v with a real .vo build,
     re-compile Cxx.v itself so that its `Print Assumptions` output is seen on every run, scan the
     development for forbidden constructs, compare the statements with the pinned hash;
  2. correspondence: build the Rust harness against /repo's working tree, the OCaml driver from the
     extracted model, run both on the same generated inputs, compare what the property speaks about;
  3. implementation-level oracle (per property) to find a concrete failing input;
  4. verdict + evidence + replay files.
"""
import fcntl
import hashlib
import json
import os
import re
import subprocess
import tempfile
import sys
import time

ROOT = os.path.dirname(os.path.dirname(os.path.abspath(__file__)))
COQ = os.path.join(ROOT, "coq")
HARNESS = os.path.join(ROOT, "harness")
DRIVER = os.path.join(ROOT, "driver")
WORK = os.path.join(ROOT, "work")
REPO = "/repo"
NCPU = 16

ALLOWED_AXIOMS = set()  # by name; nothing is expected: "Closed under the global context"
FORBIDDEN = re.compile(
    r"\b(Admitted|admit|Axiom|Axioms|Parameter|Parameters|Conjecture|Conjectures|Admit Obligations|bypass_check|Declare Instance)\b"
    r"|\bExtract\s+(Inlined\s+)?(Constant|Inductive)\b"
    r"|Unset\s+Guard|Unset\s+Positivity|Unset\s+Universe|type-in-type|impredicative-set"
)


def sh(cmd, timeout=1200, cwd=None, env=None, inp=None):
    e = dict(os.environ)
    e.update({"CARGO_NET_OFFLINE": "true", "LC_ALL": "C"})
    if env:
        e.update(env)
    p = subprocess.Popen(cmd, shell=isinstance(cmd, str), cwd=cwd, env=e, stdin=subprocess.PIPE if inp is not None else None,
                         stdout=subprocess.PIPE, stderr=subprocess.STDOUT, universal_newlines=True, errors="replace",
                         start_new_session=True)
    try:
        out, _ = p.communicate(input=inp, timeout=timeout)
        return p.returncode, out
    except subprocess.TimeoutExpired:
        # the shell AND everything it started (an orphan coqc / cargo would keep writing while the lock is released)
        try:
            os.killpg(p.pid, 9)
        except OSError:
            p.kill()
        try:
            out, _ = p.communicate(timeout=10)
        except Exception:
            out = ""
        return 124, (out or "") + "\n[timeout after %ss]" % timeout


class Lock:
    def __init__(self, name):
        os.makedirs(WORK, exist_ok=True)
        self.path = os.path.join(WORK, name + ".lock")

    def __enter__(self):
        self.f = open(self.path, "w")
        fcntl.flock(self.f, fcntl.LOCK_EX)
        return self

    def __exit__(self, *a):
        fcntl.flock(self.f, fcntl.LOCK_UN)
        self.f.close()


class Ctx:
    def __init__(self, prop, tier=None, seed=None):
        self.prop = prop
        self.tier = tier or os.environ.get("VERIF_TIER") or "quick"
        if self.tier not in ("quick", "thorough"):
            self.tier = "quick"
        s = seed if seed is not None else os.environ.get("VERIF_SEED")
        try:
            self.seed = int(s) if s is not None else 20260926
        except ValueError:
            self.seed = 20260926
        self.t0 = time.time()
        self.floors = {}
        self.violations = []      # (what, replay_path, found_input: bool)
        self._keys = {}
        self._keys_path = {}
        self.known = []           # strings
        self.cov = {}             # coverage dict for evidence
        self.assumptions = []
        self.obligations = []     # (theorem name, ok: bool, detail)
        self.notes = []
        self.work = os.path.join(WORK, prop)
        os.makedirs(self.work, exist_ok=True)
        self.replay_dir = os.path.join(ROOT, "replays", prop)
        self.thorough = self.tier == "thorough"
        # failing inputs found but not yet minimised: reported as they are when the check is interrupted (bin/check)
        self.provisional = []     # (what, replay text)
        self.time_limit = int(os.environ.get("VERIF_TIME_LIMIT") or (7000 if self.thorough else 1400))

    def time_left(self):
        """seconds before the watchdog of bin/check fires; minimisers and searches stop early when little is left"""
        return self.time_limit - (time.time() - self.t0)

    def log(self, *a):
        print("[%s %6.1fs]" % (self.prop, time.time() - self.t0), *a, flush=True)

    # ---------------------------------------------------------------- findings
    def load_known(self):
        p = os.path.join(ROOT, "known_findings.json")
        if not os.path.exists(p):
            return []
        return [k for k in json.load(open(p)) if k.get("property") == self.prop]

    def violation(self, what, replay_text, found_input=True, key=None):
        """Registers a violation; writes the replay file. Returns its path."""
        if len(what) > 700:
            what = what[:500] + " ...[%d characters omitted]... " % (len(what) - 650) + what[-150:]
        if key is not None:
            # one replay per failure class: later cases of the same class are only counted
            if key in self._keys:
                self._keys[key] += 1
                return self._keys_path[key]
            self._keys[key] = 1
        os.makedirs(self.replay_dir, exist_ok=True)
        h = hashlib.sha1((key or what).encode() + replay_text.encode()).hexdigest()[:12]
        path = os.path.join(self.replay_dir, "%s.case" % h)
        with open(path, "w") as f:
            f.write("WHY %s\n" % what)
            f.write(replay_text)
            if not replay_text.endswith("\n"):
                f.write("\n")
        self.violations.append((what, path, found_input))
        if key is not None:
            self._keys_path[key] = path
        return path

    # ---------------------------------------------------------------- finishing
    def floor(self, name, value):
        """coverage floor: `value` (a count measured on this run) must be positive, else the run shows nothing"""
        self.floors[name] = value

    def finish(self, level="proof"):
        # coverage floors: a run in which nothing was generated / judged / compared must not look like a pass
        if not self.violations:
            fl = dict(self.floors)
            for k in ("evaluations", "distinct_nontrivial", "traces_validated_against_impl"):
                if k in self.cov and isinstance(self.cov[k], int):
                    fl.setdefault(k, self.cov[k])
            empty = sorted(k for k, v in fl.items() if not v)
            if empty:
                self.violation("coverage floor: this run measured 0 for %s - nothing is shown about the property" % ", ".join(empty),
                               "coverage floor: %s\n" % ", ".join(empty), found_input=False)
        wall = time.time() - self.t0
        cov = dict(self.cov)
        n_obl = len(self.obligations)
        n_ok = sum(1 for o in self.obligations if o[1])
        cov.setdefault("obligations", n_obl)
        cov.setdefault("discharged", n_ok)
        cov.setdefault("checker_cmd", "make -C coq theories/Properties/%s.vo (coqc 8.16.1, full .vo build) + Print Assumptions" % self.prop)
        cov.setdefault("trusted_base", TRUSTED_BASE)
        cov["theorems"] = [{"name": o[0], "checked": o[1], "assumptions": o[2]} for o in self.obligations]
        if self.notes:
            cov["notes"] = self.notes
        cov["known_findings_reported"] = self.known
        ev = {
            "property_id": self.prop,
            "tier": self.tier,
            "seed": self.seed,
            "level": level,
            "coverage": cov,
            "assumptions": self.assumptions,
            "wall_s": round(wall, 2),
            "violations": len(self.violations),
        }
        os.makedirs(os.path.join(ROOT, "evidence"), exist_ok=True)
        with open(os.path.join(ROOT, "evidence", "%s.json" % self.prop), "w") as f:
            json.dump(ev, f, indent=1, sort_keys=True)
            f.write("\n")
        for k in self.known:
            print("KNOWN-FINDING: property=%s %s" % (self.prop, k))
        seen = set()
        for what, path, found in self.violations:
            if path in seen:
                continue
            seen.add(path)
            tail = "" if found else " no-failing-input-found"
            print("VIOLATION property=%s replay=%s%s" % (self.prop, path, tail))
        if self.violations:
            self.log("FAILED: %d violation(s); first: %s" % (len(self.violations), self.violations[0][0]))
            sys.exit(1)
        self.log("ok: %d/%d obligations, %s evaluations, %.1fs" % (n_ok, n_obl, cov.get("evaluations", "-"), wall))
        sys.exit(0)


TRUSTED_BASE = [
    "Coq 8.16.1 kernel and coqc (full .vo build; no -vos, no native_compute; vm_compute only in Examples)",
    "axioms: none (every property theorem: Closed under the global context)",
    "extraction to OCaml with ExtrOcamlBasic only (bool, option, unit, list, prod, sumbool, sumor mapped; nat/positive/N/Z kept as Coq datatypes; no Extract Constant), OCaml 4.13.1, driver/*.ml",
    "correspondence check: harness/ (Rust, generators, recording SAT solver), checks/*.py (comparison, known-finding matchers)",
    "the hand-written Gallina model is NOT trusted: it is what the correspondence check ties to /repo",
]

# -------------------------------------------------------------------- Coq side


def scan_forbidden():
    bad = []
    for dp, _, fs in os.walk(os.path.join(COQ, "theories")):
        for fn in fs:
            if not fn.endswith(".v"):
                continue
            p = os.path.join(dp, fn)
            txt = open(p, errors="replace").read()
            # strip comments (non-nested approximation is not enough: handle nesting)
            out, depth, i = [], 0, 0
            while i < len(txt):
                if txt.startswith("(*", i):
                    depth += 1
                    i += 2
                elif txt.startswith("*)", i) and depth > 0:
                    depth -= 1
                    i += 2
                else:
                    if depth == 0:
                        out.append(txt[i])
                    i += 1
            code = "".join(out)
            for m in FORBIDDEN.finditer(code):
                bad.append("%s: %s" % (os.path.relpath(p, ROOT), m.group(0)))
    return bad


def coq_prepare():
    """(Re)generates the Makefile when _CoqProject is newer."""
    mk = os.path.join(COQ, "Makefile")
    cp = os.path.join(COQ, "_CoqProject")
    if not os.path.exists(mk) or os.path.getmtime(mk) < os.path.getmtime(cp):
        rc, out = sh("coq_makefile -f _CoqProject -o Makefile", cwd=COQ, timeout=120)
        if rc != 0:
            raise RuntimeError("coq_makefile failed: " + out)


def check_proofs(ctx, extra_props=()):
    """Builds the cone of Properties/<prop>.v, recompiles the property file itself and reads the
    Print Assumptions output.  Fills ctx.obligations.  Returns True when everything checked."""
    props = [ctx.prop] + list(extra_props)
    ok_all = True
    with Lock("coq"):
        coq_prepare()
        # pass 1: the cones of all the property files of this check (dependencies may print their own Print
        # Assumptions output); pass 2: the property files alone, one after the other (-j1), so that the result blocks
        # between two `COQC` lines are exactly those of one file, in the order of its commands
        present = []
        for prop in props:
            vfile = "theories/Properties/%s.v" % prop
            if not os.path.exists(os.path.join(COQ, vfile)):
                ctx.obligations.append((prop, False, "missing " + vfile))
                ok_all = False
            else:
                present.append((prop, vfile))
        t = 3000 if ctx.thorough else 1500
        targets = " ".join(v + "o" for _, v in present)
        rc, out = sh("make -j%d %s" % (NCPU, targets), cwd=COQ, timeout=t) if present else (0, "")
        segs = {}
        if rc == 0 and present:
            for _, vfile in present:
                for ext in (".vo", ".glob", ".vos", ".vok"):
                    try:
                        os.remove(os.path.join(COQ, vfile[:-2] + ext))
                    except OSError:
                        pass
            rc, out = sh("make -j1 %s" % targets, cwd=COQ, timeout=t)
            cur = None
            for line in out.splitlines(True):
                m = re.match(r"^COQC\s+(\S+)", line)
                if m:
                    cur = m.group(1)
                    segs[cur] = ""
                elif cur is not None:
                    segs[cur] += line
            if rc == 0 and sorted(segs) != sorted(v for _, v in present):
                rc, out = 1, "expected to compile exactly %s in the second pass, compiled %s\n%s" % ([v for _, v in present], sorted(segs), out[-2000:])
        for prop, vfile in present:
            src = os.path.join(COQ, vfile)
            names = re.findall(r"^\s*Theorem\s+([A-Za-z0-9_']+)", open(src).read(), re.M)
            if rc != 0:
                ctx.log("coq build failed (%s):\n%s" % (prop, out[-3000:]))
                for n in names or [prop]:
                    ctx.obligations.append((n, False, "build failed"))
                ok_all = False
                continue
            # Print Assumptions output of THIS file, in order of its Print commands
            asked = re.findall(r"^\s*Print Assumptions\s+([A-Za-z0-9_'.]+)\s*\.", open(src).read(), re.M)
            blocks = re.split(r"(?=Closed under the global context|Axioms:|Section Variables:)", segs.get(vfile, ""))
            blocks = [b for b in blocks if b.startswith(("Closed", "Axioms:", "Section Variables:"))]
            res = {}
            if len(blocks) != len(asked):
                ctx.log("%s: %d Print Assumptions commands but %d result blocks" % (prop, len(asked), len(blocks)))
                ctx.obligations.append(("print_assumptions_blocks_" + prop, False, "%d commands, %d result blocks" % (len(asked), len(blocks))))
                ok_all = False
            for i, n in enumerate(asked):
                if i < len(blocks):
                    b = blocks[i]
                    if b.startswith("Closed"):
                        res[n] = (True, "Closed under the global context")
                    else:
                        axs = set(re.findall(r"^([A-Za-z0-9_'.]+)\s*:", b, re.M)) - {"Axioms", "Section Variables"}
                        okb = axs and axs <= ALLOWED_AXIOMS
                        res[n] = (bool(okb), "axioms: " + ", ".join(sorted(axs)))
                else:
                    res[n] = (False, "no Print Assumptions output")
            if not names:
                ctx.obligations.append((prop, False, "no Theorem in " + vfile))
                ok_all = False
            for n in names:
                if n in res:
                    ctx.obligations.append((n, res[n][0], res[n][1]))
                    ok_all = ok_all and res[n][0]
                else:
                    ctx.obligations.append((n, False, "no Print Assumptions for this theorem"))
                    ok_all = False
        bad = scan_forbidden()
        if bad:
            ctx.log("forbidden constructs: %s" % bad[:10])
            ctx.obligations.append(("no_forbidden_constructs", False, "; ".join(bad[:10])))
            ok_all = False
        # pinned statements
        pins_p = os.path.join(ROOT, "checks", "pins.json")
        pins = json.load(open(pins_p)) if os.path.exists(pins_p) else {}
        for prop in props:
            src = os.path.join(COQ, "theories/Properties/%s.v" % prop)
            if os.path.exists(src):
                h = hashlib.sha256(open(src, "rb").read()).hexdigest()
                if pins.get(prop) != h:
                    ctx.obligations.append(("pinned_statements_" + prop, False,
                                            "Properties/%s.v %s" % (prop, "differs from pinned hash" if prop in pins else "has no pinned hash (run bin/pin)")))
                    ok_all = False
        # the definitions the statements are written in (semantics, CNF, SAT-program monad, executable model, *Defs.v)
        changed = [k for k, h in pinned_definition_files().items() if pins.get(k) != h]
        if changed:
            ctx.obligations.append(("pinned_definitions", False, "definition files differ from the pinned hashes (or are not pinned): " + ", ".join(changed[:8])))
            ok_all = False
        if ctx.thorough:
            # inside the lock: another check may delete / rebuild Properties/*.vo meanwhile
            rc, out = sh("coqchk -silent -o -Q theories Crusta Crusta.Properties.%s" % ctx.prop, cwd=COQ, timeout=3000)
            tail = out[-1500:]
            ctx.cov["coqchk"] = {"rc": rc, "tail": tail}
            if rc != 0 or "Axioms: <none>" not in out:
                ctx.obligations.append(("coqchk", False, tail[-300:]))
                ok_all = False
    return ok_all


def pinned_definition_files():
    """relative path (without .v) -> sha256 of the files that DEFINE the vocabulary of the theorem statements"""
    import glob as _glob
    res = {}
    pats = ["Spec/*.v", "Sat/*.v", "Model/*.v", "Proofs/*Defs.v", "Proofs/SolverBasics.v", "Proofs/TopBase.v", "Proofs/TopMax.v"]
    for pat in pats:
        for f in sorted(_glob.glob(os.path.join(COQ, "theories", pat))):
            rel = os.path.relpath(f, os.path.join(COQ, "theories"))[:-2]
            res[rel] = hashlib.sha256(open(f, "rb").read()).hexdigest()
    return res


# -------------------------------------------------------------------- build of harness / driver


def build_harness(ctx, release=False):
    with Lock("cargo"):
        try:
            src = open(os.path.join(REPO, "Cargo.lock")).read()
            dst_p = os.path.join(HARNESS, "Cargo.lock")
            # keep our own package entry if already merged
            if not os.path.exists(dst_p):
                open(dst_p, "w").write(src)
        except OSError:
            pass
        cmd = "cargo build --offline" + (" --release" if release else "")
        env = {"RUSTFLAGS": "--cfg crustabri_verif -Awarnings"}
        rc, out = sh(cmd, cwd=HARNESS, timeout=1500, env=env)
        if rc != 0:
            # a stale lock file is the usual cause: retry from /repo's lock
            try:
                open(os.path.join(HARNESS, "Cargo.lock"), "w").write(open(os.path.join(REPO, "Cargo.lock")).read())
            except OSError:
                pass
            rc, out = sh(cmd, cwd=HARNESS, timeout=1500, env=env)
        if rc != 0:
            ctx.log("harness build failed:\n" + out[-3000:])
            return None
    return os.path.join(HARNESS, "target", "release" if release else "debug", "vharness")


def build_bins(ctx):
    """Builds the two command-line tools (`crustabri`, `crustabri_iccma23`) from the CURRENT working
    tree of /repo (or of $VERIF_REPO: used to try mutations on a copy) without writing into it: the
    target directory lives under work/.  Returns (path of crustabri, path of crustabri_iccma23) or None."""
    repo = os.environ.get("VERIF_REPO") or REPO
    tdir = "cli-target" if repo == REPO else "cli-target-" + hashlib.sha1(repo.encode()).hexdigest()[:8]
    target = os.path.join(WORK, tdir)
    with Lock("cargo-bins"):
        os.makedirs(target, exist_ok=True)
        cmd = ["cargo", "build", "--offline", "--locked", "--bins", "--manifest-path", os.path.join(repo, "Cargo.toml"),
               "--target-dir", target]
        rc, out = sh(cmd, timeout=1500, env={"RUSTFLAGS": "-Awarnings"})
        if rc != 0:
            ctx.log("build of the command-line tools failed:\n" + out[-3000:])
            return None
    a = os.path.join(target, "debug", "crustabri")
    b = os.path.join(target, "debug", "crustabri_iccma23")
    if not (os.path.exists(a) and os.path.exists(b)):
        ctx.log("build of the command-line tools produced no binaries")
        return None
    return a, b


def build_driver(ctx):
    with Lock("driver"):
        drv = os.path.join(DRIVER, "driver")
        newest = 0
        for dp, _, fs in os.walk(os.path.join(COQ, "theories")):
            for fn in fs:
                if fn.endswith(".v") and ("/Model" in dp or "/Spec" in dp or "/Sat" in dp or "/Extract" in dp or fn.endswith("Defs.v")):
                    newest = max(newest, os.path.getmtime(os.path.join(dp, fn)))
        for fn in os.listdir(DRIVER):
            if fn.endswith(".ml") or fn == "build.sh":
                newest = max(newest, os.path.getmtime(os.path.join(DRIVER, fn)))
        if os.path.exists(drv) and os.path.getmtime(drv) >= newest:
            return drv
        with Lock("coq"):
            coq_prepare()
            rc, out = sh("make -j%d theories/Extract/Extract.vo" % NCPU, cwd=COQ, timeout=1500)
        if rc != 0:
            ctx.log("coq model build failed:\n" + out[-3000:])
            return None
        rc, out = sh("./build.sh", cwd=DRIVER, timeout=900)
        if rc != 0:
            ctx.log("driver build failed:\n" + out[-3000:])
            return None
        return drv


# -------------------------------------------------------------------- cases


class Case:
    __slots__ = ("id", "kind", "ins", "evs", "outs", "raw")

    def __init__(self, cid, kind):
        self.id, self.kind, self.ins, self.evs, self.outs, self.raw = cid, kind, [], [], [], []

    def text(self):
        return "CASE %s %s\n" % (self.id, self.kind) + "".join(self.raw) + "END\n"


def parse_cases(path):
    cases, cur = [], None
    with open(path, errors="replace") as f:
        for line in f:
            if line.startswith("CASE "):
                parts = line.rstrip("\n").split(" ", 2)
                cur = Case(parts[1], parts[2] if len(parts) > 2 else "")
            elif line.startswith("END"):
                if cur is not None:
                    cases.append(cur)
                cur = None
            elif cur is not None:
                cur.raw.append(line)
                l = line.rstrip("\n")
                if l.startswith("IN "):
                    cur.ins.append(l[3:])
                elif l.startswith("EV "):
                    cur.evs.append(l[3:])
                elif l.startswith("OUT "):
                    cur.outs.append(l[4:])
    return cases


def _limit_child():
    """A run-away harness (a mutated /repo can loop while allocating) must fail by itself instead of exhausting the
    machine: 8 GiB of address space per process."""
    import resource
    lim = 8 << 30
    try:
        resource.setrlimit(resource.RLIMIT_AS, (lim, lim))
    except (ValueError, OSError):
        pass
    # the extracted OCaml model uses non-tail-recursive list functions: long clause lists need a deeper stack than 8 MiB
    try:
        soft, hard = resource.getrlimit(resource.RLIMIT_STACK)
        want = 1 << 30
        if hard != resource.RLIM_INFINITY:
            want = min(want, hard)
        resource.setrlimit(resource.RLIMIT_STACK, (want, hard))
    except (ValueError, OSError):
        pass


def run_parallel(cmds, timeout):
    """Runs shell commands in parallel (at most NCPU at a time). Returns list of (rc, output)."""
    res = [None] * len(cmds)
    procs = {}
    nxt = 0
    t_end = time.time() + timeout
    env = dict(os.environ)
    env.update({"LC_ALL": "C"})
    while nxt < len(cmds) or procs:
        while nxt < len(cmds) and len(procs) < NCPU:
            # the child's own output goes to a temporary file (a pipe read only after exit would block a chatty child)
            f = tempfile.TemporaryFile(mode="w+", errors="replace")
            p = subprocess.Popen(cmds[nxt], shell=True, stdout=f, stderr=subprocess.STDOUT, env=env,
                                 start_new_session=True, preexec_fn=_limit_child)
            procs[nxt] = (p, f)
            nxt += 1
        done = [i for i, (p, f) in procs.items() if p.poll() is not None]
        for i in done:
            p, f = procs.pop(i)
            f.seek(0)
            res[i] = (p.returncode, f.read()[-200000:])
            f.close()
        if not done:
            if time.time() > t_end:
                for i, (p, f) in procs.items():
                    try:
                        os.killpg(p.pid, 9)      # the shell AND the harness / driver it started
                    except OSError:
                        p.kill()
                    res[i] = (124, "[timeout]")
                    f.close()
                procs = {}
                break
            time.sleep(0.02)
    return [r if r is not None else (124, "[not started: timeout of the batch]") for r in res]


def run_mode(ctx, harness, driver, mode, total, shards=NCPU, extra="", drv_modes=None, timeout=1500, seed_offset=0, tag=None):
    """Runs `harness <mode>` in `shards` processes (different seeds derived from ctx.seed), then the
    driver (once per entry of drv_modes = [(driver mode, extra args)]) on each output.
    Returns a list with one entry per shard: (impl_cases, [model_cases per drv mode], cases_path),
    or (error-kind, (rc, output), command) for a crashed shard."""
    drv_modes = drv_modes or [(mode, "")]
    tag = tag or mode
    per = max(1, (total + shards - 1) // shards)
    hc, files = [], []
    for s in range(shards):
        cf = os.path.join(ctx.work, "%s.%d.cases" % (tag, s))
        mfs = [os.path.join(ctx.work, "%s.%d.%s.model" % (tag, s, dm)) for dm, _ in drv_modes]
        for p in [cf] + mfs:
            try:
                os.remove(p)
            except OSError:
                pass
        seed = (ctx.seed * 1000003 + seed_offset * 7919 + s * 101 + 17) % (2 ** 62)
        hc.append("%s %s --seed %d --count %d --tier %s --out %s --shard %d/%d %s" % (harness, mode, seed, per, ctx.tier, cf, s, shards, extra))
        files.append((cf, mfs))
    r1 = run_parallel(hc, timeout)
    dc = []
    for cf, mfs in files:
        for (dm, dx), mf in zip(drv_modes, mfs):
            dc.append("%s %s %s %s > %s" % (driver, dm, cf, dx, mf))
    r2 = run_parallel(dc, timeout)
    out = []
    k = len(drv_modes)
    for s, (cf, mfs) in enumerate(files):
        # exit status 3: the harness panicked outside a guarded call; the cases produced so far are in the file and the
        # one being produced is closed with `OUT panic harness-crash ...` (it is judged like any other case)
        if r1[s][0] not in (0, 3) or not os.path.exists(cf):
            out.append(("harness-failed", r1[s], hc[s]))
            continue
        bad = [j for j in range(k) if r2[s * k + j][0] != 0]
        if bad:
            out.append(("driver-failed", r2[s * k + bad[0]], dc[s * k + bad[0]]))
            continue
        out.append((parse_cases(cf), [parse_cases(mf) for mf in mfs], cf))
    return out


def repo_const(path, regex, default=None):
    """Reads a constant from /repo's current sources (the 'Consts' translator of DESIGN 6.5)."""
    try:
        m = re.search(regex, open(os.path.join(REPO, path)).read())
        if m:
            return m.group(1)
    except OSError:
        pass
    return default


def hybrid_threshold():
    v = repo_const("src/encodings/hybrid_complete_constraints_encoder.rs",
                   r"DEFENDER_SETS_PROD_THRESHOLD\s*:\s*usize\s*=\s*([^;]+);", "1 << 5")
    try:
        return int(eval(v.replace("usize", ""), {"__builtins__": {}}))
    except Exception:
        return 32


def first_diff(a, b):
    n = min(len(a), len(b))
    for i in range(n):
        if a[i] != b[i]:
            return i, a[i], b[i]
    if len(a) != len(b):
        return n, (a[n] if n < len(a) else "<end>"), (b[n] if n < len(b) else "<end>")
    return None


def sample(lst, k=3):
    return lst[:k]


def poly_oracle_tie(ctx):
    """Ties the PYTHON polynomial oracle (poly_judge above, dyn_poly_verdict in dyn_common.py) to its Coq mirror
    (Proofs/PolyOracleDefs.v: poly_status, dyn_poly_status, poly_cert_test, prop_ground; Proofs/PolyClassesDefs.v:
    cut_by_closure, the classes rule of checks/C19.py), whose soundness against the semantics is proved in
    Properties/C03poly.v / C03polytop.v / C08poly.v / C19poly.v: tools/poly_compare.py runs both on the same
    synthetic frameworks, lists and returned sets (the Coq side by vm_compute) and every decision must coincide."""
    import re
    n = 120 if ctx.thorough else 40
    with Lock("coq"):
        # the mirrors must be compiled and current whatever ran before (they are not in the cone of every property file)
        coq_prepare()
        rc, out = sh("make -j%d theories/Proofs/PolyOracleDefs.vo theories/Proofs/PolyClassesDefs.vo theories/Proofs/PolyCnfDefs.vo" % NCPU, cwd=COQ, timeout=1500)
        if rc == 0:
            rc, out = sh("python3 %s %d %d" % (os.path.join(ROOT, "tools", "poly_compare.py"), ctx.seed % 100000 + 1, n), timeout=1300)
    m = re.search(r"frameworks (\d+), status decisions (\d+) .*returned sets (\d+), dynamic decisions (\d+): all equal", out)
    ok = rc == 0 and m is not None
    if ok:
        ctx.cov["polynomial_oracle_vs_coq_mirror"] = {"frameworks": int(m.group(1)), "status_decisions": int(m.group(2)),
                                                      "returned_sets": int(m.group(3)), "dynamic_decisions": int(m.group(4)), "differences": 0}
        m3 = re.search(r"propagations (\d+): conflict (\d+), model (\d+), open (\d+)", out)
        if m3:
            ctx.cov["polynomial_oracle_vs_coq_mirror"].update({"unit_propagations": int(m3.group(1)), "propagation_conflicts": int(m3.group(2)),
                                                               "propagation_models": int(m3.group(3)), "propagation_open": int(m3.group(4))})
        m2 = re.search(r"class partitions (\d+), cut (\d+)", out)
        if m2:
            ctx.cov["polynomial_oracle_vs_coq_mirror"].update({"class_partitions": int(m2.group(1)), "class_partitions_cut_by_a_built_complete_extension": int(m2.group(2))})
    else:
        ctx.violation("the python polynomial oracle and its Coq mirror (Proofs/PolyOracleDefs.v, proved sound in Properties/C03poly.v) disagree or could not be compared: the verdicts of the polynomial oracle are not backed by the theorems on this run",
                      "tools/poly_compare.py\n" + out[-3000:], found_input=False, key="polytie")
