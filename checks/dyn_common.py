"""Shared check logic of C08 / C09 (dynamic solvers): history replay of the six dynamic solvers of
/repo against (a) the model-independent brute-force oracle `driver dynspec` (spec store + AF.all_exts
after every query) and (b) the extracted Coq model `driver dynamic` (Model/Dynamic.v, recorded SAT
answers as oracle script); failing histories are delta-debugged through `vharness dynamic --replay`."""
import os

from lib import *
from trace import *

KINDS = ["co", "st", "pr", "co_att", "st_att", "dummy_co", "dummy_st", "dummy_pr"]

NOT_YET_PROVED = []   # all six solver kinds have a functional theorem (Properties/C08.v, C08att.v, C08dummy.v, C09.v)


# ------------------------------------------------------------------ histories on the python side


class SetModel:
    """plain set model of the framework, used to classify updates and to keep minimised C08
    histories inside the property's quantifier (valid updates, queries on live labels only)"""

    def __init__(self):
        self.live = set()
        self.rel = set()

    def classify(self, op):
        k = op[0]
        if k == "+a":
            return "redundant" if op[1] in self.live else "valid"
        if k == "-a":
            return "valid" if op[1] in self.live else "invalid"
        a, b = op[1], op[2]
        if a not in self.live or b not in self.live:
            return "invalid"
        if k == "+t":
            return "redundant" if (a, b) in self.rel else "valid"
        return "valid" if (a, b) in self.rel else "invalid"

    def apply(self, op):
        c = self.classify(op)
        if c != "valid":
            return c
        k = op[0]
        if k == "+a":
            self.live.add(op[1])
        elif k == "-a":
            self.live.discard(op[1])
            self.rel = {(a, b) for (a, b) in self.rel if a != op[1] and b != op[1]}
        elif k == "+t":
            self.rel.add((op[1], op[2]))
        else:
            self.rel.discard((op[1], op[2]))
        return c


def steps_of(case):
    """-> list of token lists: ['op', '+a', '3'] / ['q', 'DC', '3', 'cert']"""
    return [l.split() for l in case.ins if l.startswith(("op ", "q "))]


def header_of(case):
    return [l for l in case.ins if l.startswith(("kind ", "recipe "))]


def in_scope(steps, allow_invalid):
    """queries on live labels only; when not allow_invalid every update strictly valid"""
    m = SetModel()
    for s in steps:
        if s[0] == "op":
            c = m.apply(s[1:])
            if c != "valid" and not allow_invalid:
                return False
        elif s[2] not in m.live:
            return False
    return True


def replay_text(case_kind, header, steps):
    return "CASE 1 %s\n" % case_kind + "".join("IN %s\n" % h for h in header) + "".join("IN %s\n" % " ".join(s) for s in steps) + "END\n"


def per_step(case):
    """Splits the raw lines of a harness/driver case into steps: -> list of (in_line, [ev], [out]);
    index 0 is the construction (no IN step line)."""
    res = [("<new>", [], [])]
    for raw in case.raw:
        l = raw.rstrip("\n")
        if l.startswith("IN "):
            if l.startswith(("IN op ", "IN q ")):
                res.append((l[3:], [], []))
        elif l.startswith("EV "):
            res[-1][1].append(l[3:])
        elif l.startswith("OUT "):
            if not l.startswith("OUT val "):       # per-run validation of the recorded answers (model side only)
                res[-1][2].append(l[4:])
    return res


def val_line(case):
    """the `val sat_ok=.. sat_bad=.. unsat=.. unsat_ok=.. unsat_bad=..` line of a driver case, as a dict"""
    for o in case.outs:
        if o.startswith("val "):
            return dict((k, int(v)) for k, v in (x.split("=") for x in o.split()[1:]))
    return None


def verdict_of(spec_case):
    for o in spec_case.outs:
        if o.startswith("verdict "):
            return o[8:]
    return "missing"


def verdict_class(v):
    """the reason without the step number: 'bad 7 status-NO-expected-YES' -> 'status-NO-expected-YES'"""
    t = v.split()
    return " ".join(t[2:]) if len(t) >= 3 and t[0] == "bad" else v


DYN_POLY_STATS = {"statuses_decided": 0, "certificates_tested": 0, "queries_seen": 0}


def dyn_poly_verdict(case):
    """Polynomial oracle for histories of ANY size, judged on the implementation's recorded outcomes (independent of the
    brute-force oracle, which judges up to 10 live arguments, and of the model): the framework after each step is
    rebuilt with the plain set model (an update that is not valid changes nothing); for every query the members of a
    returned certificate must be live (id, label) pairs, each once, the set conflict-free, admissible, complete (co, pr)
    resp. stable (st), containing (credulous YES) resp. omitting (skeptical NO) the queried argument; statuses decided
    by the grounded extension alone (argument in it / defeated by it / grounded extension stable) must be the decided
    ones.  -> None or `bad <step> <reason>`."""
    kind = case.kind.split("/")[-1]
    sem = kind.replace("dummy_", "").replace("_att", "")
    if sem not in ("co", "st", "pr"):
        return None
    m, ident, nxt = SetModel(), {}, 0
    for n, (inl, _evs, outs) in enumerate(per_step(case)):
        t = inl.split()
        if not t or t[0] not in ("op", "q"):
            continue
        if t[0] == "op":
            cl = m.apply(t[1:])
            if cl == "valid" and t[1] == "+a":
                ident[t[2]] = nxt
                nxt += 1
            elif cl == "valid" and t[1] == "-a":
                ident.pop(t[2], None)
            continue
        q, lab = t[1], t[2]
        if lab not in m.live or not outs:
            continue
        o = outs[0].split()
        # structural part (no enumeration needed, any size): a query on a live argument never panics, answers with a
        # status, and carries a certificate exactly when one was asked for and the status promises one
        if o and o[0] == "panic":
            return "bad %d query-panicked" % n
        if len(o) < 3 or o[0] != "acc" or o[1] not in ("YES", "NO") or o[2] not in ("cert", "nocert"):
            return "bad %d unparsable-output" % n
        asked = len(t) >= 4 and t[3] == "cert"
        promised = asked and ((q == "DC" and o[1] == "YES") or (q == "DS" and o[1] == "NO"))
        if promised and o[2] != "cert":
            return "bad %d certificate-missing" % n
        if not promised and o[2] == "cert":
            return "bad %d certificate-not-promised" % n
        attackers = {a: set() for a in m.live}
        targets = {a: set() for a in m.live}
        for (a, b) in m.rel:
            attackers[b].add(a)
            targets[a].add(b)
        G, D, ch = set(), set(), True
        while ch:
            ch = False
            for a in m.live:
                if a not in G and a not in D and attackers[a] <= D:
                    G.add(a); D |= targets[a]; ch = True
        g_stable = not (m.live - G - D)
        want = None
        if g_stable:
            want = lab in G
        elif sem == "co" and q == "DS":
            want = lab in G                 # skeptical complete acceptance IS grounded membership
        elif sem in ("co", "pr"):
            want = True if lab in G else (False if lab in D else None)
        elif q == "DS" and lab in G:
            want = True
        elif q == "DC" and lab in D:
            want = False
        DYN_POLY_STATS["queries_seen"] += 1
        if want is not None:
            DYN_POLY_STATS["statuses_decided"] += 1
        if want is not None and (o[1] == "YES") != want:
            return "bad %d poly-status-%s-decided-by-the-grounded-extension-expected-%s" % (n, o[1], "YES" if want else "NO")
        if o[2] != "cert":
            continue
        S = set()
        DYN_POLY_STATS["certificates_tested"] += 1
        for mem in o[3:]:
            i, _, l = mem.partition(":")
            if l not in m.live or str(ident.get(l)) != i:
                return "bad %d poly-member-%s-is-not-a-live-argument-with-its-id" % (n, mem)
            if l in S:
                return "bad %d poly-duplicate-member" % n
            S.add(l)
        hit = set()
        for a in S:
            hit |= targets[a]
        if S & hit:
            return "bad %d poly-certificate-is-not-conflict-free" % n
        if sem == "st":
            if (m.live - S) - hit:
                return "bad %d poly-certificate-is-not-stable" % n
        else:
            if any(not attackers[a] <= hit for a in S):
                return "bad %d poly-certificate-is-not-admissible" % n
            if any(attackers[a] <= hit for a in m.live - S):
                return "bad %d poly-certificate-is-not-complete" % n
        if q == "DC" and o[1] == "YES" and lab not in S:
            return "bad %d poly-credulous-certificate-omits-the-argument" % n
        if q == "DS" and o[1] == "NO" and lab in S:
            return "bad %d poly-skeptical-certificate-contains-the-argument" % n
    return None


def full_verdict(impl_case, spec_case):
    """verdict of the brute-force oracle (driver dynspec), overridden by the polynomial oracle when that one objects and
    the brute force does not (it skips histories with more than 10 live arguments)"""
    v = verdict_of(spec_case) if spec_case else "missing"
    if not v.startswith("bad") and v != "missing":
        pv = dyn_poly_verdict(impl_case)
        if pv is not None:
            return pv
    return v


class Runner:
    """re-runs one history through harness (--replay) and oracle"""

    def __init__(self, ctx, harness, driver):
        self.ctx, self.h, self.d = ctx, harness, driver
        self.n = 0

    def run(self, case_kind, header, steps, modes=("dynspec",)):
        self.n += 1
        p = os.path.join(self.ctx.work, "replay.%d.in" % os.getpid())
        o = os.path.join(self.ctx.work, "replay.%d.cases" % os.getpid())
        open(p, "w").write(replay_text(case_kind, header, steps))
        rc, out = sh("%s dynamic --replay %s --out %s" % (self.h, p, o), timeout=60)
        if rc != 0:
            return None
        impl = parse_cases(o)
        res = []
        for m in modes:
            rc, out = sh("%s %s %s" % (self.d, m, o), timeout=60)
            if rc != 0:
                return None
            mp = o + "." + m
            open(mp, "w").write(out)
            res.append(parse_cases(mp))
        if not impl or any(not r for r in res):
            return None
        return impl[0], [r[0] for r in res]


def minimise(runner, case, vclass, allow_invalid, budget=250):
    """delta debugging on the step list while the oracle keeps reporting the same class"""
    header = header_of(case)
    steps = steps_of(case)

    def fails(cand):
        if not cand or not in_scope(cand, allow_invalid):
            return False
        r = runner.run(case.kind, header, cand)
        if r is None:
            return False
        return verdict_class(full_verdict(r[0], r[1][0])) == vclass

    start = runner.n
    # 1. cut everything after the failing step
    r = runner.run(case.kind, header, steps)
    if r is not None:
        v = full_verdict(r[0], r[1][0]).split()
        if len(v) >= 2 and v[0] == "bad" and v[1].isdigit():
            cut = steps[: int(v[1])]
            if fails(cut):
                steps = cut
    # 2. ddmin
    chunk = max(1, len(steps) // 2)
    ctx = runner.ctx
    while runner.n - start < budget and ctx.time_left() > 240:
        i, progress = 0, False
        while i < len(steps) and runner.n - start < budget and ctx.time_left() > 240:
            cand = steps[:i] + steps[i + chunk:]
            if fails(cand):
                steps, progress = cand, True
            else:
                i += chunk
        if chunk == 1:
            if not progress:
                break
        else:
            chunk = max(1, chunk // 2)
    # 3. pairs of non-adjacent steps (e.g. an insertion and the removal that undoes it)
    progress = True
    while progress and runner.n - start < budget and ctx.time_left() > 240:
        progress = False
        for i in range(len(steps)):
            for j in range(i + 1, len(steps)):
                if runner.n - start >= budget:
                    break
                cand = steps[:i] + steps[i + 1:j] + steps[j + 1:]
                if fails(cand):
                    steps, progress = cand, True
                    break
            if progress:
                break
    r = runner.run(case.kind, header, steps)
    text = replay_text(case.kind, header, steps)
    if r is not None:
        text = r[0].text() + "".join("SPEC %s\n" % x for x in r[1][0].outs)
    return steps, text


# ------------------------------------------------------------------ known findings (none at present)

MATCHERS = {}


def match_known(known, case, vclass):
    for k in known:
        if k.get("status") != "known":
            continue
        f = MATCHERS.get(k.get("matcher"))
        if f and f(case, vclass):
            return k
    return None


# ------------------------------------------------------------------ correspondence


def compare_with_model(c, m):
    """-> None or a description of the first difference (step, what)"""
    if any(o.startswith("not-modelled") for o in m.outs):
        return "not-modelled"
    if any(o.startswith("skipped-long-script") for o in m.outs):
        return "skipped-long-script"
    a, b = per_step(c), per_step(m)
    for i in range(max(len(a), len(b))):
        if i >= len(a) or i >= len(b):
            return "step %d: %s" % (i, "model stops early" if i >= len(b) else "model has extra steps")
        (ina, eva, outa), (inb, evb, outb) = a[i], b[i]
        de = first_diff(canon_events(eva), canon_events(evb))
        if de is not None:
            return "step %d `%s` event %d: impl `%s` model `%s`" % (i, ina, de[0], de[1], de[2])
        oa = [canon_dyn_out(x) for x in outa]
        ob = [canon_dyn_out(x) for x in outb]
        if oa != ob:
            return "step %d `%s` outcome: impl `%s` model `%s`" % (i, ina, "; ".join(outa)[:160], "; ".join(outb)[:160])
    return None


def canon_dyn_out(line):
    t = line.split()
    if t and t[0] == "r":
        return " ".join(t[:2])          # r ok / r err / r panic (message dropped)
    return canon_outcome(line)


# ------------------------------------------------------------------ the check


def dynamic_check(ctx, invalid, total, rule, modelled=True):
    prop_file = os.path.join(COQ, "theories", "Properties", "%s.v" % ctx.prop)
    extra = ("C08dummy", "C08att", "C08poly")
    proofs_ok = check_proofs(ctx, extra_props=extra)     # a missing Properties file is a failed obligation
    h = build_harness(ctx)
    d = build_driver(ctx)
    if not h or not d:
        ctx.violation("build of harness/driver failed (cannot tie the model to /repo)", "build failure\n", found_input=False)
        ctx.finish()
    drv = [("dynspec", "")] + ([("dynamic", "")] if modelled else [])
    shards = run_mode(ctx, h, d, "dynamic", total, extra="--invalid %d" % (1 if invalid else 0), drv_modes=drv,
                      tag="dynamic%d" % (1 if invalid else 0))
    known = ctx.load_known()
    stats = {"histories": 0, "by_kind": {}, "recipes": {}, "updates": {"valid": 0, "redundant": 0, "invalid": 0},
             "update_results": {}, "queries": {}, "status": {}, "answered_without_sat_call": 0, "sat_calls": 0,
             "queries_right_after_removal": 0, "immediately_repeated_queries": 0, "queries_judged": 0,
             "histories_with_reinsertion": 0, "factors": {}, "compared_with_model": {}, "not_modelled": []}
    distinct = set()
    samples = []
    corr = None
    failing = []
    shard_failures = []
    for sh_ in shards:
        model_ok = modelled
        if isinstance(sh_[0], str):
            # a crashed / timed-out model driver must not hide what the oracle saw on that shard
            fb = None
            if sh_[0] == "driver-failed" and " dynamic " in sh_[2]:
                cf = sh_[2].split()[2]
                sf = cf[:-len(".cases")] + ".dynspec.model"
                if os.path.exists(cf) and os.path.exists(sf):
                    a, b = parse_cases(cf), parse_cases(sf)
                    if a and len(a) == len(b):
                        fb = (a, [b, []], cf)
            shard_failures.append(("%s: %s" % (sh_[0], sh_[1][1][-500:]), "command: %s\n" % sh_[2]))
            if fb is None:
                continue
            sh_, model_ok = fb, False
        impl, models, path = sh_
        ss = {c.id: c for c in models[0]}
        mm = {c.id: c for c in models[1]} if model_ok else {}
        for c in impl:
            kind = c.kind.split("/")[-1]
            stats["histories"] += 1
            stats["by_kind"][kind] = stats["by_kind"].get(kind, 0) + 1
            for l in c.ins:
                if l.startswith("recipe "):
                    stats["recipes"][l[7:]] = stats["recipes"].get(l[7:], 0) + 1
                if l.startswith("kind ") and kind.endswith("_att"):
                    f = l.split()[-1]
                    stats["factors"][f] = stats["factors"].get(f, 0) + 1
            sm = SetModel()
            removed, reins, prev, nq, nrem = set(), False, None, 0, 0
            for (inl, evs, outs) in per_step(c)[1:]:
                t = inl.split()
                if t[0] == "op":
                    cl = sm.apply(t[1:])
                    stats["updates"][cl] += 1
                    if t[1] == "-a" and cl == "valid":
                        removed.add(t[2])
                        nrem += 1
                    if t[1] == "+a" and cl == "valid" and t[2] in removed:
                        reins = True
                    r = " ".join((outs[0] if outs else "?").split()[:2])
                    stats["update_results"][r] = stats["update_results"].get(r, 0) + 1
                else:
                    nq += 1
                    qk = "%s/%s" % (t[1], t[3])
                    stats["queries"][qk] = stats["queries"].get(qk, 0) + 1
                    ns = n_solves(evs)
                    stats["sat_calls"] += ns
                    if ns == 0 and not kind.startswith("dummy"):
                        stats["answered_without_sat_call"] += 1
                    if prev is not None and prev[0] == "op" and prev[1] in ("-a", "-t"):
                        stats["queries_right_after_removal"] += 1
                    if prev is not None and prev[0] == "q":
                        stats["immediately_repeated_queries"] += 1
                    o0 = (outs[0] if outs else "?").split(" cert")[0]
                    stats["status"][o0] = stats["status"].get(o0, 0) + 1
                prev = t
            if reins:
                stats["histories_with_reinsertion"] += 1
            if nrem >= 1 and nq >= 2:
                distinct.add(hash((c.kind, tuple(c.ins))))
            sp = ss.get(c.id)
            for o in (sp.outs if sp else []):
                if o.startswith("judged "):
                    stats["queries_judged"] += int(o.split()[1])
            if len(samples) < 3 and nrem >= 1 and nq >= 3:
                samples.append({"kind": c.kind, "history": [x for x in c.ins], "outcomes": c.outs[:40],
                                "oracle": verdict_of(sp) if sp else ""})
            # ---- implementation-level oracle
            v = full_verdict(c, sp)
            if sp and verdict_of(sp).startswith("skipped"):
                stats["histories_above_the_brute_force_limit_judged_by_the_polynomial_oracle"] = stats.get("histories_above_the_brute_force_limit_judged_by_the_polynomial_oracle", 0) + 1
            if v.startswith("bad") or v == "missing":
                failing.append((c, v))
                continue
            # ---- correspondence with the Coq model
            if model_ok:
                m = mm.get(c.id)
                if m is None:
                    corr = corr or (c, "model produced no output")
                    continue
                why = compare_with_model(c, m)
                if why == "not-modelled":
                    if kind not in stats["not_modelled"]:
                        stats["not_modelled"].append(kind)
                elif why == "skipped-long-script":
                    stats["model_replay_skipped_long_script"] = stats.get("model_replay_skipped_long_script", 0) + 1
                elif why is not None:
                    corr = corr or (c, why)
                else:
                    stats["compared_with_model"][kind] = stats["compared_with_model"].get(kind, 0) + 1
                vl = val_line(m)
                if vl is not None:
                    stats["sat_answers_validated"] = stats.get("sat_answers_validated", 0) + vl["sat_ok"]
                    stats["unsat_answers_seen"] = stats.get("unsat_answers_seen", 0) + vl["unsat"]
                    stats["unsat_answers_confirmed_by_verified_dpll"] = stats.get("unsat_answers_confirmed_by_verified_dpll", 0) + vl.get("unsat_ok", 0)
                    if vl.get("unsat_bad", 0) > 0:
                        ctx.violation("%s: a recorded UNSAT answer is wrong: the verified reference solver finds a model (hypothesis valid_oracle of the C08 theorems fails on this run)" % c.kind,
                                      c.text(), found_input=True, key="badunsat")
                    if vl["sat_bad"] > 0:
                        ctx.violation("%s: a recorded SAT model does not satisfy the clauses and assumptions of its call (hypothesis valid_oracle of the C08 theorems fails on this run)" % c.kind,
                                      c.text(), found_input=True, key="badsat")
    # ---- report failing histories, minimised
    runner = Runner(ctx, h, d)
    seen_classes = {}
    for c, v in failing[:6]:
        ctx.provisional.append(("%s: %s (history of %d steps)" % (c.kind, v, len(steps_of(c))), c.text()))
    for c, v in failing:
        kind = c.kind.split("/")[-1]
        vc = verdict_class(v)
        kf = match_known(known, c, vc)
        if kf:
            msg = "%s %s" % (kf["id"], kf["class"])
            if msg not in ctx.known:
                ctx.known.append(msg)
            continue
        key = (kind, vc)
        seen_classes[key] = seen_classes.get(key, 0) + 1
        if seen_classes[key] > 1 or len(seen_classes) > 6:
            continue      # one minimised replay per (solver kind, failure class)
        steps, text = minimise(runner, c, vc, allow_invalid=invalid)
        ctx.violation("%s: %s after the history [%s]" % (c.kind, vc, "; ".join(" ".join(s[1:]) if s[0] == "op" else " ".join(s) for s in steps)),
                      text, found_input=True, key=c.kind + vc)
    if seen_classes:
        ctx.cov["failing_histories_by_class"] = {"%s: %s" % k: n for k, n in seen_classes.items()}
    if shard_failures and not ctx.violations:
        for what, text in shard_failures[:3]:
            ctx.violation(what, text, found_input=False)
    if corr and not ctx.violations:
        c, why = corr
        ctx.violation("correspondence Model.Dynamic vs the Rust dynamic solvers no longer checks at %s (%s); the brute-force oracle found no failing history among %d judged queries"
                      % (c.kind, why, stats["queries_judged"]), c.text(), found_input=False)
    if not proofs_ok and not ctx.violations:
        bad = [o[0] for o in ctx.obligations if not o[1]]
        ctx.violation("proof obligations not discharged: %s" % ", ".join(bad), "theorems: %s\n" % ", ".join(bad), found_input=False)
    ctx.cov.update({
        "evaluations": stats["queries_judged"],
        "histories": stats["histories"],
        "distinct_nontrivial": len(distinct),
        "rule": rule + " | non-trivial = history with at least one effective argument removal and two queries; distinct = distinct (solver kind, factor, history)",
        "samples": samples,
        "distribution": stats,
        "traces_validated_against_impl": sum(stats["compared_with_model"].values()),
        "not_modelled": stats["not_modelled"],
    })
    ctx.cov["not_yet_proved"] = NOT_YET_PROVED
    stats["polynomial_oracle"] = dict(DYN_POLY_STATS)
    ctx.floor("statuses_decided_by_the_polynomial_oracle", DYN_POLY_STATS["statuses_decided"])
    ctx.floor("certificates_tested_by_the_polynomial_oracle", DYN_POLY_STATS["certificates_tested"])
    poly_oracle_tie(ctx)
    ctx.floor("histories_compared_with_the_model", sum(stats["compared_with_model"].values()))
    ctx.floor("recorded_sat_answers_validated", stats.get("sat_answers_validated", 0))
    ctx.assumptions += [
        "labels are usize in the harness",
        "reservation factors 1, 3/2, 2, 3 only (dyadic: f64 product and floor are exact)",
        "CaDiCaL answers are validated on the replayed runs (Sat: model check; Unsat: verified DPLL up to 64 variables), never proved",
        "queries on labels that are not arguments of the current framework are out of scope (never generated)",
    ]
    ctx.finish()


# ------------------------------------------------------------------ replay of one case file (bin/check C08|C09 --replay FILE)


def replay(ctx, path):
    """Re-executes the histories of a replay file on the real solvers (harness `dynamic --replay`), then judges them with
    the brute-force oracle (driver dynspec) and replays them on the extracted model (driver dynamic); prints the three."""
    h = build_harness(ctx)
    d = build_driver(ctx)
    if not h or not d:
        print("build of harness / driver failed")
        sys.exit(2)
    o = os.path.join(ctx.work, "replay.cases")
    rc, out = sh("%s dynamic --replay %s --out %s" % (h, path, o), timeout=300)
    if rc not in (0, 3):
        print("harness failed:\n" + out[-2000:])
        sys.exit(2)
    bad = False
    rc1, spec = sh("%s dynspec %s" % (d, o), timeout=300)
    rc2, model = sh("%s dynamic %s --thr %d" % (d, o, hybrid_threshold()), timeout=300)
    sp, mp = o + ".dynspec", o + ".dynamic"
    open(sp, "w").write(spec)
    open(mp, "w").write(model)
    impl, specs, models = parse_cases(o), parse_cases(sp) if rc1 == 0 else [], parse_cases(mp) if rc2 == 0 else []
    for i, c in enumerate(impl):
        print(c.text(), end="")
        if i < len(specs):
            v = verdict_of(specs[i])
            print("oracle: " + v)
            bad = bad or v.startswith("bad")
        pv = dyn_poly_verdict(c)
        print("polynomial oracle: " + (pv or "no objection"))
        bad = bad or pv is not None
        if i < len(models):
            why = compare_with_model(c, models[i])
            print("model : " + ("agrees" if why is None else why))
            bad = bad or (why is not None and why not in ("not-modelled", "skipped-long-script"))
    sys.exit(1 if bad else 0)
