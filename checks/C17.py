"""C17 - a failing SAT backend never turns into an answer (library level: Unknown injected at each
SAT-call position of each query; the text-level failure kinds are exercised by C16's reply stream)."""
import re
from solvers_common import *


def judge(c, sp, v):
    solves = [e for e in c.evs if " solve " in e]
    unknown = [i for i, e in enumerate(solves) if e.endswith("=> X")]
    o0 = c.outs[0] if c.outs else ""
    if unknown:
        if not o0.startswith("panic"):
            return "bad unknown-answer-converted-into-a-result"
        if unknown[0] != len(solves) - 1:
            return "bad query-continued-after-an-unknown-answer"
        return "ok aborted"
    return v


def extra(c, sp, stats):
    f = [l for l in c.ins if l.startswith("fault ")]
    if f:
        k = int(f[0].split()[1])
        stats.setdefault("fault_positions", {})
        key = str(k) if k < 6 else "6+"
        stats["fault_positions"][key] = stats["fault_positions"].get(key, 0) + 1
    if any(e.endswith("=> X") for e in c.evs):
        stats["aborted"] = stats.get("aborted", 0) + 1


ANSWER = re.compile(rb"^(YES|NO|w( |$)|\[)", re.M)
CLI_PROBLEMS = ["DC-CO", "DC-PR", "DS-PR", "SE-PR", "DC-ST", "DS-ST", "SE-ST", "DC-SST", "DS-SST", "SE-SST",
                "DC-STG", "DS-STG", "SE-STG", "DC-ID", "DS-ID", "SE-ID"]
KINDS = ["exit", "nostatus", "truncated", "garbage"]


def cli_faults(ctx, stats):
    """Process level: both binaries with the verified reference solver as external backend, which is
    told to misbehave at its k-th invocation (exit without output, no status line, model truncated
    before the terminating 0, garbage line).  Expected: non-zero exit, no answer on stdout."""
    import random
    bins = build_bins(ctx)
    vdpll = os.path.join(DRIVER, "vdpll")
    if not bins or not os.path.exists(vdpll):
        ctx.violation("command-line tools or driver/vdpll not built", "build failure\n", found_input=False)
        return
    rnd = random.Random(ctx.seed * 7 + 5)
    n_files = 40 if ctx.thorough else 10
    jobs = []
    wd = os.path.join(ctx.work, "cli")
    os.makedirs(wd, exist_ok=True)
    for i in range(n_files):
        n = rnd.randint(2, 5)
        atts = sorted({(rnd.randint(1, n), rnd.randint(1, n)) for _ in range(rnd.randint(1, 2 * n))})
        f = os.path.join(wd, "f%d.af" % i)
        open(f, "w").write("p af %d\n" % n + "".join("%d %d\n" % a for a in atts))
        for p in rnd.sample(CLI_PROBLEMS, 5 if ctx.thorough else 4):
            jobs.append((f, n, atts, p, str(rnd.randint(1, n)), 0))  # the ICCMA wrapper has no external-solver option

    def cmd(job, cnt, extra):
        f, n, atts, p, a, w = job
        exe = bins[w]
        c = [exe] + ([] if w == 1 else ["solve", "-r", "iccma23", "--logging-level", "off"]) + ["-f", f, "-p", p]
        if not p.startswith("SE"):
            c += ["-a", a]
        c += ["--external-sat-solver", vdpll] + ["--external-sat-solver-opt=" + x for x in ["--counter", cnt] + extra]
        return c

    import subprocess, concurrent.futures

    def run(c):
        try:
            r = subprocess.run(c, stdout=subprocess.PIPE, stderr=subprocess.DEVNULL, timeout=300)
            return r.returncode, r.stdout
        except subprocess.TimeoutExpired:
            return "timeout", b""

    def one(idx_job):
        idx, job = idx_job
        out = []
        cnt = os.path.join(wd, "cnt%d" % idx)
        if os.path.exists(cnt):
            os.remove(cnt)
        rc, so = run(cmd(job, cnt, []))
        try:
            k = int(open(cnt).read().strip())
        except Exception:
            k = 0
        out.append(("free", 0, "", rc, so))
        for pos in range(1, min(k, 4) + 1):
            for kind in KINDS:
                if os.path.exists(cnt):
                    os.remove(cnt)
                rc2, so2 = run(cmd(job, cnt, ["--fail-at", str(pos), "--kind", kind]))
                out.append(("fault", pos, kind, rc2, so2))
        return job, k, out

    with concurrent.futures.ThreadPoolExecutor(max_workers=NCPU) as ex:
        results = list(ex.map(one, enumerate(jobs)))
    st = {"invocations": 0, "fault_runs": 0, "by_kind": {}, "fault_free_ok": 0}
    for job, k, out in results:
        f, n, atts, p, a, w = job
        desc = "%s -p %s -a %s on `p af %d` %s" % (["crustabri solve", "crustabri_iccma23"][w], p, a, n, " ".join("%d>%d" % x for x in atts))
        for what, pos, kind, rc, so in out:
            st["invocations"] += 1
            body = b"".join(l for l in so.splitlines(True) if not l.startswith(b"!["))
            if what == "free":
                if rc == 0:
                    st["fault_free_ok"] += 1
                else:
                    ctx.violation("fault-free run through the external backend failed (exit %s): %s" % (rc, desc), desc + "\n", found_input=True, key="cli-free")
                continue
            st["fault_runs"] += 1
            st["by_kind"][kind] = st["by_kind"].get(kind, 0) + 1
            if rc == 0 or ANSWER.search(body):
                ctx.violation("backend failure `%s` at SAT call %d of %d turned into an answer: exit %s, stdout %r (%s)"
                              % (kind, pos, k, rc, body[:60], desc), desc + "\nfault %s at call %d\nstdout %r\n" % (kind, pos, so), found_input=True,
                              key="cli-" + kind)
    stats["cli_level"] = st


def dynamic_faults(ctx, stats):
    """Dynamic solvers (all 8 configurations): every generated history is first run fault-free to count its SAT
    calls, then re-run with the first, the last and a random one of them answering Unknown.  The query that
    receives the Unknown answer must abort (no status, no certificate); everything before it must be as in the
    model (C17_dynamic_unknown_aborts is the theorem about the model)."""
    import dyn_common as dc
    h = build_harness(ctx)
    d = build_driver(ctx)
    if not h or not d:
        return
    thr = hybrid_threshold()
    total = 4800 if ctx.thorough else 640
    st = {"fault_histories": 0, "aborted_at_the_faulty_call": 0, "fault_not_reached": 0, "by_kind": {}, "compared_with_model": 0}
    corr = None
    for sh_ in run_mode(ctx, h, d, "dynamic", total, extra="--faults 1 --invalid 0", tag="dynfault",
                        drv_modes=[("dynamic", "--thr %d" % thr)]):
        if isinstance(sh_[0], str):
            ctx.violation("%s: %s" % (sh_[0], sh_[1][1][-500:]), "command: %s\n" % sh_[2], found_input=False)
            continue
        impl, (model,), path = sh_
        mm = {c.id: c for c in model}
        for c in impl:
            st["fault_histories"] += 1
            kind = c.kind.split("/")[-1]
            st["by_kind"][kind] = st["by_kind"].get(kind, 0) + 1
            steps = dc.per_step(c)
            hit = None
            for i, (inl, evs, outs) in enumerate(steps):
                if any(e.endswith("=> X") for e in evs):
                    hit = (i, inl, evs, outs)
                    break
            if hit is None:
                st["fault_not_reached"] += 1
            else:
                i, inl, evs, outs = hit
                solves = [e for e in evs if " solve " in e]
                o = outs[0] if outs else ""
                if not o.startswith("panic"):
                    ctx.violation("dynamic solver %s: an Unknown answer of the SAT solver was converted into an answer: step `%s` returned `%s`" % (kind, inl, o[:80]),
                                  c.text(), found_input=True, key="dyn-unknown-" + kind)
                    continue
                if not solves[-1].endswith("=> X"):
                    ctx.violation("dynamic solver %s: the query went on after an Unknown answer (step `%s`)" % (kind, inl), c.text(), found_input=True,
                                  key="dyn-continued-" + kind)
                    continue
                st["aborted_at_the_faulty_call"] += 1
            m = mm.get(c.id)
            if m is None:
                why = "model produced no output"
            elif any(o.startswith(("not-modelled", "skipped-long-script")) for o in m.outs):
                continue
            else:
                # events after the Unknown answer belong to Rust's unwinding (Drop of the MaximalExtensionComputer
                # adds one more clause): outside the query, ignored
                def cut(steps):
                    res = []
                    for (inl, evs, outs) in steps:
                        k = next((j for j, e in enumerate(evs) if e.endswith("=> X")), None)
                        if k is not None:
                            res.append((inl, evs[:k + 1], outs))
                            break
                        res.append((inl, evs, outs))
                    return res
                a, b = cut(steps), cut(dc.per_step(m))
                why = None
                for j in range(max(len(a), len(b))):
                    if j >= len(a) or j >= len(b):
                        why = "step %d: %s" % (j, "model stops early" if j >= len(b) else "model has extra steps")
                        break
                    de = first_diff(dc.canon_events(a[j][1]), dc.canon_events(b[j][1]))
                    if de is not None:
                        why = "step %d `%s` event %d: impl `%s` model `%s`" % (j, a[j][0], de[0], de[1], de[2])
                        break
                    if [dc.canon_dyn_out(x) for x in a[j][2]] != [dc.canon_dyn_out(x) for x in b[j][2]]:
                        why = "step %d `%s` outcome: impl `%s` model `%s`" % (j, a[j][0], "; ".join(a[j][2])[:120], "; ".join(b[j][2])[:120])
                        break
            if why is not None:
                corr = corr or (c, why)
            else:
                st["compared_with_model"] += 1
    if corr and not ctx.violations:
        c, why = corr
        ctx.violation("correspondence Model.Dynamic vs /repo under fault injection no longer checks (%s); no Unknown answer was converted into a result on the generated histories" % why,
                      c.text(), found_input=False)
    stats["dynamic_level"] = st


def main(ctx):
    total = 24000 if ctx.thorough else 2400
    cli_stats = {}
    cli_faults(ctx, cli_stats)
    ctx.cov["cli_level_fault_injection"] = cli_stats.get("cli_level", {})
    dynamic_faults(ctx, cli_stats)
    ctx.cov["dynamic_solver_fault_injection"] = cli_stats.get("dynamic_level", {})
    ctx.floor("cli_fault_runs", cli_stats.get("cli_level", {}).get("fault_runs", 0))
    ctx.floor("dynamic_histories_aborted_at_the_faulty_call", cli_stats.get("dynamic_level", {}).get("aborted_at_the_faulty_call", 0))
    static_check(
        ctx, "static", total, extra="--faults", judge=judge, extra_stats=extra,
        rule="generated frameworks x all 18 library problems x encoders x with/without certificate; each query is first run fault-free to count its SAT calls K, then re-run once per call position k < K (all positions when K <= 10, else first/last two and six random ones) with the k-th answer replaced by Unknown through a SatSolver wrapper injected by the public factory API; outcome must be an abort (panic) with the Unknown as the last SAT event, and the whole trace is replayed on Model.Solvers, for which C17_unknown_aborts is proved",
    )
