"""C17 - a failing SAT backend never turns into an answer (library level: Unknown injected at each
SAT-call position of each query; the text-level failure kinds are exercised by C16's reply stream)."""
import re
from solvers_common import *


def judge(c, sp, v):
    solves = [e for e in c.evs if " solve " in e]
    unknown = [i for i, e in enumerate(solves) if e.endswith("=> X")]
    o0 = c.outs[0] if c.outs else ""
    if unknown:
        if not o0.startswith("panic"):
            return "bad unknown-answer-converted-into-a-result"
        if unknown[0] != len(solves) - 1:
            return "bad query-continued-after-an-unknown-answer"
        return "ok aborted"
    return v


def extra(c, sp, stats):
    f = [l for l in c.ins if l.startswith("fault ")]
    if f:
        k = int(f[0].split()[1])
        stats.setdefault("fault_positions", {})
        key = str(k) if k < 6 else "6+"
        stats["fault_positions"][key] = stats["fault_positions"].get(key, 0) + 1
    if any(e.endswith("=> X") for e in c.evs):
        stats["aborted"] = stats.get("aborted", 0) + 1


ANSWER = re.compile(rb"^(YES|NO|w( |$)|\[)", re.M)
CLI_PROBLEMS = ["DC-CO", "DC-PR", "DS-PR", "SE-PR", "DC-ST", "DS-ST", "SE-ST", "DC-SST", "DS-SST", "SE-SST",
                "DC-STG", "DS-STG", "SE-STG", "DC-ID", "DS-ID", "SE-ID"]
KINDS = ["exit", "nostatus", "truncated", "garbage"]


def cli_faults(ctx, stats):
    """Process level: both binaries with the verified reference solver as external backend, which is
    told to misbehave at its k-th invocation (exit without output, no status line, model truncated
    before the terminating 0, garbage line).  Expected: non-zero exit, no answer on stdout."""
    import random
    bins = build_bins(ctx)
    vdpll = os.path.join(DRIVER, "vdpll")
    if not bins or not os.path.exists(vdpll):
        ctx.violation("command-line tools or driver/vdpll not built", "build failure\n", found_input=False)
        return
    rnd = random.Random(ctx.seed * 7 + 5)
    n_files = 40 if ctx.thorough else 10
    jobs = []
    wd = os.path.join(ctx.work, "cli")
    os.makedirs(wd, exist_ok=True)
    for i in range(n_files):
        n = rnd.randint(2, 5)
        atts = sorted({(rnd.randint(1, n), rnd.randint(1, n)) for _ in range(rnd.randint(1, 2 * n))})
        f = os.path.join(wd, "f%d.af" % i)
        open(f, "w").write("p af %d\n" % n + "".join("%d %d\n" % a for a in atts))
        for p in rnd.sample(CLI_PROBLEMS, 5 if ctx.thorough else 4):
            jobs.append((f, n, atts, p, str(rnd.randint(1, n)), 0))  # the ICCMA wrapper has no external-solver option

    def cmd(job, cnt, extra):
        f, n, atts, p, a, w = job
        exe = bins[w]
        c = [exe] + ([] if w == 1 else ["solve", "-r", "iccma23", "--logging-level", "off"]) + ["-f", f, "-p", p]
        if not p.startswith("SE"):
            c += ["-a", a]
        c += ["--external-sat-solver", vdpll] + ["--external-sat-solver-opt=" + x for x in ["--counter", cnt] + extra]
        return c

    import subprocess, concurrent.futures

    def run(c):
        try:
            r = subprocess.run(c, stdout=subprocess.PIPE, stderr=subprocess.DEVNULL, timeout=300)
            return r.returncode, r.stdout
        except subprocess.TimeoutExpired:
            return "timeout", b""

    def one(idx_job):
        idx, job = idx_job
        out = []
        cnt = os.path.join(wd, "cnt%d" % idx)
        if os.path.exists(cnt):
            os.remove(cnt)
        rc, so = run(cmd(job, cnt, []))
        try:
            k = int(open(cnt).read().strip())
        except Exception:
            k = 0
        out.append(("free", 0, "", rc, so))
        for pos in range(1, min(k, 4) + 1):
            for kind in KINDS:
                if os.path.exists(cnt):
                    os.remove(cnt)
                rc2, so2 = run(cmd(job, cnt, ["--fail-at", str(pos), "--kind", kind]))
                out.append(("fault", pos, kind, rc2, so2))
        return job, k, out

    with concurrent.futures.ThreadPoolExecutor(max_workers=NCPU) as ex:
        results = list(ex.map(one, enumerate(jobs)))
    st = {"invocations": 0, "fault_runs": 0, "by_kind": {}, "fault_free_ok": 0}
    for job, k, out in results:
        f, n, atts, p, a, w = job
        desc = "%s -p %s -a %s on `p af %d` %s" % (["crustabri solve", "crustabri_iccma23"][w], p, a, n, " ".join("%d>%d" % x for x in atts))
        for what, pos, kind, rc, so in out:
            st["invocations"] += 1
            body = b"".join(l for l in so.splitlines(True) if not l.startswith(b"!["))
            if what == "free":
                if rc == 0:
                    st["fault_free_ok"] += 1
                else:
                    ctx.violation("fault-free run through the external backend failed (exit %s): %s" % (rc, desc), desc + "\n", found_input=True, key="cli-free")
                continue
            st["fault_runs"] += 1
            st["by_kind"][kind] = st["by_kind"].get(kind, 0) + 1
            if rc == 0 or ANSWER.search(body):
                ctx.violation("backend failure `%s` at SAT call %d of %d turned into an answer: exit %s, stdout %r (%s)"
                              % (kind, pos, k, rc, body[:60], desc), desc + "\nfault %s at call %d\nstdout %r\n" % (kind, pos, so), found_input=True,
                              key="cli-" + kind)
    stats["cli_level"] = st


def main(ctx):
    total = 24000 if ctx.thorough else 2400
    cli_stats = {}
    cli_faults(ctx, cli_stats)
    ctx.cov["cli_level_fault_injection"] = cli_stats.get("cli_level", {})
    static_check(
        ctx, "static", total, extra="--faults", judge=judge, extra_stats=extra,
        rule="generated frameworks x all 18 library problems x encoders x with/without certificate; each query is first run fault-free to count its SAT calls K, then re-run once per call position k < K (all positions when K <= 10, else first/last two and six random ones) with the k-th answer replaced by Unknown through a SatSolver wrapper injected by the public factory API; outcome must be an abort (panic) with the Unknown as the last SAT event, and the whole trace is replayed on Model.Solvers, for which C17_unknown_aborts is proved",
    )
