"""C17 - a failing SAT backend never turns into an answer (library level: Unknown injected at each
SAT-call position of each query; the text-level failure kinds are exercised by C16's reply stream)."""
from solvers_common import *


def judge(c, sp, v):
    solves = [e for e in c.evs if " solve " in e]
    unknown = [i for i, e in enumerate(solves) if e.endswith("=> X")]
    o0 = c.outs[0] if c.outs else ""
    if unknown:
        if not o0.startswith("panic"):
            return "bad unknown-answer-converted-into-a-result"
        if unknown[0] != len(solves) - 1:
            return "bad query-continued-after-an-unknown-answer"
        return "ok aborted"
    return v


def extra(c, sp, stats):
    f = [l for l in c.ins if l.startswith("fault ")]
    if f:
        k = int(f[0].split()[1])
        stats.setdefault("fault_positions", {})
        key = str(k) if k < 6 else "6+"
        stats["fault_positions"][key] = stats["fault_positions"].get(key, 0) + 1
    if any(e.endswith("=> X") for e in c.evs):
        stats["aborted"] = stats.get("aborted", 0) + 1


def main(ctx):
    total = 24000 if ctx.thorough else 2400
    static_check(
        ctx, "static", total, extra="--faults", judge=judge, extra_stats=extra,
        rule="generated frameworks x all 18 library problems x encoders x with/without certificate; each query is first run fault-free to count its SAT calls K, then re-run once per call position k < K (all positions when K <= 10, else first/last two and six random ones) with the k-th answer replaced by Unknown through a SatSolver wrapper injected by the public factory API; outcome must be an abort (panic) with the Unknown as the last SAT event, and the whole trace is replayed on Model.Solvers, for which C17_unknown_aborts is proved",
    )
