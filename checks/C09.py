"""C09 - redundant or invalid updates never corrupt a dynamic solver."""
from dyn_common import *

RULE = ("histories as in C08 in which an update is, with measured frequencies of about 70/15/15 %, valid / redundant (existing argument, existing "
        "attack) / invalid (removal of an unknown argument or attack, attack from or to an unknown argument) at any position; the update's own "
        "result must be ok for valid and redundant, err for invalid updates, never a panic, and every later status and certificate must be that of "
        "the framework without the rejected or redundant operations (spec store + brute-force enumeration); every run replayed on the extracted "
        "Model/Dynamic.v with the recorded SAT answers")


def main(ctx):
    total = 24000 if ctx.thorough else 3200
    dynamic_check(ctx, invalid=True, total=total, rule=RULE, modelled=MODELLED)


MODELLED = True
