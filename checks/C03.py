"""C03 - skeptical acceptance answers match the semantics."""
from solvers_common import *


def main(ctx):
    total = 30000 if ctx.thorough else 3000
    static_check(
        ctx, "static", total, extra="--q DS --cert 0",
        more_runs=[("static", 0, "--q DS --cert 0 --exhaustive %d" % 3),
                   ("static", 600 if ctx.thorough else 60, "--q DS --cert 0 --large")],
        rule="skeptical acceptance of single arguments (GR, ST, PR, SST, STG, ID solver types; DS-CO is GR by dispatch) x selectable encoders on all frameworks with <= %d arguments exhaustively (every argument), generated frameworks (incl. the grounded-insensitive 'pairs_funnel' motif and components without stable extension) and large ones (replay only); traces replayed on Model.Solvers; status judged by brute force (skepb from Spec.AF), including YES for every argument when no stable extension exists"
             % 3,
        finish=False, extra_props=("C03poly", "C03polytop"),
    )
    poly_oracle_tie(ctx)
    ctx.finish()
