"""C10 - CNF encodings characterise exactly the intended argument sets."""
from lib import *
from trace import canon_events
from solvers_common import verdict_of, spec_info, match_known


def _propagate(clauses, assign):
    """unit propagation from a partial assignment {var: bool}: -> 'conflict' / 'model' (every clause satisfied) / 'open'"""
    assign = dict(assign)
    changed = True
    while changed:
        changed = False
        for cl in clauses:
            sat, free = False, []
            for l in cl:
                v = assign.get(abs(l))
                if v is None:
                    free.append(l)
                elif v == (l > 0):
                    sat = True
                    break
            if sat:
                continue
            if not free:
                return "conflict"
            if len(free) == 1:
                assign[abs(free[0])] = free[0] > 0
                changed = True
    for cl in clauses:
        if not any(assign.get(abs(l)) == (l > 0) for l in cl):
            return "open"
    return "model"


CNF_STATS = {"propagations": 0}


def cnf_poly_verdict(c):
    """Polynomial oracle on the RECORDED CNF of the implementation, for frameworks of any size (the all-models oracle of
    `driver encspec` stops at 10 arguments / 26 variables): with the argument variables (and the range variables)
    fixed to a given set, the auxiliary variables of every encoder are forced by unit propagation, so whether that set
    is a model is decided in polynomial time.  Sets whose status is known without search: the grounded extension G is
    conflict-free, admissible and complete (a model of the cf / adm / co encoders; of the stable encoder iff it is
    stable); G plus an argument it defeats is not conflict-free (a model of no encoder); the empty set is complete iff
    no argument is unattacked.  -> None or a `bad ...` verdict."""
    k = c.kind.split("/")
    if len(k) < 3 or k[0] != "encoders":
        return None
    enc, rng_ = k[1], k[2] == "range"
    n, rel = None, set()
    for l in c.ins:
        t = l.split()
        if t and t[0] == "iccma":
            n = int(t[1])
            ids = [int(x) for x in t[2:]]
            rel = set(zip(ids[0::2], ids[1::2]))
    a2l = frv = None
    for o in c.outs:
        t = o.split()
        if t and t[0] == "a2l":
            a2l = [int(x) for x in t[1:]]
        elif t and t[0] == "frv" and len(t) > 1 and t[1].lstrip("-").isdigit():
            frv = int(t[1])
    if n is None or a2l is None or len(a2l) != n or "encoded" not in c.outs or (rng_ and frv is None):
        return None
    clauses = [[int(x) for x in e.split()[2:]] for e in c.evs if e.split()[1:2] == ["cl"]]
    attackers = {a: set() for a in range(n)}
    targets = {a: set() for a in range(n)}
    for (a, b) in rel:
        attackers[b].add(a)
        targets[a].add(b)
    G, D, ch = set(), set(), True
    while ch:
        ch = False
        for a in range(n):
            if a not in G and a not in D and attackers[a] <= D:
                G.add(a); D |= targets[a]; ch = True

    def run(S):
        CNF_STATS["propagations"] += 1
        asg = {}
        hit = set()
        for a in S:
            hit |= targets[a]
        for i in range(n):
            l = a2l[i]
            asg[abs(l)] = (i in S) == (l > 0)
            if rng_:
                asg[frv + i] = (i in S) or (i in hit)
        return _propagate(clauses, asg)

    sem = "st" if enc == "st" else enc.split("_")[-1]
    g_stable = not (set(range(n)) - G - D)
    if sem in ("cf", "adm", "co") or g_stable:
        if run(G) == "conflict":
            return "bad poly-cnf-the-grounded-extension-is-not-a-model"
    elif sem == "st" and run(G) == "model":
        return "bad poly-cnf-a-set-that-is-not-stable-is-a-model"
    # (arguments with several attackers, exactly one of them in G, first: a lost attacker shows there)
    cand = sorted((x for x in D if len(attackers[x]) >= 2), key=lambda x: (len(attackers[x] & G), x))[:24]
    for x in cand + sorted(D)[:4]:
        if run(G | {x}) == "model":
            return "bad poly-cnf-a-set-with-a-conflict-is-a-model-(grounded-extension-plus-argument-%d)" % x
    if sem == "co" and G and run(set()) == "model":
        return "bad poly-cnf-the-empty-set-is-a-model-although-an-argument-is-unattacked"
    return None


def main(ctx):
    proofs_ok = check_proofs(ctx, extra_props=("C10poly",))
    h = build_harness(ctx)
    d = build_driver(ctx)
    if not h or not d:
        ctx.violation("build of harness/driver failed (cannot tie the model to /repo)", "build failure\n", found_input=False)
        ctx.finish()
    thr = hybrid_threshold()
    runs = [("encoders", 40000 if ctx.thorough else 4000, "", "rand")]
    runs.append(("encoders", 0, "--exhaustive %d" % 3, "exh"))
    known = ctx.load_known()
    stats = {"cases": 0, "by_encoder": {}, "recipes": {}, "judged": 0, "skipped_large": 0, "clauses": 0,
             "hybrid_aux_branch": 0, "a2e_models": 0, "exhaustive_upto": 3}
    distinct = set()
    samples = []
    corr = None
    for mode, total, extra, tag in runs:
        shards = run_mode(ctx, h, d, mode, total, extra=extra, tag=tag,
                          drv_modes=[("encoders", "--thr %d" % thr), ("encspec", "")])
        for sh_ in shards:
            if isinstance(sh_[0], str):
                ctx.violation("%s: %s" % (sh_[0], sh_[1][1][-500:]), "command: %s\n" % sh_[2], found_input=False)
                continue
            impl, (model, spec), path = sh_
            mm = {c.id: c for c in model}
            ss = {c.id: c for c in spec}
            for c in impl:
                stats["cases"] += 1
                k = "/".join(c.kind.split("/")[1:])
                stats["by_encoder"][k] = stats["by_encoder"].get(k, 0) + 1
                ncl = sum(1 for e in c.evs if " cl " in e)
                stats["clauses"] += ncl
                stats["a2e_models"] += sum(1 for o in c.outs if o.startswith("a2e "))
                for l in c.ins:
                    if l.startswith("recipe "):
                        stats["recipes"][l[7:]] = stats["recipes"].get(l[7:], 0) + 1
                if "hyb_co" in c.kind:
                    # the aux branch allocates variables above n (plain) / 2n (range)
                    n = 0
                    for l in c.ins:
                        t = l.split()
                        if t[0] == "iccma":
                            n = int(t[1])
                        elif t[0] == "init":
                            n = len(t) - 1
                    base = 2 * n if c.kind.endswith("/range") else n
                    if any(abs(int(x)) > base for e in c.evs if " cl " in e for x in e.split()[2:]):
                        stats["hybrid_aux_branch"] += 1
                if ncl >= 2:
                    distinct.add(hash((c.kind, tuple(c.ins))))
                sp = ss.get(c.id)
                v = verdict_of(sp) if sp else "missing"
                if v.startswith("skipped"):
                    stats["skipped_large"] += 1
                    pv = cnf_poly_verdict(c)
                    stats["handed_to_the_polynomial_cnf_oracle"] = stats.get("handed_to_the_polynomial_cnf_oracle", 0) + 1
                    if pv is not None:
                        v = pv
                else:
                    stats["judged"] += 1
                if len(samples) < 3 and ncl >= 4 and sp:
                    samples.append({"kind": c.kind, "input": c.ins[:4], "n_clauses": ncl, "first_clauses": [e for e in c.evs if " cl " in e][:4],
                                    "outcome": c.outs[:3], "oracle": spec_info(sp)})
                if v.startswith("bad") or v == "panic":
                    kf = match_known(known, c, v)
                    if kf:
                        msg = "%s %s" % (kf["id"], kf["class"])
                        if msg not in ctx.known:
                            ctx.known.append(msg)
                    else:
                        ctx.violation("%s: %s (%s)" % (c.kind, v, spec_info(sp) if sp else ""),
                                      c.text() + ("".join("SPEC " + x + "\n" for x in sp.outs) if sp else ""),
                                      found_input=True, key=c.kind + v)
                    continue
                m = mm.get(c.id)
                if m is None:
                    corr = corr or (c, "model produced no output")
                    continue
                de = first_diff(canon_events(c.evs), canon_events(m.evs))
                if de is not None:
                    corr = corr or (c, "event %d: impl `%s` model `%s`" % de)
                    continue
                canon = lambda ls: ['panic' if x.startswith('panic') else x for x in ls]
                do = first_diff(canon(c.outs), canon(m.outs))
                if do is not None:
                    corr = corr or (c, "output %d: impl `%s` model `%s`" % do)
    if corr and not ctx.violations:
        c, why = corr
        ctx.violation("correspondence Model.Encoders vs the Rust encoders no longer checks at %s (%s); the all-models oracle found no failing framework among %d judged cases"
                      % (c.kind, why, stats["judged"]), c.text(), found_input=False)
    if not proofs_ok and not ctx.violations:
        bad = [o[0] for o in ctx.obligations if not o[1]]
        ctx.violation("proof obligations not discharged: %s" % ", ".join(bad), "theorems: %s\n" % ", ".join(bad), found_input=False)
    poly_oracle_tie(ctx)
    stats["polynomial_cnf_oracle_propagations"] = CNF_STATS["propagations"]
    ctx.floor("recorded_cnfs_of_large_frameworks_tested_by_unit_propagation", CNF_STATS["propagations"])
    ctx.cov.update({
        "evaluations": stats["cases"],
        "distinct_nontrivial": len(distinct),
        "rule": "compact frameworks (all frameworks with <= %d arguments exhaustively, then recipes: cycles, self-attacks, several components, funnels with defender-set products 31/32/33/36 on both sides of the hybrid threshold, duplicated attack lines, attack tombstones) x every public encoder and default factory x {plain, range}: clause set / reserve / arg_to_lit / first_range_var / assignment_to_extension (on real CaDiCaL models) compared with Model.Encoders, and independently all models of the RECORDED Rust CNF are enumerated and their projections compared with the brute-force cf/adm/co/st sets of Spec.AF (range variables included) | non-trivial = at least two clauses; distinct = distinct (encoder, variant, framework presentation)" % stats["exhaustive_upto"],
        "samples": samples,
        "distribution": stats,
        "traces_validated_against_impl": stats["cases"],
        "hybrid_threshold_read_from_source": thr,
    })
    ctx.assumptions += ["theorems are stated for every threshold >= 1; the value in the source only decides what the tie exercises"]
    ctx.finish()
