"""C06 - answers do not depend on encoding, SAT backend, certificate flag or query order."""
from lib import *


def main(ctx):
    proofs_ok = check_proofs(ctx)
    h = build_harness(ctx)
    if not h:
        ctx.violation("build of the harness failed (cannot tie the model to /repo)", "build failure\n", found_input=False)
        ctx.finish()
    vdpll = os.path.join(DRIVER, "vdpll")
    ext = (" --external %s" % vdpll) if os.path.exists(vdpll) else ""
    total = 2400 if ctx.thorough else 240
    per = max(1, total // NCPU)
    cmds, files = [], []
    for s in range(NCPU):
        cf = os.path.join(ctx.work, "cross.%d.cases" % s)
        files.append(cf)
        cmds.append("%s cross --seed %d --count %d --tier %s --out %s --shard %d/%d%s"
                    % (h, (ctx.seed * 1000003 + s * 101 + 23) % (2 ** 62), per, ctx.tier, cf, s, NCPU, ext))
    res = run_parallel(cmds, 1500)
    n_cases = n_cfg = n_seq = n_groups = n_ext = 0
    distinct = set()
    samples = []
    kinds = {}
    for s, cf in enumerate(files):
        if res[s][0] != 0 or not os.path.exists(cf):
            ctx.violation("harness failed: %s" % res[s][1][-400:], "command: %s\n" % cmds[s], found_input=False)
            continue
        for c in parse_cases(cf):
            n_cases += 1
            groups = {}
            for o in c.outs:
                t = o.split()
                if t[0] == "cfg":
                    n_cfg += 1
                    if t[6].startswith("external"):
                        n_ext += 1
                    groups.setdefault((t[1], t[2], t[3]), []).append((t[4], t[5], t[6], t[8]))
                    if t[8].startswith("PANIC"):
                        ctx.violation("query aborted: %s" % o, c.text(), found_input=True, key="panic" + t[1] + t[2])
                elif t[0] == "seq":
                    n_seq += 1
                    one, fresh = t[8], t[10]
                    kinds[t[1]] = kinds.get(t[1], 0) + 1
                    if one != fresh:
                        ctx.violation("%s solver object: query %s of the sequence answers %s, a fresh object answers %s (%s)"
                                      % (t[1], t[3], one, fresh, o), c.text(), found_input=True, key="seq" + t[1])
                elif t[0] == "frame" and t[1] != "unchanged":
                    ctx.violation("querying modified the framework", c.text(), found_input=True, key="frame")
            for k, v in groups.items():
                n_groups += 1
                st = set(x[3] for x in v)
                if len(v) >= 2:
                    distinct.add(hash((tuple(c.ins), k)))
                if len(st) > 1:
                    ctx.violation("%s-%s on argument %s: status depends on the configuration: %s"
                                  % (k[1], k[0], k[2], sorted(v)), c.text(), found_input=True, key="cfg" + k[0] + k[1])
            if len(samples) < 2:
                samples.append({"framework": c.ins[:3], "lines": c.outs[:6]})
    if not proofs_ok and not ctx.violations:
        bad = [o[0] for o in ctx.obligations if not o[1]]
        ctx.violation("proof obligations not discharged: %s" % ", ".join(bad), "theorems: %s\n" % ", ".join(bad), found_input=False)
    ctx.floor("configurations_run", n_cfg)
    ctx.floor("configurations_on_the_external_backend", n_ext)
    ctx.floor("query_sequences_on_one_object", n_seq)
    ctx.cov.update({
        "evaluations": n_cfg + n_seq,
        "distinct_nontrivial": len(distinct),
        "rule": "generated frameworks (<= 7/8 arguments, all recipes incl. sparse ids and duplicated attacks): (a) every library problem on one argument under EVERY selectable encoder x {with, without certificate} x {embedded CaDiCaL, external process = the extracted reference solver vdpll when built}: all statuses of one (problem, argument) must be equal; (b) for each solver type a sequence of 4-8 queries with immediate repetitions put to ONE solver object, each answer compared with a fresh object's; (c) the framework's observables before and after all queries | non-trivial = a (problem, argument) group answered under at least two configurations; distinct = distinct (framework, problem, argument)",
        "samples": samples,
        "distribution": {"frameworks": n_cases, "configuration_runs": n_cfg, "external_backend_runs": n_ext, "groups": n_groups,
                         "sequence_queries": n_seq, "sequence_queries_by_solver": kinds,
                         "external_backend": "driver/vdpll" if ext else "not built"},
        "traces_validated_against_impl": n_cases,
    })
    ctx.assumptions += ["the model-level theorems of Properties/C06.v cover the complete and stable component queries; the tie for the other solvers is this differential run plus the trace replays of C01-C04"]
    ctx.finish()
