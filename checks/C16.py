"""C16 - the exchange with an external SAT solver is well-formed and cannot hang."""
from lib import *
from sat_common import *


# ------------------------------------------------------------------ (a) instances
def check_instance(data, clauses, assumptions):
    """Independent reading of the captured bytes.  None or a description of what is ill-formed."""
    try:
        nv, nc, cls = parse_dimacs(data)
    except ValueError as e:
        return "not a DIMACS instance: %s" % e
    expected = [list(c) for c in clauses] + [[a] for a in assumptions]
    mx = max([0] + [abs(l) for c in expected for l in c])
    if nc != len(cls):
        return "header announces %d clauses, %d follow" % (nc, len(cls))
    if nc != len(expected):
        return "header announces %d clauses, %d clauses and %d assumptions were given" % (nc, len(clauses), len(assumptions))
    mxi = max([0] + [abs(l) for c in cls for l in c])
    if nv < mxi or nv < mx:
        return "header announces %d variables, variable %d occurs" % (nv, max(mx, mxi))
    if cls != expected:
        return "clauses differ from the ones added so far plus one unit clause per assumption"
    return None


def oracle_hist(c):
    ops = parse_ops(c.ins)
    inst = {}
    ext = {}
    for o in c.outs:
        t = o.split(" ", 2)
        if t[0] == "inst":
            inst.setdefault(int(t[1]), []).append(t[2])
        elif t[0] == "ext":
            ext[int(t[1])] = norm_obs(t[2] if len(t) > 2 else "")
    sh = Shadow()
    n = 0
    for i, op in enumerate(ops):
        sh.apply(op)
        if op[0] != "solve":
            continue
        n += 1
        if i not in inst or len(inst[i]) != 1:
            return "solve %d: %d instances reached the external program" % (i, len(inst.get(i, []))), n
        bad = check_instance(unhex(inst[i][0]), sh.clauses, op[1])
        if bad:
            return "solve %d (assumptions %s): %s" % (i, op[1], bad), n
        if ext.get(i, "")[:1] not in ("S", "U"):
            return "solve %d: the strict reference solver did not answer (`%s`)" % (i, ext.get(i)), n
    return None, n


def oracle_af(c):
    """EV lines: <sid> new | cl .. | res n | nv n | solve a => r | inst hex"""
    sess = {}
    n = 0
    pending = None
    for e in c.evs:
        t = e.split()
        sid, k = t[0], t[1]
        if k == "new":
            sess[sid] = Shadow()
        elif k == "cl":
            sess[sid].apply(("add", [int(x) for x in t[2:]]))
        elif k == "res":
            sess[sid].apply(("res", int(t[2])))
        elif k == "solve":
            if pending is not None:
                return "a solve call did not reach the external program", n
            a = [int(x) for x in t[2:t.index("=>")]]
            sess[sid].apply(("solve", a))
            r = " ".join(t[t.index("=>") + 1:])
            pending = (sid, a, r)
            n += 1
        elif k == "inst":
            if pending is None or pending[0] != sid:
                return "unexpected instance for session %s" % sid, n
            bad = check_instance(unhex(t[2]), sess[sid].clauses, pending[1])
            if bad:
                return "session %s, assumptions %s: %s" % (sid, pending[1], bad), n
            if pending[2][:1] not in ("S", "U"):
                return "session %s: the strict reference solver did not answer a query of the argumentation solver (`%s`)" % (sid, pending[2]), n
            pending = None
    if pending is not None:
        return "a solve call did not reach the external program", n
    for o in c.outs:
        if o.startswith("panic"):
            return "the argumentation query panicked: %s" % o, n
    return None, n


# ------------------------------------------------------------------ (b) replies
def oracle_reply(c):
    exp = None
    for l in c.ins:
        if l.startswith("expect "):
            exp = l[7:]
    got = norm_obs(c.outs[0]) if c.outs else "<none>"
    if exp is None or exp == "any":
        return None
    if exp == "notanswer":
        if got[:1] in ("S", "U"):
            return "an ill-formed reply (%s) is reported as a result: `%s`" % (c.kind, got)
        return None
    if got != exp:
        return "a well-formed reply (%s) is reported as `%s`, it says `%s`" % (c.kind, got, exp)
    return None


def main(ctx):
    proofs_ok = check_proofs(ctx)
    h = build_harness(ctx)
    d = build_driver(ctx)
    if not h or not d:
        ctx.violation("build of harness/driver failed (cannot tie the model to /repo)", "build failure\n", found_input=False)
        ctx.finish()
    vdpll = os.path.join(DRIVER, "vdpll")
    tmp = os.path.join(ctx.work, "tmp")
    extra = "--vdpll %s --tmp %s" % (vdpll, tmp)
    corr_broken = None
    dist = {}
    samples = []
    n_inst = n_reply = n_pipe = 0
    n_inst_inproc = n_reply_inproc = n_reply_proc = 0
    read_policies = {}
    reply_delivery = {}
    distinct = set()

    def crashed(sh_):
        if isinstance(sh_[0], str):
            ctx.violation("%s: %s" % (sh_[0], sh_[1][1][-500:]), "command: %s\n" % sh_[2], found_input=False)
            return True
        return False

    # ---- (c) pipe first: it is the one that can take 10 s
    order, why = exec_solver_order()
    ctx.log("exec_solver order: %s (%s)" % (order, why))
    caps = set()
    for sh_ in run_mode(ctx, h, d, "pipe", 1, shards=4, extra=extra, drv_modes=[("pipe", "--order " + order)], timeout=600):
        if crashed(sh_):
            continue
        impl, models, path = sh_
        mm = {c.id: c for c in models[0]}
        for c in impl:
            n_pipe += 1
            got = c.outs[0].split()[0] if c.outs else "<none>"
            dist["pipe " + got] = dist.get("pipe " + got, 0) + 1
            m = re.search(r"cap=(\d+)", c.ins[0])
            if m:
                caps.add(int(m.group(1)))
            if got != "returned":
                ctx.violation("the call to the external solver did not return within 10 s: %s" % c.ins[0], c.text(), found_input=True)
                continue
            mo = mm.get(c.id)
            mv = mo.outs[0] if mo and mo.outs else "<none>"
            if mv != got:
                corr_broken = corr_broken or (c, "Pipe LTS (order %s) says `%s`, the call `%s`" % (order, mv, got))
    if order != "dw" and not ctx.violations:
        ctx.violation("exec_solver waits for the child before draining its stdout (%s): Model.Pipe with WaitThenDrain has a reachable stuck state (C16_wait_then_drain_can_hang)" % why,
                      "order %s\n" % order, found_input=False)

    # ---- (a) the instances
    # one case in three is `dimacs/hist-inproc/*`: the same histories on a BufferedSatSolver driven in-process
    # (crustabri::sat::verif_hooks), whose solving function reads the instance with adversarial buffer sizes
    total = 9000 if ctx.thorough else 1500
    for sh_ in run_mode(ctx, h, d, "dimacs", total, extra=extra):
        if crashed(sh_):
            continue
        impl, models, path = sh_
        mm = {c.id: c for c in models[0]}
        for c in impl:
            if c.kind.endswith("skipped"):
                continue
            kind = "/".join(c.kind.split("/")[:3])
            dist[kind] = dist.get(kind, 0) + 1
            bad, n = oracle_hist(c) if c.kind.startswith("dimacs/hist") else oracle_af(c)
            n_inst += n
            if c.kind.startswith("dimacs/hist-inproc"):
                n_inst_inproc += n
                for e in c.evs:
                    t = e.split()
                    if len(t) >= 3 and t[1] == "read":
                        read_policies[t[2]] = read_policies.get(t[2], 0) + 1
            if n >= 2:
                distinct.add(hash(tuple(c.ins) + tuple(e for e in c.evs if " inst " in e)))
            if bad:
                ctx.violation("ill-formed exchange with the external solver: " + bad, c.text(), found_input=True)
                continue
            if len(samples) < 2 and n >= 1 and c.kind.startswith("dimacs/af"):
                samples.append({"kind": c.kind, "input": c.ins[:6], "events": c.evs[:8]})
            m = mm.get(c.id)
            if m is None:
                corr_broken = corr_broken or (c, "model produced no output")
                continue
            if c.kind.startswith("dimacs/hist"):
                a = sorted(norm_obs(o) for o in c.outs)
                b = sorted(norm_obs(o) for o in m.outs)
            else:
                a = [norm_obs(e) for e in c.evs]
                b = [norm_obs(e) for e in m.evs]
            dd = first_diff(a, b)
            if dd is not None:
                corr_broken = corr_broken or (c, "instance bytes / answers, line %d: impl `%s` model `%s`" % dd)

    # ---- (b) the replies
    # one case in 60 goes through a child process (ExternalSatSolver on `vdpll --print-file`); the others
    # (`reply-inproc/*`) are returned by the solving function of an in-process BufferedSatSolver, in chunks
    total = 120000 if ctx.thorough else 24000
    for sh_ in run_mode(ctx, h, d, "reply", total, extra=extra + " --proc-every 60"):
        if crashed(sh_):
            continue
        impl, models, path = sh_
        mm = {c.id: c for c in models[0]}
        for c in impl:
            n_reply += 1
            if c.kind.startswith("reply-inproc"):
                n_reply_inproc += 1
                for l in c.ins:
                    if l.startswith("delivery "):
                        reply_delivery[l[9:]] = reply_delivery.get(l[9:], 0) + 1
            else:
                n_reply_proc += 1
            got = norm_obs(c.outs[0]) if c.outs else "<none>"
            k = c.kind + " -> " + got[:1].replace("p", "panic")
            dist[k] = dist.get(k, 0) + 1
            distinct.add(hash(tuple(c.ins[:2])))
            bad = oracle_reply(c)
            if bad:
                ctx.violation("solver reply misinterpreted: " + bad, c.text(), found_input=True)
                continue
            if len(samples) < 4 and c.kind in ("reply/truncated", "reply/sat-layout"):
                samples.append({"kind": c.kind, "input": c.ins, "result": c.outs})
            m = mm.get(c.id)
            mv = norm_obs(m.outs[0]) if m and m.outs else "<none>"
            if mv != got:
                corr_broken = corr_broken or (c, "Dimacs.reply_parse says `%s`, BufferedSatSolver `%s`" % (mv, got))

    if corr_broken and not ctx.violations:
        c, why2 = corr_broken
        ctx.violation("correspondence model vs external-solver exchange no longer checks (%s); the oracles found no failing input" % why2,
                      c.text(), found_input=False)
    if not proofs_ok and not ctx.violations:
        bad = [o[0] for o in ctx.obligations if not o[1]]
        ctx.violation("proof obligations not discharged: %s" % ", ".join(bad), "theorems: %s\n" % ", ".join(bad), found_input=False)
    ctx.cov.update({
        "evaluations": n_inst + n_reply + n_pipe,
        "instances_captured": n_inst,
        "replies": n_reply,
        "instances_read_in_process": n_inst_inproc,
        "instance_read_policies": read_policies,
        "replies_in_process": n_reply_inproc,
        "replies_through_a_child_process": n_reply_proc,
        "reply_delivery_policies": reply_delivery,
        "pipe_runs": n_pipe,
        "distinct_nontrivial": len(distinct),
        "rule": "(a) every DIMACS instance received by the external program (driver/vdpll --dump) for incremental histories on ExternalSatSolver and for argumentation queries (CO/ST/PR/SST/STG/ID x SE/DC/DS, all encoders, generated frameworks) run through the external backend: bytes compared with the Coq printer, and read by an independent python DIMACS parser (header variable count >= every variable, exact clause count, clauses = those added so far + one unit per assumption); the strict parser of vdpll must accept (an answer S/U must come back); one case in three (dimacs/hist-inproc) runs the history on an in-process BufferedSatSolver (verif hook) whose solving function reads the DimacsInstanceRead with an adversarial buffer policy per call (1 byte; fixed 2..17; random 1..64 per call; the preamble length, one less, one more; one 1 MiB buffer; zero-length reads interleaved, which must return 0 and consume nothing; a read after end of file must return 0), pipes the bytes it read to vdpll and hands the reply back in chunks (whole, byte by byte, fixed, random): same comparison of the bytes read with the Coq printer, same python parser, same answers as the model. (b) generated replies through the real reader (ExternalSatSolver on `vdpll --print-file`): well-formed layouts (status first/last, any split of v lines, comments, empty lines, bare `v`, CRLF, tabs, `+` signs, UTF-8 comments) must yield the printed model / UNSAT; ill-formed classes (empty, no status, truncated before the 0, garbage line, status only, variable out of bounds, two zeros, two status lines, invalid UTF-8) must yield Unknown or a panic; random byte mutations compared with Dimacs.reply_parse only; one reply in 60 goes through a child process, the others (reply-inproc) are returned by the solving function of an in-process BufferedSatSolver, delivered whole / byte by byte / in fixed or random small chunks, after reading or not reading the instance. (c) stub solvers emitting 0 B ... 4 MiB (8 MiB thorough) of comments before the answer on stdout and 0 B / 1 KiB / 100 KiB / 1 MiB of diagnostics on their standard error stream, reading all / none of stdin, instance below / above the pipe capacity, each call under a 10 s watchdog; outcome compared with Model.Pipe run in the order found in exec_solver's source",
        "samples": samples,
        "distribution": dist,
        "traces_validated_against_impl": n_inst + n_reply + n_pipe,
        "exec_solver_order": order,
        "measured_pipe_capacity": sorted(caps),
        "not_yet_proved": [],
    })
    ctx.assumptions += [
        "OS pipes: finite capacity >= 1 unit, blocking reads/writes, end-of-file when the writing end is closed, write error when the reading end is gone (Model.Pipe); scheduler fairness is not modelled",
        "measured pipe capacity recorded in the evidence; Model.Pipe is compared in units of 1 KiB",
        "the child's behaviour is a finite program of reads and writes (it terminates when not blocked)",
    ]
    ctx.finish()
