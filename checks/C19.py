"""C19 - arguments merged by the equivalence reduction are indistinguishable.

Correspondence: utils::EquivalencyComputer (through its public API) against the extracted
Model/Equiv.v on generated compact frameworks (ICCMA build path, duplicates and self-attacks
included) and on every framework with at most 3 arguments.
Oracle (independent of the model): `driver equiv-spec` judges the IMPLEMENTATION's output against
the brute-force complete extensions of Spec/AF.v (all_exts CO): partition, members of a class in
exactly the same complete extensions, grounded / grounded-defeated arguments together, both maps
total and inverse at the level of classes."""
from lib import *


def parse_out(c):
    """Canonical, order-free reading of the OUT lines of an equiv case (None when not parsable)."""
    d = {}
    for o in c.outs:
        t = o.split(" ")
        d[t[0]] = [x for x in t[1:] if x]
    if "panic" in d or "r2i" not in d:
        return None
    try:
        r2i = {}
        for x in d["r2i"]:
            r, ms = x.split("=")
            r2i[int(r)] = frozenset(int(y) for y in ms.split(",") if y != "")
        i2r = {}
        for x in d["i2r"]:
            a, rl = x.split(">")
            r, l = rl.split(":")
            i2r[int(a)] = (r2i.get(int(r)), int(l))
        rargs = {}
        for x in d["rargs"]:
            r, l = x.split(":")
            rargs[int(r)] = int(l)
        ratts = []
        for x in d["ratts"]:
            a, b = x.split(">")
            ratts.append((r2i.get(int(a)), r2i.get(int(b))))
        return {
            "classes": frozenset(r2i.values()),
            "nclasses": len(r2i),
            "i2r": i2r,
            "labels": {r2i.get(r): l for r, l in rargs.items()},
            "ratts": frozenset(ratts),
            "n_ratts": len(ratts),
            "sizes": d.get("nred"),
        }
    except (ValueError, KeyError):
        return None


def framework_of(c):
    for l in c.ins:
        t = l.split()
        if t and t[0] == "iccma":
            n = int(t[1])
            ids = [int(x) for x in t[2:]]
            return n, list(zip(ids[0::2], ids[1::2]))
    return None


def grounded_classes_verdict(n, atts, parsed):
    """None when the classes of the implementation (parse_out) keep the grounded extension inside ONE class and the
    arguments it defeats inside ONE class; else a description.  Polynomial: usable on frameworks of any size."""
    if parsed is None:
        return None
    attackers = {a: set() for a in range(n)}
    targets = {a: set() for a in range(n)}
    for (a, b) in atts:
        attackers[b].add(a)
        targets[a].add(b)
    G, D = set(), set()
    changed = True
    while changed:
        changed = False
        for a in range(n):
            if a not in G and a not in D and attackers[a] <= D:
                G.add(a)
                D |= targets[a]
                changed = True
    cls = parsed.get("classes") if isinstance(parsed, dict) else None
    if cls is None:
        return None
    for name, S in (("grounded extension", G), ("arguments defeated by the grounded extension", D)):
        if S and not any(S <= c for c in cls):
            return "bad the %s %s is spread over several classes" % (name, sorted(S)[:12])
    return None


def case_text(n, atts, why="minimised"):
    return "CASE 1 equiv\nIN recipe %s\nIN iccma %d %s\nEND\n" % (why, n, " ".join("%d %d" % p for p in atts))


def run_batch(ctx, h, d, frameworks, tag):
    """Runs harness (replay) + oracle + model on a list of (n, atts); returns list of
    (impl case, spec verdict line, model case)."""
    src = os.path.join(ctx.work, tag + ".in")
    cf = os.path.join(ctx.work, tag + ".cases")
    with open(src, "w") as f:
        for n, atts in frameworks:
            f.write(case_text(n, atts))
    rc, out = sh("%s equiv --replay %s --out %s" % (h, src, cf), timeout=300)
    if rc != 0:
        return None
    rc1, spec = sh("%s equiv-spec %s --equiv-max-n 12" % (d, cf), timeout=600)
    rc2, model = sh("%s equiv %s" % (d, cf), timeout=600)
    if rc1 != 0 or rc2 != 0:
        return None
    sp, mp = os.path.join(ctx.work, tag + ".spec"), os.path.join(ctx.work, tag + ".model")
    open(sp, "w").write(spec)
    open(mp, "w").write(model)
    impl, specs, models = parse_cases(cf), parse_cases(sp), parse_cases(mp)
    if not (len(impl) == len(specs) == len(models) == len(frameworks)):
        return None
    return list(zip(impl, specs, models))


def verdict_of(spec_case):
    for o in spec_case.outs:
        if o.startswith("verdict "):
            return o[len("verdict "):]
    return "missing"


def is_bad(impl, spec, model, want_oracle):
    if want_oracle:
        v = verdict_of(spec)
        return v.startswith("bad") or v == "panic"
    return parse_out(impl) != parse_out(model) or any(o.startswith("panic") for o in impl.outs)


def minimise(ctx, h, d, n, atts, want_oracle):
    """Greedy delta-debugging: drop attacks, then drop unused top arguments, while the failure persists."""
    cur_n, cur = n, list(atts)
    for _ in range(40):
        cands = []
        for i in range(len(cur)):
            cands.append((cur_n, cur[:i] + cur[i + 1:]))
        # remove one argument (renumbering the ones above it)
        for a in range(cur_n):
            kept = [(x, y) for (x, y) in cur if x != a and y != a]
            ren = lambda z: z - 1 if z > a else z
            cands.append((cur_n - 1, [(ren(x), ren(y)) for (x, y) in kept]))
        if not cands:
            break
        res = run_batch(ctx, h, d, cands, "shrink")
        if res is None:
            break
        nxt = None
        for (cn, ca), (ic, sc, mc) in zip(cands, res):
            if is_bad(ic, sc, mc, want_oracle):
                nxt = (cn, ca)
                break
        if nxt is None:
            break
        cur_n, cur = nxt
    return cur_n, cur


def main(ctx):
    proofs_ok = check_proofs(ctx)
    h = build_harness(ctx)
    d = build_driver(ctx)
    if not h or not d:
        ctx.violation("build of harness/driver failed (cannot tie the model to /repo)", "build failure\n", found_input=False)
        ctx.finish()
    max_oracle_n = 12 if ctx.thorough else 10
    total = 60000 if ctx.thorough else 24000
    drv = [("equiv", ""), ("equiv-spec", "--equiv-max-n %d" % max_oracle_n)]
    runs = [("random", run_mode(ctx, h, d, "equiv", total, drv_modes=drv, tag="equiv")),
            ("exhaustive", run_mode(ctx, h, d, "equiv", 0, extra="--exhaustive %d" % (4 if ctx.thorough else 3),
                                    drv_modes=drv, tag="equiv-ex", timeout=900))]
    n_cases = n_oracle = n_skipped = n_order_only = n_search = n_grounded_judged = 0
    distinct, distinct_nontrivial = set(), set()
    recipes, sizes, merged_hist, feats = {}, {}, {}, {"duplicate_attack_lines": 0, "self_attack": 0, "several_classes_merged": 0,
                                                        "grounded_nonempty": 0, "grounded_defeated_nonempty": 0}
    samples = []
    oracle_bad = []      # (why, case)
    corr_broken = []     # (why, case)
    for kind, shards in runs:
        for sh_ in shards:
            if isinstance(sh_[0], str):
                ctx.violation("%s: %s" % (sh_[0], sh_[1][1][-500:]), "command: %s\n" % sh_[2], found_input=False)
                continue
            impl, (model, spec), path = sh_
            mm = {c.id: c for c in model}
            ss = {c.id: c for c in spec}
            for c in impl:
                n_cases += 1
                fw = framework_of(c)
                if fw is None:
                    corr_broken.append(("case without framework", c))
                    continue
                n, atts = fw
                key = (n, tuple(sorted(atts)))
                distinct.add(key)
                for l in c.ins:
                    if l.startswith("recipe "):
                        recipes[l[7:]] = recipes.get(l[7:], 0) + 1
                sizes[n] = sizes.get(n, 0) + 1
                if len(set(atts)) != len(atts):
                    feats["duplicate_attack_lines"] += 1
                if any(a == b for a, b in atts):
                    feats["self_attack"] += 1
                # (a) the oracle on the implementation's own output
                sc = ss.get(c.id)
                v = verdict_of(sc) if sc is not None else "missing"
                if v == "ok":
                    n_oracle += 1
                    st = {}
                    for o in sc.outs:
                        if o.startswith("spec "):
                            st = dict(x.split("=") for x in o.split()[1:])
                    mg = int(st.get("merged", 0))
                    merged_hist[mg] = merged_hist.get(mg, 0) + 1
                    if mg >= 1:
                        distinct_nontrivial.add(key)
                    if mg >= 2:
                        feats["several_classes_merged"] += 1
                    if int(st.get("grounded", 0)) > 0:
                        feats["grounded_nonempty"] += 1
                    if int(st.get("defeated", 0)) > 0:
                        feats["grounded_defeated_nonempty"] += 1
                    if mg >= 2 and len(samples) < 3 and n <= 8:
                        samples.append({"framework": [l for l in c.ins if l.startswith("iccma")][0], "impl_output": c.outs,
                                        "oracle": sc.outs})
                elif v == "skipped-too-large":
                    n_skipped += 1
                    # polynomial part of the oracle, for any size: "all arguments of the grounded extension together,
                    # and all arguments it defeats together"
                    gv = grounded_classes_verdict(n, atts, parse_out(c))
                    if gv is not None:
                        oracle_bad.append(("oracle (grounded classes, any size) on the implementation's output: %s" % gv, c))
                        continue
                    n_grounded_judged += 1
                elif v == "panic":
                    oracle_bad.append(("the reducer panics on a compact framework: %s" % " ".join(c.outs)[:200], c))
                    continue
                else:
                    oracle_bad.append(("oracle (all_exts CO) on the implementation's output: %s" % v, c))
                    continue
                # (b) implementation against the extracted model
                m = mm.get(c.id)
                if m is None:
                    corr_broken.append(("model produced no output for the case", c))
                    continue
                if c.outs != m.outs:
                    pi, pm = parse_out(c), parse_out(m)
                    if pi is None or pm is None or pi != pm:
                        dd = first_diff(c.outs, m.outs)
                        corr_broken.append(("line %d: impl `%s` model `%s`" % dd, c))
                    else:
                        n_order_only += 1
    # the correspondence broke but the oracle accepted every generated case: search for a failing input with
    # fresh seeds (the oracle alone judges; only frameworks small enough for all_exts CO are useful)
    if corr_broken and not oracle_bad:
        for rnd in range(1, 9 if ctx.thorough else 7):
            found = False
            for sh_ in run_mode(ctx, h, d, "equiv", 2 * total, drv_modes=drv, tag="equiv-search", seed_offset=100 + rnd):
                if isinstance(sh_[0], str):
                    continue
                impl, (model, spec), path = sh_
                ss = {c.id: c for c in spec}
                for c in impl:
                    n_search += 1
                    sc = ss.get(c.id)
                    v = verdict_of(sc) if sc is not None else "missing"
                    if v.startswith("bad") or v == "panic":
                        oracle_bad.append(("oracle (all_exts CO) on the implementation's output: %s" % v, c))
                        found = True
                        break
                if found:
                    break
            if found:
                break
    # report: minimised failing inputs first
    for why, c in oracle_bad[:3]:
        n, atts = framework_of(c)
        mn, ma = minimise(ctx, h, d, n, atts, True)
        res = run_batch(ctx, h, d, [(mn, ma)], "final")
        txt = res[0][0].text() + "".join("# oracle: %s\n" % o for o in res[0][1].outs) if res else case_text(mn, ma)
        if res and verdict_of(res[0][1]).startswith(("bad", "panic")):
            why = "oracle (all_exts CO) on the implementation's output: %s" % verdict_of(res[0][1])
        ctx.violation(why, txt + "# original case:\n" + "".join("# " + l + "\n" for l in c.text().splitlines()), found_input=True)
    if corr_broken and not ctx.violations:
        why, c = corr_broken[0]
        fw = framework_of(c)
        txt = c.text()
        if fw is not None:
            mn, ma = minimise(ctx, h, d, fw[0], fw[1], False)
            res = run_batch(ctx, h, d, [(mn, ma)], "final")
            if res and is_bad(res[0][0], res[0][1], res[0][2], False):
                dd = first_diff(res[0][0].outs, res[0][2].outs)
                why = "line %d: impl `%s` model `%s`" % dd if dd else why
                txt = res[0][0].text() + "".join("# model: %s\n" % o for o in res[0][2].outs) + "".join("# oracle: %s\n" % o for o in res[0][1].outs)
        ctx.violation("correspondence Model.Equiv vs EquivalencyComputer no longer checks (%s; %d cases differ); the all_exts CO oracle accepts the implementation's output on every generated case"
                      % (why, len(corr_broken)), txt, found_input=False)
    if not proofs_ok and not ctx.violations:
        bad = [o[0] for o in ctx.obligations if not o[1]]
        ctx.violation("proof obligations not discharged: %s" % ", ".join(bad), "theorems: %s\n" % ", ".join(bad), found_input=False)
    ctx.cov.update({
        "evaluations": n_cases,
        "search_cases_after_broken_correspondence": n_search,
        "large_cases_judged_by_the_grounded_class_oracle": n_grounded_judged,
        "oracle_evaluations": n_oracle,
        "oracle_skipped_too_large": n_skipped,
        "distinct_frameworks": len(distinct),
        "distinct_nontrivial": len(distinct_nontrivial),
        "order_only_differences": n_order_only,
        "rule": "compact frameworks through the ICCMA reader (duplicated attack lines kept): 25%% planted shapes (chain into even cycle, one-way implication, even cycle with tail, grounded hierarchy, defeated self-attacker, pair-chain-pair, pair with tails; randomly renumbered), 67%% recipes of gen.rs (components, cycles, self-attackers, random densities, several components), 8%% larger sparse graphs (n 12-%d, correspondence only); 1/4 with duplicated lines, 1/4 shuffled; plus EVERY framework with n <= %d. Each case: implementation output compared with the extracted Model/Equiv.v (exact, or equal up to class order) and judged by the all_exts CO oracle when n <= %d. non-trivial = at least one class with >= 2 members (measured on the implementation's output); distinct = distinct (n, attack multiset)"
                % (60 if ctx.thorough else 30, 4 if ctx.thorough else 3, max_oracle_n),
        "samples": samples,
        "distribution": {"recipes": recipes, "n": {str(k): v for k, v in sorted(sizes.items())},
                         "merged_classes": {str(k): v for k, v in sorted(merged_hist.items())}, "features": feats},
        "traces_validated_against_impl": n_cases,
    })
    ctx.assumptions += ["labels are usize (ICCMA reader: label = id + 1); Model/Equiv.v is parametric in the label function",
                        "the boolean vectors in_propagated / in_defeated of propagate are modelled by membership in the vectors they mirror",
                        "EqClass variants are private: the harness observes classes through reduced_arg_to_init_args only (the GroundedDefeated class is visible through the attacks it does not contribute to the reduced framework)"]
    ctx.finish()


def replay(ctx, path):
    h = build_harness(ctx)
    d = build_driver(ctx)
    fws = [framework_of(c) for c in parse_cases(path)]
    fws = [f for f in fws if f is not None]
    res = run_batch(ctx, h, d, fws, "replay") or []
    for ic, sc, mc in res:
        print(ic.text(), end="")
        print("model : " + " | ".join(mc.outs))
        print("oracle: " + " | ".join(sc.outs))
