"""C15 - SAT solver objects honour the incremental solving contract."""
from lib import *
from sat_common import *


def solves_of(c, tag):
    """index -> observation string, for the OUT lines `<tag> <i> <obs...>`"""
    d = {}
    for o in c.outs:
        t = o.split(" ", 2)
        if t[0] == tag and len(t) >= 2:
            d[int(t[1])] = norm_obs(t[2] if len(t) > 2 else "")
    return d


def oracle_case(c, stats):
    """The contract itself, evaluated in python on the implementation's observations.
    Returns None or a description of the violation."""
    ops = parse_ops(c.ins)
    obs = {"cad": solves_of(c, "cad"), "ext": solves_of(c, "ext")}
    sh = Shadow()
    for i, op in enumerate(ops):
        sh.apply(op)
        for be in ("cad", "ext"):
            o = obs[be].get(i)
            if o is None:
                return "%s: no observation for operation %d (%s)" % (be, i, op[0])
            if o == "panic":
                return "%s: operation %d (%s) panicked" % (be, i, op[0])
            if op[0] == "nv":
                if o != "nv %d" % sh.n_vars:
                    return "%s: n_vars after operation %d is `%s`, the declared variables are 1..%d" % (be, i, o, sh.n_vars)
            elif op[0] == "solve":
                a = op[1]
                if o.startswith("S "):
                    stats["sat"] += 1
                    m = bits_to_model(o[2:])
                    if len(m) != sh.n_vars:
                        return "%s: solve %d returned an assignment over %d variables, %d are declared" % (be, i, len(m), sh.n_vars)
                    bad = model_ok(m, sh.clauses, a)
                    if bad:
                        return "%s: model of solve %d (assumptions %s): %s" % (be, i, a, bad)
                elif o == "U":
                    stats["unsat"] += 1
                    w = brute_force_model(sh.clauses, a)
                    if w == "skipped":
                        stats["unsat_unconfirmed"] += 1
                    elif w is not None:
                        return "%s: solve %d (assumptions %s) reported unsatisfiable, but %s is a model" % (be, i, a, w)
                else:
                    return "%s: solve %d is undecided (`%s`)" % (be, i, o)
        if op[0] == "solve":
            vc, ve = obs["cad"][i][:1], obs["ext"][i][:1]
            if vc != ve:
                return "solve %d: embedded solver says %s, external solver says %s" % (i, vc, ve)
    return None


def main(ctx):
    proofs_ok = check_proofs(ctx, extra_props=("C15glue",))
    h = build_harness(ctx)
    d = build_driver(ctx)
    if not h or not d:
        ctx.violation("build of harness/driver failed (cannot tie the model to /repo)", "build failure\n", found_input=False)
        ctx.finish()
    vdpll = os.path.join(DRIVER, "vdpll")
    tmp = os.path.join(ctx.work, "tmp")
    total = 12000 if ctx.thorough else 2400
    shards = run_mode(ctx, h, d, "satobj", total, extra="--vdpll %s --tmp %s" % (vdpll, tmp))
    stats = {"sat": 0, "unsat": 0, "unsat_unconfirmed": 0}
    n_cases = n_solves = 0
    recipes, distinct, samples = {}, set(), []
    corr_broken = None
    cadd_diff = 0
    for sh_ in shards:
        if isinstance(sh_[0], str):
            ctx.violation("%s: %s" % (sh_[0], sh_[1][1][-500:]), "command: %s\n" % sh_[2], found_input=False)
            continue
        impl, models, path = sh_
        mm = {c.id: c for c in models[0]}
        for c in impl:
            n_cases += 1
            recipes[c.kind] = recipes.get(c.kind, 0) + 1
            ops = parse_ops(c.ins)
            ns = sum(1 for o in ops if is_solve(o))
            n_solves += 2 * ns
            outs = [norm_obs(o) for o in c.outs]
            verdicts = {o.split(" ", 2)[2][:1] for o in outs if o.startswith("cad ") and o.split(" ", 2)[2][:1] in ("S", "U")}
            if len(verdicts) == 2:
                distinct.add(hash(tuple(c.ins)))
            if len(samples) < 3 and ns >= 2:
                samples.append({"history": c.ins[:14], "observations": c.outs[:14]})
            # (a) the contract, independently of the model
            bad = oracle_case(c, stats)
            if bad:
                ctx.violation("solver object breaks the incremental contract: " + bad, c.text(), found_input=True)
                continue
            # (b) implementation against the Coq model of both objects
            m = mm.get(c.id)
            if m is None:
                corr_broken = corr_broken or (c, "model produced no output for the case")
                continue
            for tag in ("cad", "ext"):
                dd = first_diff([o for o in outs if o.startswith(tag + " ")],
                                [norm_obs(o) for o in m.outs if o.startswith(tag + " ")])
                if dd is not None:
                    corr_broken = corr_broken or (c, "%s line %d: impl `%s` model `%s`" % ((tag,) + dd))
            # CaDiCaL's verdicts against the verified reference solver behind the same wrapper
            vi = [o.split(" ")[1] + " " + o.split(" ", 2)[2][:1] for o in outs if o.startswith("cad ") and o.split(" ", 2)[2][:1] in ("S", "U", "X")]
            vm = [o.split(" ", 1)[1] for o in m.outs if o.startswith("cadd ")]
            if vi != vm:
                cadd_diff += 1
                ctx.violation("CaDiCaL's verdicts differ from the verified reference solver's: impl %s reference %s" % (vi, vm), c.text(), found_input=True)
    if corr_broken and not ctx.violations:
        c, why = corr_broken
        ctx.violation("correspondence Model.SatObjects vs CadicalSolver/ExternalSatSolver no longer checks (%s); the contract oracle found no failing history" % why,
                      c.text(), found_input=False)
    if not proofs_ok and not ctx.violations:
        bad = [o[0] for o in ctx.obligations if not o[1]]
        ctx.violation("proof obligations not discharged: %s" % ", ".join(bad), "theorems: %s\n" % ", ".join(bad), found_input=False)
    ctx.cov.update({
        "evaluations": n_solves,
        "histories": n_cases,
        "distinct_nontrivial": len(distinct),
        "rule": "incremental histories of add_clause / reserve / solve / solve_under_assumptions / n_vars (recipes: random, random-dense, empty clause lists, unit chains, unused reserved variables, assumptions on unseen variables, alternating SAT/UNSAT, pigeonhole, duplicate/tautological/empty clauses) run on CadicalSolver and on ExternalSatSolver(driver/vdpll); every Sat model evaluated in python against all clauses so far and the assumptions of that call, its length compared with the declared variable count; every Unsat confirmed by exhaustive search (<= 20 variables); n_vars values; verdict equality across the two backends; both objects compared observation by observation with the extracted Coq models (CadicalSolver: backend answers as oracle; ExternalSatSolver: full prediction incl. the model bits); non-trivial = history with both a Sat and an Unsat verdict; distinct = distinct operation lists",
        "samples": samples,
        "distribution": {"recipes": recipes, "answers": stats},
        "traces_validated_against_impl": n_cases,
        "unsat_unconfirmed": stats["unsat_unconfirmed"],
        "not_yet_proved": ["validity of CaDiCaL's answers (C++ code; validated per run, see assumptions)"],
    })
    ctx.assumptions += [
        "CaDiCaL's answers are valid (validated on every run against the contract and the verified reference solver, never proved)",
        "the external solver program of this check is driver/vdpll = extracted Dpll.solve_n + Dimacs.parse_instance + Dimacs.print_reply (proved), OCaml glue trusted",
        "literals and variable counts fit i32/usize (CadicalSolver casts isize -> i32)",
    ]
    ctx.finish()
