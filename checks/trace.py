"""Canonical form of recorded SAT traces (EV lines) and outcomes, shared by the solver properties."""


def canon_clause_tokens(toks):
    return sorted(set(int(x) for x in toks))


def canon_events(evs):
    """evs: list of 'k kind ...' strings.  Literals inside a clause are sorted and de-duplicated, the
    events between two consecutive solves are sorted (set of clauses; reserve / n_vars kept with their
    values), assumption lists are sorted.  Everything else is order-sensitive."""
    out, buf = [], []

    def flush():
        out.extend(sorted(set(buf)))
        del buf[:]

    for e in evs:
        t = e.split()
        if len(t) < 2:
            continue
        k, kind = t[0], t[1]
        if kind == "cl":
            buf.append("%s cl %s" % (k, " ".join(map(str, canon_clause_tokens(t[2:])))))
        elif kind == "solve":
            flush()
            i = t.index("=>")
            out.append("%s solve %s => %s" % (k, " ".join(map(str, sorted(int(x) for x in t[2:i]))), " ".join(t[i + 1:])))
        elif kind == "new":
            flush()
            out.append(e)
        else:
            buf.append(e)
    flush()
    return out


def n_solves(evs):
    return sum(1 for e in evs if " solve " in e)


def parse_outcome(line):
    """-> dict(kind, status, ext(list of 'id:label') or None, raw)"""
    t = line.split()
    if not t:
        return {"kind": "empty"}
    if t[0] == "ext":
        return {"kind": "ext", "ext": t[1:]}
    if t[0] == "noext":
        return {"kind": "noext"}
    if t[0] == "acc":
        d = {"kind": "acc", "status": t[1]}
        d["ext"] = t[3:] if t[2] == "cert" else None
        return d
    if t[0] == "panic":
        return {"kind": "panic", "msg": " ".join(t[1:])}
    return {"kind": t[0]}


def canon_outcome(line):
    o = parse_outcome(line)
    if o.get("ext") is not None:
        o["ext"] = sorted(set(o["ext"]))
    if o["kind"] == "panic":
        o["msg"] = ""
    return o


def has_dup(line):
    o = parse_outcome(line)
    e = o.get("ext")
    return e is not None and len(e) != len(set(e))
