"""C11 - statuses are invariant under presentation and local to components."""
from lib import *

PROBS = ["GR-DC", "GR-DS", "CO-DC", "ST-DC", "ST-DS", "PR-DS", "SST-DC", "SST-DS", "STG-DC", "STG-DS", "ID-DC", "ID-DS"]
PROBS_LARGE = PROBS[:6]


def check_case(c):
    """-> list of (what) violations for one metamorphic case."""
    bad = []
    large = c.kind.endswith("large")
    probs = PROBS_LARGE if large else PROBS
    rows = {"orig": {}, "ren": {}, "dup": {}, "uni": {}}
    se = {}
    unist = None
    for o in c.outs:
        t = o.split()
        if t[0] in rows:
            rows[t[0]][t[1]] = t[2]
        elif t[0] == "se":
            se[t[1]] = None if t[2] == "none" else (set(t[3:]) if t[2] == "ext" else "?")
        elif t[0] == "unist":
            unist = t[1] == "1"
    for l, r in rows["orig"].items():
        if "P" in r or "?" in r:
            bad.append("query aborted on the original presentation (argument %s: %s)" % (l, r))
            continue
        d = dict(zip(probs, r))
        for k in ("ren", "dup"):
            r2 = rows[k].get(l)
            if r2 is not None and r2 != r:
                i = [j for j in range(len(r)) if r[j] != r2[j]][0]
                bad.append("%s of argument %s changes under %s: %s -> %s" % (probs[i], l, {"ren": "renaming/reordering", "dup": "repeating/reordering attack lines"}[k], r[i], r2[i]))
        r3 = rows["uni"].get(l)
        if r3 is not None:
            for j, p in enumerate(probs):
                exp = r[j]
                if p.startswith("ST-") and unist is False:
                    exp = "Y" if p == "ST-DS" else "N"
                if r3[j] != exp:
                    bad.append("%s of argument %s is %s after adding an unrelated component (%s a stable extension), expected %s"
                               % (p, l, r3[j], "with" if unist else "without", exp))
        # cross-semantics consistency
        if d["GR-DC"] != d["GR-DS"]:
            bad.append("GR: DC and DS differ for argument %s" % l)
        if not large:
            if d["ID-DC"] != d["ID-DS"]:
                bad.append("ID: DC and DS differ for argument %s" % l)
            if d["GR-DC"] == "Y" and d["ID-DC"] != "Y":
                bad.append("argument %s is grounded but not in the ideal extension" % l)
            if d["ID-DC"] == "Y" and d["PR-DS"] != "Y":
                bad.append("argument %s is in the ideal extension but not skeptically preferred-accepted" % l)
            for s in ("SST", "STG"):
                if d[s + "-DS"] == "Y" and d[s + "-DC"] != "Y":
                    bad.append("%s: argument %s skeptically but not credulously accepted" % (s, l))
            if se.get("ST") is not None:
                for s in ("SST", "STG"):
                    if d[s + "-DC"] != d["ST-DC"] or d[s + "-DS"] != d["ST-DS"]:
                        bad.append("a stable extension exists but %s and ST statuses differ for argument %s" % (s, l))
        if d["PR-DS"] == "Y" and d["CO-DC"] != "Y":
            bad.append("argument %s skeptically preferred-accepted but not credulously complete-accepted" % l)
        if d["GR-DC"] == "Y" and d["PR-DS"] != "Y":
            bad.append("argument %s grounded but not skeptically preferred-accepted" % l)
        if se.get("ST") is not None and d["ST-DS"] == "Y" and d["ST-DC"] != "Y":
            bad.append("ST: argument %s skeptically but not credulously accepted although a stable extension exists" % l)
        if se.get("ST", 0) is None and (d["ST-DS"] != "Y" or d["ST-DC"] != "N"):
            bad.append("no stable extension but ST statuses of argument %s are DC=%s DS=%s" % (l, d["ST-DC"], d["ST-DS"]))
    if not large and isinstance(se.get("GR"), set) and isinstance(se.get("ID"), set) and isinstance(se.get("PR"), set):
        if not (se["GR"] <= se["ID"] <= se["PR"]):
            bad.append("single extensions: GR within ID within PR violated (GR=%s ID=%s PR=%s)" % (sorted(se["GR"]), sorted(se["ID"]), sorted(se["PR"])))
    return bad


def main(ctx):
    proofs_ok = check_proofs(ctx)
    h = build_harness(ctx)
    if not h:
        ctx.violation("build of the harness failed (cannot tie the model to /repo)", "build failure\n", found_input=False)
        ctx.finish()
    runs = [("small", 4000 if ctx.thorough else 480, ""), ("large", 320 if ctx.thorough else 48, " --large")]
    n_cases = n_rows = 0
    sizes = {}
    distinct = set()
    samples = []
    for tag, total, extra in runs:
        per = max(1, total // NCPU)
        cmds, files = [], []
        for s in range(NCPU):
            cf = os.path.join(ctx.work, "meta.%s.%d.cases" % (tag, s))
            files.append(cf)
            cmds.append("%s meta --seed %d --count %d --tier %s --out %s --shard %d/%d%s"
                        % (h, (ctx.seed * 1000003 + s * 101 + (29 if tag == "small" else 31)) % (2 ** 62), per, ctx.tier, cf, s, NCPU, extra))
        res = run_parallel(cmds, 2400)
        for s, cf in enumerate(files):
            if res[s][0] != 0 or not os.path.exists(cf):
                ctx.violation("harness failed: %s" % res[s][1][-400:], "command: %s\n" % cmds[s], found_input=False)
                continue
            for c in parse_cases(cf):
                n_cases += 1
                n = int(c.ins[0].split()[1]) if c.ins else 0
                b = "%d-%d" % (10 * (n // 10), 10 * (n // 10) + 9) if n >= 10 else "0-9"
                sizes[b] = sizes.get(b, 0) + 1
                n_rows += sum(1 for o in c.outs if o.split()[0] in ("orig", "ren", "dup", "uni"))
                if len(c.ins[0].split()) > 2:
                    distinct.add(hash(c.ins[0]))
                if len(samples) < 2 and tag == "small" and n >= 3:
                    samples.append({"graph": c.ins[0], "lines": c.outs[:4] + [o for o in c.outs if o.startswith(("ren", "uni"))][:3]})
                for what in check_case(c):
                    ctx.violation(what, c.text(), found_input=True, key=what.split(" of argument")[0][:60])
    if not proofs_ok and not ctx.violations:
        bad = [o[0] for o in ctx.obligations if not o[1]]
        ctx.violation("proof obligations not discharged: %s" % ", ".join(bad), "theorems: %s\n" % ", ".join(bad), found_input=False)
    ctx.cov.update({
        "evaluations": n_rows,
        "distinct_nontrivial": len(distinct),
        "rule": "metamorphic runs of the real solvers: each generated attack graph (small: <= 7/8 arguments, all 12 acceptance problems on every argument + the six single-extension problems; large: 20-120/300 arguments, GR/CO/ST/PR problems on 5 arguments) is presented (1) as is, (2) with arguments renamed and all declarations reordered, (3) through the ICCMA reader with attack lines reordered and repeated, (4) in disjoint union with an unrelated framework with or without a stable extension; statuses must be equal (with the ST corner rule) and mutually consistent across semantics (GR within ID within PR, skeptical implies credulous, ST = SST = STG when a stable extension exists); encoders drawn at random per query | non-trivial = graph with at least one attack; distinct = distinct graphs",
        "samples": samples,
        "distribution": {"graphs": n_cases, "status_rows": n_rows, "sizes": sizes},
        "traces_validated_against_impl": n_cases,
    })
    ctx.assumptions += ["the invariance / locality / consistency theorems of Properties/C11.v are about the semantics (cred, skep, ext) for frameworks of any size; they transfer to the solvers through C02/C03, whose Coq proofs are complete only for part of the solvers so far; the metamorphic runs are the tie for the rest",
                        "large frameworks (20-300 arguments) are replayed on Model.Solvers by the --large runs of checks C01-C03"]
    ctx.finish()
