(* cli mode (C05): judges what the two command-line tools printed (harness mode `cli`).
   Two independent parts per case:
   (1) the implementation-level oracle, which does NOT use the model: answer grammar derived from
       src/io/{specs,iccma23_writer,aspartix_writer}.rs, exit status, and the brute-force semantics
       (AF.all_exts extracted from Spec.AF) for status and witness;
   (2) the prediction of Model.Cli (`OUT model ...`): exit class and stdout bytes computed by the
       extracted model from the argv tokens and the abstract instance, with a small complete DPLL
       procedure (below, OCaml, not trusted by any proof) as SAT oracle.  The status line is
       compared byte for byte by checks/C05.py, the witness line is validated by (1). *)
open Dcommon
open Datatypes

let max_n = ref 9
module L = Stdlib.List
module S = Stdlib.String

let bytes_of_hex (h : string) : string =
  if h = "-" then ""
  else S.init (S.length h / 2) (fun i -> Char.chr (int_of_string ("0x" ^ S.sub h (2 * i) 2)))
let hex_of_bytes (s : string) : string =
  if s = "" then "-" else S.concat "" (L.map (fun c -> Printf.sprintf "%02x" (Char.code c)) (L.of_seq (S.to_seq s)))

let in_line (c : case) (tag : string) : string list option =
  L.fold_left (fun acc toks -> match acc, toks with
      | None, t :: r when t = tag -> Some r
      | _ -> acc) None (ins c)
let out_line (c : case) (tag : string) : string list option =
  L.fold_left (fun acc (t, toks) -> match acc, t, toks with
      | None, "OUT", h :: r when h = tag -> Some r
      | _ -> acc) None c.lines

(* ------------------------------------------------------------------ answer grammar *)
let split_lines (s : string) : string list * bool =
  (* lines without their terminator; the boolean says whether the last line was terminated *)
  if s = "" then ([], true)
  else
    let parts = S.split_on_char '\n' s in
    let rec drop_last = function [] -> [] | [ _ ] -> [] | x :: r -> x :: drop_last r in
    if s.[S.length s - 1] = '\n' then (drop_last parts, true) else (parts, false)

let starts_with p s = S.length s >= S.length p && S.sub s 0 (S.length p) = p

let is_log_line l = starts_with "![" l
(* a line that could be taken for an answer by a reader of the competition format *)
let answer_looking (l : string) : bool =
  let l = if l <> "" && l.[S.length l - 1] = '\r' then S.sub l 0 (S.length l - 1) else l in
  l = "YES" || l = "NO"
  || (l <> "" && l.[0] = 'w' && (S.length l = 1 || l.[1] = ' ' || l.[1] = '\t'))
  || (l <> "" && l.[0] = '[')

let strip_log_lines (s : string) : string =
  let lines, term = split_lines s in
  let kept = L.filter (fun l -> not (is_log_line l)) lines in
  (* a log line is always terminated; keep the terminator state of the answer part *)
  if kept = [] then ""
  else S.concat "\n" kept ^ (if term || (match L.rev lines with l :: _ -> is_log_line l | [] -> false) then "\n" else "")

let all_digits t = t <> "" && L.for_all (fun ch -> ch >= '0' && ch <= '9') (L.of_seq (S.to_seq t))

(* witness line -> argument ids *)
let parse_witness (fmt : string) (labels : string list) (line : string) : (int list, string) result =
  let n = L.length labels in
  if fmt = "iccma" then begin
    if not (starts_with "w" line) then Error "witness-line-does-not-start-with-w"
    else
      let rest = S.sub line 1 (S.length line - 1) in
      if rest = "" then Ok []
      else if rest.[0] <> ' ' then Error "witness-line-malformed"
      else
        let toks = S.split_on_char ' ' (S.sub rest 1 (S.length rest - 1)) in
        if not (L.for_all all_digits toks) then Error "witness-line-malformed-token"
        else if L.exists (fun t -> S.length t > 1 && t.[0] = '0') toks then Error "witness-label-not-canonical"
        else
          let vs = L.map (fun t -> if S.length t > 9 then max_int else int_of_string t) toks in
          if L.exists (fun v -> v < 1 || v > n) vs then Error "witness-names-an-unknown-argument"
          else Ok (L.map (fun v -> v - 1) vs)
  end else begin
    let len = S.length line in
    if len < 2 || line.[0] <> '[' || line.[len - 1] <> ']' then Error "witness-line-not-bracketed"
    else
      let inner = S.sub line 1 (len - 2) in
      if inner = "" then Ok []
      else
        let toks = S.split_on_char ',' inner in
        let idx t = let rec go i = function [] -> -1 | l :: r -> if l = t then i else go (i + 1) r in go 0 labels in
        let ids = L.map idx toks in
        if L.exists (fun i -> i < 0) ids then Error "witness-names-an-unknown-argument" else Ok ids
  end

type parsed = { status : bool option; none : bool; witness : int list option }

(* the whole stdout of a well-formed invocation *)
let parse_stdout (q : string) (fmt : string) (labels : string list) (s : string) : (parsed, string) result =
  let lines, term = split_lines s in
  if not term then Error "last-line-not-terminated"
  else
    let wit l = parse_witness fmt labels l in
    match q, lines with
    | _, [] -> Error "no-output"
    | "SE", [ "NO" ] -> Ok { status = None; none = true; witness = None }
    | "SE", [ l ] -> (match wit l with Ok w -> Ok { status = None; none = false; witness = Some w } | Error e -> Error e)
    | "SE", _ -> Error "more-than-one-line-for-SE"
    | _, st :: rest when st = "YES" || st = "NO" -> (
        match rest with
        | [] -> Ok { status = Some (st = "YES"); none = false; witness = None }
        | [ l ] -> (match wit l with Ok w -> Ok { status = Some (st = "YES"); none = false; witness = Some w } | Error e -> Error e)
        | _ -> Error "more-than-two-lines")
    | _, _ -> Error "first-line-is-not-a-status"

(* ------------------------------------------------------------------ brute-force semantics *)
let cache : (string, nat list list) Hashtbl.t = Hashtbl.create 64

let instance_of (c : case) : (string * int * (int * int) list * string list) option =
  match in_line c "fmt", in_line c "labels" with
  | Some [ fmt ], labels -> (
      let labels = match labels with Some l -> l | None -> [] in
      (* a label with non-ASCII characters is written hex:<hex of its UTF-8 bytes> *)
      let labels = L.map (fun l -> if starts_with "hex:" l then bytes_of_hex (S.sub l 4 (S.length l - 4)) else l) labels in
      match in_line c fmt with
      | Some (n :: rest) ->
          Some (fmt, int_of_string n, L.map (fun (a, b) -> (int_of_string a, int_of_string b)) (pairs_of rest), labels)
      | _ -> None)
  | _ -> None

let af_of n atts : AF.af =
  { AF.args = L.init n nat_of_int; AF.atts = L.map (fun (a, b) -> (nat_of_int a, nat_of_int b)) atts }

let exts_cached (key : string) sem fa =
  match Hashtbl.find_opt cache key with
  | Some l -> l
  | None -> let l = AF.all_exts sem fa in Hashtbl.replace cache key l; l

let mem_nat a l = L.exists (fun b -> b = a) l
let same_set a b = L.for_all (fun x -> mem_nat x b) a && L.for_all (fun x -> mem_nat x a) b

let queries = [ "SE"; "DC"; "DS" ]
let sems = [ "GR"; "CO"; "PR"; "ST"; "SST"; "STG"; "ID" ]
let problems_expected = "[" ^ S.concat "," (L.concat_map (fun s -> L.map (fun q -> q ^ "-" ^ s) queries) sems) ^ "]\n"

(* the driver's own reading of a problem string (independent of Model.Cli) *)
let split_problem (p : string) : (string * string) option =
  match S.index_opt p '-' with
  | None -> None
  | Some i ->
      let q = S.uppercase_ascii (S.sub p 0 i) and s = S.uppercase_ascii (S.sub p (i + 1) (S.length p - i - 1)) in
      if L.mem q queries && L.mem s sems then Some (q, s) else None

let opt_value (c : case) (key : string) : string =
  match in_line c "opts" with
  | Some l ->
      L.fold_left (fun acc kv -> match S.index_opt kv '=' with
          | Some i when S.sub kv 0 i = key -> S.sub kv (i + 1) (S.length kv - i - 1)
          | _ -> acc) "-" l
  | None -> "-"

let class_is_ok (c : case) = (match in_line c "class" with Some [ k ] -> k = "ok" | _ -> false)
let exit_of (c : case) = match out_line c "exit" with Some [ e ] -> e | _ -> "?"
let stdout_of (c : case) = match out_line c "stdout" with Some [ h ] -> bytes_of_hex h | _ -> ""

let judge_ok (c : case) : string =
  match instance_of c, in_line c "problem", in_line c "arg" with
  | Some (fmt, n, atts, labels), Some [ ph ], Some [ ah ] -> (
      let problem = bytes_of_hex ph in
      match split_problem problem with
      | None -> "bad harness-gave-an-unknown-problem"
      | Some (q, semname) ->
          let ex = exit_of c in
          let logging = opt_value c "logging" in
          let cert = opt_value c "cert" = "1" in
          let raw = stdout_of c in
          let s = if logging = "off" then raw else strip_log_lines raw in
          if ex <> "0" then Printf.sprintf "bad exit-status-%s-on-a-well-formed-invocation" ex
          else (
            match parse_stdout q fmt labels s with
            | Error e -> "bad grammar:" ^ e
            | Ok p ->
                if n > !max_n then "skipped-too-large"
                else
                  let fa = af_of n atts in
                  let sem = D_static.sem_of semname in
                  let key = semname ^ "|" ^ S.concat " " (L.concat_map (fun (a, b) -> [ string_of_int a; string_of_int b ]) atts) ^ "|" ^ string_of_int n in
                  let exts = exts_cached key sem fa in
                  let arg_id =
                    if ah = "none" then None
                    else
                      let a = bytes_of_hex ah in
                      let rec go i = function [] -> None | l :: r -> if l = a then Some i else go (i + 1) r in
                      go 0 labels in
                  let wit_ok (w : int list) : string option =
                    let wn = L.map nat_of_int w in
                    if L.length (L.sort_uniq compare w) <> L.length w then Some "duplicate-member-in-witness"
                    else if not (L.exists (same_set wn) exts) then Some "witness-is-not-an-extension"
                    else None in
                  out (Printf.sprintf "spec n=%d nexts=%d" n (L.length exts));
                  if q = "SE" then (
                    if p.none then (if exts = [] then "ok" else "bad NO-printed-but-an-extension-exists")
                    else match p.witness with
                      | Some w -> (match wit_ok w with Some e -> "bad " ^ e | None -> "ok")
                      | None -> "bad grammar:no-witness")
                  else
                    match arg_id, p.status with
                    | None, _ -> "bad harness-gave-no-valid-argument"
                    | _, None -> "bad grammar:no-status"
                    | Some a, Some st ->
                        let an = nat_of_int a in
                        let expected =
                          if q = "DC" then L.exists (fun e -> mem_nat an e) exts
                          else L.for_all (fun e -> mem_nat an e) exts in
                        if st <> expected then
                          Printf.sprintf "bad status-%s-expected-%s" (if st then "YES" else "NO") (if expected then "YES" else "NO")
                        else
                          let promised = cert && ((q = "DC" && st) || (q = "DS" && not st)) in
                          match p.witness with
                          | None -> if promised then "bad witness-missing-although-the-certificate-was-requested" else "ok"
                          | Some w ->
                              if not cert then "bad witness-printed-without-the-certificate-flag"
                              else if not promised then "bad witness-printed-for-a-status-that-has-none"
                              else (
                                match wit_ok w with
                                | Some "witness-is-not-an-extension"
                                  when semname = "PR" && q = "DC" && L.mem a w
                                       && AF.extb AF.CO fa (L.map nat_of_int w) ->
                                    (* for DC-PR a complete extension containing the argument is a
                                       sufficient witness (stated so by properties C04 / C05's reference) *)
                                    "ok"
                                | Some e -> "bad " ^ e
                                | None ->
                                    if q = "DC" && not (L.mem a w) then "bad witness-omits-the-queried-argument"
                                    else if q = "DS" && L.mem a w then "bad witness-contains-the-queried-argument"
                                    else "ok")))
  | _ -> "bad harness-case-incomplete"

let nonzero_exit ex = ex <> "0" && ex <> "timeout" && ex <> "spawn-failed" && ex <> "wait-failed" && ex <> "?"

let judge_err (c : case) : string =
  let ex = exit_of c in
  let lines, _ = split_lines (stdout_of c) in
  match L.filter answer_looking lines with
  | l :: _ -> Printf.sprintf "bad answer-on-stdout-after-an-error:%s" (hex_of_bytes l)
  | [] ->
      if ex = "0" then "bad exit-status-0-on-an-error"
      else if not (nonzero_exit ex) then "bad no-exit-status:" ^ ex
      else "ok"

let judge_problems (c : case) : string =
  if exit_of c <> "0" then "bad exit-status-" ^ exit_of c
  else if stdout_of c <> problems_expected then "bad problems-list-differs"
  else "ok"

let judge_info (c : case) : string =
  let lines, _ = split_lines (stdout_of c) in
  match L.filter answer_looking lines with
  | l :: _ -> Printf.sprintf "bad answer-looking-line-on-an-informational-path:%s" (hex_of_bytes l)
  | [] -> if nonzero_exit (exit_of c) || exit_of c = "0" then "ok" else "bad no-exit-status:" ^ exit_of c

(* ------------------------------------------------------------------ prediction of Model.Cli *)
let rec n_of_int (n : int) : BinNums.coq_N = if n <= 0 then BinNums.N0 else BinNums.Npos (pos_of_int n)
let int_of_n = function BinNums.N0 -> 0 | BinNums.Npos p -> int_of_pos p
let bytes_to_model (s : string) : BinNums.coq_N list = L.map (fun ch -> n_of_int (Char.code ch)) (L.of_seq (S.to_seq s))
let bytes_of_model (l : BinNums.coq_N list) : string = S.init (L.length l) (fun i -> Char.chr (int_of_n (L.nth l i) land 255))

(* A small complete SAT procedure (DPLL with unit propagation) used as the oracle of the model run.
   Plain OCaml: nothing is proved about it; a wrong answer here shows up as a disagreement. *)
let dpll (nvars : int) (clauses : int list list) : bool array option =
  let value = Array.make (nvars + 1) 0 in      (* 0 unassigned, 1 true, -1 false *)
  let lit_val l = let v = value.(abs l) in if l > 0 then v else -v in
  let rec propagate trail =
    let changed = ref false and conflict = ref false and trail = ref trail in
    L.iter (fun c ->
        if not !conflict then begin
          if not (L.exists (fun l -> lit_val l = 1) c) then begin
            match L.filter (fun l -> lit_val l = 0) c with
            | [] -> conflict := true
            | [ l ] -> value.(abs l) <- (if l > 0 then 1 else -1); trail := abs l :: !trail; changed := true
            | _ -> ()
          end
        end) clauses;
    if !conflict then (None, !trail) else if !changed then propagate !trail else (Some (), !trail) in
  let undo trail = L.iter (fun v -> value.(v) <- 0) trail in
  let rec search () =
    match propagate [] with
    | None, trail -> undo trail; false
    | Some (), trail ->
        let v = ref 0 in
        (try for i = 1 to nvars do if value.(i) = 0 then (v := i; raise Exit) done with Exit -> ());
        if !v = 0 then true
        else begin
          let x = !v in
          value.(x) <- -1;
          if search () then true
          else begin
            value.(x) <- 1;
            if search () then true else (value.(x) <- 0; undo trail; false)
          end
        end in
  if search () then Some (Array.init nvars (fun i -> value.(i + 1) = 1)) else None

let dpll_oracle (_ : nat) (f : Cnf.cnf) (a : Cnf.lit list) : Cnf.answer =
  let cl = L.map (fun c -> L.map int_of_z c) f @ L.map (fun l -> [ int_of_z l ]) a in
  let nv = L.fold_left (fun m c -> L.fold_left (fun m l -> max m (abs l)) m c) 0 cl in
  if L.exists (fun c -> L.mem 0 c) cl then Cnf.Unknown
  else match dpll nv cl with
    | Some m -> Cnf.Sat (L.init nv (fun i -> Some m.(i)))
    | None -> Cnf.Unsat

(* The instance handed to the command.  When the case carries the bytes of the file, the model reads
   them itself with the reader selected by the options (Readers.read_iccma / read_apx: this is
   CliE2E*.iccma_input / apx_input, the end-to-end theorems' composition); otherwise (the fixed files
   good.af / good.apx) it is rebuilt from the abstract description.  Aspartix labels are Strings:
   lists of code points, obtained by UTF-8 decoding. *)
let model_instance (c : case) (reader : Cli.reader option) : Cli.instance option =
  let file = match in_line c "file" with Some [ h ] -> Some (bytes_to_model (bytes_of_hex h)) | _ -> None in
  match file, reader with
  | Some fb, Some Cli.RApx ->
      (match Readers.read_apx fb with Readers.RdOk f -> Some (Cli.apx_instance f) | _ -> None)
  | Some fb, Some Cli.RIccma23 ->
      (match Readers.read_iccma fb with Readers.RdOk f -> Some (Cli.iccma_instance f) | _ -> None)
  | _ ->
  match in_line c "unreadable", instance_of c with
  | Some _, _ | _, None -> None
  | None, Some (fmt, n, atts, labels) ->
      if fmt = "iccma" then begin
        let leqb = PeanoNat.Nat.eqb in
        let f0 = Store.fw_new_with_labels leqb (L.init n (fun i -> nat_of_int (i + 1))) in
        let f = L.fold_left (fun f (a, b) -> fst (Store.new_attack_by_ids f (nat_of_int a) (nat_of_int b))) f0 atts in
        Some (Cli.iccma_instance f)
      end else begin
        let decode l = match Readers.utf8_decode (bytes_to_model l) with Some s -> s | None -> failwith "label is not UTF-8" in
        let ls = L.map decode labels in
        let f0 = Store.fw_new_with_labels Readers.str_eqb ls in
        let f = L.fold_left (fun f (a, b) -> fst (Store.new_attack Readers.str_eqb f (L.nth ls a) (L.nth ls b))) f0 atts in
        Some (Cli.apx_instance f)
      end

(* the witness line the tool printed, re-rendered by the model from the ids it names: tests the bytes
   of the labels (Display of a label, UTF-8) independently of which extension the SAT solver found *)
let model_witness (c : case) (inst : Cli.instance option) : string =
  match inst, instance_of c, in_line c "problem" with
  | Some i, Some (fmt, _, _, labels), Some [ ph ] when class_is_ok c && exit_of c = "0" -> (
      match split_problem (bytes_of_hex ph) with
      | None -> "n/a"
      | Some (q, _) ->
          let raw = stdout_of c in
          let s = if opt_value c "logging" = "off" then raw else strip_log_lines raw in
          let lines, _ = split_lines s in
          let wline = match q, lines with
            | "SE", [ l ] when l <> "NO" -> Some l
            | ("DC" | "DS"), [ _; l ] -> Some l
            | _ -> None in
          match wline with
          | None -> "none"
          | Some l -> (
              match parse_witness fmt labels l with
              | Error _ -> "n/a"
              | Ok ids ->
                  let w = if fmt = "apx" then Cli.WApx else Cli.WIccma in
                  let expected = bytes_of_model (Cli.witness_line w i.Cli.i_label (L.map nat_of_int ids)) in
                  if expected = l ^ "\n" then "same" else "differs " ^ hex_of_bytes expected))
  | _ -> "n/a"

let predict (c : case) =
  let k = match in_line c "class" with Some [ k ] -> k | _ -> "?" in
  let modelled = (match in_line c "modelled" with Some [ "1" ] -> true | _ -> false) || k = "problems" in
  if not modelled then out "model n/a"
  else
    match in_line c "argv" with
    | None -> out "model n/a"
    | Some toks ->
        let argv = L.map (fun h -> bytes_to_model (bytes_of_hex h)) toks in
        let wrapper = (match S.split_on_char '/' c.kind with _ :: "wrapper" :: _ -> true | _ -> false) in
        let cmd = if wrapper then Cli.parse_wrapper argv else Cli.parse_main argv in
        let reader = match cmd with Cli.CSolve (o, _) -> Some o.Cli.o_reader | _ -> None in
        let inst = model_instance c reader in
        out ("modelwitness " ^ model_witness c inst);
        (* the exp encoder emits one clause per element of the product of the defender sets of an
           argument: beyond a bound the extracted model (unary nat indices) is too slow to be worth it *)
        let too_large =
          opt_value c "encoding" = "exp" &&
          (match instance_of c with
           | Some (_, n, atts, _) ->
               let attackers a = L.filter_map (fun (x, y) -> if y = a then Some x else None) atts in
               L.exists (fun a ->
                   L.fold_left (fun acc b -> if acc > 3000 then acc else acc * max 1 (L.length (attackers b))) 1 (attackers a) > 3000)
                 (L.init n (fun i -> i))
           | None -> false) in
        if too_large then out "model n/a-exp-encoding-too-large" else
        (match Cli.exec dpll_oracle (nat_of_int !D_static.thr) Prog.CadicalLike (nat_of_int 4000) cmd inst with
         | None -> out "model n/a"
         | Some (Cli.Exit0 b) -> out ("model exit0 " ^ hex_of_bytes (bytes_of_model b))
         | Some Cli.ExitNonZero -> out "model nonzero"
         | Some Cli.ModelOutOfFuel -> out "model outoffuel")

let class_of (c : case) = match in_line c "class" with Some [ k ] -> k | _ -> "?"

let run path =
  L.iter (fun c ->
      begin_case c;
      let k = class_of c in
      let t0 = Sys.time () in
      let v =
        if k = "ok" then judge_ok c
        else if k = "problems" then judge_problems c
        else if starts_with "info" k then judge_info c
        else if starts_with "err" k then judge_err c
        else "bad unknown-class" in
      out ("verdict " ^ v);
      let t1 = Sys.time () in
      predict c;
      (if Sys.getenv_opt "VERIF_CLI_TIMING" <> None && Sys.time () -. t0 > 1.0 then
         prerr_endline (Printf.sprintf "slow case %s %s: oracle %.1fs model %.1fs" c.id c.kind (t1 -. t0) (Sys.time () -. t1)));
      end_case ()) (read_cases path);
  flush_out ()
