(* static mode: replays the recorded SAT answers through Model.Solvers and prints events + outcome *)
open Dcommon
open Datatypes

let leqb = PeanoNat.Nat.eqb
let thr = ref 32
let unsat_limit = ref 40
let unsat_clause_limit = ref 400

let build_fw (c : case) : nat Store.fw =
  let f = ref (Store.fw_new_with_labels leqb []) in
  let started = ref false in
  Stdlib.List.iter
    (fun toks ->
      match toks with
      | "iccma" :: n :: rest ->
          let n = int_of_string n in
          let f0 = Store.fw_new_with_labels leqb (Stdlib.List.init n (fun i -> nat_of_int (i + 1))) in
          f := Stdlib.List.fold_left
                 (fun f (a, b) -> fst (Store.new_attack_by_ids f (nat_of_int (int_of_string a)) (nat_of_int (int_of_string b))))
                 f0 (pairs_of rest);
          started := true
      | "init" :: ls -> f := Store.fw_new_with_labels leqb (nats_of ls); started := true
      | "op" :: o -> f := fst (Store.step leqb !f (D_store.op_of o))
      | _ -> ())
    (ins c);
  ignore !started;
  !f

let parse_assignment (s : string) : Cnf.assignment =
  if s = "e" then []
  else Stdlib.List.init (String.length s) (fun i ->
      match s.[i] with '1' -> Some true | '0' -> Some false | _ -> None)

let parse_answer toks : Cnf.answer =
  match toks with
  | [ "S"; bits ] -> Cnf.Sat (parse_assignment bits)
  | [ "S" ] -> Cnf.Sat []
  | [ "U" ] -> Cnf.Unsat
  | _ -> Cnf.Unknown

let rec after_arrow = function
  | "=>" :: r -> r
  | _ :: r -> after_arrow r
  | [] -> []

let script_of (c : case) : Cnf.answer list =
  Stdlib.List.filter_map
    (fun toks -> match toks with _ :: "solve" :: r -> Some (parse_answer (after_arrow r)) | _ -> None)
    (evs c)

let lits_s (l : Cnf.lit list) = join " " (fun z -> string_of_int (int_of_z z)) l
let assignment_s (m : Cnf.assignment) =
  if m = [] then "e"
  else String.concat "" (Stdlib.List.map (function Some true -> "1" | Some false -> "0" | None -> "-") m)
let answer_s = function
  | Cnf.Sat m -> "S " ^ assignment_s m
  | Cnf.Unsat -> "U"
  | Cnf.Unknown -> "X"

let print_log (log : (nat * Prog.event) list) =
  Stdlib.List.iter
    (fun (k, e) ->
      let k = int_of_nat k in
      match e with
      | Prog.ENew -> ev (Printf.sprintf "%d new" k)
      | Prog.EReserve n -> ev (Printf.sprintf "%d res %d" k (int_of_nat n))
      | Prog.EClause c -> ev (Printf.sprintf "%d cl %s" k (lits_s c))
      | Prog.ENVars n -> ev (Printf.sprintf "%d nv %d" k (int_of_nat n))
      | Prog.ESolve (a, r) -> ev (Printf.sprintf "%d solve %s => %s" k (lits_s a) (answer_s r)))
    log

(* validity of the recorded answers on the model's own log: every Sat model must satisfy all clauses
   of its session so far and the assumptions of the call (the hypothesis [valid_oracle] of the
   solver theorems, Sat side; the Unsat side needs a solver and is confirmed by the brute-force
   oracle on small cases only) *)
let validate_log (log : (nat * Prog.event) list) =
  let sessions : (int, Cnf.clause list) Hashtbl.t = Hashtbl.create 8 in
  let ok = ref 0 and bad = ref 0 and unsat = ref 0 and unsat_ok = ref 0 and unsat_bad = ref 0 in
  let maxvar cl a = Stdlib.List.fold_left (fun acc c -> Stdlib.List.fold_left (fun x l -> max x (abs (int_of_z l))) acc c) 0 (a :: cl) in
  Stdlib.List.iter
    (fun (k, e) ->
      let k = int_of_nat k in
      match e with
      | Prog.ENew -> Hashtbl.replace sessions k []
      | Prog.EClause c -> Hashtbl.replace sessions k (c :: (try Hashtbl.find sessions k with Not_found -> []))
      | Prog.ESolve (a, Cnf.Sat m) ->
          let cl = try Hashtbl.find sessions k with Not_found -> [] in
          if Cnf.valid_sat cl a m then incr ok else incr bad
      | Prog.ESolve (a, Cnf.Unsat) ->
          incr unsat;
          (* confirmed by the verified reference solver (Dpll.solve_n, C15_dpll_complete) when small *)
          let cl = Stdlib.List.rev (try Hashtbl.find sessions k with Not_found -> []) in
          let nv = maxvar cl a in
          if nv <= !unsat_limit && Stdlib.List.length cl <= !unsat_clause_limit then
            (match Dpll.solve_n (nat_of_int nv) cl a with
             | None -> incr unsat_ok
             | Some _ -> incr unsat_bad)
      | _ -> ())
    log;
  out (Printf.sprintf "val sat_ok=%d sat_bad=%d unsat=%d unsat_ok=%d unsat_bad=%d" !ok !bad !unsat !unsat_ok !unsat_bad)


(* ------------------------------------------------------------------------------------------------
   notwice (C18: "for PR and ID no candidate set is ever examined twice"), judged on the RECORDED
   events of the implementation (the EV lines of the case), not on the model's own log.
   The i-th recorded session that contains a SAT call belongs to the i-th connected component the
   query works on (component lists as in Proofs/TopBase.v: all_comps / merged_comps, selected as in
   SolverTop.query_comps).  Candidates of a (session, component, phase): the grounded extension of
   the component (the start candidate, examined without a SAT call) followed by the sets decoded
   from the recorded Sat models of the phase, in order, with the decoder of the encoder in use
   (Encoders.assignment_to_extension, the function the model uses).  A phase is identified by the
   search selector, the literal of largest variable among the assumptions of the call (PR: one phase
   per session; ID: two, the enumeration of the preferred extensions and the maximal allowed set).
   Verdict: bad when two candidates of a phase are equal as sets, or when a decoded candidate is not
   a base set of the component (conflict-free / admissible / complete per the encoder; components of
   at most 10 arguments).  The judge is a function of an event list so that it can be unit-tested. *)
type rsolve = { assum : int list; ans : Cnf.answer }

let rec before_arrow = function
  | "=>" :: _ -> []
  | x :: r -> x :: before_arrow r
  | [] -> []

(* sessions in order of creation, each with its SAT calls in order *)
let sessions_of_events (events : string list list) : (string * rsolve list) list =
  let order = ref [] and tbl : (string, rsolve list) Hashtbl.t = Hashtbl.create 8 in
  Stdlib.List.iter
    (fun toks ->
      match toks with
      | [ sid; "new" ] -> if not (Hashtbl.mem tbl sid) then begin order := sid :: !order; Hashtbl.replace tbl sid [] end
      | sid :: "solve" :: r ->
          if not (Hashtbl.mem tbl sid) then begin order := sid :: !order; Hashtbl.replace tbl sid [] end;
          let a = Stdlib.List.filter_map int_of_string_opt (before_arrow r) in
          Hashtbl.replace tbl sid ({ assum = a; ans = parse_answer (after_arrow r) } :: Hashtbl.find tbl sid)
      | _ -> ())
    events;
  Stdlib.List.rev_map (fun sid -> (sid, Stdlib.List.rev (Hashtbl.find tbl sid))) !order

let set_s (l : int list) = "{" ^ String.concat "," (Stdlib.List.map string_of_int l) ^ "}"

(* one session against its component: Ok (number of candidates) or Error message *)
let judge_session (enc : Encoders.enc) (c : Graph.comp) (sid : string) (solves : rsolve list) : (int, string) result =
  let f = c.Graph.c_af in
  let n = Stdlib.List.length f.AF.args in
  let canon (l : nat list) = Stdlib.List.sort_uniq compare (Stdlib.List.map int_of_nat l) in
  let gr = canon (Graph.grounded (Graph.view_of_af f)) in
  let sel_of (s : rsolve) = Stdlib.List.fold_left (fun acc l -> max acc (abs l)) 0 s.assum in
  (* phases in order of first appearance of their selector *)
  let phases : (int * int list list ref) list ref = ref [] in
  let err = ref None in
  let total = ref 1 in           (* the start candidate of the (first) phase *)
  Stdlib.List.iter
    (fun s ->
      match s.ans with
      | Cnf.Sat m when !err = None ->
          let sel = sel_of s in
          let cands =
            match Stdlib.List.assoc_opt sel !phases with
            | Some r -> r
            | None -> let r = ref [ gr ] in
                      if !phases <> [] then incr total;
                      phases := !phases @ [ (sel, r) ]; r in
          let decoded = Encoders.assignment_to_extension (nat_of_int n) enc m in
          let set = canon decoded in
          incr total;
          if Stdlib.List.mem set !cands then
            err := Some (Printf.sprintf "session %s candidate %s examined twice" sid (set_s set))
          else if n <= 10 && not (AF.baseb (Encoders.enc_base enc) f decoded) then
            err := Some (Printf.sprintf "session %s candidate %s is not a base set" sid (set_s set))
          else cands := set :: !cands
      | _ -> ())
    solves;
  match !err with Some e -> Error e | None -> Ok !total

let all_comps g = match Graph.all_ccs g with Some l -> l | None -> []
let merged_comps g al =
  match Graph.merged_cc_of g (Graph.cc_new g) al with
  | Some (s', c) -> c :: (match Graph.remaining_ccs g s' with Some r -> r | None -> [])
  | None -> []

(* the components of a PR / ID query and the numbers of components that may have received a session *)
let comps_and_counts sem q cert g al : Graph.comp list * int list =
  let all () = let l = all_comps g in (l, [ Stdlib.List.length l ]) in
  let merged opts = let l = merged_comps g al in (l, Stdlib.List.sort_uniq compare (opts (Stdlib.List.length l))) in
  match sem, q with
  | _, Solvers.QSE -> all ()
  | AF.PR, _ -> if cert then merged (fun k -> [ min 1 k; k ]) else merged (fun k -> [ min 1 k ])
  | AF.ID, Solvers.QDS when cert -> all ()
  | _, _ -> if cert then merged (fun k -> [ min 1 k; k ]) else merged (fun k -> [ min 1 k ])

let rec take k = function x :: r when k > 0 -> x :: take (k - 1) r | _ -> []
let rec drop_n k = function _ :: r when k > 0 -> drop_n (k - 1) r | l -> l

(* queries = [(q, cert, al)] in the order they were put to the solver object *)
let notwice_judge sem enc g (queries : (Solvers.query * bool * nat list) list) (events : string list list) : string =
  (* ID opens a session per component that it never uses (id_se); every used ID session has a SAT call.  A PR
     session may have none (DS shortcut on the start candidate) and still belongs to its component. *)
  let sess = Stdlib.List.filter (fun (_, sv) -> sem <> AF.ID || sv <> []) (sessions_of_events events) in
  let per = Stdlib.List.map (fun (q, cert, al) -> comps_and_counts sem q cert g al) queries in
  (* all ways of giving each query one of its admissible session counts, summing to the recorded number *)
  let rec splits = function
    | [] -> [ [] ]
    | (_, opts) :: r -> Stdlib.List.concat_map (fun k -> Stdlib.List.map (fun t -> k :: t) (splits r)) opts in
  let good = Stdlib.List.filter (fun ks -> Stdlib.List.fold_left (+) 0 ks = Stdlib.List.length sess) (splits per) in
  match good with
  | [ ks ] ->
      let pairs =
        let rest = ref sess in
        Stdlib.List.concat (Stdlib.List.map2 (fun (comps, _) k ->
            let mine = take k !rest in
            rest := drop_n k !rest;
            Stdlib.List.combine mine (take k comps)) per ks) in
      let total = ref 0 and bad = ref None in
      Stdlib.List.iter
        (fun ((sid, solves), c) ->
          if !bad = None then
            match judge_session enc c sid solves with
            | Ok k -> total := !total + k
            | Error e -> bad := Some e)
        pairs;
      (match !bad with
       | Some e -> "notwice bad " ^ e
       | None -> Printf.sprintf "notwice ok %d" !total)
  | _ -> "notwice skipped session-count"

let sem_of = function
  | "GR" -> AF.GR | "CO" -> AF.CO | "PR" -> AF.PR | "ST" -> AF.ST
  | "SST" -> AF.SST | "STG" -> AF.STG | "ID" -> AF.ID | _ -> failwith "sem"
let query_of = function "SE" -> Solvers.QSE | "DC" -> Solvers.QDC | "DS" -> Solvers.QDS | _ -> failwith "query"
let enc_of = function
  | "aux_cf" -> Encoders.AuxCf | "aux_adm" -> Encoders.AuxAdm | "aux_co" -> Encoders.AuxCo
  | "exp_cf" -> Encoders.ExpCf | "exp_co" -> Encoders.ExpCo | "hyb_co" -> Encoders.HybCo
  | _ -> Encoders.StDefault

let ext_s (f : nat Store.fw) (l : nat list) =
  let tbl = Store.iter_args f in
  join " " (fun i ->
      let lab = try int_of_nat (Stdlib.List.assoc i tbl) with Not_found -> -1 in
      Printf.sprintf "%d:%d" (int_of_nat i) lab) l

let outcome_line f = function
  | Solvers.OExt (Some l) -> "ext " ^ ext_s f l
  | Solvers.OExt None -> "noext"
  | Solvers.OAcc (b, Some l) -> Printf.sprintf "acc %s cert %s" (if b then "YES" else "NO") (ext_s f l)
  | Solvers.OAcc (b, None) -> Printf.sprintf "acc %s nocert" (if b then "YES" else "NO")

let args_of (c : case) : int list =
  Stdlib.List.concat_map (fun toks -> match toks with "args" :: l -> ints_of l | _ -> []) (ins c)

(* an earlier query put to the same solver object: IN pre <q> <cert> <labels...> *)
let pre_of (c : case) : (Solvers.query * bool * int list) option =
  Stdlib.List.fold_left (fun acc toks -> match toks with
      | "pre" :: q :: ct :: l -> Some (query_of q, ct = "1", ints_of l)
      | _ -> acc) None (ins c)

let run_one (c : case) (f : nat Store.fw) sem q cert enc (labels : int list) (script : Cnf.answer list) =
  let ids_of labels = Stdlib.List.map (fun l -> Store.get_argument leqb f (nat_of_int l)) labels in
  let ids = ids_of labels in
  let pre = pre_of c in
  let pre_ids = match pre with Some (_, _, l) -> ids_of l | None -> [] in
  if Stdlib.List.exists (fun o -> o = None) (ids @ pre_ids) then out "panic unknown-argument"
  else begin
    let al = Stdlib.List.filter_map (fun x -> x) ids in
    let g = Graph.view_of_fw f in
    let fuel = nat_of_int (2 * Stdlib.List.length script + 12) in
    let oracle = Prog.script_oracle script in
    let main = Solvers.run_query oracle (nat_of_int !thr) fuel sem q cert enc g al in
    let prog = match pre with
      | None -> main
      | Some (pq, pc, _) ->
          let pal = Stdlib.List.filter_map (fun x -> x) pre_ids in
          Prog.bind (Solvers.run_query oracle (nat_of_int !thr) fuel sem pq pc enc g pal) (fun _ -> main) in
    let r = prog (Prog.init_st Prog.CadicalLike) in
    print_log (Prog.log_of r);
    (match r with Prog.Done _ | Prog.Abort _ -> () | _ -> ());
    let finish () = validate_log (Prog.log_of r) in
    (match r with
    | Prog.Done (o, _) -> out (outcome_line f o)
    | Prog.Abort _ -> out "panic abort-unknown"
    | Prog.Panic _ -> out "panic model-panic"
    | Prog.OutOfFuel _ -> out "outoffuel");
    finish ();
    if sem = AF.PR || sem = AF.ID then begin
      let queries =
        (match pre with
         | Some (pq, pc, _) -> [ (pq, pc, Stdlib.List.filter_map (fun x -> x) pre_ids) ]
         | None -> [])
        @ [ (q, cert, al) ] in
      out (notwice_judge sem enc g queries (evs c))
    end
  end

let capped (c : case) =
  Stdlib.List.exists (fun (t, toks) -> t = "OUT" && Stdlib.List.exists (fun x -> String.length x >= 12 && String.sub x 0 12 = "sat-call-cap") toks) c.lines

let run_case (c : case) =
  begin_case c;
  if capped c then out "panic not-replayed-sat-call-cap-exceeded" else
  (match String.split_on_char '/' c.kind with
   | [ _; sem; q; cert; enc ] ->
       let f = build_fw c in
       run_one c f (sem_of sem) (query_of q) (cert = "cert") (enc_of enc) (args_of c) (script_of c)
   | _ -> out "badkind");
  end_case ()

let run path = Stdlib.List.iter run_case (read_cases path); flush_out ()
