(* dynamic mode (C08, C09): replays a history of updates and queries through Model.Dynamic with the
   recorded SAT answers as oracle script; prints, step by step, the IN line, the events of the step
   and the model's outcome, in the format of the harness.  After a model panic / abort the case
   stops (the Rust object is in an unspecified state after a caught panic). *)
open Dcommon
open Datatypes

let leqb = PeanoNat.Nat.eqb
let thr = ref 32
let max_script = ref 1200

let kind_of (k : string) (num : int) (den : int) : Dynamic.dkind option =
  match k with
  | "co" -> Some Dynamic.KCo
  | "st" -> Some Dynamic.KSt
  | "pr" -> Some Dynamic.KPr
  | "co_att" -> Some (Dynamic.KCoAtt (nat_of_int num, nat_of_int den))
  | "st_att" -> Some (Dynamic.KStAtt (nat_of_int num, nat_of_int den))
  | "dummy_co" -> Some (Dynamic.KDummy AF.CO)
  | "dummy_st" -> Some (Dynamic.KDummy AF.ST)
  | "dummy_pr" -> Some (Dynamic.KDummy AF.PR)
  | _ -> None

let printed = ref 0
let print_new_events (s : Prog.st) =
  let log = Stdlib.List.rev s.Prog.rlog in
  let n = Stdlib.List.length log in
  let fresh = Stdlib.List.filteri (fun i _ -> i >= !printed) log in
  D_static.print_log fresh;
  printed := n

let res_s = function Store.ROk -> "ok" | Store.RErr -> "err" | Store.RPanic -> "panic"

let run_case (c : case) =
  begin_case c;
  printed := 0;
  let script = D_static.script_of c in
  let oracle = Prog.script_oracle script in
  let fuel = nat_of_int (2 * Stdlib.List.length script + 12) in
  let kind = ref None in
  let state = ref None in            (* (solver, prog state) *)
  let stopped = ref false in
  let last_ps = ref None in
  (* Sat.Prog.solve hands the oracle [List.rev] of the clause list (quadratic in Coq's stdlib): a
     session with thousands of solve calls - only a run-away loop of the implementation produces one
     within these histories - is not replayed; the oracle judges such a case on its own *)
  if Stdlib.List.length script > !max_script then begin out "skipped-long-script"; stopped := true end;
  let start k =
    match k with
    | None -> out "not-modelled"; stopped := true
    | Some k -> (
        match Dynamic.dyn_new leqb k (Prog.init_st Prog.CadicalLike) with
        | Prog.Done (s, ps) -> print_new_events ps; state := Some (s, ps); last_ps := Some ps
        | r -> print_new_events (Prog.final_st r); out "panic constructor"; stopped := true) in
  Stdlib.List.iter
    (fun toks ->
      if not !stopped then
        match toks with
        | "kind" :: k :: rest ->
            let num, den =
              match rest with
              | [ "factor"; f ] -> (
                  match String.split_on_char '/' f with
                  | [ a; b ] -> (int_of_string a, int_of_string b)
                  | _ -> (1, 1))
              | _ -> (1, 1) in
            kind := kind_of k num den;
            emit "IN" (String.concat " " toks);
            start !kind
        | "op" :: o -> (
            emit "IN" (String.concat " " toks);
            match !state with
            | None -> ()
            | Some (s, ps) ->
                let s', r = Dynamic.dyn_update leqb s (D_store.op_of o) in
                out ("r " ^ res_s r);
                state := Some (s', ps))
        | [ "q"; q; label; cert ] -> (
            emit "IN" (String.concat " " toks);
            match !state with
            | None -> ()
            | Some (s, ps) -> (
                let r = Dynamic.dyn_query oracle leqb (nat_of_int !thr) fuel s (D_static.query_of q) (cert = "cert")
                    (nat_of_int (int_of_string label)) ps in
                print_new_events (Prog.final_st r);
                last_ps := Some (Prog.final_st r);
                match r with
                | Prog.Done ((s', (b, ce)), ps') ->
                    out (D_static.outcome_line s'.Dynamic.s_af (Solvers.OAcc (b, ce)));
                    state := Some (s', ps')
                | Prog.Abort _ -> out "panic abort-unknown"; stopped := true
                | Prog.Panic _ -> out "panic model-panic"; stopped := true
                | Prog.OutOfFuel _ -> out "outoffuel"; stopped := true))
        | _ -> ())
    (ins c);
  (* the hypothesis [valid_oracle] of the C08 functional theorems, discharged on this very run: every
     recorded Sat model satisfies the clauses of the shared session so far and the assumptions of its
     call; every recorded Unsat answer is confirmed by the verified reference solver when the instance
     is small enough (the limits are raised for this mode: the selector-guarded instances are easy) *)
  (match !last_ps with
   | Some ps when not !stopped || true ->
       let keep_v = !D_static.unsat_limit and keep_c = !D_static.unsat_clause_limit in
       D_static.unsat_limit := 64; D_static.unsat_clause_limit := 2500;
       D_static.validate_log (Stdlib.List.rev ps.Prog.rlog);
       D_static.unsat_limit := keep_v; D_static.unsat_clause_limit := keep_c
   | _ -> ());
  end_case ()

let run path = Stdlib.List.iter run_case (read_cases path); flush_out ()
