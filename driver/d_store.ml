(* store mode (C12): replay the operation history on Model.Store and print every observable in the
   format of the harness *)
open Dcommon
open Datatypes

let leqb = PeanoNat.Nat.eqb

let op_of toks : nat Store.op =
  match toks with
  | [ "+a"; l ] -> Store.OpNewArg (nat_of_int (int_of_string l))
  | [ "-a"; l ] -> Store.OpRemArg (nat_of_int (int_of_string l))
  | [ "+t"; a; b ] -> Store.OpNewAtt (nat_of_int (int_of_string a), nat_of_int (int_of_string b))
  | [ "-t"; a; b ] -> Store.OpRemAtt (nat_of_int (int_of_string a), nat_of_int (int_of_string b))
  | _ -> failwith "bad op"

let att_s (a, b) = Printf.sprintf "%d>%d" (int_of_nat a) (int_of_nat b)

let observe (f : nat Store.fw) (universe : int list) =
  let maxid = match Store.max_argument_id f with Some i -> string_of_int (int_of_nat i) | None -> "-" in
  out (Printf.sprintf "obs nargs=%d natt=%d maxid=%s" (int_of_nat (Store.n_arguments f)) (int_of_nat (Store.n_attacks f)) maxid);
  let args = Store.iter_args f in
  out ("args " ^ join " " (fun (i, l) -> Printf.sprintf "%d:%d" (int_of_nat i) (int_of_nat l)) args);
  out ("atts " ^ join " " att_s (Store.iter_attacks f));
  Stdlib.List.iter
    (fun (i, _) ->
      out (Printf.sprintf "from %d %s" (int_of_nat i) (join " " att_s (Store.iter_attacks_from f i)));
      out (Printf.sprintf "to %d %s" (int_of_nat i) (join " " att_s (Store.iter_attacks_to f i))))
    args;
  out ("get " ^ join " " (fun l ->
           match Store.get_argument leqb f (nat_of_int l) with
           | Some i -> Printf.sprintf "%d=%d" l (int_of_nat i)
           | None -> Printf.sprintf "%d=-" l) universe);
  let upto = (match Store.max_argument_id f with Some m -> int_of_nat m + 1 | None -> 0) + 1 in
  out ("has " ^ String.concat "" (Stdlib.List.init upto (fun i -> if Store.has_argument_with_id f (nat_of_int i) then "1" else "0")))

let res_s = function Store.ROk -> "ok" | Store.RErr -> "err" | Store.RPanic -> "panic"

let run_case (c : case) =
  begin_case c;
  let init = ref [] and universe = ref [] in
  let f = ref None in
  let stop = ref false in
  Stdlib.List.iter
    (fun toks ->
      if not !stop then
      match toks with
      | "init" :: ls -> init := nats_of ls
      | "universe" :: ls ->
          universe := ints_of ls;
          let f0 = Store.fw_new_with_labels leqb !init in
          f := Some f0;
          observe f0 !universe
      | "op" :: o -> (
          match !f with
          | None -> ()
          | Some f0 ->
              let f1, r = Store.step leqb f0 (op_of o) in
              out ("r " ^ res_s r);
              if r = Store.RPanic then stop := true
              else begin f := Some f1; observe f1 !universe end)
      | _ -> ())
    (ins c);
  end_case ()

let run path = Stdlib.List.iter run_case (read_cases path); flush_out ()
