(* encoders mode (C10): the model's clause stream / arg_to_lit / first_range_var /
   assignment_to_extension for the same framework; encspec mode: model-independent oracle that
   enumerates all models of the RECORDED Rust CNF and compares their projections with the
   brute-force base sets of Spec.AF. *)
open Dcommon
open Datatypes

let thr = D_static.thr

(* what each public factory is meant to capture *)
let enc_of_name = function
  | "aux_cf" -> Encoders.AuxCf | "aux_adm" -> Encoders.AuxAdm | "aux_co" -> Encoders.AuxCo
  | "exp_cf" -> Encoders.ExpCf | "exp_co" -> Encoders.ExpCo | "hyb_co" -> Encoders.HybCo
  | "st" -> Encoders.StDefault
  | "default_co" -> Encoders.AuxCo      (* new_default_complete_constraints_encoder *)
  | "default_cf" -> Encoders.ExpCf      (* new_default_conflict_freeness_encoder *)
  | _ -> failwith "enc"

let outs (c : case) : string list list =
  Stdlib.List.filter_map (fun (t, toks) -> if t = "OUT" then Some toks else None) c.lines

let run_case (c : case) =
  begin_case c;
  (match String.split_on_char '/' c.kind with
   | [ _; name; rg ] ->
       let range = rg = "range" in
       let e = enc_of_name name in
       let f = D_static.build_fw c in
       let g = Graph.view_of_fw f in
       let n = Store.n_arguments f in
       ev "1 new";
       (match Encoders.encode n g.Graph.g_to (nat_of_int !thr) e range with
        | None -> out "panic unimplemented"
        | Some (r, cl) ->
            (match r with Some k -> ev (Printf.sprintf "1 res %d" (int_of_nat k)) | None -> ());
            Stdlib.List.iter (fun cl -> ev ("1 cl " ^ D_static.lits_s cl)) cl;
            out "encoded";
            out ("a2l " ^ D_static.lits_s
                   (Stdlib.List.map (fun (i, _) -> Encoders.arg_to_lit e i) (Store.iter_args f)));
            (match Encoders.first_range_var e n with
             | Some v -> out (Printf.sprintf "frv %d" (int_of_nat v))
             | None -> out "frv panic");
            Stdlib.List.iter
              (fun toks ->
                match toks with
                | "a2e" :: bits :: _ ->
                    let m = D_static.parse_assignment bits in
                    let ext = Encoders.assignment_to_extension n e m in
                    out (Printf.sprintf "a2e %s => %s" bits
                           (join " " (fun i -> string_of_int (int_of_nat i)) ext))
                | _ -> ())
              (outs c))
   | _ -> out "badkind");
  end_case ()

let run path = Stdlib.List.iter run_case (read_cases path); flush_out ()

(* ------------------------------------------------------------------ oracle *)
let max_vars = ref 26

(* all models over variables 1..nv of a clause list (int literals), with early pruning *)
let enum_models (nv : int) (clauses : int list list) (f : bool array -> unit) =
  let cls = Array.of_list (Stdlib.List.map Array.of_list clauses) in
  let v = Array.make (nv + 1) false in
  (* a clause is dead at level k when all its literals have var <= k and are false *)
  let ok k =
    let r = ref true in
    Array.iter
      (fun cl ->
        if !r then begin
          let sat = ref false and open_ = ref false in
          Array.iter
            (fun l ->
              let x = abs l in
              if x > k then open_ := true
              else if (l > 0) = v.(x) then sat := true)
            cl;
          if not !sat && not !open_ then r := false
        end)
      cls;
    !r
  in
  let rec go k =
    if k > nv then f v
    else begin
      v.(k) <- false; if ok k then go (k + 1);
      v.(k) <- true; if ok k then go (k + 1)
    end
  in
  if ok 0 then go 1

let base_of_name = function
  | "aux_cf" | "exp_cf" | "default_cf" -> AF.BCf
  | "aux_adm" -> AF.BAdm
  | "st" -> AF.BSt
  | _ -> AF.BCo

let judge (c : case) =
  match String.split_on_char '/' c.kind with
  | [ _; name; rg ] -> (
      let range = rg = "range" in
      let f = D_static.build_fw c in
      let fa = D_spec.af_of_fw f in
      let n = Stdlib.List.length fa.AF.args in
      let o = outs c in
      if Stdlib.List.exists (fun t -> match t with "panic" :: _ -> true | _ -> false) o then begin
        (* only stable + range is documented as unimplemented *)
        if name = "st" && range then out "verdict ok" else out "verdict bad encoder-panicked"
      end else begin
        let clauses =
          Stdlib.List.filter_map (fun t -> match t with _ :: "cl" :: l -> Some (ints_of l) | _ -> None) (evs c) in
        let a2l = Stdlib.List.concat_map (fun t -> match t with "a2l" :: l -> ints_of l | _ -> []) o in
        let frv = Stdlib.List.fold_left (fun acc t -> match t with [ "frv"; v ] when v <> "panic" -> int_of_string v | _ -> acc) 0 o in
        let nv = Stdlib.List.fold_left (fun acc cl -> Stdlib.List.fold_left (fun a l -> max a (abs l)) acc cl) 0 clauses in
        let nv = Stdlib.List.fold_left (fun a l -> max a (abs l)) nv a2l in
        let nv = if range then max nv (frv + n - 1) else nv in
        if Stdlib.List.length a2l <> n then out "verdict bad arg_to_lit-count"
        else if Stdlib.List.exists (fun l -> l = 0) a2l
                || Stdlib.List.length (Stdlib.List.sort_uniq compare (Stdlib.List.map abs a2l)) <> n
        then out "verdict bad arg_to_lit-not-injective"
        else if range && Stdlib.List.exists (fun l -> abs l >= frv && abs l < frv + n) a2l
        then out "verdict bad argument-literal-collides-with-range-variable"
        else if n > 10 || nv > !max_vars then out "verdict skipped-too-large"
        else begin
          let ids = Array.of_list (Stdlib.List.map (fun (i, _) -> i) (Store.iter_args f)) in
          let lits = Array.of_list a2l in
          let bases = AF.all_base (base_of_name name) fa in
          let inr s i = AF.in_rangeb fa s i in
          let seen : (nat list, bool ref) Hashtbl.t = Hashtbl.create 64 in   (* set -> has exact-range model *)
          let bad = ref None in
          let n_models = ref 0 in
          enum_models nv clauses (fun v ->
              incr n_models;
              let s = ref [] in
              for k = n - 1 downto 0 do
                let l = lits.(k) in
                if (l > 0) = v.(abs l) then s := ids.(k) :: !s
              done;
              let s = !s in
              let exact = ref true in
              if range then
                for k = 0 to n - 1 do
                  let rv = v.(frv + k) and ir = inr s ids.(k) in
                  if rv && not ir && !bad = None then bad := Some "range-variable-true-outside-the-range";
                  if rv <> ir then exact := false
                done;
              match Hashtbl.find_opt seen s with
              | Some r -> if !exact then r := true
              | None -> Hashtbl.replace seen s (ref !exact));
          let proj = Hashtbl.fold (fun s _ acc -> s :: acc) seen [] in
          let mem s l = Stdlib.List.exists (D_spec.same_set s) l in
          out (Printf.sprintf "spec n=%d nvars=%d models=%d projected=%d base=%d" n nv !n_models
                 (Stdlib.List.length proj) (Stdlib.List.length bases));
          (match !bad with
           | Some b -> out ("verdict bad " ^ b)
           | None ->
               if Stdlib.List.exists (fun s -> not (mem s bases)) proj then out "verdict bad model-denotes-a-set-outside-the-intended-family"
               else if Stdlib.List.exists (fun s -> not (mem s proj)) bases then out "verdict bad intended-set-has-no-model"
               else if range && Hashtbl.fold (fun _ r acc -> acc || not !r) seen false
               then out "verdict bad set-without-a-model-whose-range-variables-equal-its-range"
               else out "verdict ok")
        end
      end)
  | _ -> out "verdict badkind"

let run_spec path =
  Stdlib.List.iter (fun c -> begin_case c; judge c; end_case ()) (read_cases path);
  flush_out ()
