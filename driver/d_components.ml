(* components mode (C04, label route): rebuilds the store from the IN lines with Model.Store, computes
   the model's components (id lists) with the extracted component computation on view_of_fw, and
   prints, through the LABEL ROUTE functions of Proofs/LabelRouteDefs.v, the lines of the harness:
   component store (argument list, attack list), to_local_lab of every argument of the store,
   to_global_lab of every argument of the component store.  [None] of the route = panic. *)
open Dcommon
open Datatypes

let leqb = PeanoNat.Nat.eqb
let n = int_of_nat

let args_s (f : nat Store.fw) =
  join " " (fun (i, l) -> Printf.sprintf "%d:%d" (n i) (n l)) (Store.iter_args f)
let atts_s (f : nat Store.fw) =
  join " " (fun (a, b) -> Printf.sprintf "%d>%d" (n a) (n b)) (Store.iter_attacks f)

let describe prefix k (f : nat Store.fw) (cf : nat Store.fw) =
  out (Printf.sprintf "%scc %d args %s ; atts %s" prefix k (args_s cf) (atts_s cf));
  out (Printf.sprintf "%slocal %d %s" prefix k
         (join " " (fun (a, _) ->
              match LabelRouteDefs.to_local_lab leqb f cf a with
              | Some i -> Printf.sprintf "%d=%d" (n a) (n i)
              | None -> Printf.sprintf "%d=-" (n a))
            (Store.iter_args f)));
  out (Printf.sprintf "%sglobal %d %s" prefix k
         (join " " (fun (i, _) ->
              match LabelRouteDefs.to_global_lab leqb f cf i with
              | Some (a, l) -> Printf.sprintf "%d=%d:%d" (n i) (n a) (n l)
              | None -> Printf.sprintf "%d=-" (n i))
            (Store.iter_args cf)))

(* next_connected_component until None, starting with component number k *)
let rec rest prefix (f : nat Store.fw) g s k =
  match Graph.next_cc g s with
  | None -> out (Printf.sprintf "%send %d" prefix k)
  | Some (_, None) -> out (Printf.sprintf "%scc %d panic" prefix k)
  | Some (s', Some c) -> (
      match LabelRouteDefs.comp_store leqb f c.Graph.c_ids with
      | None -> out (Printf.sprintf "%scc %d panic" prefix k)
      | Some cf -> describe prefix k f cf; rest prefix f g s' (k + 1))

let run_case (c : case) =
  begin_case c;
  let f = D_static.build_fw c in
  let merged =
    Stdlib.List.filter_map (fun toks -> match toks with "merged" :: l -> Some (nats_of l) | _ -> None) (ins c) in
  let g = Graph.view_of_fw f in
  out ("maxid " ^ (match Store.max_argument_id f with Some m -> string_of_int (n m) | None -> "-"));
  out ("args " ^ args_s f);
  out ("atts " ^ atts_s f);
  rest "" f g (Graph.cc_new g) 0;
  Stdlib.List.iteri
    (fun j al ->
      let p = Printf.sprintf "m%d " j in
      match Graph.merged_cc_of g (Graph.cc_new g) al with
      | None -> out (p ^ "cc 0 panic")
      | Some (s', c0) -> (
          match LabelRouteDefs.comp_store leqb f c0.Graph.c_ids with
          | None -> out (p ^ "cc 0 panic")
          | Some cf -> describe p 0 f cf; rest p f g s' 1))
    merged;
  end_case ()

let run path = Stdlib.List.iter run_case (read_cases path); flush_out ()
