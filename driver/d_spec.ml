(* spec mode: the implementation-level oracle.  For every case small enough, the implementation's own
   outcome (the OUT line of the case file) is judged against the brute-force reference extracted
   from Spec.AF (extb / all_exts): statuses, extensions, certificates. *)
open Dcommon
open Datatypes

let max_n = ref 9
let with_bound = ref false
let cache : (string, nat list list) Hashtbl.t = Hashtbl.create 64

let key_of (c : case) sem =
  sem ^ "|" ^ String.concat ";" (Stdlib.List.filter_map (fun toks ->
      match toks with ("iccma" | "init" | "op") :: _ -> Some (String.concat " " toks) | _ -> None) (ins c))

let af_of_fw (f : nat Store.fw) : AF.af =
  { AF.args = Stdlib.List.map fst (Store.iter_args f); AF.atts = Store.iter_attacks f }

let all_exts_cached c semname sem (fa : AF.af) =
  let k = key_of c semname in
  match Hashtbl.find_opt cache k with
  | Some l -> l
  | None -> let l = AF.all_exts sem fa in Hashtbl.replace cache k l; l

let parse_ext (toks : string list) : (int * int) list =
  Stdlib.List.map (fun t -> match String.split_on_char ':' t with
      | [ i; l ] -> (int_of_string i, int_of_string l) | _ -> (-1, -1)) toks

let mem_nat a l = Stdlib.List.exists (fun b -> b = a) l
let same_set (a : nat list) (b : nat list) =
  Stdlib.List.for_all (fun x -> mem_nat x b) a && Stdlib.List.for_all (fun x -> mem_nat x a) b
let is_ext exts (l : nat list) = Stdlib.List.exists (same_set l) exts

(* connected components of a framework, as lists of argument ids (union-find on a small table) *)
let components (fa : AF.af) : nat list list =
  let ids = Stdlib.List.map int_of_nat fa.AF.args in
  let parent = Hashtbl.create 16 in
  Stdlib.List.iter (fun i -> Hashtbl.replace parent i i) ids;
  let rec find x = let p = Hashtbl.find parent x in if p = x then x else (let r = find p in Hashtbl.replace parent x r; r) in
  Stdlib.List.iter (fun (a, b) ->
      let ra = find (int_of_nat a) and rb = find (int_of_nat b) in
      if ra <> rb then Hashtbl.replace parent ra rb) fa.AF.atts;
  let groups = Hashtbl.create 16 in
  Stdlib.List.iter (fun i -> let r = find i in
                     Hashtbl.replace groups r (i :: (try Hashtbl.find groups r with Not_found -> []))) ids;
  Hashtbl.fold (fun _ l acc -> Stdlib.List.map nat_of_int (Stdlib.List.rev l) :: acc) groups []

let sub_af (fa : AF.af) (ids : nat list) : AF.af =
  { AF.args = ids;
    AF.atts = Stdlib.List.filter (fun (a, _) -> mem_nat a ids) fa.AF.atts }

(* the C18 bound on SAT calls: per component and summed *)
let call_bound semname encname (fa : AF.af) : int * int =
  let base = match encname with
    | "aux_cf" | "exp_cf" -> AF.BCf | "aux_adm" -> AF.BAdm | "st" -> AF.BSt | _ -> AF.BCo in
  let per cc =
    let f = sub_af fa cc in
    let n = Stdlib.List.length cc in
    match semname with
    | "GR" -> 0
    | "CO" | "ST" -> 2
    | "PR" -> Stdlib.List.length (AF.all_base base f) + Stdlib.List.length (AF.all_exts AF.PR f) + 1
    | "ID" -> 2 * Stdlib.List.length (AF.all_base base f) + Stdlib.List.length (AF.all_exts AF.PR f) + 2
    | _ -> (n + 2) * Stdlib.List.length (AF.all_base base f) + 3 in
  let l = Stdlib.List.map per (components fa) in
  (Stdlib.List.fold_left (+) 0 l, Stdlib.List.fold_left max 0 l)

let judge (c : case) =
  match String.split_on_char '/' c.kind with
  | [ _; semname; q; cert; encname ] -> (
      let f = D_static.build_fw c in
      let fa = af_of_fw f in
      let n = Stdlib.List.length fa.AF.args in
      if n > !max_n then out "verdict skipped-too-large"
      else
        let sem = D_static.sem_of semname in
        let labels = D_static.args_of c in
        let ids = Stdlib.List.filter_map (fun l -> Store.get_argument D_static.leqb f (nat_of_int l)) labels in
        let implout = Stdlib.List.filter_map (fun (t, toks) -> if t = "OUT" then Some toks else None) c.lines in
        let exts = all_exts_cached c semname sem fa in
        let live = Store.iter_args f in
        let members_ok (e : (int * int) list) =
          Stdlib.List.for_all (fun (i, l) ->
              Stdlib.List.exists (fun (i', l') -> int_of_nat i' = i && int_of_nat l' = l) live) e in
        let nodup (e : (int * int) list) =
          Stdlib.List.length (Stdlib.List.sort_uniq compare e) = Stdlib.List.length e in
        let ext_ids e = Stdlib.List.map (fun (i, _) -> nat_of_int i) e in
        let meets e = Stdlib.List.exists (fun a -> mem_nat a (ext_ids e)) ids in
        let expected =
          match q with
          | "DC" -> Some (Stdlib.List.exists (fun s -> Stdlib.List.exists (fun a -> mem_nat a s) ids) exts)
          | "DS" -> Some (Stdlib.List.for_all (fun s -> Stdlib.List.exists (fun a -> mem_nat a s) ids) exts)
          | _ -> None in
        (if !with_bound then
           let (sum, mx) = call_bound semname encname fa in
           out (Printf.sprintf "bound sum=%d max=%d" sum mx));
        out (Printf.sprintf "spec n=%d nexts=%d%s" n (Stdlib.List.length exts)
               (match expected with Some b -> " expected=" ^ (if b then "YES" else "NO") | None -> ""));
        match implout with
        | [ "noext" ] :: _ ->
            if q = "SE" && exts = [] then out "verdict ok" else out "verdict bad no-extension-reported-but-one-exists"
        | ("ext" :: e) :: _ ->
            let e = parse_ext e in
            if q <> "SE" then out "verdict bad unexpected-extension-output"
            else if not (nodup e) then out "verdict bad duplicate-member"
            else if not (members_ok e) then out "verdict bad member-not-an-argument-of-the-framework"
            else if not (is_ext exts (ext_ids e)) then out "verdict bad returned-set-is-not-an-extension"
            else out "verdict ok"
        | ("acc" :: st :: rest) :: _ -> (
            let yes = st = "YES" in
            match expected with
            | None -> out "verdict bad acceptance-output-for-SE"
            | Some b when b <> yes -> out (Printf.sprintf "verdict bad status-%s-expected-%s" st (if b then "YES" else "NO"))
            | Some _ -> (
                let promised = cert = "cert" && ((q = "DC" && yes) || (q = "DS" && not yes)) in
                match rest with
                | [ "nocert" ] -> if promised then out "verdict bad certificate-missing" else out "verdict ok"
                | "cert" :: e ->
                    let e = parse_ext e in
                    if not promised then out "verdict bad certificate-not-promised"
                    else if not (nodup e) then out "verdict bad duplicate-member-in-certificate"
                    else if not (members_ok e) then out "verdict bad certificate-member-not-an-argument"
                    else if not (is_ext exts (ext_ids e)) then out "verdict bad certificate-is-not-an-extension"
                    else if q = "DC" && not (meets e) then out "verdict bad certificate-omits-the-arguments"
                    else if q = "DS" && meets e then out "verdict bad certificate-contains-a-queried-argument"
                    else out "verdict ok"
                | _ -> out "verdict bad unparsable"))
        | ("panic" :: _) :: _ -> out "verdict panic"
        | _ -> out "verdict bad unparsable-output")
  | _ -> out "verdict badkind"

let run path =
  Stdlib.List.iter (fun c -> begin_case c; judge c; end_case ()) (read_cases path);
  flush_out ()
