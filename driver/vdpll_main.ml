(* vdpll: the extracted reference solver (Dpll.solve_n) behind the extracted strict DIMACS parser
   (Dimacs.parse_instance) and reply printer (Dimacs.print_reply) = SatObjects.vdpll_fn, as a
   stand-alone stdin/stdout program usable wherever crustabri accepts an external SAT solver.

   vdpll [--dump FILE]            append the received bytes, hex encoded, one line per call
         [--fail-at K --kind exit|nostatus|truncated|garbage --counter FILE]
                                  misbehave at the K-th invocation (counter persisted in FILE)
         [--pad N]                emit N bytes of comment lines before the answer
         [--no-read]              do not read stdin; emit the padding, no status line, exit 0
         [--print-file FILE]      read stdin to the end, then print FILE verbatim as the reply
         [--partial]              print a PARTIAL model: variables are left out (greedily, from the largest index
                                  down) as long as every clause keeps a true literal - a correct reply that leaves
                                  don't-care variables unassigned, as some solvers do
   Exit code 10 (satisfiable) / 20 (unsatisfiable) / 1 (ill-formed instance, after `c error`). *)

let n_of_int (n : int) : BinNums.coq_N = if n = 0 then BinNums.N0 else BinNums.Npos (Dcommon.pos_of_int n)
let int_of_n (n : BinNums.coq_N) : int = match n with BinNums.N0 -> 0 | BinNums.Npos p -> Dcommon.int_of_pos p

let bytes_of_string (s : string) : BinNums.coq_N list =
  let r = ref [] in
  for i = String.length s - 1 downto 0 do r := n_of_int (Char.code s.[i]) :: !r done;
  !r
let string_of_bytes (l : BinNums.coq_N list) : string =
  let b = Buffer.create 1024 in
  Stdlib.List.iter (fun n -> Buffer.add_char b (Char.chr (int_of_n n land 255))) l;
  Buffer.contents b

let read_all ic =
  let b = Buffer.create 65536 in
  let chunk = Bytes.create 65536 in
  let rec go () =
    let n = input ic chunk 0 65536 in
    if n > 0 then (Buffer.add_subbytes b chunk 0 n; go ())
  in
  go (); Buffer.contents b

let hex s =
  if s = "" then "-" else begin
    let b = Buffer.create (2 * String.length s) in
    String.iter (fun c -> Buffer.add_string b (Printf.sprintf "%02x" (Char.code c))) s;
    Buffer.contents b
  end

let read_file p = try let ic = open_in_bin p in let s = read_all ic in close_in ic; s with Sys_error _ -> ""

let () =
  let dump = ref None and fail_at = ref 0 and kind = ref "" and counter = ref None in
  let pad = ref 0 and pad_err = ref 0 and no_read = ref false and print_file = ref None and partial = ref false and flip = ref false in
  let rec opts = function
    | "--dump" :: f :: r -> dump := Some f; opts r
    | "--fail-at" :: k :: r -> fail_at := int_of_string k; opts r
    | "--kind" :: k :: r -> kind := k; opts r
    | "--counter" :: f :: r -> counter := Some f; opts r
    | "--pad" :: n :: r -> pad := int_of_string n; opts r
    | "--pad-err" :: n :: r -> pad_err := int_of_string n; opts r
    | "--no-read" :: r -> no_read := true; opts r
    | "--partial" :: r -> partial := true; opts r
    | "--flip" :: r -> flip := true; opts r
    | "--print-file" :: f :: r -> print_file := Some f; opts r
    | _ :: r -> opts r
    | [] -> ()
  in
  opts (Stdlib.List.tl (Array.to_list Sys.argv));
  set_binary_mode_in stdin true;
  set_binary_mode_out stdout true;
  let emit_pad () =
    (* comment lines of 64 bytes each *)
    let line = "c " ^ String.make 61 'x' ^ "\n" in
    let n = ref !pad in
    while !n > 0 do
      if !n >= 64 then (print_string line; n := !n - 64)
      else (print_string ("c" ^ (if !n >= 3 then " " ^ String.make (!n - 3) 'x' else "") ^ "\n"); n := 0)
    done
  in
  (* diagnostics on the standard error stream (a chatty solver): written first, before anything is read or answered *)
  if !pad_err > 0 then begin
    let line = "c " ^ String.make 61 'e' ^ "\n" in
    let n = ref !pad_err in
    while !n > 0 do prerr_string line; n := !n - 64 done;
    flush stderr
  end;
  if !no_read then begin
    emit_pad (); flush stdout; exit 0
  end;
  let input = read_all stdin in
  (match !dump with
   | Some f ->
       let oc = open_out_gen [ Open_append; Open_creat; Open_binary ] 0o644 f in
       output_string oc (hex input ^ "\n"); close_out oc
   | None -> ());
  (* invocation counter *)
  let invocation =
    match !counter with
    | Some f ->
        let k = (try int_of_string (String.trim (read_file f)) with _ -> 0) + 1 in
        let oc = open_out_bin f in output_string oc (string_of_int k ^ "\n"); close_out oc; k
    | None -> 0
  in
  let misbehave = !fail_at > 0 && invocation = !fail_at in
  emit_pad ();
  (match !print_file with
   | Some f -> print_string (read_file f); flush stdout; exit 0
   | None -> ());
  if misbehave && !kind = "exit" then (flush stdout; exit 1);
  match Dimacs.parse_instance (bytes_of_string input) with
  | None ->
      print_string "c error: ill-formed instance\n"; flush stdout; exit 1
  | Some (nv, cls) ->
      (* --flip: the OPPOSITE decision polarity without touching the verified solver - the instance with every literal
         negated is solved and the model negated back; the verified DPLL decides `true` first (large models), so this
         backend returns SMALL models: the solvers' search loops then grow their candidates step by step.  A valid
         answer in any case (checked per run by the replay: every recorded model is validated). *)
      let negl l = Dcommon.z_of_int (- (Dcommon.int_of_z l)) in
      let r =
        if !flip then
          (match Dpll.solve_n nv (Stdlib.List.map (Stdlib.List.map negl) cls) [] with
           | Some m -> Some (Stdlib.List.map (function Some b -> Some (not b) | None -> None) m)
           | None -> None)
        else Dpll.solve_n nv cls [] in
      let r =
        match r with
        | Some m when !partial ->
            (* three-valued check: a clause is satisfied iff one of its literals is assigned true *)
            let a = Array.of_list m in
            let value v = if v >= 1 && v <= Array.length a then a.(v - 1) else None in
            let lit_true l = let z = Dcommon.int_of_z l in
              if z > 0 then value z = Some true else if z < 0 then value (- z) = Some false else false in
            let all_sat () = Stdlib.List.for_all (fun c -> Stdlib.List.exists lit_true c) cls in
            for v = Array.length a downto 1 do
              match a.(v - 1) with
              | Some _ as old -> a.(v - 1) <- None; if not (all_sat ()) then a.(v - 1) <- old
              | None -> ()
            done;
            Some (Array.to_list a)
        | _ -> r
      in
      let text = string_of_bytes (Dimacs.print_reply r) in
      let code = match r with Some _ -> 10 | None -> 20 in
      if not misbehave then (print_string text; flush stdout; exit code)
      else begin
        let lines = Stdlib.List.filter (fun l -> l <> "") (String.split_on_char '\n' text) in
        (match !kind with
         | "nostatus" ->
             Stdlib.List.iter (fun l -> if String.length l > 0 && l.[0] <> 's' then print_string (l ^ "\n")) lines;
             print_string "c no status line\n"
         | "truncated" ->
             (match r with
              | Some _ ->
                  (* the model without its terminating 0 *)
                  let t = String.concat "\n" lines in
                  let t = if String.length t >= 2 && String.sub t (String.length t - 2) 2 = " 0"
                          then String.sub t 0 (String.length t - 2) else t in
                  print_string (t ^ "\n")
              | None -> print_string "s UNSATISFIA")
         | "garbage" -> print_string ("foo bar\n" ^ text)
         | _ -> ());
        flush stdout; exit 0
      end
