(* modes satobj / dimacs / reply / pipe (C15, C16): the SAT solver object models (Model.SatObjects),
   the DIMACS text (Sat.Dimacs) and the pipe LTS (Model.Pipe) on the inputs of a harness file. *)
open Dcommon
open Datatypes

let n_of_int (n : int) : BinNums.coq_N = if n = 0 then BinNums.N0 else BinNums.Npos (pos_of_int n)
let int_of_n (n : BinNums.coq_N) : int = match n with BinNums.N0 -> 0 | BinNums.Npos p -> int_of_pos p

let hex_of_bytes (l : BinNums.coq_N list) : string =
  if l = [] then "-"
  else String.concat "" (Stdlib.List.map (fun n -> Printf.sprintf "%02x" (int_of_n n land 255)) l)
let bytes_of_hex (s : string) : BinNums.coq_N list =
  if s = "-" then []
  else Stdlib.List.init (String.length s / 2) (fun i -> n_of_int (int_of_string ("0x" ^ String.sub s (2 * i) 2)))

let lits_of toks = Stdlib.List.map (fun t -> z_of_int (int_of_string t)) toks
let lits_s (l : Cnf.lit list) = join " " (fun z -> string_of_int (int_of_z z)) l

let assignment_s (m : Cnf.assignment) =
  if m = [] then "e"
  else String.concat "" (Stdlib.List.map (function Some true -> "1" | Some false -> "0" | None -> "-") m)
let parse_assignment (s : string) : Cnf.assignment =
  if s = "e" then []
  else Stdlib.List.init (String.length s) (fun i -> match s.[i] with '1' -> Some true | '0' -> Some false | _ -> None)

let answer_s = function
  | Cnf.Sat m -> "S " ^ assignment_s m
  | Cnf.Unsat -> "U"
  | Cnf.Unknown -> "X"

let obs_s = function
  | SatObjects.ObsUnit -> "unit"
  | SatObjects.ObsNum n -> Printf.sprintf "nv %d" (int_of_nat n)
  | SatObjects.ObsAns a -> answer_s a
  | SatObjects.ObsPanic -> "panic"

let sop_of toks : SatObjects.sop option =
  match toks with
  | "op" :: "add" :: ls -> Some (SatObjects.OAdd (lits_of ls))
  | [ "op"; "res"; n ] -> Some (SatObjects.OReserve (nat_of_int (int_of_string n)))
  | "op" :: "solve" :: ls -> Some (SatObjects.OSolve (lits_of ls))
  | [ "op"; "solve0" ] -> Some (SatObjects.OSolve [])
  | [ "op"; "nv" ] -> Some SatObjects.ONVars
  | _ -> None

let is_solve = function SatObjects.OSolve _ -> true | _ -> false

(* recorded observations of the harness: tag -> index -> tokens *)
let recorded (c : case) (tag : string) : (int * string list) list =
  Stdlib.List.filter_map
    (fun (t, toks) ->
      if t = "OUT" then match toks with
        | tg :: i :: rest when tg = tag -> Some (int_of_string i, rest)
        | _ -> None
      else None)
    c.lines

(* ---------------------------------------------------------------- satobj *)
let run_satobj (c : case) =
  begin_case c;
  let ops = Stdlib.List.filter_map sop_of (ins c) in
  let cad_rec = recorded c "cad" in
  (* CadicalSolver model; the backend's answers are the recorded ones *)
  let s = ref SatObjects.cad_new in
  (try
     Stdlib.List.iteri
       (fun i o ->
         let bk : SatObjects.backend = fun _ _ _ ->
           match Stdlib.List.assoc_opt i cad_rec with
           | Some [ "S"; bits ] ->
               let m = Array.of_list (parse_assignment bits) in
               SatObjects.BSat (fun v -> let k = int_of_nat v - 1 in if k >= 0 && k < Array.length m then m.(k) else None)
           | Some [ "U" ] -> SatObjects.BUnsat
           | _ -> SatObjects.BUnknown
         in
         let s', ob = SatObjects.cad_step bk !s o in
         s := s';
         out (Printf.sprintf "cad %d %s" i (obs_s ob));
         if ob = SatObjects.ObsPanic then raise Exit)
       ops
   with Exit -> ());
  (* the same object with the reference solver as backend: verdicts *)
  let s = ref SatObjects.cad_new in
  Stdlib.List.iteri
    (fun i o ->
      let s', ob = SatObjects.cad_step SatObjects.dpll_backend !s o in
      s := s';
      if is_solve o then
        out (Printf.sprintf "cadd %d %s" i (match SatObjects.verdict_of ob with Some true -> "S" | Some false -> "U" | None -> "X")))
    ops;
  (* BufferedSatSolver model with vdpll as solving function *)
  let s = ref SatObjects.buf_new in
  (try
     Stdlib.List.iteri
       (fun i o ->
         let s', ob = SatObjects.buf_step SatObjects.vdpll_fn !s o in
         s := s';
         out (Printf.sprintf "ext %d %s" i (obs_s ob));
         if ob = SatObjects.ObsPanic then raise Exit)
       ops
   with Exit -> ());
  end_case ()

(* ---------------------------------------------------------------- dimacs *)
let run_dimacs_hist (c : case) =
  begin_case c;
  let ops = Stdlib.List.filter_map sop_of (ins c) in
  let s = ref SatObjects.buf_new in
  (try
     Stdlib.List.iteri
       (fun i o ->
         (match o with
          | SatObjects.OSolve a -> out (Printf.sprintf "inst %d %s" i (hex_of_bytes (SatObjects.buf_instance !s a)))
          | _ -> ());
         let s', ob = SatObjects.buf_step SatObjects.vdpll_fn !s o in
         s := s';
         out (Printf.sprintf "ext %d %s" i (obs_s ob));
         if ob = SatObjects.ObsPanic then raise Exit)
       ops
   with Exit -> ());
  end_case ()

let rec before_arrow = function
  | "=>" :: _ -> []
  | x :: r -> x :: before_arrow r
  | [] -> []

let run_dimacs_af (c : case) =
  begin_case c;
  let tbl : (string, SatObjects.bstate) Hashtbl.t = Hashtbl.create 8 in
  let get sid = try Hashtbl.find tbl sid with Not_found -> SatObjects.buf_new in
  (try
     Stdlib.List.iter
       (fun toks ->
         match toks with
         | [ sid; "new" ] -> Hashtbl.replace tbl sid SatObjects.buf_new; ev (sid ^ " new")
         | sid :: "cl" :: ls ->
             let s', _ = SatObjects.buf_step SatObjects.vdpll_fn (get sid) (SatObjects.OAdd (lits_of ls)) in
             Hashtbl.replace tbl sid s'; ev (String.concat " " toks)
         | [ sid; "res"; n ] ->
             let s', _ = SatObjects.buf_step SatObjects.vdpll_fn (get sid) (SatObjects.OReserve (nat_of_int (int_of_string n))) in
             Hashtbl.replace tbl sid s'; ev (String.concat " " toks)
         | [ sid; "nv"; _ ] ->
             ev (Printf.sprintf "%s nv %d" sid (int_of_nat ((get sid).SatObjects.bnvars)))
         | sid :: "solve" :: r ->
             let a = lits_of (before_arrow r) in
             let s0 = get sid in
             let inst = SatObjects.buf_instance s0 a in
             let s', ob = SatObjects.buf_step SatObjects.vdpll_fn s0 (SatObjects.OSolve a) in
             Hashtbl.replace tbl sid s';
             ev (Printf.sprintf "%s solve %s => %s" sid (lits_s a) (obs_s ob));
             ev (Printf.sprintf "%s inst %s" sid (hex_of_bytes inst));
             if ob = SatObjects.ObsPanic then raise Exit
         | [ _; "inst"; _ ] -> ()
         | _ -> ())
       (evs c)
   with Exit -> ());
  end_case ()

(* ---------------------------------------------------------------- reply *)
let run_reply (c : case) =
  begin_case c;
  let n = ref 0 and bytes = ref [] in
  Stdlib.List.iter
    (fun toks ->
      match toks with
      | [ "nvars"; k ] -> n := int_of_string k
      | [ "bytes"; h ] -> bytes := bytes_of_hex h
      | _ -> ())
    (ins c);
  out (obs_s (SatObjects.obs_of_reply (Dimacs.reply_parse (nat_of_int !n) !bytes)));
  end_case ()

(* ---------------------------------------------------------------- pipe *)
let run_pipe (order : string) (c : case) =
  begin_case c;
  Stdlib.List.iter
    (fun toks ->
      match toks with
      | "pipe" :: kvs ->
          let kv = Stdlib.List.filter_map (fun t -> match String.split_on_char '=' t with [ k; v ] -> Some (k, v) | _ -> None) kvs in
          let geti k = int_of_string (Stdlib.List.assoc k kv) in
          let units b = (b + 1023) / 1024 in
          let cap = let cp = geti "cap" in if cp <= 0 then 64 else max 1 (cp / 1024) in
          let read_all = Stdlib.List.assoc "read" kv = "all" in
          let prog =
            if read_all then [ Pipe.CRdAll; Pipe.CWr (nat_of_int (units (geti "pad" + geti "answer"))) ]
            else [ Pipe.CWr (nat_of_int (units (geti "pad"))) ] in
          let cfg = { Pipe.ord = (if order = "wd" then Pipe.WaitThenDrain else Pipe.DrainThenWait);
                      Pipe.cap_in = nat_of_int cap; Pipe.cap_out = nat_of_int cap;
                      Pipe.in_len = nat_of_int (units (geti "in_len")); Pipe.prog = prog } in
          out (match Pipe.run_config cfg with Pipe.VFinal -> "returned" | Pipe.VStuck -> "hung" | Pipe.VFuel -> "fuel")
      | _ -> ())
    (ins c);
  end_case ()

let run (mode : string) (path : string) (argv : string list) =
  let order = ref "dw" in
  let rec opts = function
    | "--order" :: v :: r -> order := v; opts r
    | _ :: r -> opts r
    | [] -> ()
  in
  opts argv;
  Stdlib.List.iter
    (fun (c : case) ->
      match mode with
      | "satobj" -> run_satobj c
      | "dimacs" ->
          if String.length c.kind >= 11 && String.sub c.kind 0 11 = "dimacs/hist" then run_dimacs_hist c
          else run_dimacs_af c
      | "reply" -> run_reply c
      | _ -> run_pipe !order c)
    (read_cases path);
  flush_out ()
