(* Shared pieces of the model driver: case-file parsing, conversions between OCaml ints and the
   extracted Coq numbers, printing. *)
open Datatypes

let rec nat_of_int (n : int) : nat = if n <= 0 then O else S (nat_of_int (n - 1))
let int_of_nat (n : nat) : int =
  let rec go acc = function O -> acc | S k -> go (acc + 1) k in go 0 n

let rec pos_of_int (n : int) : BinNums.positive =
  if n <= 1 then BinNums.Coq_xH
  else if n land 1 = 0 then BinNums.Coq_xO (pos_of_int (n lsr 1))
  else BinNums.Coq_xI (pos_of_int (n lsr 1))
let rec int_of_pos (p : BinNums.positive) : int =
  match p with
  | BinNums.Coq_xH -> 1
  | BinNums.Coq_xO q -> 2 * int_of_pos q
  | BinNums.Coq_xI q -> 2 * int_of_pos q + 1
let z_of_int (n : int) : BinNums.coq_Z =
  if n = 0 then BinNums.Z0 else if n > 0 then BinNums.Zpos (pos_of_int n) else BinNums.Zneg (pos_of_int (-n))
let int_of_z (z : BinNums.coq_Z) : int =
  match z with BinNums.Z0 -> 0 | BinNums.Zpos p -> int_of_pos p | BinNums.Zneg p -> - (int_of_pos p)

type case = {
  id : string;
  kind : string;
  lines : (string * string list) list;   (* tag, tokens: IN / EV / OUT in file order *)
}

let split_ws (s : string) : string list =
  Stdlib.List.filter (fun t -> t <> "") (String.split_on_char ' ' s)

let read_cases (path : string) : case list =
  let ic = open_in path in
  let cases = ref [] in
  let cur = ref None in
  (try
     while true do
       let l = input_line ic in
       match split_ws l with
       | "CASE" :: id :: rest ->
           cur := Some { id; kind = String.concat " " rest; lines = [] }
       | [ "END" ] -> (
           match !cur with
           | Some c ->
               cases := { c with lines = Stdlib.List.rev c.lines } :: !cases;
               cur := None
           | None -> ())
       | tag :: toks -> (
           match !cur with
           | Some c -> cur := Some { c with lines = (tag, toks) :: c.lines }
           | None -> ())
       | [] -> ()
     done
   with End_of_file -> close_in ic);
  Stdlib.List.rev !cases

let ins (c : case) : string list list =
  Stdlib.List.filter_map (fun (t, toks) -> if t = "IN" then Some toks else None) c.lines
let evs (c : case) : string list list =
  Stdlib.List.filter_map (fun (t, toks) -> if t = "EV" then Some toks else None) c.lines

let buf = Buffer.create 65536
let emit tag s = Buffer.add_string buf tag; Buffer.add_char buf ' '; Buffer.add_string buf s; Buffer.add_char buf '\n'
let out s = emit "OUT" s
let ev s = emit "EV" s
let begin_case (c : case) = Buffer.add_string buf (Printf.sprintf "CASE %s %s\n" c.id c.kind)
let end_case () = Buffer.add_string buf "END\n"
let flush_out () = print_string (Buffer.contents buf); Buffer.clear buf

let join sep f l = String.concat sep (Stdlib.List.map f l)
let ints_of toks = Stdlib.List.map int_of_string toks
let nats_of toks = Stdlib.List.map (fun t -> nat_of_int (int_of_string t)) toks
let rec pairs_of = function
  | a :: b :: r -> (a, b) :: pairs_of r
  | _ -> []
