let () =
  match Array.to_list Sys.argv with
  | _ :: "store" :: path :: _ -> D_store.run path
  | _ -> prerr_endline "usage: driver <mode> <cases-file>"; exit 2
