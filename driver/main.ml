let () =
  let argv = Array.to_list Sys.argv in
  let rec opts = function
    | "--thr" :: v :: r -> D_static.thr := int_of_string v; D_dynamic.thr := int_of_string v; opts r
    | "--max-n" :: v :: r -> D_spec.max_n := int_of_string v; opts r
    | "--bound" :: r -> D_spec.with_bound := true; opts r
    | "--cli-max-n" :: v :: r -> D_cli.max_n := int_of_string v; opts r
    | "--equiv-max-n" :: v :: r -> D_equiv.max_n := int_of_string v; opts r
    | _ :: r -> opts r
    | [] -> ()
  in
  opts argv;
  match argv with
  | _ :: "store" :: path :: _ -> D_store.run path
  | _ :: "components" :: path :: _ -> D_components.run path
  | _ :: "static" :: path :: _ -> D_static.run path
  | _ :: "spec" :: path :: _ -> D_spec.run path
  | _ :: "encoders" :: path :: _ -> D_encoders.run path
  | _ :: "encspec" :: path :: _ -> D_encoders.run_spec path
  | _ :: "equiv" :: path :: _ -> D_equiv.run path
  | _ :: "cli" :: path :: _ -> D_cli.run path
  | _ :: "equiv-spec" :: path :: _ -> D_equiv.run_spec path
  | _ :: "readers" :: path :: _ -> D_readers.run_readers path
  | _ :: "writers" :: path :: _ -> D_readers.run_writers path
  | _ :: ("satobj" | "dimacs" | "reply" | "pipe" as m) :: path :: _ -> D_satobj.run m path argv
  | _ :: "dynspec" :: path :: _ -> D_dynspec.run path
  | _ :: "dynamic" :: path :: _ -> D_dynamic.run path
  | _ -> prerr_endline "usage: driver <mode> <cases-file> [--thr N]"; exit 2
