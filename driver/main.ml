let () =
  let argv = Array.to_list Sys.argv in
  let rec opts = function
    | "--thr" :: v :: r -> D_static.thr := int_of_string v; D_dynamic.thr := int_of_string v; opts r
    | "--max-n" :: v :: r -> D_spec.max_n := int_of_string v; opts r
    | _ :: r -> opts r
    | [] -> ()
  in
  opts argv;
  match argv with
  | _ :: "store" :: path :: _ -> D_store.run path
  | _ :: "static" :: path :: _ -> D_static.run path
  | _ :: "spec" :: path :: _ -> D_spec.run path
  | _ :: "dynspec" :: path :: _ -> D_dynspec.run path
  | _ :: "dynamic" :: path :: _ -> D_dynamic.run path
  | _ -> prerr_endline "usage: driver <mode> <cases-file> [--thr N]"; exit 2
