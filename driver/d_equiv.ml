(* equiv mode (C19): runs the extracted Model.Equiv on the framework of each case and prints what the
   harness prints for the implementation.
   equiv-spec mode: the implementation-level oracle.  It reads the implementation's OWN output (the
   OUT lines of the case) and judges it against the brute-force complete extensions of Spec.AF
   (all_exts CO); it does not use Model.Equiv. *)
open Dcommon
open Datatypes

let max_n = ref 10

let af_of_case (c : case) : (int * AF.af) option =
  Stdlib.List.fold_left
    (fun acc toks ->
      match toks with
      | "iccma" :: n :: rest ->
          let n = int_of_string n in
          let atts = Stdlib.List.map (fun (a, b) -> (nat_of_int (int_of_string a), nat_of_int (int_of_string b))) (pairs_of rest) in
          Some (n, AF.compact (nat_of_int n) atts)
      | _ -> acc)
    None (ins c)

let ints l = join "," (fun a -> string_of_int (int_of_nat a)) l

(* ------------------------------------------------------------------ model *)
let run_model (c : case) =
  begin_case c;
  (match af_of_case c with
   | None -> out "nocase"
   | Some (n, f) -> (
       match Equiv.equivalency_new (fun i -> S i) f with
       | Equiv.Panic -> out "panic model"
       | Equiv.OutOfFuel -> out "outoffuel model"
       | Equiv.Done e ->
           let red = e.Equiv.e_reduced in
           let rargs = Store.iter_args red in
           out (Printf.sprintf "nred %d natt %d" (int_of_nat (Store.n_arguments red)) (int_of_nat (Store.n_attacks red)));
           out ("r2i " ^ join " " (fun (r, _) ->
                    match Equiv.reduced_arg_to_init_args e r with
                    | Some l -> Printf.sprintf "%d=%s" (int_of_nat r) (ints l)
                    | None -> Printf.sprintf "%d=panic" (int_of_nat r)) rargs);
           out ("i2r " ^ join " " (fun a ->
                    match Equiv.init_to_reduced_arg f e (nat_of_int a) with
                    | Some (r, l) -> Printf.sprintf "%d>%d:%d" a (int_of_nat r) (int_of_nat l)
                    | None -> Printf.sprintf "%d>panic" a) (Stdlib.List.init n (fun i -> i)));
           out ("rargs " ^ join " " (fun (r, l) -> Printf.sprintf "%d:%d" (int_of_nat r) (int_of_nat l)) rargs);
           out ("ratts " ^ join " " (fun (a, b) -> Printf.sprintf "%d>%d" (int_of_nat a) (int_of_nat b)) (Store.iter_attacks red))));
  end_case ()

let run path = Stdlib.List.iter run_model (read_cases path); flush_out ()

(* ------------------------------------------------------------------ oracle *)
exception Bad of string

let split_on ch s = String.split_on_char ch s
let ios s = try int_of_string s with _ -> raise (Bad ("unparsable-number-" ^ s))

let judge (c : case) =
  match af_of_case c with
  | None -> out "verdict badcase"
  | Some (n, f) ->
      let implout = Stdlib.List.filter_map (fun (t, toks) -> if t = "OUT" then Some toks else None) c.lines in
      let find tag = Stdlib.List.find_opt (fun toks -> match toks with t :: _ -> t = tag | [] -> false) implout in
      if find "panic" <> None then out "verdict panic"
      else if n > !max_n then out "verdict skipped-too-large"
      else (
        try
          let body tag = match find tag with Some (_ :: r) -> r | _ -> raise (Bad ("missing-line-" ^ tag)) in
          (* reduced -> init: list of (reduced id, members) *)
          let r2i = Stdlib.List.map (fun t -> match split_on '=' t with
              | [ r; ms ] -> (ios r, if ms = "" then [] else Stdlib.List.map ios (split_on ',' ms))
              | _ -> raise (Bad "unparsable-r2i")) (body "r2i") in
          (* init -> reduced: (init id, reduced id, reduced label) *)
          let i2r = Stdlib.List.map (fun t -> match split_on '>' t with
              | [ a; rl ] -> (match split_on ':' rl with
                  | [ r; l ] -> (ios a, ios r, ios l)
                  | _ -> raise (Bad "unparsable-i2r"))
              | _ -> raise (Bad "unparsable-i2r")) (body "i2r") in
          let rargs = Stdlib.List.map (fun t -> match split_on ':' t with
              | [ r; l ] -> (ios r, ios l) | _ -> raise (Bad "unparsable-rargs")) (body "rargs") in
          let nred = Stdlib.List.length rargs in
          (* reduced arguments: ids 0..nred-1, each with exactly one class *)
          Stdlib.List.iteri (fun i (r, _) -> if r <> i then raise (Bad "reduced-ids-not-compact")) rargs;
          if Stdlib.List.map fst r2i <> Stdlib.List.map fst rargs then raise (Bad "reduced-to-init-not-total-on-the-reduced-arguments");
          (* (b) the classes partition 0..n-1 *)
          let count = Array.make n 0 in
          Stdlib.List.iter (fun (r, ms) ->
              if ms = [] then raise (Bad (Printf.sprintf "empty-class-%d" r));
              Stdlib.List.iter (fun a ->
                  if a < 0 || a >= n then raise (Bad (Printf.sprintf "class-member-%d-not-an-argument" a));
                  count.(a) <- count.(a) + 1) ms) r2i;
          Array.iteri (fun a k ->
              if k = 0 then raise (Bad (Printf.sprintf "argument-%d-in-no-class" a));
              if k > 1 then raise (Bad (Printf.sprintf "argument-%d-in-%d-classes" a k))) count;
          (* (d) the maps are total and inverse at the level of classes *)
          if Stdlib.List.map (fun (a, _, _) -> a) i2r <> Stdlib.List.init n (fun i -> i) then raise (Bad "init-to-reduced-not-total");
          Stdlib.List.iter (fun (a, r, l) ->
              if r < 0 || r >= nred then raise (Bad (Printf.sprintf "init-to-reduced-%d-out-of-range" a));
              if Stdlib.List.assoc r rargs <> l then raise (Bad (Printf.sprintf "init-to-reduced-%d-label-mismatch" a));
              if not (Stdlib.List.mem a (Stdlib.List.assoc r r2i)) then
                raise (Bad (Printf.sprintf "argument-%d-not-in-the-class-of-its-image-%d" a r))) i2r;
          Stdlib.List.iter (fun (r, ms) ->
              Stdlib.List.iter (fun b ->
                  let (_, r', _) = Stdlib.List.find (fun (a, _, _) -> a = b) i2r in
                  if r' <> r then raise (Bad (Printf.sprintf "member-%d-of-class-%d-maps-to-%d" b r r'))) ms;
              (* the reduced argument carries the label of a member of its class (ICCMA label = id + 1) *)
              let l = Stdlib.List.assoc r rargs in
              if not (Stdlib.List.mem (l - 1) ms) then raise (Bad (Printf.sprintf "label-of-reduced-%d-is-not-a-member" r))) r2i;
          (* (c) members of a class lie in exactly the same complete extensions *)
          let exts = AF.all_exts AF.CO f in
          let exts_i = Stdlib.List.map (fun e -> Stdlib.List.map int_of_nat e) exts in
          if exts_i = [] then raise (Bad "spec-has-no-complete-extension");
          Stdlib.List.iter (fun (r, ms) ->
              match ms with
              | [] -> ()
              | a0 :: rest ->
                  Stdlib.List.iter (fun e ->
                      let in0 = Stdlib.List.mem a0 e in
                      Stdlib.List.iter (fun b ->
                          if Stdlib.List.mem b e <> in0 then
                            raise (Bad (Printf.sprintf "class-%d-members-%d-and-%d-separated-by-complete-extension-{%s}" r a0 b
                                          (String.concat "," (Stdlib.List.map string_of_int e))))) rest) exts_i) r2i;
          (* grounded extension = the complete extension included in all the others; its members
             together, the arguments it attacks together *)
          let gr = Stdlib.List.filter (fun a -> Stdlib.List.for_all (fun e -> Stdlib.List.mem a e) exts_i) (Stdlib.List.init n (fun i -> i)) in
          let atts_i = Stdlib.List.map (fun (a, b) -> (int_of_nat a, int_of_nat b)) f.AF.atts in
          let defeated = Stdlib.List.filter (fun b -> Stdlib.List.exists (fun (a, b') -> b' = b && Stdlib.List.mem a gr) atts_i) (Stdlib.List.init n (fun i -> i)) in
          let class_of a = let (_, r, _) = Stdlib.List.find (fun (a', _, _) -> a' = a) i2r in r in
          let together what l = match l with
            | [] -> ()
            | a0 :: rest -> Stdlib.List.iter (fun b -> if class_of b <> class_of a0 then
                                                   raise (Bad (Printf.sprintf "%s-arguments-%d-and-%d-in-different-classes" what a0 b))) rest in
          together "grounded" gr;
          together "grounded-defeated" defeated;
          let merged = Stdlib.List.length (Stdlib.List.filter (fun (_, ms) -> Stdlib.List.length ms > 1) r2i) in
          out (Printf.sprintf "spec n=%d nexts=%d nclasses=%d merged=%d grounded=%d defeated=%d" n
                 (Stdlib.List.length exts_i) nred merged (Stdlib.List.length gr) (Stdlib.List.length defeated));
          out "verdict ok"
        with
        | Bad why -> out ("verdict bad " ^ why)
        | Not_found -> out "verdict bad inconsistent-maps")

let run_spec path =
  Stdlib.List.iter (fun c -> begin_case c; judge c; end_case ()) (read_cases path);
  flush_out ()
