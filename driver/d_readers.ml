(* readers / writers modes (C13, C14): runs Model.Readers and Model.Writers on the bytes / stores /
   extensions of the harness cases and prints OUT lines in the harness format.
   Label syntax on case lines: usize labels in decimal; string labels as their code points in hex
   joined by '.', the empty string as "-". *)
open Dcommon
open Datatypes

(* ---- numbers: bytes and code points are Coq N ---- *)
let n_of_int (i : int) : BinNums.coq_N = if i <= 0 then BinNums.N0 else BinNums.Npos (pos_of_int i)
let int_of_n (n : BinNums.coq_N) : int = match n with BinNums.N0 -> 0 | BinNums.Npos p -> int_of_pos p

let ten = n_of_int 10
(* decimal string of any size to N (usize::MAX does not fit an OCaml int) *)
let n_of_dec (s : string) : BinNums.coq_N =
  let acc = ref BinNums.N0 in
  String.iter (fun ch -> acc := BinNat.N.add (BinNat.N.mul !acc ten) (n_of_int (Char.code ch - 48))) s;
  !acc
let dec_of_n (n : BinNums.coq_N) : string =
  String.concat "" (Stdlib.List.map (fun d -> String.make 1 (Char.chr (int_of_n d))) (Writers.dec n))

let bytes_of_hex (h : string) : BinNums.coq_N list =
  if h = "-" then []
  else Stdlib.List.init (String.length h / 2) (fun i -> n_of_int (int_of_string ("0x" ^ String.sub h (2 * i) 2)))
let hex_of_bytes (l : BinNums.coq_N list) : string =
  if l = [] then "-" else String.concat "" (Stdlib.List.map (fun b -> Printf.sprintf "%02x" (int_of_n b)) l)

let str_of_tok (t : string) : BinNums.coq_N list =
  if t = "-" then [] else Stdlib.List.map (fun x -> n_of_int (int_of_string ("0x" ^ x))) (String.split_on_char '.' t)
let tok_of_str (s : BinNums.coq_N list) : string =
  if s = [] then "-" else String.concat "." (Stdlib.List.map (fun c -> Printf.sprintf "%x" (int_of_n c)) s)

let nat_tok n = string_of_int (int_of_nat n)
let pairs_s l = join " " (fun (a, b) -> Printf.sprintf "%d>%d" (int_of_nat a) (int_of_nat b)) l

let obs_s (lab : 'a -> string) (f : 'a Store.fw) : string =
  let labels, atts = Readers.observe f in
  Printf.sprintf "ok %s ; %s" (join " " lab labels) (pairs_s atts)

let rd_s (lab : 'a -> string) (r : 'a Store.fw Readers.rd) : string =
  match r with
  | Readers.RdOk f -> obs_s lab f
  | Readers.RdErr -> "err"
  | Readers.RdPanic -> "panic"

let nat_leqb = PeanoNat.Nat.eqb
let str_leqb = Readers.str_eqb

(* ---- histories over either label type ---- *)
let op_gen (lab : string -> 'a) toks : 'a Store.op =
  match toks with
  | [ "+a"; l ] -> Store.OpNewArg (lab l)
  | [ "-a"; l ] -> Store.OpRemArg (lab l)
  | [ "+t"; a; b ] -> Store.OpNewAtt (lab a, lab b)
  | [ "-t"; a; b ] -> Store.OpRemAtt (lab a, lab b)
  | _ -> failwith "bad op"

let build_hist leqb (lab : string -> 'a) (c : case) : 'a Store.fw =
  let f = ref (Store.fw_new_with_labels leqb []) in
  Stdlib.List.iter
    (fun toks ->
      match toks with
      | "init" :: ls -> f := Store.fw_new_with_labels leqb (Stdlib.List.map lab ls)
      | "op" :: o -> f := fst (Store.step leqb !f (op_gen lab o))
      | _ -> ())
    (ins c);
  !f

let nat_lab t = nat_of_int (int_of_string t)

(* ---- readers ---- *)
let arg_lines_iccma f (c : case) =
  Stdlib.List.iter
    (fun toks ->
      match toks with
      | [ "arg"; h ] -> (
          match Readers.utf8_decode (bytes_of_hex h) with
          | None -> out (Printf.sprintf "arg %s invalid-utf8" h)
          | Some s -> (
              match Readers.iccma_read_arg f s with
              | Readers.RdOk (id, l) -> out (Printf.sprintf "arg %s ok %s %s" h (nat_tok id) (nat_tok l))
              | Readers.RdErr -> out (Printf.sprintf "arg %s err" h)
              | Readers.RdPanic -> out (Printf.sprintf "arg %s panic" h)))
      | _ -> ())
    (ins c)

let arg_lines_apx f (c : case) =
  Stdlib.List.iter
    (fun toks ->
      match toks with
      | [ "arg"; h ] -> (
          match Readers.utf8_decode (bytes_of_hex h) with
          | None -> out (Printf.sprintf "arg %s invalid-utf8" h)
          | Some s -> (
              match Readers.apx_read_arg f s with
              | Readers.RdOk (id, l) -> out (Printf.sprintf "arg %s ok %s %s" h (nat_tok id) (tok_of_str l))
              | Readers.RdErr -> out (Printf.sprintf "arg %s err" h)
              | Readers.RdPanic -> out (Printf.sprintf "arg %s panic" h)))
      | _ -> ())
    (ins c)

let find_in (c : case) (key : string) : string list option =
  Stdlib.List.find_map (fun toks -> match toks with k :: r when k = key -> Some r | _ -> None) (ins c)

let run_reader_case (c : case) =
  begin_case c;
  (match find_in c "hist" with
   | Some [ "iccma" ] ->
       (* read_arg_from_str on a store built by a history (may contain removed ids) *)
       arg_lines_iccma (build_hist nat_leqb nat_lab c) c
   | Some [ "apx" ] -> arg_lines_apx (build_hist str_leqb str_of_tok c) c
   | _ -> (
       let bytes = match find_in c "bytes" with Some [ h ] -> bytes_of_hex h | _ -> [] in
       let fmt = match find_in c "fmt" with Some [ f ] -> f | _ -> "iccma" in
       let ri = Readers.read_iccma bytes in
       let ra = Readers.read_apx bytes in
       out ("iccma " ^ rd_s nat_tok ri);
       out ("apx " ^ rd_s tok_of_str ra);
       match fmt, ri, ra with
       | "iccma", Readers.RdOk f, _ -> arg_lines_iccma f c
       | "apx", _, Readers.RdOk f -> arg_lines_apx f c
       | _ -> ()));
  end_case ()

let run_readers path = Stdlib.List.iter run_reader_case (read_cases path); flush_out ()

(* ---- writers ---- *)
let label_pairs (lab : 'a -> string) (f : 'a Store.fw) : string =
  let atts = Store.iter_attacks f in
  join " "
    (fun (a, b) ->
      match Writers.label_of f a, Writers.label_of f b with
      | Some la, Some lb -> lab la ^ ">" ^ lab lb
      | _ -> "?")
    atts

let run_writer_case (c : case) =
  begin_case c;
  (match split_ws c.kind with
   | [ k ] when (k = "writers/fw/usize" || k = "writers/fw/str") && find_in c "big" <> None ->
       (* thousands of arguments: too slow for the extracted model (unary numbers, non-tail-recursive lists);
          the exact-bytes and read-back oracles of checks/C14.py judge the case alone *)
       out "skipped-big"
   | [ k ] when k = "writers/fw/usize" || k = "writers/fw/str" ->
       let reread bytes =
         out ("reread " ^ rd_s tok_of_str (Readers.read_apx bytes)) in
       if k = "writers/fw/usize" then begin
         let f = build_hist nat_leqb nat_lab c in
         out (Printf.sprintf "fwobs %s ; %s" (join " " nat_tok (fst (Readers.observe f))) (label_pairs nat_tok f));
         match Writers.write_apx Writers.dec_nat f with
         | Some b -> out ("bytes " ^ hex_of_bytes b); reread b
         | None -> out "bytes panic"
       end else begin
         let f = build_hist str_leqb str_of_tok c in
         out (Printf.sprintf "fwobs %s ; %s" (join " " tok_of_str (fst (Readers.observe f))) (label_pairs tok_of_str f));
         match Writers.write_apx Writers.utf8_encode f with
         | Some b -> out ("bytes " ^ hex_of_bytes b); reread b
         | None -> out "bytes panic"
       end
   | [ "writers/ext/w" ] ->
       let labels = match find_in c "ext" with Some l -> Stdlib.List.map n_of_dec l | None -> [] in
       let b = Writers.write_w labels in
       out ("bytes " ^ hex_of_bytes b);
       out ("parsed " ^ (match Writers.parse_w b with Some l -> "ok " ^ join " " dec_of_n l | None -> "err"))
   | [ "writers/ext/bracket" ] ->
       let labels = match find_in c "ext" with Some l -> Stdlib.List.map str_of_tok l | None -> [] in
       let b = Writers.write_bracket labels in
       out ("bytes " ^ hex_of_bytes b);
       out ("parsed " ^ (match Writers.parse_bracket b with Some l -> "ok " ^ join " " tok_of_str l | None -> "err"))
   | [ "writers/status" ] ->
       let b = match find_in c "status" with
         | Some [ "yes" ] -> Writers.write_status true
         | Some [ "no" ] -> Writers.write_status false
         | _ -> Writers.write_no in
       out ("bytes " ^ hex_of_bytes b)
   | _ -> ());
  end_case ()

let run_writers path = Stdlib.List.iter run_writer_case (read_cases path); flush_out ()
