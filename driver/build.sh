#!/bin/sh
# Builds the OCaml driver from the extracted model.  Usage: build.sh  (run from anywhere)
set -e
cd "$(dirname "$0")"
mkdir -p extracted
(cd extracted && rm -f *.ml *.mli && coqc -Q ../../coq/theories Crusta ../../coq/theories/Extract/Extract.v > extract.log 2>&1) || { cat extracted/extract.log; exit 1; }
rm -rf _build && mkdir -p _build
cp extracted/*.ml extracted/*.mli _build/
cp *.ml _build/
cd _build
ORDER=$(ocamlfind ocamldep -sort *.ml *.mli)
ocamlfind ocamlopt -O3 -unboxed-types 2>/dev/null || true
# the driver: everything but the entry point of vdpll
DRV=$(for f in $ORDER; do case $f in vdpll_main.ml) ;; *) printf '%s ' $f ;; esac; done)
ocamlfind ocamlopt -w -a -o ../driver $DRV
# vdpll (stand-alone DIMACS solver): the same extracted modules + dcommon + its own entry point
VD=$(for f in $ORDER; do case $f in main.ml|d_*.ml) ;; *) printf '%s ' $f ;; esac; done)
ocamlfind ocamlopt -w -a -o ../vdpll.bin $VD
# the extracted parser recurses on the input: run it with a large stack
cat > ../vdpll <<'WRAP'
#!/bin/sh
ulimit -s unlimited 2>/dev/null || ulimit -s 4000000 2>/dev/null || true
exec "$(dirname "$0")/vdpll.bin" "$@"
WRAP
chmod +x ../vdpll
