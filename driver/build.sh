#!/bin/sh
# Builds the OCaml driver from the extracted model.  Usage: build.sh  (run from anywhere)
set -e
cd "$(dirname "$0")"
mkdir -p extracted
(cd extracted && rm -f *.ml *.mli && coqc -Q ../../coq/theories Crusta ../../coq/theories/Extract/Extract.v > extract.log 2>&1) || { cat extracted/extract.log; exit 1; }
rm -rf _build && mkdir -p _build
cp extracted/*.ml extracted/*.mli _build/
cp *.ml _build/
cd _build
ORDER=$(ocamlfind ocamldep -sort *.ml *.mli)
ocamlfind ocamlopt -O3 -unboxed-types 2>/dev/null || true
ocamlfind ocamlopt -w -a -o ../driver $ORDER
