(* dynspec mode (C08, C09): the MODEL-INDEPENDENT oracle for the dynamic solvers.  The update list of
   the case is replayed on the specification store (Store.step, proved equal to the set model in
   C12; an update that returns Err or is redundant leaves the store unchanged); after every query
   the from-scratch answer is computed by brute force (AF.all_exts) on the framework as it stands at
   that moment and the implementation's own OUT line is judged: status, certificate, and the result
   of every update call.  Output per case: one `OUT <step> ok|bad <reason>` line per step and a final
   `OUT verdict ok|bad <step> <reason>|skipped-too-large`. *)
open Dcommon
open Datatypes

let max_n = ref 10
let leqb = PeanoNat.Nat.eqb

let cache : (string, nat list list) Hashtbl.t = Hashtbl.create 256

let af_of_fw (f : nat Store.fw) : AF.af =
  { AF.args = Stdlib.List.map fst (Store.iter_args f); AF.atts = Store.iter_attacks f }

let key_of sem (fa : AF.af) =
  sem ^ "|" ^ join "," (fun a -> string_of_int (int_of_nat a)) fa.AF.args ^ "|"
  ^ join "," (fun (a, b) -> Printf.sprintf "%d>%d" (int_of_nat a) (int_of_nat b)) fa.AF.atts

let exts_cached semname sem fa =
  let k = key_of semname fa in
  match Hashtbl.find_opt cache k with
  | Some l -> l
  | None ->
      if Hashtbl.length cache > 20000 then Hashtbl.reset cache;
      let l = AF.all_exts sem fa in
      Hashtbl.replace cache k l; l

(* which semantics a solver kind answers for, by query; the semantics certificates must satisfy *)
let sem_of_kind kind q =
  match kind, q with
  | ("co" | "co_att" | "dummy_co"), "DC" -> Some ("CO", AF.CO)
  | ("st" | "st_att" | "dummy_st"), ("DC" | "DS") -> Some ("ST", AF.ST)
  | ("pr" | "dummy_pr"), "DS" -> Some ("PR", AF.PR)
  | _ -> None

let mem_nat a l = Stdlib.List.exists (fun b -> b = a) l
let same_set a b = Stdlib.List.for_all (fun x -> mem_nat x b) a && Stdlib.List.for_all (fun x -> mem_nat x a) b

let judge_query kind (f : nat Store.fw) q label cert (impl : string list) : string =
  match sem_of_kind kind q with
  | None -> "bad query-not-supported-by-this-solver-kind"
  | Some (semname, sem) -> (
      match Store.get_argument leqb f (nat_of_int label) with
      | None -> "skipped unknown-query-argument"
      | Some id -> (
          let fa = af_of_fw f in
          let exts = exts_cached semname sem fa in
          let expected =
            if q = "DC" then Stdlib.List.exists (fun s -> mem_nat id s) exts
            else Stdlib.List.for_all (fun s -> mem_nat id s) exts in
          let live = Store.iter_args f in
          match impl with
          | "panic" :: _ -> "bad query-panicked"
          | "acc" :: st :: rest -> (
              let yes = st = "YES" in
              if yes <> expected then
                Printf.sprintf "bad status-%s-expected-%s" st (if expected then "YES" else "NO")
              else
                let promised = cert && ((q = "DC" && yes) || (q = "DS" && not yes)) in
                match rest with
                | [ "nocert" ] -> if promised then "bad certificate-missing" else "ok"
                | "cert" :: e ->
                    let e = D_spec.parse_ext e in
                    let ids = Stdlib.List.map (fun (i, _) -> nat_of_int i) e in
                    let nodup = Stdlib.List.length (Stdlib.List.sort_uniq compare e) = Stdlib.List.length e in
                    let members_ok =
                      Stdlib.List.for_all (fun (i, l) ->
                          Stdlib.List.exists (fun (i', l') -> int_of_nat i' = i && int_of_nat l' = l) live) e in
                    if not cert then "bad certificate-from-a-call-without-certificate"
                    else if not promised then "bad certificate-not-promised"
                    else if not nodup then "bad duplicate-member-in-certificate"
                    else if not members_ok then "bad certificate-member-not-a-live-argument"
                    else if not (Stdlib.List.exists (same_set ids) exts) then
                      "bad certificate-is-not-an-extension-of-the-current-framework"
                    else if q = "DC" && not (mem_nat id ids) then "bad certificate-omits-the-argument"
                    else if q = "DS" && mem_nat id ids then "bad certificate-contains-the-argument"
                    else "ok"
                | _ -> "bad unparsable")
          | _ -> "bad unparsable-output"))

let res_s = function Store.ROk -> "ok" | Store.RErr -> "err" | Store.RPanic -> "panic"

let judge (c : case) =
  let kind = ref "co" in
  let f = ref (Store.fw_new_with_labels leqb []) in
  let pending = ref None in     (* the step whose OUT line is awaited *)
  let step = ref 0 in
  let first_bad = ref None in
  let too_large = ref false in
  let n_judged = ref 0 in
  let report v =
    out (Printf.sprintf "%d %s" !step v);
    if String.length v >= 3 && String.sub v 0 3 = "bad" && !first_bad = None then
      first_bad := Some (Printf.sprintf "%d %s" !step (String.sub v 4 (String.length v - 4))) in
  Stdlib.List.iter
    (fun (tag, toks) ->
      match tag, toks with
      | "IN", "kind" :: k :: _ -> kind := k
      | "IN", ("op" :: _ | "q" :: _) -> incr step; pending := Some toks
      | "OUT", impl -> (
          match !pending with
          | None -> if impl <> [] && Stdlib.List.hd impl = "panic" then (incr step; report "bad constructor-panicked")
          | Some ("op" :: o) ->
              pending := None;
              let f1, r = Store.step leqb !f (D_store.op_of o) in
              f := f1;
              (match impl with
               | [ "r"; x ] when x = res_s r -> report "ok"
               | "r" :: "panic" :: _ -> report "bad update-panicked"
               | "r" :: x :: _ -> report (Printf.sprintf "bad update-returned-%s-expected-%s" x (res_s r))
               | _ -> report "bad unparsable-update-result")
          | Some [ "q"; q; label; cert ] ->
              pending := None;
              if int_of_nat (Store.n_arguments !f) > !max_n then (too_large := true; report "skipped too-large")
              else begin
                incr n_judged;
                report (judge_query !kind !f q (int_of_string label) (cert = "cert") impl)
              end
          | Some _ -> pending := None)
      | _ -> ())
    c.lines;
  out (Printf.sprintf "judged %d" !n_judged);
  match !first_bad with
  | Some b -> out ("verdict bad " ^ b)
  | None -> out (if !too_large then "verdict skipped-too-large" else "verdict ok")

let run path =
  Stdlib.List.iter (fun c -> begin_case c; judge c; end_case ()) (read_cases path);
  flush_out ()
