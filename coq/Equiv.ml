open AF
open Datatypes
open Graph
open List
open Nat
open Store

type 'a outcome =
| Done of 'a
| Panic
| OutOfFuel

(** val ofold :
    ('a1 -> 'a2 -> 'a1 outcome) -> 'a2 list -> 'a1 -> 'a1 outcome **)

let rec ofold f l s =
  match l with
  | [] -> Done s
  | x :: r -> (match f s x with
               | Done s' -> ofold f r s'
               | x0 -> x0)

type eqclass =
| Grounded of nat list
| GroundedDefeated of nat list
| NotGrounded of nat list

(** val members : eqclass -> nat list **)

let members = function
| Grounded v -> v
| GroundedDefeated v -> v
| NotGrounded v -> v

(** val cl_first : eqclass -> nat option **)

let cl_first c =
  hd_error (members c)

(** val is_defeated_class : eqclass -> bool **)

let is_defeated_class = function
| GroundedDefeated _ -> true
| _ -> false

(** val n_attacks_to : af -> nat list **)

let n_attacks_to f =
  fold_left (fun c p -> set_nth (snd p) (S (nth_nat c (snd p))) c) f.atts
    (repeat O (length f.args))

type pstate = { p_cnt : nat list; p_prop : nat list; p_def : nat list }

(** val p_defend : nat list -> pstate -> nat -> pstate outcome **)

let p_defend seeds s defended =
  if memb defended seeds
  then Done s
  else (match nth_nat s.p_cnt defended with
        | O -> Panic
        | S k ->
          Done { p_cnt = (set_nth defended k s.p_cnt); p_prop =
            (if PeanoNat.Nat.eqb k O
             then app s.p_prop (defended :: [])
             else s.p_prop); p_def = s.p_def })

(** val p_attack_all :
    af -> nat list -> nat list -> pstate -> pstate option outcome **)

let rec p_attack_all f seeds l s =
  match l with
  | [] -> Done (Some s)
  | a :: r ->
    if memb a s.p_prop
    then Done None
    else if memb a s.p_def
         then p_attack_all f seeds r s
         else (match ofold (p_defend seeds) (attacked f a) { p_cnt = s.p_cnt;
                       p_prop = s.p_prop; p_def = (app s.p_def (a :: [])) } with
               | Done s' -> p_attack_all f seeds r s'
               | Panic -> Panic
               | OutOfFuel -> OutOfFuel)

(** val p_loop :
    nat -> af -> nat list -> nat -> pstate -> (nat list * nat list) option
    outcome **)

let rec p_loop fuel f seeds idx s =
  match fuel with
  | O -> OutOfFuel
  | S f0 ->
    (match nth_error s.p_prop idx with
     | Some id ->
       (match p_attack_all f seeds (attacked f id) s with
        | Done a ->
          (match a with
           | Some s' -> p_loop f0 f seeds (S idx) s'
           | None -> Done None)
        | Panic -> Panic
        | OutOfFuel -> OutOfFuel)
     | None -> Done (Some (s.p_prop, s.p_def)))

(** val propagate_fuel : af -> nat list -> nat **)

let propagate_fuel f seeds =
  S (add (length seeds) (length f.args))

(** val propagate :
    af -> nat list -> nat list -> (nat list * nat list) option outcome **)

let propagate f nat_to seeds =
  p_loop (propagate_fuel f seeds) f seeds O { p_cnt = nat_to; p_prop = seeds;
    p_def = [] }

(** val unattacked_args : nat list -> nat list **)

let unattacked_args nat_to =
  filter (fun a -> PeanoNat.Nat.eqb (nth_nat nat_to a) O)
    (seq O (length nat_to))

(** val compute_grounded_classes :
    af -> nat list -> (nat list * nat list) option outcome **)

let compute_grounded_classes f nat_to =
  propagate f nat_to (unattacked_args nat_to)

type cstate = { c_classes : eqclass list; c_in : bool list;
                c_props : nat list option list }

(** val c_candidate :
    af -> nat list -> nat -> ((nat list * bool list) * nat list option list)
    -> nat -> ((nat list * bool list) * nat list option list) outcome **)

let c_candidate f nat_to arg st id =
  let (p, props) = st in
  let (cls, inc) = p in
  (match propagate f nat_to (id :: []) with
   | Done r ->
     let p0 = match r with
              | Some p0 -> let (p1, _) = p0 in p1
              | None -> [] in
     if memb arg p0
     then Done (((app cls (id :: [])), (set_nth id true inc)),
            (set_nth id (Some []) props))
     else Done ((cls, inc), (set_nth id (Some p0) props))
   | Panic -> Panic
   | OutOfFuel -> OutOfFuel)

(** val c_step : af -> nat list -> cstate -> nat -> cstate outcome **)

let c_step f nat_to st arg =
  if nth_bool st.c_in arg
  then Done st
  else let fetched =
         match nth arg st.c_props None with
         | Some p -> Done ((Some p), (set_nth arg (Some []) st.c_props))
         | None ->
           (match propagate f nat_to (arg :: []) with
            | Done r -> Done ((option_map fst r), st.c_props)
            | Panic -> Panic
            | OutOfFuel -> OutOfFuel)
       in
       (match fetched with
        | Done a ->
          let (opt_arg_propagations, props1) = a in
          let inc1 = set_nth arg true st.c_in in
          (match opt_arg_propagations with
           | Some ap ->
             let retained =
               filter (fun id ->
                 (&&) (negb (nth_bool inc1 id)) (PeanoNat.Nat.ltb arg id)) ap
             in
             (match ofold (c_candidate f nat_to arg) retained (((arg :: []),
                      inc1), props1) with
              | Done a0 ->
                let (p, props2) = a0 in
                let (cls, inc2) = p in
                Done { c_classes =
                (app st.c_classes ((NotGrounded cls) :: [])); c_in = inc2;
                c_props = props2 }
              | Panic -> Panic
              | OutOfFuel -> OutOfFuel)
           | None ->
             Done { c_classes =
               (app st.c_classes ((NotGrounded (arg :: [])) :: [])); c_in =
               inc1; c_props = props1 })
        | Panic -> Panic
        | OutOfFuel -> OutOfFuel)

(** val mark_all : nat list -> bool list -> bool list **)

let mark_all l inc =
  fold_left (fun v id -> set_nth id true v) l inc

(** val compute_classes : af -> eqclass list outcome **)

let compute_classes f =
  let n = length f.args in
  let nat_to = n_attacks_to f in
  (match compute_grounded_classes f nat_to with
   | Done a ->
     (match a with
      | Some p ->
        let (grounded, defeated) = p in
        let classes0 =
          app
            (match grounded with
             | [] -> []
             | _ :: _ -> (Grounded grounded) :: [])
            (match defeated with
             | [] -> []
             | _ :: _ -> (GroundedDefeated defeated) :: [])
        in
        let inc0 =
          fold_left (fun v c -> mark_all (members c) v) classes0
            (repeat false n)
        in
        (match ofold (c_step f nat_to) (seq O n) { c_classes = classes0;
                 c_in = inc0; c_props = (repeat None n) } with
         | Done st -> Done st.c_classes
         | Panic -> Panic
         | OutOfFuel -> OutOfFuel)
      | None -> Done (map (fun i -> NotGrounded (i :: [])) (seq O n)))
   | Panic -> Panic
   | OutOfFuel -> OutOfFuel)

(** val firsts : eqclass list -> nat list option **)

let rec firsts = function
| [] -> Some []
| c :: r ->
  (match cl_first c with
   | Some a -> (match firsts r with
                | Some l -> Some (a :: l)
                | None -> None)
   | None -> None)

(** val init_to_reduced_ids : nat -> eqclass list -> nat list **)

let init_to_reduced_ids n classes =
  snd
    (fold_left (fun acc c ->
      let (class_id, v) = acc in
      ((S class_id),
      (fold_left (fun v0 arg_id -> set_nth arg_id class_id v0) (members c) v)))
      classes (O, (repeat O n)))

(** val reduce_attack :
    (nat -> nat) -> eqclass list -> nat list -> nat list -> nat fw ->
    (nat * nat) -> nat fw outcome **)

let reduce_attack _ classes i2r labels f p =
  let reduced_from_id = nth_nat i2r (fst p) in
  (match nth_error classes reduced_from_id with
   | Some c ->
     if is_defeated_class c
     then Done f
     else (match nth_error labels reduced_from_id with
           | Some lf ->
             (match nth_error labels (nth_nat i2r (snd p)) with
              | Some lt ->
                let (f', r) = new_attack PeanoNat.Nat.eqb f lf lt in
                (match r with
                 | ROk -> Done f'
                 | _ -> Panic)
              | None -> Panic)
           | None -> Panic)
   | None -> Panic)

(** val reduce_af :
    (nat -> nat) -> af -> eqclass list -> (nat fw * nat list) outcome **)

let reduce_af lab f classes =
  match firsts classes with
  | Some fs ->
    let labels = map lab fs in
    let i2r = init_to_reduced_ids (length f.args) classes in
    (match ofold (reduce_attack lab classes i2r labels) f.atts
             (fw_new_with_labels PeanoNat.Nat.eqb labels) with
     | Done f0 -> Done (f0, i2r)
     | Panic -> Panic
     | OutOfFuel -> OutOfFuel)
  | None -> Panic

type ecomp = { e_classes : eqclass list; e_reduced : nat fw; e_i2r : nat list }

(** val equivalency_new : (nat -> nat) -> af -> ecomp outcome **)

let equivalency_new lab f =
  match compute_classes f with
  | Done classes ->
    (match reduce_af lab f classes with
     | Done a ->
       let (f0, i2r) = a in
       Done { e_classes = classes; e_reduced = f0; e_i2r = i2r }
     | Panic -> Panic
     | OutOfFuel -> OutOfFuel)
  | Panic -> Panic
  | OutOfFuel -> OutOfFuel

(** val init_to_reduced_arg : af -> ecomp -> nat -> (nat * nat) option **)

let init_to_reduced_arg f e a =
  if PeanoNat.Nat.ltb a (length f.args)
  then let r = nth_nat e.e_i2r a in nth r e.e_reduced.ls.slots None
  else None

(** val reduced_arg_to_init_args : ecomp -> nat -> nat list option **)

let reduced_arg_to_init_args e r =
  option_map members (nth_error e.e_classes r)
