open Datatypes
open List
open PeanoNat

type af = { args : nat list; atts : (nat * nat) list }

type sem =
| GR
| CO
| PR
| ST
| SST
| STG
| ID

(** val memb : nat -> nat list -> bool **)

let memb a s =
  existsb (Nat.eqb a) s

(** val subsetb : nat list -> nat list -> bool **)

let subsetb s t =
  forallb (fun a -> memb a t) s

(** val attb : af -> nat -> nat -> bool **)

let attb f a b =
  existsb (fun p -> (&&) (Nat.eqb (fst p) a) (Nat.eqb (snd p) b)) f.atts

(** val attackers : af -> nat -> nat list **)

let attackers f a =
  map fst (filter (fun p -> Nat.eqb (snd p) a) f.atts)

(** val attacked : af -> nat -> nat list **)

let attacked f a =
  map snd (filter (fun p -> Nat.eqb (fst p) a) f.atts)

(** val cfb : af -> nat list -> bool **)

let cfb f s =
  forallb (fun a -> forallb (fun b -> negb (attb f a b)) s) s

(** val attacked_byb : af -> nat list -> nat -> bool **)

let attacked_byb f s a =
  existsb (fun b -> memb b s) (attackers f a)

(** val defendsb : af -> nat list -> nat -> bool **)

let defendsb f s a =
  forallb (fun b -> attacked_byb f s b) (attackers f a)

(** val cfsb : af -> nat list -> bool **)

let cfsb f s =
  (&&) (subsetb s f.args) (cfb f s)

(** val admb : af -> nat list -> bool **)

let admb f s =
  (&&) ((&&) (subsetb s f.args) (cfb f s)) (forallb (defendsb f s) s)

(** val cob : af -> nat list -> bool **)

let cob f s =
  (&&) (admb f s)
    (forallb (fun a -> implb (defendsb f s a) (memb a s)) f.args)

(** val stb : af -> nat list -> bool **)

let stb f s =
  (&&) ((&&) (subsetb s f.args) (cfb f s))
    (forallb (fun a -> (||) (memb a s) (attacked_byb f s a)) f.args)

(** val in_rangeb : af -> nat list -> nat -> bool **)

let in_rangeb f s a =
  (||) (memb a s) (attacked_byb f s a)

(** val range_inclb : af -> nat list -> nat list -> bool **)

let range_inclb f s s' =
  forallb (fun a -> implb (in_rangeb f s a) (in_rangeb f s' a)) f.args

(** val powerset : nat list -> nat list list **)

let rec powerset = function
| [] -> [] :: []
| x :: r -> let p = powerset r in app p (map (fun x0 -> x :: x0) p)

(** val grb : af -> nat list -> bool **)

let grb f s =
  (&&) (cob f s)
    (forallb (fun s' -> implb (cob f s') (subsetb s s')) (powerset f.args))

(** val prb : af -> nat list -> bool **)

let prb f s =
  (&&) (admb f s)
    (forallb (fun s' ->
      implb ((&&) (admb f s') (subsetb s s')) (subsetb s' s))
      (powerset f.args))

(** val sstb : af -> nat list -> bool **)

let sstb f s =
  (&&) (cob f s)
    (forallb (fun s' ->
      implb ((&&) (cob f s') (range_inclb f s s')) (range_inclb f s' s))
      (powerset f.args))

(** val stgb : af -> nat list -> bool **)

let stgb f s =
  (&&) (cfsb f s)
    (forallb (fun s' ->
      implb ((&&) (cfsb f s') (range_inclb f s s')) (range_inclb f s' s))
      (powerset f.args))

(** val idlb_with : nat list list -> af -> nat list -> bool **)

let idlb_with prs f s =
  let inside = fun s0 -> forallb (fun p -> subsetb s0 p) prs in
  (&&) ((&&) (admb f s) (inside s))
    (forallb (fun s' -> implb ((&&) (admb f s') (inside s')) (subsetb s' s))
      (powerset f.args))

(** val idlb : af -> nat list -> bool **)

let idlb f s =
  idlb_with (filter (prb f) (powerset f.args)) f s

(** val extb : sem -> af -> nat list -> bool **)

let extb = function
| GR -> grb
| CO -> cob
| PR -> prb
| ST -> stb
| SST -> sstb
| STG -> stgb
| ID -> idlb

(** val all_exts : sem -> af -> nat list list **)

let all_exts s f =
  match s with
  | ID ->
    let prs = filter (prb f) (powerset f.args) in
    filter (idlb_with prs f) (powerset f.args)
  | _ -> filter (extb s f) (powerset f.args)

(** val meetsb : nat list -> nat list -> bool **)

let meetsb a s =
  existsb (fun a0 -> memb a0 s) a

(** val credb : sem -> af -> nat list -> bool **)

let credb s f a =
  existsb (meetsb a) (all_exts s f)

(** val skepb : sem -> af -> nat list -> bool **)

let skepb s f a =
  forallb (meetsb a) (all_exts s f)

type base =
| BCf
| BAdm
| BCo
| BSt

(** val baseb : base -> af -> nat list -> bool **)

let baseb = function
| BCf -> cfsb
| BAdm -> admb
| BCo -> cob
| BSt -> stb

(** val all_base : base -> af -> nat list list **)

let all_base b f =
  filter (baseb b f) (powerset f.args)

(** val compact : nat -> (nat * nat) list -> af **)

let compact n l =
  { args = (seq O n); atts = l }
