open Datatypes
open List
open Nat

type order =
| DrainThenWait
| WaitThenDrain

type cop =
| CRd of nat
| CRdAll
| CWr of nat

type pact =
| ADrain
| AWait

type wst =
| WRun of nat
| WClosed
| WFailed

type config = { ord : order; cap_in : nat; cap_out : nat; in_len : nat;
                prog : cop list }

type pstate = { wr : wst; inb : nat; ch : cop list option; outb : nat;
                pa : pact list }

val parent_prog : order -> pact list

val init : config -> pstate

val final : pstate -> bool

val exited : pstate -> bool

val writer_done : pstate -> bool

val writer_steps : config -> pstate -> pstate list

val with_child : pstate -> cop list option -> nat -> nat -> pstate

val child_steps : config -> pstate -> pstate list

val parent_steps : config -> pstate -> pstate list

val steps : config -> pstate -> pstate list

val stuck : config -> pstate -> bool

val cop_weight : cop -> nat

val measure : pstate -> nat

type verdict =
| VFinal
| VStuck
| VFuel

val run_first : config -> nat -> pstate -> verdict

val run_config : config -> verdict
