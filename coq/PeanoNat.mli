open Datatypes

module Nat :
 sig
  val eqb : nat -> nat -> bool

  val leb : nat -> nat -> bool

  val ltb : nat -> nat -> bool

  val max : nat -> nat -> nat

  val even : nat -> bool

  val odd : nat -> bool

  val div2 : nat -> nat
 end
