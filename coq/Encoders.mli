open AF
open BinInt
open Cnf
open Datatypes
open List
open Nat

type enc =
| AuxCf
| AuxAdm
| AuxCo
| ExpCf
| ExpCo
| HybCo
| StDefault

val zlit : nat -> lit

val znlit : nat -> lit

val aux_var : nat -> nat

val aux_disj : nat -> nat

val aux_range : nat -> nat -> nat

val exp_var : nat -> nat

val exp_range : nat -> nat -> nat

val arg_var : enc -> nat -> nat

val arg_to_lit : enc -> nat -> lit

val first_range_var : enc -> nat -> nat option

val range_var : enc -> nat -> nat -> nat

val aux_cf_arg : (nat -> nat list) -> nat -> cnf

val aux_adm_arg : (nat -> nat list) -> nat -> cnf

val aux_co_arg_with :
  (nat -> nat list) -> (nat -> nat) -> (nat -> nat) -> nat -> cnf

val disj_var_with : (nat -> nat list) -> (nat -> nat) -> nat -> nat -> cnf

val aux_disj_arg : (nat -> nat list) -> nat -> cnf

val aux_range_arg : nat -> nat -> cnf

val cart_prod : 'a1 list list -> 'a1 list list

val exp_cf_arg : (nat -> nat list) -> nat -> cnf

val defender_sets : (nat -> nat list) -> nat -> nat list list

val exp_nontrivial : (nat -> nat list) -> nat -> cnf

val is_nil : 'a1 list -> bool

val exp_co_arg : (nat -> nat list) -> nat -> cnf

val exp_range_arg : nat -> (nat -> nat list) -> nat -> cnf

type hstate = { tbl : nat option list; next_free : nat; out : cnf }

val capped_product : nat -> nat -> nat list list -> nat

val set_tbl : nat -> nat -> nat option list -> nat option list

val create_disj_for : (nat -> nat list) -> hstate -> nat -> hstate

val tbl_get : nat option list -> nat -> nat

val hyb_arg : (nat -> nat list) -> nat -> hstate -> nat -> hstate

val hyb_range_arg : nat -> (nat -> nat list) -> hstate -> nat -> hstate

val hyb_run : nat -> (nat -> nat list) -> nat -> bool -> hstate

val st_arg : (nat -> nat list) -> nat -> cnf

val over_args : nat -> (nat -> cnf) -> cnf

val encode :
  nat -> (nat -> nat list) -> nat -> enc -> bool -> (nat option * cnf) option

val is_true : bool option -> bool

val vars_true : assignment -> nat list

val arg_of_var : nat -> enc -> nat -> nat option

val filter_map : ('a1 -> 'a2 option) -> 'a1 list -> 'a2 list

val assignment_to_extension : nat -> enc -> assignment -> nat list

val enc_base : enc -> base

val encode_af : enc -> nat -> bool -> af -> (nat option * cnf) option
