open BinNums
open BinPosDef
open Datatypes
open Decimal
open Nat

module Pos =
 struct
  (** val succ : positive -> positive **)

  let rec succ = function
  | Coq_xI p -> Coq_xO (succ p)
  | Coq_xO p -> Coq_xI p
  | Coq_xH -> Coq_xO Coq_xH

  (** val add : positive -> positive -> positive **)

  let rec add x y =
    match x with
    | Coq_xI p ->
      (match y with
       | Coq_xI q -> Coq_xO (add_carry p q)
       | Coq_xO q -> Coq_xI (add p q)
       | Coq_xH -> Coq_xO (succ p))
    | Coq_xO p ->
      (match y with
       | Coq_xI q -> Coq_xI (add p q)
       | Coq_xO q -> Coq_xO (add p q)
       | Coq_xH -> Coq_xI p)
    | Coq_xH ->
      (match y with
       | Coq_xI q -> Coq_xO (succ q)
       | Coq_xO q -> Coq_xI q
       | Coq_xH -> Coq_xO Coq_xH)

  (** val add_carry : positive -> positive -> positive **)

  and add_carry x y =
    match x with
    | Coq_xI p ->
      (match y with
       | Coq_xI q -> Coq_xI (add_carry p q)
       | Coq_xO q -> Coq_xO (add_carry p q)
       | Coq_xH -> Coq_xI (succ p))
    | Coq_xO p ->
      (match y with
       | Coq_xI q -> Coq_xO (add_carry p q)
       | Coq_xO q -> Coq_xI (add p q)
       | Coq_xH -> Coq_xO (succ p))
    | Coq_xH ->
      (match y with
       | Coq_xI q -> Coq_xI (succ q)
       | Coq_xO q -> Coq_xO (succ q)
       | Coq_xH -> Coq_xI Coq_xH)

  (** val pred_double : positive -> positive **)

  let rec pred_double = function
  | Coq_xI p -> Coq_xI (Coq_xO p)
  | Coq_xO p -> Coq_xI (pred_double p)
  | Coq_xH -> Coq_xH

  type mask = Pos.mask =
  | IsNul
  | IsPos of positive
  | IsNeg

  (** val succ_double_mask : mask -> mask **)

  let succ_double_mask = function
  | IsNul -> IsPos Coq_xH
  | IsPos p -> IsPos (Coq_xI p)
  | IsNeg -> IsNeg

  (** val double_mask : mask -> mask **)

  let double_mask = function
  | IsPos p -> IsPos (Coq_xO p)
  | x0 -> x0

  (** val double_pred_mask : positive -> mask **)

  let double_pred_mask = function
  | Coq_xI p -> IsPos (Coq_xO (Coq_xO p))
  | Coq_xO p -> IsPos (Coq_xO (pred_double p))
  | Coq_xH -> IsNul

  (** val sub_mask : positive -> positive -> mask **)

  let rec sub_mask x y =
    match x with
    | Coq_xI p ->
      (match y with
       | Coq_xI q -> double_mask (sub_mask p q)
       | Coq_xO q -> succ_double_mask (sub_mask p q)
       | Coq_xH -> IsPos (Coq_xO p))
    | Coq_xO p ->
      (match y with
       | Coq_xI q -> succ_double_mask (sub_mask_carry p q)
       | Coq_xO q -> double_mask (sub_mask p q)
       | Coq_xH -> IsPos (pred_double p))
    | Coq_xH -> (match y with
                 | Coq_xH -> IsNul
                 | _ -> IsNeg)

  (** val sub_mask_carry : positive -> positive -> mask **)

  and sub_mask_carry x y =
    match x with
    | Coq_xI p ->
      (match y with
       | Coq_xI q -> succ_double_mask (sub_mask_carry p q)
       | Coq_xO q -> double_mask (sub_mask p q)
       | Coq_xH -> IsPos (pred_double p))
    | Coq_xO p ->
      (match y with
       | Coq_xI q -> double_mask (sub_mask_carry p q)
       | Coq_xO q -> succ_double_mask (sub_mask_carry p q)
       | Coq_xH -> double_pred_mask p)
    | Coq_xH -> IsNeg

  (** val mul : positive -> positive -> positive **)

  let rec mul x y =
    match x with
    | Coq_xI p -> add y (Coq_xO (mul p y))
    | Coq_xO p -> Coq_xO (mul p y)
    | Coq_xH -> y

  (** val size_nat : positive -> nat **)

  let rec size_nat = function
  | Coq_xI p0 -> S (size_nat p0)
  | Coq_xO p0 -> S (size_nat p0)
  | Coq_xH -> S O

  (** val size : positive -> positive **)

  let rec size = function
  | Coq_xI p0 -> succ (size p0)
  | Coq_xO p0 -> succ (size p0)
  | Coq_xH -> Coq_xH

  (** val compare_cont : comparison -> positive -> positive -> comparison **)

  let rec compare_cont r x y =
    match x with
    | Coq_xI p ->
      (match y with
       | Coq_xI q -> compare_cont r p q
       | Coq_xO q -> compare_cont Gt p q
       | Coq_xH -> Gt)
    | Coq_xO p ->
      (match y with
       | Coq_xI q -> compare_cont Lt p q
       | Coq_xO q -> compare_cont r p q
       | Coq_xH -> Gt)
    | Coq_xH -> (match y with
                 | Coq_xH -> r
                 | _ -> Lt)

  (** val compare : positive -> positive -> comparison **)

  let compare =
    compare_cont Eq

  (** val eqb : positive -> positive -> bool **)

  let rec eqb p q =
    match p with
    | Coq_xI p0 -> (match q with
                    | Coq_xI q0 -> eqb p0 q0
                    | _ -> false)
    | Coq_xO p0 -> (match q with
                    | Coq_xO q0 -> eqb p0 q0
                    | _ -> false)
    | Coq_xH -> (match q with
                 | Coq_xH -> true
                 | _ -> false)

  (** val iter_op : ('a1 -> 'a1 -> 'a1) -> positive -> 'a1 -> 'a1 **)

  let rec iter_op op p a =
    match p with
    | Coq_xI p0 -> op a (iter_op op p0 (op a a))
    | Coq_xO p0 -> iter_op op p0 (op a a)
    | Coq_xH -> a

  (** val to_nat : positive -> nat **)

  let to_nat x =
    iter_op Nat.add x (S O)

  (** val of_succ_nat : nat -> positive **)

  let rec of_succ_nat = function
  | O -> Coq_xH
  | S x -> succ (of_succ_nat x)

  (** val of_uint_acc : uint -> positive -> positive **)

  let rec of_uint_acc d acc =
    match d with
    | Nil -> acc
    | D0 l -> of_uint_acc l (mul (Coq_xO (Coq_xI (Coq_xO Coq_xH))) acc)
    | D1 l ->
      of_uint_acc l (add Coq_xH (mul (Coq_xO (Coq_xI (Coq_xO Coq_xH))) acc))
    | D2 l ->
      of_uint_acc l
        (add (Coq_xO Coq_xH) (mul (Coq_xO (Coq_xI (Coq_xO Coq_xH))) acc))
    | D3 l ->
      of_uint_acc l
        (add (Coq_xI Coq_xH) (mul (Coq_xO (Coq_xI (Coq_xO Coq_xH))) acc))
    | D4 l ->
      of_uint_acc l
        (add (Coq_xO (Coq_xO Coq_xH))
          (mul (Coq_xO (Coq_xI (Coq_xO Coq_xH))) acc))
    | D5 l ->
      of_uint_acc l
        (add (Coq_xI (Coq_xO Coq_xH))
          (mul (Coq_xO (Coq_xI (Coq_xO Coq_xH))) acc))
    | D6 l ->
      of_uint_acc l
        (add (Coq_xO (Coq_xI Coq_xH))
          (mul (Coq_xO (Coq_xI (Coq_xO Coq_xH))) acc))
    | D7 l ->
      of_uint_acc l
        (add (Coq_xI (Coq_xI Coq_xH))
          (mul (Coq_xO (Coq_xI (Coq_xO Coq_xH))) acc))
    | D8 l ->
      of_uint_acc l
        (add (Coq_xO (Coq_xO (Coq_xO Coq_xH)))
          (mul (Coq_xO (Coq_xI (Coq_xO Coq_xH))) acc))
    | D9 l ->
      of_uint_acc l
        (add (Coq_xI (Coq_xO (Coq_xO Coq_xH)))
          (mul (Coq_xO (Coq_xI (Coq_xO Coq_xH))) acc))

  (** val of_uint : uint -> coq_N **)

  let rec of_uint = function
  | Nil -> N0
  | D0 l -> of_uint l
  | D1 l -> Npos (of_uint_acc l Coq_xH)
  | D2 l -> Npos (of_uint_acc l (Coq_xO Coq_xH))
  | D3 l -> Npos (of_uint_acc l (Coq_xI Coq_xH))
  | D4 l -> Npos (of_uint_acc l (Coq_xO (Coq_xO Coq_xH)))
  | D5 l -> Npos (of_uint_acc l (Coq_xI (Coq_xO Coq_xH)))
  | D6 l -> Npos (of_uint_acc l (Coq_xO (Coq_xI Coq_xH)))
  | D7 l -> Npos (of_uint_acc l (Coq_xI (Coq_xI Coq_xH)))
  | D8 l -> Npos (of_uint_acc l (Coq_xO (Coq_xO (Coq_xO Coq_xH))))
  | D9 l -> Npos (of_uint_acc l (Coq_xI (Coq_xO (Coq_xO Coq_xH))))

  (** val to_little_uint : positive -> uint **)

  let rec to_little_uint = function
  | Coq_xI p0 -> Little.succ_double (to_little_uint p0)
  | Coq_xO p0 -> Little.double (to_little_uint p0)
  | Coq_xH -> D1 Nil

  (** val to_uint : positive -> uint **)

  let to_uint p =
    rev (to_little_uint p)
 end
