open BinNums
open Datatypes
open Nat

module Pos =
 struct
  (** val succ : positive -> positive **)

  let rec succ = function
  | Coq_xI p -> Coq_xO (succ p)
  | Coq_xO p -> Coq_xI p
  | Coq_xH -> Coq_xO Coq_xH

  (** val compare_cont : comparison -> positive -> positive -> comparison **)

  let rec compare_cont r x y =
    match x with
    | Coq_xI p ->
      (match y with
       | Coq_xI q -> compare_cont r p q
       | Coq_xO q -> compare_cont Gt p q
       | Coq_xH -> Gt)
    | Coq_xO p ->
      (match y with
       | Coq_xI q -> compare_cont Lt p q
       | Coq_xO q -> compare_cont r p q
       | Coq_xH -> Gt)
    | Coq_xH -> (match y with
                 | Coq_xH -> r
                 | _ -> Lt)

  (** val compare : positive -> positive -> comparison **)

  let compare =
    compare_cont Eq

  (** val iter_op : ('a1 -> 'a1 -> 'a1) -> positive -> 'a1 -> 'a1 **)

  let rec iter_op op p a =
    match p with
    | Coq_xI p0 -> op a (iter_op op p0 (op a a))
    | Coq_xO p0 -> iter_op op p0 (op a a)
    | Coq_xH -> a

  (** val to_nat : positive -> nat **)

  let to_nat x =
    iter_op add x (S O)

  (** val of_succ_nat : nat -> positive **)

  let rec of_succ_nat = function
  | O -> Coq_xH
  | S x -> succ (of_succ_nat x)
 end
