open Datatypes

(** val nth : nat -> 'a1 list -> 'a1 -> 'a1 **)

let rec nth n l default =
  match n with
  | O -> (match l with
          | [] -> default
          | x :: _ -> x)
  | S m -> (match l with
            | [] -> default
            | _ :: t -> nth m t default)

(** val nth_error : 'a1 list -> nat -> 'a1 option **)

let rec nth_error l = function
| O -> (match l with
        | [] -> None
        | x :: _ -> Some x)
| S n0 -> (match l with
           | [] -> None
           | _ :: l0 -> nth_error l0 n0)

(** val rev : 'a1 list -> 'a1 list **)

let rec rev = function
| [] -> []
| x :: l' -> app (rev l') (x :: [])

(** val map : ('a1 -> 'a2) -> 'a1 list -> 'a2 list **)

let rec map f = function
| [] -> []
| a :: t -> (f a) :: (map f t)

(** val flat_map : ('a1 -> 'a2 list) -> 'a1 list -> 'a2 list **)

let rec flat_map f = function
| [] -> []
| x :: t -> app (f x) (flat_map f t)

(** val fold_left : ('a1 -> 'a2 -> 'a1) -> 'a2 list -> 'a1 -> 'a1 **)

let rec fold_left f l a0 =
  match l with
  | [] -> a0
  | b :: t -> fold_left f t (f a0 b)

(** val fold_right : ('a2 -> 'a1 -> 'a1) -> 'a1 -> 'a2 list -> 'a1 **)

let rec fold_right f a0 = function
| [] -> a0
| b :: t -> f b (fold_right f a0 t)

(** val existsb : ('a1 -> bool) -> 'a1 list -> bool **)

let rec existsb f = function
| [] -> false
| a :: l0 -> (||) (f a) (existsb f l0)

(** val forallb : ('a1 -> bool) -> 'a1 list -> bool **)

let rec forallb f = function
| [] -> true
| a :: l0 -> (&&) (f a) (forallb f l0)

(** val filter : ('a1 -> bool) -> 'a1 list -> 'a1 list **)

let rec filter f = function
| [] -> []
| x :: l0 -> if f x then x :: (filter f l0) else filter f l0

(** val combine : 'a1 list -> 'a2 list -> ('a1 * 'a2) list **)

let rec combine l l' =
  match l with
  | [] -> []
  | x :: tl ->
    (match l' with
     | [] -> []
     | y :: tl' -> (x, y) :: (combine tl tl'))

(** val firstn : nat -> 'a1 list -> 'a1 list **)

let rec firstn n l =
  match n with
  | O -> []
  | S n0 -> (match l with
             | [] -> []
             | a :: l0 -> a :: (firstn n0 l0))

(** val skipn : nat -> 'a1 list -> 'a1 list **)

let rec skipn n l =
  match n with
  | O -> l
  | S n0 -> (match l with
             | [] -> []
             | _ :: l0 -> skipn n0 l0)

(** val seq : nat -> nat -> nat list **)

let rec seq start = function
| O -> []
| S len0 -> start :: (seq (S start) len0)

(** val repeat : 'a1 -> nat -> 'a1 list **)

let rec repeat x = function
| O -> []
| S k -> x :: (repeat x k)
