open Datatypes

val nth : nat -> 'a1 list -> 'a1 -> 'a1

val nth_error : 'a1 list -> nat -> 'a1 option

val rev : 'a1 list -> 'a1 list

val map : ('a1 -> 'a2) -> 'a1 list -> 'a2 list

val flat_map : ('a1 -> 'a2 list) -> 'a1 list -> 'a2 list

val fold_left : ('a1 -> 'a2 -> 'a1) -> 'a2 list -> 'a1 -> 'a1

val fold_right : ('a2 -> 'a1 -> 'a1) -> 'a1 -> 'a2 list -> 'a1

val existsb : ('a1 -> bool) -> 'a1 list -> bool

val forallb : ('a1 -> bool) -> 'a1 list -> bool

val filter : ('a1 -> bool) -> 'a1 list -> 'a1 list

val combine : 'a1 list -> 'a2 list -> ('a1 * 'a2) list

val firstn : nat -> 'a1 list -> 'a1 list

val skipn : nat -> 'a1 list -> 'a1 list

val seq : nat -> nat -> nat list

val repeat : 'a1 -> nat -> 'a1 list
