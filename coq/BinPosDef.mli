open BinNums

module Pos :
 sig
  type mask =
  | IsNul
  | IsPos of positive
  | IsNeg
 end
