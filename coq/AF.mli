open Datatypes
open List
open PeanoNat

type af = { args : nat list; atts : (nat * nat) list }

type sem =
| GR
| CO
| PR
| ST
| SST
| STG
| ID

val memb : nat -> nat list -> bool

val subsetb : nat list -> nat list -> bool

val attb : af -> nat -> nat -> bool

val attackers : af -> nat -> nat list

val attacked : af -> nat -> nat list

val cfb : af -> nat list -> bool

val attacked_byb : af -> nat list -> nat -> bool

val defendsb : af -> nat list -> nat -> bool

val cfsb : af -> nat list -> bool

val admb : af -> nat list -> bool

val cob : af -> nat list -> bool

val stb : af -> nat list -> bool

val in_rangeb : af -> nat list -> nat -> bool

val range_inclb : af -> nat list -> nat list -> bool

val powerset : nat list -> nat list list

val grb : af -> nat list -> bool

val prb : af -> nat list -> bool

val sstb : af -> nat list -> bool

val stgb : af -> nat list -> bool

val idlb_with : nat list list -> af -> nat list -> bool

val idlb : af -> nat list -> bool

val extb : sem -> af -> nat list -> bool

val all_exts : sem -> af -> nat list list

val meetsb : nat list -> nat list -> bool

val credb : sem -> af -> nat list -> bool

val skepb : sem -> af -> nat list -> bool

type base =
| BCf
| BAdm
| BCo
| BSt

val baseb : base -> af -> nat list -> bool

val all_base : base -> af -> nat list list

val compact : nat -> (nat * nat) list -> af
