open BinNums
open Cnf
open Datatypes
open Dimacs
open Dpll
open List
open Nat

type sop =
| OAdd of clause
| OReserve of nat
| OSolve of lit list
| ONVars

type sobs =
| ObsUnit
| ObsNum of nat
| ObsAns of answer
| ObsPanic

type banswer =
| BSat of (nat -> bool option)
| BUnsat
| BUnknown

type backend = cnf -> lit list -> nat -> banswer

type cstate = { cclauses : cnf; cmaxvar : nat; creserved : nat }

(** val cad_new : cstate **)

let cad_new =
  { cclauses = []; cmaxvar = O; creserved = O }

(** val cad_n_vars : cstate -> nat **)

let cad_n_vars s =
  PeanoNat.Nat.max s.cmaxvar s.creserved

(** val cad_step : backend -> cstate -> sop -> cstate * sobs **)

let cad_step bk s = function
| OAdd c ->
  ({ cclauses = (c :: s.cclauses); cmaxvar =
    (PeanoNat.Nat.max s.cmaxvar (clause_max c)); creserved = s.creserved },
    ObsUnit)
| OReserve n ->
  ({ cclauses = s.cclauses; cmaxvar = s.cmaxvar; creserved =
    (PeanoNat.Nat.max s.creserved n) }, ObsUnit)
| OSolve a ->
  let mv = PeanoNat.Nat.max s.cmaxvar (clause_max a) in
  let s' = { cclauses = s.cclauses; cmaxvar = mv; creserved = s.creserved } in
  (match bk (rev s.cclauses) a mv with
   | BSat value ->
     (s', (ObsAns (Sat
       (app (map value (seq (S O) mv)) (repeat None (sub s.creserved mv))))))
   | BUnsat -> (s', (ObsAns Unsat))
   | BUnknown -> (s', (ObsAns Unknown)))
| ONVars -> (s, (ObsNum (cad_n_vars s)))

type bstate = { btext : bytes; bnvars : nat; bnclauses : nat }

(** val buf_new : bstate **)

let buf_new =
  { btext = []; bnvars = O; bnclauses = O }

(** val buf_instance : bstate -> lit list -> bytes **)

let buf_instance s a =
  app
    (print_preamble (PeanoNat.Nat.max s.bnvars (clause_max a))
      (add s.bnclauses (length a)))
    (app s.btext (concat (map print_assumption a)))

(** val obs_of_reply : reply -> sobs **)

let obs_of_reply = function
| RSat m -> ObsAns (Sat m)
| RUnsat -> ObsAns Unsat
| RUnknown -> ObsAns Unknown
| RPanic -> ObsPanic

(** val buf_step : (bytes -> bytes) -> bstate -> sop -> bstate * sobs **)

let buf_step solving s = function
| OAdd c ->
  ({ btext = (app s.btext (print_clause c)); bnvars =
    (PeanoNat.Nat.max s.bnvars (clause_max c)); bnclauses = (S
    s.bnclauses) }, ObsUnit)
| OReserve n ->
  ({ btext = s.btext; bnvars = (PeanoNat.Nat.max s.bnvars n); bnclauses =
    s.bnclauses }, ObsUnit)
| OSolve a ->
  let nv = PeanoNat.Nat.max s.bnvars (clause_max a) in
  ({ btext = s.btext; bnvars = nv; bnclauses = s.bnclauses },
  (obs_of_reply (reply_parse nv (solving (buf_instance s a)))))
| ONVars -> (s, (ObsNum s.bnvars))

(** val run_obj :
    ('a1 -> sop -> 'a1 * sobs) -> 'a1 -> sop list -> 'a1 * sobs list **)

let rec run_obj step s = function
| [] -> (s, [])
| o :: r ->
  let (s1, ob) = step s o in
  let (s2, obs) = run_obj step s1 r in (s2, (ob :: obs))

(** val clauses_of : sop list -> cnf **)

let rec clauses_of = function
| [] -> []
| s :: r -> (match s with
             | OAdd c -> c :: (clauses_of r)
             | _ -> clauses_of r)

(** val dpll_backend : backend **)

let dpll_backend f a mv =
  match solve_n mv f a with
  | Some m -> BSat (fun i -> nth (sub i (S O)) m None)
  | None -> BUnsat

(** val vdpll_fn : bytes -> bytes **)

let vdpll_fn inst =
  match parse_instance inst with
  | Some p -> let (nv, cls) = p in print_reply (solve_n nv cls [])
  | None -> app b_error ((Npos (Coq_xO (Coq_xI (Coq_xO Coq_xH)))) :: [])

(** val verdict_of : sobs -> bool option **)

let verdict_of = function
| ObsAns r ->
  (match r with
   | Sat _ -> Some true
   | Unsat -> Some false
   | Unknown -> None)
| _ -> None
