open AF
open BinInt
open Cnf
open Datatypes
open List
open Nat

type enc =
| AuxCf
| AuxAdm
| AuxCo
| ExpCf
| ExpCo
| HybCo
| StDefault

(** val zlit : nat -> lit **)

let zlit =
  Z.of_nat

(** val znlit : nat -> lit **)

let znlit v =
  Z.opp (Z.of_nat v)

(** val aux_var : nat -> nat **)

let aux_var id =
  mul (S (S O)) (add id (S O))

(** val aux_disj : nat -> nat **)

let aux_disj id =
  sub (mul (S (S O)) (add id (S O))) (S O)

(** val aux_range : nat -> nat -> nat **)

let aux_range n id =
  add (add (mul (S (S O)) n) id) (S O)

(** val exp_var : nat -> nat **)

let exp_var id =
  add id (S O)

(** val exp_range : nat -> nat -> nat **)

let exp_range n id =
  add (add n id) (S O)

(** val arg_var : enc -> nat -> nat **)

let arg_var e id =
  match e with
  | AuxCf -> aux_var id
  | AuxAdm -> aux_var id
  | AuxCo -> aux_var id
  | _ -> exp_var id

(** val arg_to_lit : enc -> nat -> lit **)

let arg_to_lit e id =
  zlit (arg_var e id)

(** val first_range_var : enc -> nat -> nat option **)

let first_range_var e n =
  match e with
  | AuxCf -> Some (aux_range n O)
  | AuxAdm -> Some (aux_range n O)
  | AuxCo -> Some (aux_range n O)
  | StDefault -> None
  | _ -> Some (exp_range n O)

(** val range_var : enc -> nat -> nat -> nat **)

let range_var e n id =
  match e with
  | AuxCf -> aux_range n id
  | AuxAdm -> aux_range n id
  | AuxCo -> aux_range n id
  | _ -> exp_range n id

(** val aux_cf_arg : (nat -> nat list) -> nat -> cnf **)

let aux_cf_arg atk a =
  map (fun b -> (znlit (aux_var a)) :: ((znlit (aux_var b)) :: [])) (atk a)

(** val aux_adm_arg : (nat -> nat list) -> nat -> cnf **)

let aux_adm_arg atk a =
  map (fun b -> (znlit (aux_var a)) :: ((zlit (aux_disj b)) :: [])) (atk a)

(** val aux_co_arg_with :
    (nat -> nat list) -> (nat -> nat) -> (nat -> nat) -> nat -> cnf **)

let aux_co_arg_with atk av dv a =
  app (map (fun b -> (znlit (av a)) :: ((zlit (dv b)) :: [])) (atk a))
    (((zlit (av a)) :: (map (fun b -> znlit (dv b)) (atk a))) :: [])

(** val disj_var_with :
    (nat -> nat list) -> (nat -> nat) -> nat -> nat -> cnf **)

let disj_var_with atk av d a =
  app (((znlit (av a)) :: ((znlit d) :: [])) :: [])
    (app (map (fun b -> (zlit d) :: ((znlit (av b)) :: [])) (atk a))
      (((znlit d) :: (map (fun b -> zlit (av b)) (atk a))) :: []))

(** val aux_disj_arg : (nat -> nat list) -> nat -> cnf **)

let aux_disj_arg atk a =
  disj_var_with atk aux_var (aux_disj a) a

(** val aux_range_arg : nat -> nat -> cnf **)

let aux_range_arg n a =
  ((znlit (aux_var a)) :: ((zlit (aux_range n a)) :: [])) :: (((znlit
                                                                 (aux_disj a)) :: (
    (zlit (aux_range n a)) :: [])) :: (((znlit (aux_range n a)) :: ((zlit
                                                                    (aux_var
                                                                    a)) :: (
    (zlit (aux_disj a)) :: []))) :: []))

(** val cart_prod : 'a1 list list -> 'a1 list list **)

let rec cart_prod = function
| [] -> [] :: []
| l :: r -> flat_map (fun x -> map (fun x0 -> x :: x0) (cart_prod r)) l

(** val exp_cf_arg : (nat -> nat list) -> nat -> cnf **)

let exp_cf_arg atk a =
  map (fun b -> (znlit (exp_var a)) :: ((znlit (exp_var b)) :: [])) (atk a)

(** val defender_sets : (nat -> nat list) -> nat -> nat list list **)

let defender_sets atk a =
  map atk (atk a)

(** val exp_nontrivial : (nat -> nat list) -> nat -> cnf **)

let exp_nontrivial atk a =
  app (exp_cf_arg atk a)
    (app
      (map (fun d ->
        (znlit (exp_var a)) :: (map (fun c -> zlit (exp_var c)) d))
        (defender_sets atk a))
      (map (fun p ->
        (zlit (exp_var a)) :: (map (fun c -> znlit (exp_var c)) p))
        (cart_prod (defender_sets atk a))))

(** val is_nil : 'a1 list -> bool **)

let is_nil = function
| [] -> true
| _ :: _ -> false

(** val exp_co_arg : (nat -> nat list) -> nat -> cnf **)

let exp_co_arg atk a =
  match defender_sets atk a with
  | [] -> ((zlit (exp_var a)) :: []) :: []
  | l :: l0 ->
    if existsb is_nil (l :: l0)
    then ((znlit (exp_var a)) :: []) :: []
    else exp_nontrivial atk a

(** val exp_range_arg : nat -> (nat -> nat list) -> nat -> cnf **)

let exp_range_arg n atk a =
  ((znlit (exp_var a)) :: ((zlit (exp_range n a)) :: [])) :: (((znlit
                                                                 (exp_range n
                                                                   a)) :: (
    (zlit (exp_var a)) :: (map (fun b -> zlit (exp_var b)) (atk a)))) :: [])

type hstate = { tbl : nat option list; next_free : nat; out : cnf }

(** val capped_product : nat -> nat -> nat list list -> nat **)

let rec capped_product threshold acc = function
| [] -> acc
| d :: r ->
  let acc' = mul acc (length d) in
  if PeanoNat.Nat.leb threshold acc'
  then acc'
  else capped_product threshold acc' r

(** val set_tbl : nat -> nat -> nat option list -> nat option list **)

let set_tbl i v t =
  app (firstn i t) (match skipn i t with
                    | [] -> []
                    | _ :: r -> (Some v) :: r)

(** val create_disj_for : (nat -> nat list) -> hstate -> nat -> hstate **)

let create_disj_for atk s b =
  match nth b s.tbl None with
  | Some _ -> s
  | None ->
    let d = s.next_free in
    { tbl = (set_tbl b d s.tbl); next_free = (S d); out =
    (app s.out (disj_var_with atk exp_var d b)) }

(** val tbl_get : nat option list -> nat -> nat **)

let tbl_get t b =
  match nth b t None with
  | Some d -> d
  | None -> O

(** val hyb_arg : (nat -> nat list) -> nat -> hstate -> nat -> hstate **)

let hyb_arg atk threshold s a =
  match defender_sets atk a with
  | [] ->
    { tbl = s.tbl; next_free = s.next_free; out =
      (app s.out (((zlit (exp_var a)) :: []) :: [])) }
  | l :: l0 ->
    let ds = l :: l0 in
    if existsb is_nil ds
    then { tbl = s.tbl; next_free = s.next_free; out =
           (app s.out (((znlit (exp_var a)) :: []) :: [])) }
    else if PeanoNat.Nat.ltb (capped_product threshold (S O) ds) threshold
         then { tbl = s.tbl; next_free = s.next_free; out =
                (app s.out (exp_nontrivial atk a)) }
         else let s' = fold_left (create_disj_for atk) (atk a) s in
              { tbl = s'.tbl; next_free = s'.next_free; out =
              (app s'.out (aux_co_arg_with atk exp_var (tbl_get s'.tbl) a)) }

(** val hyb_range_arg :
    nat -> (nat -> nat list) -> hstate -> nat -> hstate **)

let hyb_range_arg n atk s a =
  match nth a s.tbl None with
  | Some d ->
    { tbl = s.tbl; next_free = s.next_free; out =
      (app s.out
        (((znlit (exp_var a)) :: ((zlit (exp_range n a)) :: [])) :: ((
        (znlit d) :: ((zlit (exp_range n a)) :: [])) :: (((znlit
                                                            (exp_range n a)) :: (
        (zlit (exp_var a)) :: ((zlit d) :: []))) :: [])))) }
  | None ->
    { tbl = s.tbl; next_free = s.next_free; out =
      (app s.out (exp_range_arg n atk a)) }

(** val hyb_run : nat -> (nat -> nat list) -> nat -> bool -> hstate **)

let hyb_run n atk threshold range =
  fold_left (fun s a ->
    let s1 = hyb_arg atk threshold s a in
    if range then hyb_range_arg n atk s1 a else s1) (seq O n) { tbl =
    (repeat None n); next_free =
    (if range then add (S O) (mul (S (S O)) n) else add (S O) n); out = [] }

(** val st_arg : (nat -> nat list) -> nat -> cnf **)

let st_arg atk a =
  app
    (map (fun b ->
      if PeanoNat.Nat.eqb a b
      then (znlit (exp_var a)) :: []
      else (znlit (exp_var a)) :: ((znlit (exp_var b)) :: [])) (atk a))
    (((zlit (exp_var a)) :: (map (fun b -> zlit (exp_var b))
                              (filter (fun b -> negb (PeanoNat.Nat.eqb a b))
                                (atk a)))) :: [])

(** val over_args : nat -> (nat -> cnf) -> cnf **)

let over_args n f =
  flat_map f (seq O n)

(** val encode :
    nat -> (nat -> nat list) -> nat -> enc -> bool -> (nat option * cnf)
    option **)

let encode n atk threshold e range =
  match e with
  | AuxCf ->
    if range
    then Some ((Some (mul (S (S (S O))) n)),
           (over_args n (fun a ->
             app (aux_cf_arg atk a)
               (app (aux_disj_arg atk a) (aux_range_arg n a)))))
    else Some ((Some (mul (S (S O)) n)), (over_args n (aux_cf_arg atk)))
  | AuxAdm ->
    if range
    then Some ((Some (mul (S (S (S O))) n)),
           (over_args n (fun a ->
             app (aux_adm_arg atk a)
               (app (aux_disj_arg atk a) (aux_range_arg n a)))))
    else Some ((Some (mul (S (S O)) n)),
           (over_args n (fun a ->
             app (aux_adm_arg atk a) (aux_disj_arg atk a))))
  | AuxCo ->
    if range
    then Some ((Some (mul (S (S (S O))) n)),
           (over_args n (fun a ->
             app (aux_co_arg_with atk aux_var aux_disj a)
               (app (aux_disj_arg atk a) (aux_range_arg n a)))))
    else Some ((Some (mul (S (S O)) n)),
           (over_args n (fun a ->
             app (aux_co_arg_with atk aux_var aux_disj a) (aux_disj_arg atk a))))
  | ExpCf ->
    if range
    then Some ((Some (mul (S (S O)) n)),
           (over_args n (fun a ->
             app (exp_cf_arg atk a) (exp_range_arg n atk a))))
    else Some ((Some n), (over_args n (exp_cf_arg atk)))
  | ExpCo ->
    if range
    then Some ((Some (mul (S (S O)) n)),
           (over_args n (fun a ->
             app (exp_co_arg atk a) (exp_range_arg n atk a))))
    else Some ((Some n), (over_args n (exp_co_arg atk)))
  | HybCo ->
    if range
    then Some ((Some (mul (S (S O)) n)), (hyb_run n atk threshold true).out)
    else Some ((Some n), (hyb_run n atk threshold false).out)
  | StDefault ->
    if range then None else Some (None, (over_args n (st_arg atk)))

(** val is_true : bool option -> bool **)

let is_true = function
| Some b -> b
| None -> false

(** val vars_true : assignment -> nat list **)

let vars_true m =
  map fst
    (filter (fun p -> is_true (snd p)) (combine (seq (S O) (length m)) m))

(** val arg_of_var : nat -> enc -> nat -> nat option **)

let arg_of_var n e v =
  match e with
  | AuxCf ->
    if PeanoNat.Nat.odd v
    then None
    else let id = sub (PeanoNat.Nat.div2 v) (S O) in
         if PeanoNat.Nat.ltb id n then Some id else None
  | AuxAdm ->
    if PeanoNat.Nat.odd v
    then None
    else let id = sub (PeanoNat.Nat.div2 v) (S O) in
         if PeanoNat.Nat.ltb id n then Some id else None
  | AuxCo ->
    if PeanoNat.Nat.odd v
    then None
    else let id = sub (PeanoNat.Nat.div2 v) (S O) in
         if PeanoNat.Nat.ltb id n then Some id else None
  | StDefault -> if PeanoNat.Nat.leb v n then Some (sub v (S O)) else None
  | _ ->
    let id = sub v (S O) in if PeanoNat.Nat.ltb id n then Some id else None

(** val filter_map : ('a1 -> 'a2 option) -> 'a1 list -> 'a2 list **)

let rec filter_map f = function
| [] -> []
| x :: r ->
  (match f x with
   | Some y -> y :: (filter_map f r)
   | None -> filter_map f r)

(** val assignment_to_extension : nat -> enc -> assignment -> nat list **)

let assignment_to_extension n e m =
  filter_map (arg_of_var n e) (vars_true m)

(** val enc_base : enc -> base **)

let enc_base = function
| AuxCf -> BCf
| AuxAdm -> BAdm
| ExpCf -> BCf
| StDefault -> BSt
| _ -> BCo

(** val encode_af : enc -> nat -> bool -> af -> (nat option * cnf) option **)

let encode_af e thr range f =
  encode (length f.args) (attackers f) thr e range
