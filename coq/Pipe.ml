open Datatypes
open List
open Nat

type order =
| DrainThenWait
| WaitThenDrain

type cop =
| CRd of nat
| CRdAll
| CWr of nat

type pact =
| ADrain
| AWait

type wst =
| WRun of nat
| WClosed
| WFailed

type config = { ord : order; cap_in : nat; cap_out : nat; in_len : nat;
                prog : cop list }

type pstate = { wr : wst; inb : nat; ch : cop list option; outb : nat;
                pa : pact list }

(** val parent_prog : order -> pact list **)

let parent_prog = function
| DrainThenWait -> ADrain :: (AWait :: [])
| WaitThenDrain -> AWait :: (ADrain :: [])

(** val init : config -> pstate **)

let init c =
  { wr = (WRun c.in_len); inb = O; ch = (Some c.prog); outb = O; pa =
    (parent_prog c.ord) }

(** val final : pstate -> bool **)

let final s =
  match s.pa with
  | [] -> true
  | _ :: _ -> false

(** val exited : pstate -> bool **)

let exited s =
  match s.ch with
  | Some _ -> false
  | None -> true

(** val writer_done : pstate -> bool **)

let writer_done s =
  match s.wr with
  | WRun _ -> false
  | _ -> true

(** val writer_steps : config -> pstate -> pstate list **)

let writer_steps c s =
  match s.wr with
  | WRun left ->
    (match left with
     | O ->
       { wr = WClosed; inb = s.inb; ch = s.ch; outb = s.outb; pa =
         s.pa } :: []
     | S k ->
       if exited s
       then { wr = WFailed; inb = s.inb; ch = s.ch; outb = s.outb; pa =
              s.pa } :: []
       else if PeanoNat.Nat.ltb s.inb c.cap_in
            then { wr = (WRun k); inb = (S s.inb); ch = s.ch; outb = s.outb;
                   pa = s.pa } :: []
            else [])
  | _ -> []

(** val with_child : pstate -> cop list option -> nat -> nat -> pstate **)

let with_child s p i o =
  { wr = s.wr; inb = i; ch = p; outb = o; pa = s.pa }

(** val child_steps : config -> pstate -> pstate list **)

let child_steps c s =
  match s.ch with
  | Some l ->
    (match l with
     | [] -> (with_child s None s.inb s.outb) :: []
     | c0 :: r ->
       (match c0 with
        | CRd k0 ->
          (match k0 with
           | O -> (with_child s (Some r) s.inb s.outb) :: []
           | S k ->
             (match s.inb with
              | O ->
                if writer_done s
                then (with_child s (Some r) O s.outb) :: []
                else []
              | S i -> (with_child s (Some ((CRd k) :: r)) i s.outb) :: []))
        | CRdAll ->
          (match s.inb with
           | O ->
             if writer_done s
             then (with_child s (Some r) O s.outb) :: []
             else []
           | S i -> (with_child s (Some (CRdAll :: r)) i s.outb) :: [])
        | CWr k0 ->
          (match k0 with
           | O -> (with_child s (Some r) s.inb s.outb) :: []
           | S k ->
             if PeanoNat.Nat.ltb s.outb c.cap_out
             then (with_child s (Some ((CWr k) :: r)) s.inb (S s.outb)) :: []
             else [])))
  | None -> []

(** val parent_steps : config -> pstate -> pstate list **)

let parent_steps _ s =
  match s.pa with
  | [] -> []
  | p :: r ->
    (match p with
     | ADrain ->
       (match s.outb with
        | O ->
          if exited s
          then { wr = s.wr; inb = s.inb; ch = s.ch; outb = O; pa = r } :: []
          else []
        | S o ->
          { wr = s.wr; inb = s.inb; ch = s.ch; outb = o; pa = s.pa } :: [])
     | AWait ->
       if exited s
       then { wr = s.wr; inb = s.inb; ch = s.ch; outb = s.outb; pa = r } :: []
       else [])

(** val steps : config -> pstate -> pstate list **)

let steps c s =
  app (child_steps c s) (app (writer_steps c s) (parent_steps c s))

(** val stuck : config -> pstate -> bool **)

let stuck c s =
  (&&) (negb (final s)) (match steps c s with
                         | [] -> true
                         | _ :: _ -> false)

(** val cop_weight : cop -> nat **)

let cop_weight = function
| CRd k -> S k
| CRdAll -> S O
| CWr k -> S (mul (S (S (S O))) k)

(** val measure : pstate -> nat **)

let measure s =
  add
    (add
      (add
        (add (match s.wr with
              | WRun k -> S (mul (S (S (S O))) k)
              | _ -> O) (mul (S (S O)) s.inb))
        (match s.ch with
         | Some p -> S (fold_right (fun o acc -> add (cop_weight o) acc) O p)
         | None -> O)) (mul (S (S O)) s.outb)) (length s.pa)

type verdict =
| VFinal
| VStuck
| VFuel

(** val run_first : config -> nat -> pstate -> verdict **)

let rec run_first c fuel s =
  if final s
  then VFinal
  else (match fuel with
        | O -> VFuel
        | S f ->
          (match steps c s with
           | [] -> VStuck
           | s' :: _ -> run_first c f s'))

(** val run_config : config -> verdict **)

let run_config c =
  run_first c (S (measure (init c))) (init c)
