open BinInt
open BinNat
open BinNums
open Datatypes
open List
open Nat
open Store
open UnicodeTables

type str = coq_N list

type 'a rd =
| RdOk of 'a
| RdErr
| RdPanic

val str_eqb : str -> str -> bool

val in_ranges : coq_N -> (coq_N * coq_N) list -> bool

val is_ws : coq_N -> bool

val is_dec : coq_N -> bool

val is_alpha : coq_N -> bool

val is_id_start : coq_N -> bool

val is_id_char : coq_N -> bool

val is_digit : coq_N -> bool

val is_cont : coq_N -> bool

val utf8_decode : coq_N list -> str option

val raw_lines : coq_N list -> (coq_N list * bool) list

val strip_cr : coq_N list -> coq_N list

val line_of : (coq_N list * bool) -> str option

val lines : coq_N list -> str option list

val split_ws : str -> str list

val drop_ws : str -> str

val all_ws : str -> bool

val strip_prefix : str -> str -> str option

val span_not : coq_N -> str -> str * str

val span_p : (coq_N -> bool) -> str -> str * str

val digits_val : str -> coq_N -> coq_N option

val parse_digits : str -> coq_N option

val isize_max : coq_N

val usize_max : coq_N

val parse_isize : str -> coq_Z option

val parse_usize : str -> coq_N option

val w_p : str

val w_af : str

val read_preamble : str list -> nat option

val read_idx : str -> nat -> nat option

val starts_with_hash : str -> bool

val is_nil : str -> bool

val iccma_lines : str option list -> nat fw option -> bool -> nat fw rd

val read_iccma : coq_N list -> nat fw rd

val iccma_read_arg : nat fw -> str -> (nat * nat) rd

val w_arg_open : str

val w_att_open : str

val match_tail : str -> bool

val match_arg_line : str -> str option

val match_att_line : str -> (str * str) option

val match_ident_ws : str -> str option

val apx_fw : str list -> str fw option -> str fw

val apx_lines : str option list -> str list -> str fw option -> str fw rd

val read_apx : coq_N list -> str fw rd

val apx_read_arg : str fw -> str -> (nat * str) rd

val observe : 'a1 fw -> 'a1 list * (nat * nat) list
