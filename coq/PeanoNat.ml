open Datatypes

module Nat =
 struct
  (** val eqb : nat -> nat -> bool **)

  let rec eqb n m =
    match n with
    | O -> (match m with
            | O -> true
            | S _ -> false)
    | S n' -> (match m with
               | O -> false
               | S m' -> eqb n' m')

  (** val leb : nat -> nat -> bool **)

  let rec leb n m =
    match n with
    | O -> true
    | S n' -> (match m with
               | O -> false
               | S m' -> leb n' m')

  (** val ltb : nat -> nat -> bool **)

  let ltb n m =
    leb (S n) m

  (** val max : nat -> nat -> nat **)

  let rec max n m =
    match n with
    | O -> m
    | S n' -> (match m with
               | O -> n
               | S m' -> S (max n' m'))

  (** val even : nat -> bool **)

  let rec even = function
  | O -> true
  | S n0 -> (match n0 with
             | O -> false
             | S n' -> even n')

  (** val odd : nat -> bool **)

  let odd n =
    negb (even n)

  (** val div2 : nat -> nat **)

  let rec div2 = function
  | O -> O
  | S n0 -> (match n0 with
             | O -> O
             | S n' -> S (div2 n'))
 end
