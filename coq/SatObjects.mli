open BinNums
open Cnf
open Datatypes
open Dimacs
open Dpll
open List
open Nat

type sop =
| OAdd of clause
| OReserve of nat
| OSolve of lit list
| ONVars

type sobs =
| ObsUnit
| ObsNum of nat
| ObsAns of answer
| ObsPanic

type banswer =
| BSat of (nat -> bool option)
| BUnsat
| BUnknown

type backend = cnf -> lit list -> nat -> banswer

type cstate = { cclauses : cnf; cmaxvar : nat; creserved : nat }

val cad_new : cstate

val cad_n_vars : cstate -> nat

val cad_step : backend -> cstate -> sop -> cstate * sobs

type bstate = { btext : bytes; bnvars : nat; bnclauses : nat }

val buf_new : bstate

val buf_instance : bstate -> lit list -> bytes

val obs_of_reply : reply -> sobs

val buf_step : (bytes -> bytes) -> bstate -> sop -> bstate * sobs

val run_obj : ('a1 -> sop -> 'a1 * sobs) -> 'a1 -> sop list -> 'a1 * sobs list

val clauses_of : sop list -> cnf

val dpll_backend : backend

val vdpll_fn : bytes -> bytes

val verdict_of : sobs -> bool option
