open Datatypes

val add : nat -> nat -> nat

val mul : nat -> nat -> nat

val sub : nat -> nat -> nat
