open BinInt
open BinNums
open Datatypes
open List
open Nat

type lit = coq_Z

type clause = lit list

type cnf = clause list

type assignment = bool option list

(** val lit_var : lit -> nat **)

let lit_var l =
  Z.to_nat (Z.abs l)

(** val negate : lit -> lit **)

let negate =
  Z.opp

(** val value_of : assignment -> nat -> bool option **)

let value_of m v =
  nth (sub v (S O)) m None

(** val lit_true : assignment -> lit -> bool **)

let lit_true m l =
  match value_of m (lit_var l) with
  | Some b -> if Z.ltb Z0 l then b else negb b
  | None -> false

(** val sat_clause : assignment -> clause -> bool **)

let sat_clause m c =
  existsb (lit_true m) c

(** val models : assignment -> cnf -> bool **)

let models m f =
  forallb (sat_clause m) f

type coq_val = nat -> bool

(** val val_of : assignment -> coq_val **)

let val_of m v =
  match value_of m v with
  | Some b -> b
  | None -> false

(** val clause_max : clause -> nat **)

let clause_max c =
  fold_right (fun l acc -> PeanoNat.Nat.max (lit_var l) acc) O c

(** val cnf_max : cnf -> nat **)

let cnf_max f =
  fold_right (fun c acc -> PeanoNat.Nat.max (clause_max c) acc) O f

(** val all_assignments : nat -> assignment list **)

let rec all_assignments = function
| O -> [] :: []
| S k ->
  flat_map (fun m ->
    (app m ((Some false) :: [])) :: ((app m ((Some true) :: [])) :: []))
    (all_assignments k)

(** val all_models : nat -> cnf -> assignment list **)

let all_models n f =
  filter (fun m -> models m f) (all_assignments n)

type answer =
| Sat of assignment
| Unsat
| Unknown

(** val valid_sat : cnf -> lit list -> assignment -> bool **)

let valid_sat f a m =
  (&&) (models m f) (forallb (lit_true m) a)
