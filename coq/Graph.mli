open AF
open Datatypes
open List
open Nat
open Store

type gview = { g_maxid : nat option; g_ids : nat list;
               g_from : (nat -> nat list); g_to : (nat -> nat list);
               g_atts : (nat * nat) list }

val view_of_fw : 'a1 fw -> gview

val view_of_af : af -> gview

val nth_nat : nat list -> nat -> nat

val nth_bool : bool list -> nat -> bool

type gstate = { g_ext : nat list; defeated : bool list; cnt : nat list }

val g_defend : gstate -> nat -> gstate

val g_defeat : gview -> gstate -> nat -> gstate

val g_process : gview -> gstate -> nat -> gstate

val g_loop : nat -> gview -> nat -> gstate -> nat list

val grounded : gview -> nat list

type ccstate = { in_cc : bool list; next_arg : nat }

val has_id : gview -> nat -> bool

val update_next_fuel : nat -> gview -> ccstate -> ccstate

val update_next : gview -> ccstate -> ccstate

val cc_new : gview -> ccstate

val neighbours : gview -> nat -> nat list

type dfs = { d_s : ccstate; d_current : nat list; d_stack : nat list }

val dfs_visit : gview -> dfs -> nat -> dfs

val pop_last : 'a1 list -> ('a1 * 'a1 list) option

val dfs_loop : nat -> gview -> dfs -> dfs

val find_cc : gview -> ccstate -> nat -> ccstate * nat list

val index_of : nat list -> nat -> nat option

val extract_atts : nat list -> (nat * nat) list -> (nat * nat) list option

type comp = { c_ids : nat list; c_af : af }

val extract_cc : gview -> nat list -> comp option

val next_cc : gview -> ccstate -> (ccstate * comp option) option

val merged_cc_of : gview -> ccstate -> nat list -> (ccstate * comp) option

val all_ccs_fuel : nat -> gview -> ccstate -> comp list option

val remaining_ccs : gview -> ccstate -> comp list option

val all_ccs : gview -> comp list option

val cc_local : comp -> nat -> nat option

val cc_global : comp -> nat -> nat
