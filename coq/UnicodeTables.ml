open BinNums

(** val white_space_ranges : (coq_N * coq_N) list **)

let white_space_ranges =
  ((Npos (Coq_xI (Coq_xO (Coq_xO Coq_xH)))), (Npos (Coq_xI (Coq_xO (Coq_xI
    Coq_xH))))) :: (((Npos (Coq_xO (Coq_xO (Coq_xO (Coq_xO (Coq_xO
    Coq_xH)))))), (Npos (Coq_xO (Coq_xO (Coq_xO (Coq_xO (Coq_xO
    Coq_xH))))))) :: (((Npos (Coq_xI (Coq_xO (Coq_xI (Coq_xO (Coq_xO (Coq_xO
    (Coq_xO Coq_xH)))))))), (Npos (Coq_xI (Coq_xO (Coq_xI (Coq_xO (Coq_xO
    (Coq_xO (Coq_xO Coq_xH))))))))) :: (((Npos (Coq_xO (Coq_xO (Coq_xO
    (Coq_xO (Coq_xO (Coq_xI (Coq_xO Coq_xH)))))))), (Npos (Coq_xO (Coq_xO
    (Coq_xO (Coq_xO (Coq_xO (Coq_xI (Coq_xO Coq_xH))))))))) :: (((Npos
    (Coq_xO (Coq_xO (Coq_xO (Coq_xO (Coq_xO (Coq_xO (Coq_xO (Coq_xI (Coq_xO
    (Coq_xI (Coq_xI (Coq_xO Coq_xH))))))))))))), (Npos (Coq_xO (Coq_xO
    (Coq_xO (Coq_xO (Coq_xO (Coq_xO (Coq_xO (Coq_xI (Coq_xO (Coq_xI (Coq_xI
    (Coq_xO Coq_xH)))))))))))))) :: (((Npos (Coq_xO (Coq_xO (Coq_xO (Coq_xO
    (Coq_xO (Coq_xO (Coq_xO (Coq_xO (Coq_xO (Coq_xO (Coq_xO (Coq_xO (Coq_xO
    Coq_xH)))))))))))))), (Npos (Coq_xO (Coq_xI (Coq_xO (Coq_xI (Coq_xO
    (Coq_xO (Coq_xO (Coq_xO (Coq_xO (Coq_xO (Coq_xO (Coq_xO (Coq_xO
    Coq_xH))))))))))))))) :: (((Npos (Coq_xO (Coq_xO (Coq_xO (Coq_xI (Coq_xO
    (Coq_xI (Coq_xO (Coq_xO (Coq_xO (Coq_xO (Coq_xO (Coq_xO (Coq_xO
    Coq_xH)))))))))))))), (Npos (Coq_xI (Coq_xO (Coq_xO (Coq_xI (Coq_xO
    (Coq_xI (Coq_xO (Coq_xO (Coq_xO (Coq_xO (Coq_xO (Coq_xO (Coq_xO
    Coq_xH))))))))))))))) :: (((Npos (Coq_xI (Coq_xI (Coq_xI (Coq_xI (Coq_xO
    (Coq_xI (Coq_xO (Coq_xO (Coq_xO (Coq_xO (Coq_xO (Coq_xO (Coq_xO
    Coq_xH)))))))))))))), (Npos (Coq_xI (Coq_xI (Coq_xI (Coq_xI (Coq_xO
    (Coq_xI (Coq_xO (Coq_xO (Coq_xO (Coq_xO (Coq_xO (Coq_xO (Coq_xO
    Coq_xH))))))))))))))) :: (((Npos (Coq_xI (Coq_xI (Coq_xI (Coq_xI (Coq_xI
    (Coq_xO (Coq_xI (Coq_xO (Coq_xO (Coq_xO (Coq_xO (Coq_xO (Coq_xO
    Coq_xH)))))))))))))), (Npos (Coq_xI (Coq_xI (Coq_xI (Coq_xI (Coq_xI
    (Coq_xO (Coq_xI (Coq_xO (Coq_xO (Coq_xO (Coq_xO (Coq_xO (Coq_xO
    Coq_xH))))))))))))))) :: (((Npos (Coq_xO (Coq_xO (Coq_xO (Coq_xO (Coq_xO
    (Coq_xO (Coq_xO (Coq_xO (Coq_xO (Coq_xO (Coq_xO (Coq_xO (Coq_xI
    Coq_xH)))))))))))))), (Npos (Coq_xO (Coq_xO (Coq_xO (Coq_xO (Coq_xO
    (Coq_xO (Coq_xO (Coq_xO (Coq_xO (Coq_xO (Coq_xO (Coq_xO (Coq_xI
    Coq_xH))))))))))))))) :: [])))))))))

(** val decimal_number_ranges : (coq_N * coq_N) list **)

let decimal_number_ranges =
  ((Npos (Coq_xO (Coq_xO (Coq_xO (Coq_xO (Coq_xI Coq_xH)))))), (Npos (Coq_xI
    (Coq_xO (Coq_xO (Coq_xI (Coq_xI Coq_xH))))))) :: (((Npos (Coq_xO (Coq_xO
    (Coq_xO (Coq_xO (Coq_xO (Coq_xI (Coq_xI (Coq_xO (Coq_xO (Coq_xI
    Coq_xH))))))))))), (Npos (Coq_xI (Coq_xO (Coq_xO (Coq_xI (Coq_xO (Coq_xI
    (Coq_xI (Coq_xO (Coq_xO (Coq_xI Coq_xH)))))))))))) :: (((Npos (Coq_xO
    (Coq_xO (Coq_xO (Coq_xO (Coq_xI (Coq_xI (Coq_xI (Coq_xI (Coq_xO (Coq_xI
    Coq_xH))))))))))), (Npos (Coq_xI (Coq_xO (Coq_xO (Coq_xI (Coq_xI (Coq_xI
    (Coq_xI (Coq_xI (Coq_xO (Coq_xI Coq_xH)))))))))))) :: (((Npos (Coq_xO
    (Coq_xO (Coq_xO (Coq_xO (Coq_xO (Coq_xO (Coq_xI (Coq_xI (Coq_xI (Coq_xI
    Coq_xH))))))))))), (Npos (Coq_xI (Coq_xO (Coq_xO (Coq_xI (Coq_xO (Coq_xO
    (Coq_xI (Coq_xI (Coq_xI (Coq_xI Coq_xH)))))))))))) :: (((Npos (Coq_xO
    (Coq_xI (Coq_xI (Coq_xO (Coq_xO (Coq_xI (Coq_xI (Coq_xO (Coq_xI (Coq_xO
    (Coq_xO Coq_xH)))))))))))), (Npos (Coq_xI (Coq_xI (Coq_xI (Coq_xI (Coq_xO
    (Coq_xI (Coq_xI (Coq_xO (Coq_xI (Coq_xO (Coq_xO
    Coq_xH))))))))))))) :: (((Npos (Coq_xO (Coq_xI (Coq_xI (Coq_xO (Coq_xO
    (Coq_xI (Coq_xI (Coq_xI (Coq_xI (Coq_xO (Coq_xO Coq_xH)))))))))))), (Npos
    (Coq_xI (Coq_xI (Coq_xI (Coq_xI (Coq_xO (Coq_xI (Coq_xI (Coq_xI (Coq_xI
    (Coq_xO (Coq_xO Coq_xH))))))))))))) :: (((Npos (Coq_xO (Coq_xI (Coq_xI
    (Coq_xO (Coq_xO (Coq_xI (Coq_xI (Coq_xO (Coq_xO (Coq_xI (Coq_xO
    Coq_xH)))))))))))), (Npos (Coq_xI (Coq_xI (Coq_xI (Coq_xI (Coq_xO (Coq_xI
    (Coq_xI (Coq_xO (Coq_xO (Coq_xI (Coq_xO Coq_xH))))))))))))) :: (((Npos
    (Coq_xO (Coq_xI (Coq_xI (Coq_xO (Coq_xO (Coq_xI (Coq_xI (Coq_xI (Coq_xO
    (Coq_xI (Coq_xO Coq_xH)))))))))))), (Npos (Coq_xI (Coq_xI (Coq_xI (Coq_xI
    (Coq_xO (Coq_xI (Coq_xI (Coq_xI (Coq_xO (Coq_xI (Coq_xO
    Coq_xH))))))))))))) :: (((Npos (Coq_xO (Coq_xI (Coq_xI (Coq_xO (Coq_xO
    (Coq_xI (Coq_xI (Coq_xO (Coq_xI (Coq_xI (Coq_xO Coq_xH)))))))))))), (Npos
    (Coq_xI (Coq_xI (Coq_xI (Coq_xI (Coq_xO (Coq_xI (Coq_xI (Coq_xO (Coq_xI
    (Coq_xI (Coq_xO Coq_xH))))))))))))) :: (((Npos (Coq_xO (Coq_xI (Coq_xI
    (Coq_xO (Coq_xO (Coq_xI (Coq_xI (Coq_xI (Coq_xI (Coq_xI (Coq_xO
    Coq_xH)))))))))))), (Npos (Coq_xI (Coq_xI (Coq_xI (Coq_xI (Coq_xO (Coq_xI
    (Coq_xI (Coq_xI (Coq_xI (Coq_xI (Coq_xO Coq_xH))))))))))))) :: (((Npos
    (Coq_xO (Coq_xI (Coq_xI (Coq_xO (Coq_xO (Coq_xI (Coq_xI (Coq_xO (Coq_xO
    (Coq_xO (Coq_xI Coq_xH)))))))))))), (Npos (Coq_xI (Coq_xI (Coq_xI (Coq_xI
    (Coq_xO (Coq_xI (Coq_xI (Coq_xO (Coq_xO (Coq_xO (Coq_xI
    Coq_xH))))))))))))) :: (((Npos (Coq_xO (Coq_xI (Coq_xI (Coq_xO (Coq_xO
    (Coq_xI (Coq_xI (Coq_xI (Coq_xO (Coq_xO (Coq_xI Coq_xH)))))))))))), (Npos
    (Coq_xI (Coq_xI (Coq_xI (Coq_xI (Coq_xO (Coq_xI (Coq_xI (Coq_xI (Coq_xO
    (Coq_xO (Coq_xI Coq_xH))))))))))))) :: (((Npos (Coq_xO (Coq_xI (Coq_xI
    (Coq_xO (Coq_xO (Coq_xI (Coq_xI (Coq_xO (Coq_xI (Coq_xO (Coq_xI
    Coq_xH)))))))))))), (Npos (Coq_xI (Coq_xI (Coq_xI (Coq_xI (Coq_xO (Coq_xI
    (Coq_xI (Coq_xO (Coq_xI (Coq_xO (Coq_xI Coq_xH))))))))))))) :: (((Npos
    (Coq_xO (Coq_xI (Coq_xI (Coq_xO (Coq_xO (Coq_xI (Coq_xI (Coq_xI (Coq_xI
    (Coq_xO (Coq_xI Coq_xH)))))))))))), (Npos (Coq_xI (Coq_xI (Coq_xI (Coq_xI
    (Coq_xO (Coq_xI (Coq_xI (Coq_xI (Coq_xI (Coq_xO (Coq_xI
    Coq_xH))))))))))))) :: (((Npos (Coq_xO (Coq_xO (Coq_xO (Coq_xO (Coq_xI
    (Coq_xO (Coq_xI (Coq_xO (Coq_xO (Coq_xI (Coq_xI Coq_xH)))))))))))), (Npos
    (Coq_xI (Coq_xO (Coq_xO (Coq_xI (Coq_xI (Coq_xO (Coq_xI (Coq_xO (Coq_xO
    (Coq_xI (Coq_xI Coq_xH))))))))))))) :: (((Npos (Coq_xO (Coq_xO (Coq_xO
    (Coq_xO (Coq_xI (Coq_xO (Coq_xI (Coq_xI (Coq_xO (Coq_xI (Coq_xI
    Coq_xH)))))))))))), (Npos (Coq_xI (Coq_xO (Coq_xO (Coq_xI (Coq_xI (Coq_xO
    (Coq_xI (Coq_xI (Coq_xO (Coq_xI (Coq_xI Coq_xH))))))))))))) :: (((Npos
    (Coq_xO (Coq_xO (Coq_xO (Coq_xO (Coq_xO (Coq_xI (Coq_xO (Coq_xO (Coq_xI
    (Coq_xI (Coq_xI Coq_xH)))))))))))), (Npos (Coq_xI (Coq_xO (Coq_xO (Coq_xI
    (Coq_xO (Coq_xI (Coq_xO (Coq_xO (Coq_xI (Coq_xI (Coq_xI
    Coq_xH))))))))))))) :: (((Npos (Coq_xO (Coq_xO (Coq_xO (Coq_xO (Coq_xO
    (Coq_xO (Coq_xI (Coq_xO (Coq_xO (Coq_xO (Coq_xO (Coq_xO
    Coq_xH))))))))))))), (Npos (Coq_xI (Coq_xO (Coq_xO (Coq_xI (Coq_xO
    (Coq_xO (Coq_xI (Coq_xO (Coq_xO (Coq_xO (Coq_xO (Coq_xO
    Coq_xH)))))))))))))) :: (((Npos (Coq_xO (Coq_xO (Coq_xO (Coq_xO (Coq_xI
    (Coq_xO (Coq_xO (Coq_xI (Coq_xO (Coq_xO (Coq_xO (Coq_xO
    Coq_xH))))))))))))), (Npos (Coq_xI (Coq_xO (Coq_xO (Coq_xI (Coq_xI
    (Coq_xO (Coq_xO (Coq_xI (Coq_xO (Coq_xO (Coq_xO (Coq_xO
    Coq_xH)))))))))))))) :: (((Npos (Coq_xO (Coq_xO (Coq_xO (Coq_xO (Coq_xO
    (Coq_xI (Coq_xI (Coq_xI (Coq_xI (Coq_xI (Coq_xI (Coq_xO
    Coq_xH))))))))))))), (Npos (Coq_xI (Coq_xO (Coq_xO (Coq_xI (Coq_xO
    (Coq_xI (Coq_xI (Coq_xI (Coq_xI (Coq_xI (Coq_xI (Coq_xO
    Coq_xH)))))))))))))) :: (((Npos (Coq_xO (Coq_xO (Coq_xO (Coq_xO (Coq_xI
    (Coq_xO (Coq_xO (Coq_xO (Coq_xO (Coq_xO (Coq_xO (Coq_xI
    Coq_xH))))))))))))), (Npos (Coq_xI (Coq_xO (Coq_xO (Coq_xI (Coq_xI
    (Coq_xO (Coq_xO (Coq_xO (Coq_xO (Coq_xO (Coq_xO (Coq_xI
    Coq_xH)))))))))))))) :: (((Npos (Coq_xO (Coq_xI (Coq_xI (Coq_xO (Coq_xO
    (Coq_xO (Coq_xI (Coq_xO (Coq_xI (Coq_xO (Coq_xO (Coq_xI
    Coq_xH))))))))))))), (Npos (Coq_xI (Coq_xI (Coq_xI (Coq_xI (Coq_xO
    (Coq_xO (Coq_xI (Coq_xO (Coq_xI (Coq_xO (Coq_xO (Coq_xI
    Coq_xH)))))))))))))) :: (((Npos (Coq_xO (Coq_xO (Coq_xO (Coq_xO (Coq_xI
    (Coq_xO (Coq_xI (Coq_xI (Coq_xI (Coq_xO (Coq_xO (Coq_xI
    Coq_xH))))))))))))), (Npos (Coq_xI (Coq_xO (Coq_xO (Coq_xI (Coq_xI
    (Coq_xO (Coq_xI (Coq_xI (Coq_xI (Coq_xO (Coq_xO (Coq_xI
    Coq_xH)))))))))))))) :: (((Npos (Coq_xO (Coq_xO (Coq_xO (Coq_xO (Coq_xO
    (Coq_xO (Coq_xO (Coq_xI (Coq_xO (Coq_xI (Coq_xO (Coq_xI
    Coq_xH))))))))))))), (Npos (Coq_xI (Coq_xO (Coq_xO (Coq_xI (Coq_xO
    (Coq_xO (Coq_xO (Coq_xI (Coq_xO (Coq_xI (Coq_xO (Coq_xI
    Coq_xH)))))))))))))) :: (((Npos (Coq_xO (Coq_xO (Coq_xO (Coq_xO (Coq_xI
    (Coq_xO (Coq_xO (Coq_xI (Coq_xO (Coq_xI (Coq_xO (Coq_xI
    Coq_xH))))))))))))), (Npos (Coq_xI (Coq_xO (Coq_xO (Coq_xI (Coq_xI
    (Coq_xO (Coq_xO (Coq_xI (Coq_xO (Coq_xI (Coq_xO (Coq_xI
    Coq_xH)))))))))))))) :: (((Npos (Coq_xO (Coq_xO (Coq_xO (Coq_xO (Coq_xI
    (Coq_xO (Coq_xI (Coq_xO (Coq_xI (Coq_xI (Coq_xO (Coq_xI
    Coq_xH))))))))))))), (Npos (Coq_xI (Coq_xO (Coq_xO (Coq_xI (Coq_xI
    (Coq_xO (Coq_xI (Coq_xO (Coq_xI (Coq_xI (Coq_xO (Coq_xI
    Coq_xH)))))))))))))) :: (((Npos (Coq_xO (Coq_xO (Coq_xO (Coq_xO (Coq_xI
    (Coq_xI (Coq_xO (Coq_xI (Coq_xI (Coq_xI (Coq_xO (Coq_xI
    Coq_xH))))))))))))), (Npos (Coq_xI (Coq_xO (Coq_xO (Coq_xI (Coq_xI
    (Coq_xI (Coq_xO (Coq_xI (Coq_xI (Coq_xI (Coq_xO (Coq_xI
    Coq_xH)))))))))))))) :: (((Npos (Coq_xO (Coq_xO (Coq_xO (Coq_xO (Coq_xO
    (Coq_xO (Coq_xI (Coq_xO (Coq_xO (Coq_xO (Coq_xI (Coq_xI
    Coq_xH))))))))))))), (Npos (Coq_xI (Coq_xO (Coq_xO (Coq_xI (Coq_xO
    (Coq_xO (Coq_xI (Coq_xO (Coq_xO (Coq_xO (Coq_xI (Coq_xI
    Coq_xH)))))))))))))) :: (((Npos (Coq_xO (Coq_xO (Coq_xO (Coq_xO (Coq_xI
    (Coq_xO (Coq_xI (Coq_xO (Coq_xO (Coq_xO (Coq_xI (Coq_xI
    Coq_xH))))))))))))), (Npos (Coq_xI (Coq_xO (Coq_xO (Coq_xI (Coq_xI
    (Coq_xO (Coq_xI (Coq_xO (Coq_xO (Coq_xO (Coq_xI (Coq_xI
    Coq_xH)))))))))))))) :: (((Npos (Coq_xO (Coq_xO (Coq_xO (Coq_xO (Coq_xO
    (Coq_xI (Coq_xO (Coq_xO (Coq_xO (Coq_xI (Coq_xI (Coq_xO (Coq_xO (Coq_xI
    (Coq_xO Coq_xH)))))))))))))))), (Npos (Coq_xI (Coq_xO (Coq_xO (Coq_xI
    (Coq_xO (Coq_xI (Coq_xO (Coq_xO (Coq_xO (Coq_xI (Coq_xI (Coq_xO (Coq_xO
    (Coq_xI (Coq_xO Coq_xH))))))))))))))))) :: (((Npos (Coq_xO (Coq_xO
    (Coq_xO (Coq_xO (Coq_xI (Coq_xO (Coq_xI (Coq_xI (Coq_xO (Coq_xO (Coq_xO
    (Coq_xI (Coq_xO (Coq_xI (Coq_xO Coq_xH)))))))))))))))), (Npos (Coq_xI
    (Coq_xO (Coq_xO (Coq_xI (Coq_xI (Coq_xO (Coq_xI (Coq_xI (Coq_xO (Coq_xO
    (Coq_xO (Coq_xI (Coq_xO (Coq_xI (Coq_xO
    Coq_xH))))))))))))))))) :: (((Npos (Coq_xO (Coq_xO (Coq_xO (Coq_xO
    (Coq_xO (Coq_xO (Coq_xO (Coq_xO (Coq_xI (Coq_xO (Coq_xO (Coq_xI (Coq_xO
    (Coq_xI (Coq_xO Coq_xH)))))))))))))))), (Npos (Coq_xI (Coq_xO (Coq_xO
    (Coq_xI (Coq_xO (Coq_xO (Coq_xO (Coq_xO (Coq_xI (Coq_xO (Coq_xO (Coq_xI
    (Coq_xO (Coq_xI (Coq_xO Coq_xH))))))))))))))))) :: (((Npos (Coq_xO
    (Coq_xO (Coq_xO (Coq_xO (Coq_xI (Coq_xO (Coq_xI (Coq_xI (Coq_xI (Coq_xO
    (Coq_xO (Coq_xI (Coq_xO (Coq_xI (Coq_xO Coq_xH)))))))))))))))), (Npos
    (Coq_xI (Coq_xO (Coq_xO (Coq_xI (Coq_xI (Coq_xO (Coq_xI (Coq_xI (Coq_xI
    (Coq_xO (Coq_xO (Coq_xI (Coq_xO (Coq_xI (Coq_xO
    Coq_xH))))))))))))))))) :: (((Npos (Coq_xO (Coq_xO (Coq_xO (Coq_xO
    (Coq_xI (Coq_xI (Coq_xI (Coq_xI (Coq_xI (Coq_xO (Coq_xO (Coq_xI (Coq_xO
    (Coq_xI (Coq_xO Coq_xH)))))))))))))))), (Npos (Coq_xI (Coq_xO (Coq_xO
    (Coq_xI (Coq_xI (Coq_xI (Coq_xI (Coq_xI (Coq_xI (Coq_xO (Coq_xO (Coq_xI
    (Coq_xO (Coq_xI (Coq_xO Coq_xH))))))))))))))))) :: (((Npos (Coq_xO
    (Coq_xO (Coq_xO (Coq_xO (Coq_xI (Coq_xO (Coq_xI (Coq_xO (Coq_xO (Coq_xI
    (Coq_xO (Coq_xI (Coq_xO (Coq_xI (Coq_xO Coq_xH)))))))))))))))), (Npos
    (Coq_xI (Coq_xO (Coq_xO (Coq_xI (Coq_xI (Coq_xO (Coq_xI (Coq_xO (Coq_xO
    (Coq_xI (Coq_xO (Coq_xI (Coq_xO (Coq_xI (Coq_xO
    Coq_xH))))))))))))))))) :: (((Npos (Coq_xO (Coq_xO (Coq_xO (Coq_xO
    (Coq_xI (Coq_xI (Coq_xI (Coq_xI (Coq_xI (Coq_xI (Coq_xO (Coq_xI (Coq_xO
    (Coq_xI (Coq_xO Coq_xH)))))))))))))))), (Npos (Coq_xI (Coq_xO (Coq_xO
    (Coq_xI (Coq_xI (Coq_xI (Coq_xI (Coq_xI (Coq_xI (Coq_xI (Coq_xO (Coq_xI
    (Coq_xO (Coq_xI (Coq_xO Coq_xH))))))))))))))))) :: (((Npos (Coq_xO
    (Coq_xO (Coq_xO (Coq_xO (Coq_xI (Coq_xO (Coq_xO (Coq_xO (Coq_xI (Coq_xI
    (Coq_xI (Coq_xI (Coq_xI (Coq_xI (Coq_xI Coq_xH)))))))))))))))), (Npos
    (Coq_xI (Coq_xO (Coq_xO (Coq_xI (Coq_xI (Coq_xO (Coq_xO (Coq_xO (Coq_xI
    (Coq_xI (Coq_xI (Coq_xI (Coq_xI (Coq_xI (Coq_xI
    Coq_xH))))))))))))))))) :: (((Npos (Coq_xO (Coq_xO (Coq_xO (Coq_xO
    (Coq_xO (Coq_xI (Coq_xO (Coq_xI (Coq_xO (Coq_xO (Coq_xI (Coq_xO (Coq_xO
    (Coq_xO (Coq_xO (Coq_xO Coq_xH))))))))))))))))), (Npos (Coq_xI (Coq_xO
    (Coq_xO (Coq_xI (Coq_xO (Coq_xI (Coq_xO (Coq_xI (Coq_xO (Coq_xO (Coq_xI
    (Coq_xO (Coq_xO (Coq_xO (Coq_xO (Coq_xO
    Coq_xH)))))))))))))))))) :: (((Npos (Coq_xO (Coq_xO (Coq_xO (Coq_xO
    (Coq_xI (Coq_xI (Coq_xO (Coq_xO (Coq_xI (Coq_xO (Coq_xI (Coq_xI (Coq_xO
    (Coq_xO (Coq_xO (Coq_xO Coq_xH))))))))))))))))), (Npos (Coq_xI (Coq_xO
    (Coq_xO (Coq_xI (Coq_xI (Coq_xI (Coq_xO (Coq_xO (Coq_xI (Coq_xO (Coq_xI
    (Coq_xI (Coq_xO (Coq_xO (Coq_xO (Coq_xO
    Coq_xH)))))))))))))))))) :: (((Npos (Coq_xO (Coq_xI (Coq_xI (Coq_xO
    (Coq_xO (Coq_xI (Coq_xI (Coq_xO (Coq_xO (Coq_xO (Coq_xO (Coq_xO (Coq_xI
    (Coq_xO (Coq_xO (Coq_xO Coq_xH))))))))))))))))), (Npos (Coq_xI (Coq_xI
    (Coq_xI (Coq_xI (Coq_xO (Coq_xI (Coq_xI (Coq_xO (Coq_xO (Coq_xO (Coq_xO
    (Coq_xO (Coq_xI (Coq_xO (Coq_xO (Coq_xO
    Coq_xH)))))))))))))))))) :: (((Npos (Coq_xO (Coq_xO (Coq_xO (Coq_xO
    (Coq_xI (Coq_xI (Coq_xI (Coq_xI (Coq_xO (Coq_xO (Coq_xO (Coq_xO (Coq_xI
    (Coq_xO (Coq_xO (Coq_xO Coq_xH))))))))))))))))), (Npos (Coq_xI (Coq_xO
    (Coq_xO (Coq_xI (Coq_xI (Coq_xI (Coq_xI (Coq_xI (Coq_xO (Coq_xO (Coq_xO
    (Coq_xO (Coq_xI (Coq_xO (Coq_xO (Coq_xO
    Coq_xH)))))))))))))))))) :: (((Npos (Coq_xO (Coq_xI (Coq_xI (Coq_xO
    (Coq_xI (Coq_xI (Coq_xO (Coq_xO (Coq_xI (Coq_xO (Coq_xO (Coq_xO (Coq_xI
    (Coq_xO (Coq_xO (Coq_xO Coq_xH))))))))))))))))), (Npos (Coq_xI (Coq_xI
    (Coq_xI (Coq_xI (Coq_xI (Coq_xI (Coq_xO (Coq_xO (Coq_xI (Coq_xO (Coq_xO
    (Coq_xO (Coq_xI (Coq_xO (Coq_xO (Coq_xO
    Coq_xH)))))))))))))))))) :: (((Npos (Coq_xO (Coq_xO (Coq_xO (Coq_xO
    (Coq_xI (Coq_xO (Coq_xI (Coq_xI (Coq_xI (Coq_xO (Coq_xO (Coq_xO (Coq_xI
    (Coq_xO (Coq_xO (Coq_xO Coq_xH))))))))))))))))), (Npos (Coq_xI (Coq_xO
    (Coq_xO (Coq_xI (Coq_xI (Coq_xO (Coq_xI (Coq_xI (Coq_xI (Coq_xO (Coq_xO
    (Coq_xO (Coq_xI (Coq_xO (Coq_xO (Coq_xO
    Coq_xH)))))))))))))))))) :: (((Npos (Coq_xO (Coq_xO (Coq_xO (Coq_xO
    (Coq_xI (Coq_xI (Coq_xI (Coq_xI (Coq_xO (Coq_xI (Coq_xO (Coq_xO (Coq_xI
    (Coq_xO (Coq_xO (Coq_xO Coq_xH))))))))))))))))), (Npos (Coq_xI (Coq_xO
    (Coq_xO (Coq_xI (Coq_xI (Coq_xI (Coq_xI (Coq_xI (Coq_xO (Coq_xI (Coq_xO
    (Coq_xO (Coq_xI (Coq_xO (Coq_xO (Coq_xO
    Coq_xH)))))))))))))))))) :: (((Npos (Coq_xO (Coq_xO (Coq_xO (Coq_xO
    (Coq_xI (Coq_xO (Coq_xI (Coq_xO (Coq_xO (Coq_xO (Coq_xI (Coq_xO (Coq_xI
    (Coq_xO (Coq_xO (Coq_xO Coq_xH))))))))))))))))), (Npos (Coq_xI (Coq_xO
    (Coq_xO (Coq_xI (Coq_xI (Coq_xO (Coq_xI (Coq_xO (Coq_xO (Coq_xO (Coq_xI
    (Coq_xO (Coq_xI (Coq_xO (Coq_xO (Coq_xO
    Coq_xH)))))))))))))))))) :: (((Npos (Coq_xO (Coq_xO (Coq_xO (Coq_xO
    (Coq_xI (Coq_xO (Coq_xI (Coq_xI (Coq_xO (Coq_xO (Coq_xI (Coq_xO (Coq_xI
    (Coq_xO (Coq_xO (Coq_xO Coq_xH))))))))))))))))), (Npos (Coq_xI (Coq_xO
    (Coq_xO (Coq_xI (Coq_xI (Coq_xO (Coq_xI (Coq_xI (Coq_xO (Coq_xO (Coq_xI
    (Coq_xO (Coq_xI (Coq_xO (Coq_xO (Coq_xO
    Coq_xH)))))))))))))))))) :: (((Npos (Coq_xO (Coq_xO (Coq_xO (Coq_xO
    (Coq_xI (Coq_xO (Coq_xI (Coq_xO (Coq_xO (Coq_xI (Coq_xI (Coq_xO (Coq_xI
    (Coq_xO (Coq_xO (Coq_xO Coq_xH))))))))))))))))), (Npos (Coq_xI (Coq_xO
    (Coq_xO (Coq_xI (Coq_xI (Coq_xO (Coq_xI (Coq_xO (Coq_xO (Coq_xI (Coq_xI
    (Coq_xO (Coq_xI (Coq_xO (Coq_xO (Coq_xO
    Coq_xH)))))))))))))))))) :: (((Npos (Coq_xO (Coq_xO (Coq_xO (Coq_xO
    (Coq_xO (Coq_xO (Coq_xI (Coq_xI (Coq_xO (Coq_xI (Coq_xI (Coq_xO (Coq_xI
    (Coq_xO (Coq_xO (Coq_xO Coq_xH))))))))))))))))), (Npos (Coq_xI (Coq_xO
    (Coq_xO (Coq_xI (Coq_xO (Coq_xO (Coq_xI (Coq_xI (Coq_xO (Coq_xI (Coq_xI
    (Coq_xO (Coq_xI (Coq_xO (Coq_xO (Coq_xO
    Coq_xH)))))))))))))))))) :: (((Npos (Coq_xO (Coq_xO (Coq_xO (Coq_xO
    (Coq_xI (Coq_xI (Coq_xO (Coq_xO (Coq_xI (Coq_xI (Coq_xI (Coq_xO (Coq_xI
    (Coq_xO (Coq_xO (Coq_xO Coq_xH))))))))))))))))), (Npos (Coq_xI (Coq_xO
    (Coq_xO (Coq_xI (Coq_xI (Coq_xI (Coq_xO (Coq_xO (Coq_xI (Coq_xI (Coq_xI
    (Coq_xO (Coq_xI (Coq_xO (Coq_xO (Coq_xO
    Coq_xH)))))))))))))))))) :: (((Npos (Coq_xO (Coq_xO (Coq_xO (Coq_xO
    (Coq_xO (Coq_xI (Coq_xI (Coq_xI (Coq_xO (Coq_xO (Coq_xO (Coq_xI (Coq_xI
    (Coq_xO (Coq_xO (Coq_xO Coq_xH))))))))))))))))), (Npos (Coq_xI (Coq_xO
    (Coq_xO (Coq_xI (Coq_xO (Coq_xI (Coq_xI (Coq_xI (Coq_xO (Coq_xO (Coq_xO
    (Coq_xI (Coq_xI (Coq_xO (Coq_xO (Coq_xO
    Coq_xH)))))))))))))))))) :: (((Npos (Coq_xO (Coq_xO (Coq_xO (Coq_xO
    (Coq_xI (Coq_xO (Coq_xI (Coq_xO (Coq_xI (Coq_xO (Coq_xO (Coq_xI (Coq_xI
    (Coq_xO (Coq_xO (Coq_xO Coq_xH))))))))))))))))), (Npos (Coq_xI (Coq_xO
    (Coq_xO (Coq_xI (Coq_xI (Coq_xO (Coq_xI (Coq_xO (Coq_xI (Coq_xO (Coq_xO
    (Coq_xI (Coq_xI (Coq_xO (Coq_xO (Coq_xO
    Coq_xH)))))))))))))))))) :: (((Npos (Coq_xO (Coq_xO (Coq_xO (Coq_xO
    (Coq_xI (Coq_xO (Coq_xI (Coq_xO (Coq_xO (Coq_xO (Coq_xI (Coq_xI (Coq_xI
    (Coq_xO (Coq_xO (Coq_xO Coq_xH))))))))))))))))), (Npos (Coq_xI (Coq_xO
    (Coq_xO (Coq_xI (Coq_xI (Coq_xO (Coq_xI (Coq_xO (Coq_xO (Coq_xO (Coq_xI
    (Coq_xI (Coq_xI (Coq_xO (Coq_xO (Coq_xO
    Coq_xH)))))))))))))))))) :: (((Npos (Coq_xO (Coq_xO (Coq_xO (Coq_xO
    (Coq_xI (Coq_xO (Coq_xI (Coq_xO (Coq_xI (Coq_xO (Coq_xI (Coq_xI (Coq_xI
    (Coq_xO (Coq_xO (Coq_xO Coq_xH))))))))))))))))), (Npos (Coq_xI (Coq_xO
    (Coq_xO (Coq_xI (Coq_xI (Coq_xO (Coq_xI (Coq_xO (Coq_xI (Coq_xO (Coq_xI
    (Coq_xI (Coq_xI (Coq_xO (Coq_xO (Coq_xO
    Coq_xH)))))))))))))))))) :: (((Npos (Coq_xO (Coq_xO (Coq_xO (Coq_xO
    (Coq_xO (Coq_xI (Coq_xO (Coq_xI (Coq_xI (Coq_xO (Coq_xI (Coq_xI (Coq_xI
    (Coq_xO (Coq_xO (Coq_xO Coq_xH))))))))))))))))), (Npos (Coq_xI (Coq_xO
    (Coq_xO (Coq_xI (Coq_xO (Coq_xI (Coq_xO (Coq_xI (Coq_xI (Coq_xO (Coq_xI
    (Coq_xI (Coq_xI (Coq_xO (Coq_xO (Coq_xO
    Coq_xH)))))))))))))))))) :: (((Npos (Coq_xO (Coq_xO (Coq_xO (Coq_xO
    (Coq_xI (Coq_xO (Coq_xI (Coq_xO (Coq_xI (Coq_xI (Coq_xI (Coq_xI (Coq_xI
    (Coq_xO (Coq_xO (Coq_xO Coq_xH))))))))))))))))), (Npos (Coq_xI (Coq_xO
    (Coq_xO (Coq_xI (Coq_xI (Coq_xO (Coq_xI (Coq_xO (Coq_xI (Coq_xI (Coq_xI
    (Coq_xI (Coq_xI (Coq_xO (Coq_xO (Coq_xO
    Coq_xH)))))))))))))))))) :: (((Npos (Coq_xO (Coq_xO (Coq_xO (Coq_xO
    (Coq_xO (Coq_xI (Coq_xI (Coq_xO (Coq_xO (Coq_xI (Coq_xO (Coq_xI (Coq_xO
    (Coq_xI (Coq_xI (Coq_xO Coq_xH))))))))))))))))), (Npos (Coq_xI (Coq_xO
    (Coq_xO (Coq_xI (Coq_xO (Coq_xI (Coq_xI (Coq_xO (Coq_xO (Coq_xI (Coq_xO
    (Coq_xI (Coq_xO (Coq_xI (Coq_xI (Coq_xO
    Coq_xH)))))))))))))))))) :: (((Npos (Coq_xO (Coq_xO (Coq_xO (Coq_xO
    (Coq_xO (Coq_xO (Coq_xI (Coq_xI (Coq_xO (Coq_xI (Coq_xO (Coq_xI (Coq_xO
    (Coq_xI (Coq_xI (Coq_xO Coq_xH))))))))))))))))), (Npos (Coq_xI (Coq_xO
    (Coq_xO (Coq_xI (Coq_xO (Coq_xO (Coq_xI (Coq_xI (Coq_xO (Coq_xI (Coq_xO
    (Coq_xI (Coq_xO (Coq_xI (Coq_xI (Coq_xO
    Coq_xH)))))))))))))))))) :: (((Npos (Coq_xO (Coq_xO (Coq_xO (Coq_xO
    (Coq_xI (Coq_xO (Coq_xI (Coq_xO (Coq_xI (Coq_xI (Coq_xO (Coq_xI (Coq_xO
    (Coq_xI (Coq_xI (Coq_xO Coq_xH))))))))))))))))), (Npos (Coq_xI (Coq_xO
    (Coq_xO (Coq_xI (Coq_xI (Coq_xO (Coq_xI (Coq_xO (Coq_xI (Coq_xI (Coq_xO
    (Coq_xI (Coq_xO (Coq_xI (Coq_xI (Coq_xO
    Coq_xH)))))))))))))))))) :: (((Npos (Coq_xO (Coq_xI (Coq_xI (Coq_xI
    (Coq_xO (Coq_xO (Coq_xI (Coq_xI (Coq_xI (Coq_xI (Coq_xI (Coq_xO (Coq_xI
    (Coq_xO (Coq_xI (Coq_xI Coq_xH))))))))))))))))), (Npos (Coq_xI (Coq_xI
    (Coq_xI (Coq_xI (Coq_xI (Coq_xI (Coq_xI (Coq_xI (Coq_xI (Coq_xI (Coq_xI
    (Coq_xO (Coq_xI (Coq_xO (Coq_xI (Coq_xI
    Coq_xH)))))))))))))))))) :: (((Npos (Coq_xO (Coq_xO (Coq_xO (Coq_xO
    (Coq_xO (Coq_xO (Coq_xI (Coq_xO (Coq_xI (Coq_xO (Coq_xO (Coq_xO (Coq_xO
    (Coq_xI (Coq_xI (Coq_xI Coq_xH))))))))))))))))), (Npos (Coq_xI (Coq_xO
    (Coq_xO (Coq_xI (Coq_xO (Coq_xO (Coq_xI (Coq_xO (Coq_xI (Coq_xO (Coq_xO
    (Coq_xO (Coq_xO (Coq_xI (Coq_xI (Coq_xI
    Coq_xH)))))))))))))))))) :: (((Npos (Coq_xO (Coq_xO (Coq_xO (Coq_xO
    (Coq_xI (Coq_xI (Coq_xI (Coq_xI (Coq_xO (Coq_xI (Coq_xO (Coq_xO (Coq_xO
    (Coq_xI (Coq_xI (Coq_xI Coq_xH))))))))))))))))), (Npos (Coq_xI (Coq_xO
    (Coq_xO (Coq_xI (Coq_xI (Coq_xI (Coq_xI (Coq_xI (Coq_xO (Coq_xI (Coq_xO
    (Coq_xO (Coq_xO (Coq_xI (Coq_xI (Coq_xI
    Coq_xH)))))))))))))))))) :: (((Npos (Coq_xO (Coq_xO (Coq_xO (Coq_xO
    (Coq_xI (Coq_xI (Coq_xI (Coq_xI (Coq_xO (Coq_xO (Coq_xI (Coq_xO (Coq_xO
    (Coq_xI (Coq_xI (Coq_xI Coq_xH))))))))))))))))), (Npos (Coq_xI (Coq_xO
    (Coq_xO (Coq_xI (Coq_xI (Coq_xI (Coq_xI (Coq_xI (Coq_xO (Coq_xO (Coq_xI
    (Coq_xO (Coq_xO (Coq_xI (Coq_xI (Coq_xI
    Coq_xH)))))))))))))))))) :: (((Npos (Coq_xO (Coq_xO (Coq_xO (Coq_xO
    (Coq_xI (Coq_xO (Coq_xI (Coq_xO (Coq_xI (Coq_xO (Coq_xO (Coq_xI (Coq_xO
    (Coq_xI (Coq_xI (Coq_xI Coq_xH))))))))))))))))), (Npos (Coq_xI (Coq_xO
    (Coq_xO (Coq_xI (Coq_xI (Coq_xO (Coq_xI (Coq_xO (Coq_xI (Coq_xO (Coq_xO
    (Coq_xI (Coq_xO (Coq_xI (Coq_xI (Coq_xI
    Coq_xH)))))))))))))))))) :: (((Npos (Coq_xO (Coq_xO (Coq_xO (Coq_xO
    (Coq_xI (Coq_xI (Coq_xI (Coq_xI (Coq_xI (Coq_xI (Coq_xO (Coq_xI (Coq_xI
    (Coq_xI (Coq_xI (Coq_xI Coq_xH))))))))))))))))), (Npos (Coq_xI (Coq_xO
    (Coq_xO (Coq_xI (Coq_xI (Coq_xI (Coq_xI (Coq_xI (Coq_xI (Coq_xI (Coq_xO
    (Coq_xI (Coq_xI (Coq_xI (Coq_xI (Coq_xI
    Coq_xH)))))))))))))))))) :: [])))))))))))))))))))))))))))))))))))))))))))))))))))))))))))))))
