open BinNat
open BinNums

type ascii =
| Ascii of bool * bool * bool * bool * bool * bool * bool * bool

(** val coq_N_of_digits : bool list -> coq_N **)

let rec coq_N_of_digits = function
| [] -> N0
| b :: l' ->
  N.add (if b then Npos Coq_xH else N0)
    (N.mul (Npos (Coq_xO Coq_xH)) (coq_N_of_digits l'))

(** val coq_N_of_ascii : ascii -> coq_N **)

let coq_N_of_ascii = function
| Ascii (a0, a1, a2, a3, a4, a5, a6, a7) ->
  coq_N_of_digits
    (a0 :: (a1 :: (a2 :: (a3 :: (a4 :: (a5 :: (a6 :: (a7 :: []))))))))
