open Cnf
open Datatypes
open List
open PeanoNat

type discipline =
| CadicalLike
| BufferedLike

type session = { rclauses : cnf; reserved : nat; maxvar : nat }

(** val empty_session : session **)

let empty_session =
  { rclauses = []; reserved = O; maxvar = O }

type event =
| ENew
| EReserve of nat
| EClause of clause
| ENVars of nat
| ESolve of lit list * answer

type st = { disc : discipline; sess : session; nsess : nat; calls : nat;
            rlog : (nat * event) list }

type 'a res =
| Done of 'a * st
| Abort of st
| Panic of st
| OutOfFuel of st

(** val init_st : discipline -> st **)

let init_st d =
  { disc = d; sess = empty_session; nsess = O; calls = O; rlog = [] }

type 'a coq_M = st -> 'a res

(** val ret : 'a1 -> 'a1 coq_M **)

let ret a s =
  Done (a, s)

(** val bind : 'a1 coq_M -> ('a1 -> 'a2 coq_M) -> 'a2 coq_M **)

let bind m k s =
  match m s with
  | Done (a, s') -> k a s'
  | Abort s' -> Abort s'
  | Panic s' -> Panic s'
  | OutOfFuel s' -> OutOfFuel s'

(** val panic : 'a1 coq_M **)

let panic s =
  Panic s

(** val out_of_fuel : 'a1 coq_M **)

let out_of_fuel s =
  OutOfFuel s

(** val log_ev : event -> st -> session -> nat -> st **)

let log_ev e s se c =
  { disc = s.disc; sess = se; nsess = s.nsess; calls = c; rlog = ((s.nsess,
    e) :: s.rlog) }

(** val new_solver : unit coq_M **)

let new_solver s =
  Done ((), { disc = s.disc; sess = empty_session; nsess = (S s.nsess);
    calls = s.calls; rlog = (((S s.nsess), ENew) :: s.rlog) })

(** val reserve : nat -> unit coq_M **)

let reserve n s =
  let se = s.sess in
  Done ((),
  (log_ev (EReserve n) s { rclauses = se.rclauses; reserved =
    (Nat.max se.reserved n); maxvar = se.maxvar } s.calls))

(** val add_clause : clause -> unit coq_M **)

let add_clause c s =
  let se = s.sess in
  Done ((),
  (log_ev (EClause c) s { rclauses = (c :: se.rclauses); reserved =
    se.reserved; maxvar = (Nat.max se.maxvar (clause_max c)) } s.calls))

(** val session_n_vars : session -> nat **)

let session_n_vars se =
  Nat.max se.maxvar se.reserved

(** val n_vars : nat coq_M **)

let n_vars s =
  let n = session_n_vars s.sess in
  Done (n, (log_ev (ENVars n) s s.sess s.calls))

(** val solve :
    (nat -> cnf -> lit list -> answer) -> lit list -> assignment option coq_M **)

let solve oracle a s =
  let se = s.sess in
  let r = oracle s.calls (rev se.rclauses) a in
  let se' =
    match s.disc with
    | CadicalLike ->
      { rclauses = se.rclauses; reserved = se.reserved; maxvar =
        (Nat.max se.maxvar (clause_max a)) }
    | BufferedLike -> se
  in
  let s' = log_ev (ESolve (a, r)) s se' (S s.calls) in
  (match r with
   | Sat m -> Done ((Some m), s')
   | Unsat -> Done (None, s')
   | Unknown -> Abort s')

(** val add_clauses : cnf -> unit coq_M **)

let rec add_clauses = function
| [] -> ret ()
| c :: r -> bind (add_clause c) (fun _ -> add_clauses r)

(** val run : discipline -> (st -> 'a1 res) -> 'a1 res **)

let run d m =
  m (init_st d)

(** val final_st : 'a1 res -> st **)

let final_st = function
| Done (_, s) -> s
| Abort s -> s
| Panic s -> s
| OutOfFuel s -> s

(** val log_of : 'a1 res -> (nat * event) list **)

let log_of r =
  rev (final_st r).rlog

(** val script_oracle : answer list -> nat -> cnf -> lit list -> answer **)

let script_oracle script i _ _ =
  nth i script Unknown
