open AF
open Datatypes
open List
open Nat
open Store

type gview = { g_maxid : nat option; g_ids : nat list;
               g_from : (nat -> nat list); g_to : (nat -> nat list);
               g_atts : (nat * nat) list }

(** val view_of_fw : 'a1 fw -> gview **)

let view_of_fw f =
  { g_maxid = (max_argument_id f); g_ids = (live_ids f); g_from = (fun a ->
    map snd (iter_attacks_from f a)); g_to = (fun a ->
    map fst (iter_attacks_to f a)); g_atts = (iter_attacks f) }

(** val view_of_af : af -> gview **)

let view_of_af f =
  let n = length f.args in
  { g_maxid = (match n with
               | O -> None
               | S k -> Some k); g_ids = (seq O n); g_from = (attacked f);
  g_to = (attackers f); g_atts = f.atts }

(** val nth_nat : nat list -> nat -> nat **)

let nth_nat l i =
  nth i l O

(** val nth_bool : bool list -> nat -> bool **)

let nth_bool l i =
  nth i l false

type gstate = { g_ext : nat list; defeated : bool list; cnt : nat list }

(** val g_defend : gstate -> nat -> gstate **)

let g_defend s defended =
  if PeanoNat.Nat.eqb (nth_nat s.cnt defended) (S O)
  then { g_ext = (app s.g_ext (defended :: [])); defeated = s.defeated; cnt =
         s.cnt }
  else { g_ext = s.g_ext; defeated = s.defeated; cnt =
         (set_nth defended (sub (nth_nat s.cnt defended) (S O)) s.cnt) }

(** val g_defeat : gview -> gstate -> nat -> gstate **)

let g_defeat g s d =
  if nth_bool s.defeated d
  then s
  else fold_left g_defend (g.g_from d) { g_ext = s.g_ext; defeated =
         (set_nth d true s.defeated); cnt = s.cnt }

(** val g_process : gview -> gstate -> nat -> gstate **)

let g_process g s a =
  fold_left (g_defeat g) (g.g_from a) s

(** val g_loop : nat -> gview -> nat -> gstate -> nat list **)

let rec g_loop fuel g k s =
  match fuel with
  | O -> s.g_ext
  | S f ->
    (match nth_error s.g_ext k with
     | Some a -> g_loop f g (S k) (g_process g s a)
     | None -> s.g_ext)

(** val grounded : gview -> nat list **)

let grounded g =
  match g.g_maxid with
  | Some m ->
    let size = S m in
    let init =
      fold_left (fun s a ->
        let c = length (g.g_to a) in
        { g_ext =
        (if PeanoNat.Nat.eqb c O then app s.g_ext (a :: []) else s.g_ext);
        defeated = s.defeated; cnt = (set_nth a c s.cnt) }) g.g_ids { g_ext =
        []; defeated = (repeat false size); cnt = (repeat O size) }
    in
    g_loop (S size) g O init
  | None -> []

type ccstate = { in_cc : bool list; next_arg : nat }

(** val has_id : gview -> nat -> bool **)

let has_id g i =
  memb i g.g_ids

(** val update_next_fuel : nat -> gview -> ccstate -> ccstate **)

let rec update_next_fuel fuel g s =
  match fuel with
  | O -> s
  | S f ->
    if (&&) (PeanoNat.Nat.ltb s.next_arg (length s.in_cc))
         ((||) (nth_bool s.in_cc s.next_arg) (negb (has_id g s.next_arg)))
    then update_next_fuel f g { in_cc = s.in_cc; next_arg = (S s.next_arg) }
    else s

(** val update_next : gview -> ccstate -> ccstate **)

let update_next g s =
  update_next_fuel (S (length s.in_cc)) g s

(** val cc_new : gview -> ccstate **)

let cc_new g =
  update_next g { in_cc =
    (repeat false (S (match g.g_maxid with
                      | Some m -> m
                      | None -> O))); next_arg = O }

(** val neighbours : gview -> nat -> nat list **)

let neighbours g a =
  app (g.g_from a) (g.g_to a)

type dfs = { d_s : ccstate; d_current : nat list; d_stack : nat list }

(** val dfs_visit : gview -> dfs -> nat -> dfs **)

let dfs_visit g d b =
  if nth_bool d.d_s.in_cc b
  then d
  else let s1 = { in_cc = (set_nth b true d.d_s.in_cc); next_arg =
         d.d_s.next_arg }
       in
       let s2 =
         if PeanoNat.Nat.eqb s1.next_arg b then update_next g s1 else s1
       in
       { d_s = s2; d_current = (app d.d_current (b :: [])); d_stack =
       (app d.d_stack (b :: [])) }

(** val pop_last : 'a1 list -> ('a1 * 'a1 list) option **)

let pop_last l =
  match rev l with
  | [] -> None
  | x :: r -> Some (x, (rev r))

(** val dfs_loop : nat -> gview -> dfs -> dfs **)

let rec dfs_loop fuel g d =
  match fuel with
  | O -> d
  | S f ->
    (match pop_last d.d_stack with
     | Some p ->
       let (a, rest) = p in
       dfs_loop f g
         (fold_left (dfs_visit g) (neighbours g a) { d_s = d.d_s; d_current =
           d.d_current; d_stack = rest })
     | None -> d)

(** val find_cc : gview -> ccstate -> nat -> ccstate * nat list **)

let find_cc g s a =
  let s1 =
    update_next g { in_cc = (set_nth a true s.in_cc); next_arg = s.next_arg }
  in
  let d =
    dfs_loop (S (length s.in_cc)) g { d_s = s1; d_current = (a :: []);
      d_stack = (a :: []) }
  in
  (d.d_s, d.d_current)

(** val index_of : nat list -> nat -> nat option **)

let index_of l a =
  position (PeanoNat.Nat.eqb a) l

(** val extract_atts :
    nat list -> (nat * nat) list -> (nat * nat) list option **)

let extract_atts comp0 all =
  fold_left (fun acc p ->
    match acc with
    | Some l ->
      (match index_of comp0 (fst p) with
       | Some i ->
         (match index_of comp0 (snd p) with
          | Some j -> Some (app l ((i, j) :: []))
          | None -> None)
       | None -> Some l)
    | None -> None) all (Some [])

type comp = { c_ids : nat list; c_af : af }

(** val extract_cc : gview -> nat list -> comp option **)

let extract_cc g ids =
  match extract_atts ids g.g_atts with
  | Some l ->
    Some { c_ids = ids; c_af = { args = (seq O (length ids)); atts = l } }
  | None -> None

(** val next_cc : gview -> ccstate -> (ccstate * comp option) option **)

let next_cc g s =
  match g.g_ids with
  | [] -> None
  | _ :: _ ->
    if PeanoNat.Nat.eqb s.next_arg (length s.in_cc)
    then None
    else let (s', ids) = find_cc g s s.next_arg in
         Some (s', (extract_cc g ids))

(** val merged_cc_of :
    gview -> ccstate -> nat list -> (ccstate * comp) option **)

let merged_cc_of g s al =
  if existsb (fun a -> nth_bool s.in_cc a) al
  then None
  else let (s', ids) =
         fold_left (fun acc a ->
           let (s0, l) = acc in
           if nth_bool s0.in_cc a
           then acc
           else let (s1, c) = find_cc g s0 a in (s1, (app l c))) al (s, [])
       in
       (match extract_cc g ids with
        | Some c -> Some (s', c)
        | None -> None)

(** val all_ccs_fuel : nat -> gview -> ccstate -> comp list option **)

let rec all_ccs_fuel fuel g s =
  match fuel with
  | O -> Some []
  | S f ->
    (match next_cc g s with
     | Some p ->
       let (s', o) = p in
       (match o with
        | Some c ->
          (match all_ccs_fuel f g s' with
           | Some l -> Some (c :: l)
           | None -> None)
        | None -> None)
     | None -> Some [])

(** val remaining_ccs : gview -> ccstate -> comp list option **)

let remaining_ccs g s =
  all_ccs_fuel (S (length s.in_cc)) g s

(** val all_ccs : gview -> comp list option **)

let all_ccs g =
  remaining_ccs g (cc_new g)

(** val cc_local : comp -> nat -> nat option **)

let cc_local c a =
  index_of c.c_ids a

(** val cc_global : comp -> nat -> nat **)

let cc_global c i =
  nth i c.c_ids O
