(* The SAT boundary: every interaction of the modelled algorithms with a SAT solver goes through
   this small program monad.  The solver itself is NOT modelled: answers come from an oracle
   parameter (the recorded answers in replay, a reference solver in examples, universally
   quantified in theorems).  [solve] is [SolvingResult::unwrap_model]: an Unknown answer aborts.
   Definitions only. *)
From Crusta Require Export Sat.Cnf.

(* n_vars disciplines: CadicalSolver counts assumed variables, BufferedSatSolver does not *)
Inductive discipline := CadicalLike | BufferedLike.

Record session := { rclauses : cnf;        (* clauses added so far, most recent first *)
                    reserved : nat;
                    maxvar : nat }.
Definition empty_session : session := {| rclauses := []; reserved := 0; maxvar := 0 |}.

Inductive event :=
| ENew
| EReserve (n : nat)
| EClause (c : clause)
| ENVars (n : nat)
| ESolve (a : list lit) (r : answer).

Record st := { disc : discipline;
               sess : session;
               nsess : nat;            (* number of sessions opened so far *)
               calls : nat;            (* number of answers consumed so far *)
               rlog : list (nat * event) }.   (* (session number, event), most recent first *)

Inductive res (A : Type) :=
| Done (a : A) (s : st)
| Abort (s : st)          (* an Unknown answer was unwrapped (Rust: panic) *)
| Panic (s : st)          (* any other Rust panic the model can reach (unwrap on None, ...) *)
| OutOfFuel (s : st).
Arguments Done {A}. Arguments Abort {A}. Arguments Panic {A}. Arguments OutOfFuel {A}.

Definition init_st (d : discipline) : st :=
  {| disc := d; sess := empty_session; nsess := 0; calls := 0; rlog := [] |}.

Section WithOracle.
Variable oracle : nat -> cnf -> list lit -> answer.

Definition M (A : Type) := st -> res A.
Definition ret {A} (a : A) : M A := fun s => Done a s.
Definition bind {A B} (m : M A) (k : A -> M B) : M B :=
  fun s => match m s with
           | Done a s' => k a s'
           | Abort s' => Abort s'
           | Panic s' => Panic s'
           | OutOfFuel s' => OutOfFuel s'
           end.
Definition panic {A} : M A := fun s => Panic s.
Definition out_of_fuel {A} : M A := fun s => OutOfFuel s.

Definition log_ev (e : event) (s : st) (se : session) (c : nat) : st :=
  {| disc := disc s; sess := se; nsess := nsess s; calls := c; rlog := (nsess s, e) :: rlog s |}.

Definition new_solver : M unit := fun s =>
  Done tt {| disc := disc s; sess := empty_session; nsess := S (nsess s); calls := calls s;
             rlog := (S (nsess s), ENew) :: rlog s |}.
Definition reserve (n : nat) : M unit := fun s =>
  let se := sess s in
  Done tt (log_ev (EReserve n) s
             {| rclauses := rclauses se; reserved := Nat.max (reserved se) n; maxvar := maxvar se |}
             (calls s)).
Definition add_clause (c : clause) : M unit := fun s =>
  let se := sess s in
  Done tt (log_ev (EClause c) s
             {| rclauses := c :: rclauses se; reserved := reserved se;
                maxvar := Nat.max (maxvar se) (clause_max c) |}
             (calls s)).
Definition session_n_vars (se : session) : nat := Nat.max (maxvar se) (reserved se).
Definition n_vars : M nat := fun s =>
  let n := session_n_vars (sess s) in
  Done n (log_ev (ENVars n) s (sess s) (calls s)).
Definition solve (a : list lit) : M (option assignment) := fun s =>
  let se := sess s in
  let r := oracle (calls s) (rev (rclauses se)) a in
  let se' := match disc s with
             | CadicalLike => {| rclauses := rclauses se; reserved := reserved se;
                                 maxvar := Nat.max (maxvar se) (clause_max a) |}
             | BufferedLike => se
             end in
  let s' := log_ev (ESolve a r) s se' (S (calls s)) in
  match r with
  | Sat m => Done (Some m) s'
  | Unsat => Done None s'
  | Unknown => Abort s'
  end.

Fixpoint add_clauses (cs : cnf) : M unit :=
  match cs with
  | [] => ret tt
  | c :: r => bind (add_clause c) (fun _ => add_clauses r)
  end.

End WithOracle.

Arguments ret {A}. Arguments bind {A B}. Arguments panic {A}. Arguments out_of_fuel {A}.

Declare Scope prog_scope.
Notation "x <- m ;; k" := (bind m (fun x => k)) (at level 61, m at next level, right associativity) : prog_scope.
Notation "m ;;; k" := (bind m (fun _ => k)) (at level 61, right associativity) : prog_scope.

(* running a program *)
Definition run {A} (d : discipline) (m : st -> res A) : res A := m (init_st d).
Definition final_st {A} (r : res A) : st :=
  match r with Done _ s | Abort s | Panic s | OutOfFuel s => s end.
Definition log_of {A} (r : res A) : list (nat * event) := rev (rlog (final_st r)).

(* the script oracle used by replay: the i-th answer consumed is the i-th recorded one *)
Definition script_oracle (script : list answer) : nat -> cnf -> list lit -> answer :=
  fun i _ _ => nth i script Unknown.
