(* CNF objects shared by every model: literals are non-zero integers (DIMACS),
   an assignment is what crustabri's [Assignment] is: a vector of [Option<bool>],
   variable v at index v-1.  Definitions only. *)
From Coq Require Export List Arith ZArith Bool Lia.
Export ListNotations.

Definition lit := Z.
Definition clause := list lit.
Definition cnf := list clause.
Definition assignment := list (option bool).

Definition lit_var (l : lit) : nat := Z.to_nat (Z.abs l).
Definition pos_lit (v : nat) : lit := Z.of_nat v.
Definition neg_lit (v : nat) : lit := Z.opp (Z.of_nat v).
Definition negate (l : lit) : lit := Z.opp l.

Definition value_of (m : assignment) (v : nat) : option bool := nth (v - 1) m None.
Definition lit_true (m : assignment) (l : lit) : bool :=
  match value_of m (lit_var l) with
  | Some b => if Z.ltb 0 l then b else negb b
  | None => false
  end.
Definition sat_clause (m : assignment) (c : clause) : bool := existsb (lit_true m) c.
Definition models (m : assignment) (f : cnf) : bool := forallb (sat_clause m) f.
Definition units (a : list lit) : cnf := map (fun l => [l]) a.

(* total valuations, used in proofs and by the reference enumerator *)
Definition val := nat -> bool.
Definition vtrue (m : val) (l : lit) : bool :=
  if Z.ltb 0 l then m (lit_var l) else negb (m (lit_var l)).
Definition vsat_clause (m : val) (c : clause) : bool := existsb (vtrue m) c.
Definition vmodels (m : val) (f : cnf) : bool := forallb (vsat_clause m) f.
Definition val_of (m : assignment) : val :=
  fun v => match value_of m v with Some true => true | _ => false end.
Definition assignment_of (n : nat) (m : val) : assignment :=
  map (fun i => Some (m (S i))) (seq 0 n).

Definition clause_max (c : clause) : nat := fold_right (fun l acc => Nat.max (lit_var l) acc) 0 c.
Definition cnf_max (f : cnf) : nat := fold_right (fun c acc => Nat.max (clause_max c) acc) 0 f.
Definition lit_ok (l : lit) : bool := negb (Z.eqb l 0).
Definition total_upto (n : nat) (m : assignment) : bool :=
  Nat.leb n (length m) && forallb (fun o => match o with Some _ => true | None => false end) (firstn n m).

(* brute-force enumeration of all total assignments over variables 1..n *)
Fixpoint all_assignments (n : nat) : list assignment :=
  match n with
  | O => [[]]
  | S k => flat_map (fun m => [m ++ [Some false]; m ++ [Some true]]) (all_assignments k)
  end.
Definition all_models (n : nat) (f : cnf) : list assignment :=
  filter (fun m => models m f) (all_assignments n).

(* SAT answers as seen through crustabri's [SolvingResult] *)
Inductive answer := Sat (m : assignment) | Unsat | Unknown.

(* decidable validity of one answer for clause set [f] under assumptions [a],
   the UNSAT side being confirmed by a caller-supplied complete procedure *)
Definition valid_sat (f : cnf) (a : list lit) (m : assignment) : bool :=
  models m f && forallb (lit_true m) a.
