(* A small, total reference SAT procedure (DPLL: conflict detection, unit propagation, splitting
   on the smallest unassigned variable) over [cnf] and assumption lists.  Fuel is the number of
   variables, which is enough because every step assigns one more variable of 1..n (proved in
   Proofs/DpllProofs.v); the procedure is therefore total and fuel never "runs out" in a way that
   matters: at fuel 0 every variable is assigned and the candidate is checked.
   Used (a) inside the driver to confirm recorded Unsat answers and (b) as the stand-alone DIMACS
   program [vdpll], the external SAT solver of the C15/C16/C17 checks.  Definitions only. *)
From Crusta Require Export Sat.Cnf.

Definition memz (l : lit) (tr : list lit) : bool := existsb (Z.eqb l) tr.

(* a partial assignment is the list of literals made true so far *)
Definition assigned (tr : list lit) (x : nat) : bool := memz (pos_lit x) tr || memz (neg_lit x) tr.
Definition unassigned_vars (n : nat) (tr : list lit) : list nat :=
  filter (fun x => negb (assigned tr x)) (seq 1 n).

Inductive info := Conflict | UnitLit (l : lit) | NoInfo.

(* first clause that is falsified (Conflict) or unit under [tr] *)
Fixpoint analyse (tr : list lit) (f : cnf) : info :=
  match f with
  | [] => NoInfo
  | c :: r =>
      if existsb (fun l => memz l tr) c then analyse tr r
      else match filter (fun l => negb (memz (Z.opp l) tr)) c with
           | [] => Conflict
           | [l] => UnitLit l
           | _ => analyse tr r
           end
  end.

(* the total assignment over 1..n read off a literal list: x is true iff +x was chosen *)
Definition assignment_of_lits (n : nat) (tr : list lit) : assignment :=
  map (fun x => Some (memz (pos_lit x) tr)) (seq 1 n).

Definition leaf (n : nat) (tr : list lit) (f : cnf) : option assignment :=
  let m := assignment_of_lits n tr in
  if models m f then Some m else None.

Fixpoint dpll (k : nat) (n : nat) (tr : list lit) (f : cnf) : option assignment :=
  match k with
  | O => leaf n tr f
  | S k' =>
      match analyse tr f with
      | Conflict => None
      | UnitLit l => dpll k' n (l :: tr) f
      | NoInfo =>
          match unassigned_vars n tr with
          | [] => leaf n tr f
          | x :: _ =>
              match dpll k' n (pos_lit x :: tr) f with
              | Some m => Some m
              | None => dpll k' n (neg_lit x :: tr) f
              end
          end
      end
  end.

(* satisfiability of [c ++ units a] over the variables 1..n *)
Definition solve_n (n : nat) (c : cnf) (a : list lit) : option assignment :=
  dpll n n [] (c ++ units a).

(* the number of variables is the largest one occurring *)
Definition solve (c : cnf) (a : list lit) : option assignment :=
  solve_n (Nat.max (cnf_max c) (clause_max a)) c a.

(* every literal is a non-zero integer (crustabri's [Literal] is a NonZeroIsize) *)
Definition clause_ok (c : clause) : bool := forallb lit_ok c.
Definition cnf_ok (f : cnf) : bool := forallb clause_ok f.

(* as an answer in the sense of Cnf.answer (never Unknown) *)
Definition solve_answer (n : nat) (c : cnf) (a : list lit) : answer :=
  match solve_n n c a with Some m => Sat m | None => Unsat end.
