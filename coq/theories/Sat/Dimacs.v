(* Bytes-level DIMACS: the instance text exactly as crustabri's [BufferedSatSolver] emits it, a
   STRICT instance parser (used by the reference solver program vdpll), and the reply parser
   mirroring [BufferedSatSolver::solve_under_assumptions]' reading of the solver output
   (src/sat/buffered_sat_solver.rs), including which malformed replies make the Rust code panic
   ([RPanic]).  Bytes are [N] (ASCII / UTF-8 code units).  Definitions only. *)
From Coq Require Export NArith.
From Coq Require Import Decimal DecimalN DecimalZ.
From Crusta Require Export Sat.Cnf.

Definition byte := N.
Definition bytes := list byte.

(* ASCII constants (spelled out: Coq's String module is kept out of the extracted code; that they
   are the intended strings is checked in Proofs/DimacsProofs.v, [constants_ok]) *)
Definition b_sat : bytes := [115;32;83;65;84;73;83;70;73;65;66;76;69]%N.          (* "s SATISFIABLE" *)
Definition b_unsat : bytes := [115;32;85;78;83;65;84;73;83;70;73;65;66;76;69]%N.  (* "s UNSATISFIABLE" *)
Definition b_v_sp : bytes := [118;32]%N.                                          (* "v " *)
Definition b_c_sp : bytes := [99;32]%N.                                           (* "c " *)
Definition b_c : bytes := [99]%N.                                                 (* "c" *)
Definition b_v : bytes := [118]%N.                                                (* "v" *)
Definition b_p : bytes := [112]%N.                                                (* "p" *)
Definition b_cnf : bytes := [99;110;102]%N.                                       (* "cnf" *)
Definition b_p_cnf_sp : bytes := [112;32;99;110;102;32]%N.                        (* "p cnf " *)
Definition b_sp_0 : bytes := [32;48]%N.                                           (* " 0" *)
(* "c error: ill-formed instance" *)
Definition b_error : bytes :=
  [99;32;101;114;114;111;114;58;32;105;108;108;45;102;111;114;109;101;100;32;105;110;115;116;97;110;99;101]%N.

Fixpoint bytes_eqb (a b : bytes) : bool :=
  match a, b with
  | [], [] => true
  | x :: a', y :: b' => N.eqb x y && bytes_eqb a' b'
  | _, _ => false
  end.
Fixpoint prefixb (p l : bytes) : bool :=
  match p, l with
  | [], _ => true
  | x :: p', y :: l' => N.eqb x y && prefixb p' l'
  | _ :: _, [] => false
  end.
Definition is_nil {A} (l : list A) : bool := match l with [] => true | _ => false end.

(* ------------------------------------------------------------------ decimal numbers *)
Fixpoint uint_bytes (d : uint) : bytes :=
  match d with
  | Nil => []
  | D0 u => 48%N :: uint_bytes u
  | D1 u => 49%N :: uint_bytes u
  | D2 u => 50%N :: uint_bytes u
  | D3 u => 51%N :: uint_bytes u
  | D4 u => 52%N :: uint_bytes u
  | D5 u => 53%N :: uint_bytes u
  | D6 u => 54%N :: uint_bytes u
  | D7 u => 55%N :: uint_bytes u
  | D8 u => 56%N :: uint_bytes u
  | D9 u => 57%N :: uint_bytes u
  end.

Definition digit_of (b : byte) : option (uint -> uint) :=
  if N.eqb b 48 then Some D0 else if N.eqb b 49 then Some D1 else if N.eqb b 50 then Some D2
  else if N.eqb b 51 then Some D3 else if N.eqb b 52 then Some D4 else if N.eqb b 53 then Some D5
  else if N.eqb b 54 then Some D6 else if N.eqb b 55 then Some D7 else if N.eqb b 56 then Some D8
  else if N.eqb b 57 then Some D9 else None.

Fixpoint bytes_uint (l : bytes) : option uint :=
  match l with
  | [] => Some Nil
  | b :: r => match digit_of b, bytes_uint r with
              | Some d, Some u => Some (d u)
              | _, _ => None
              end
  end.

(* Rust [Display] of usize / isize *)
Definition print_nat (n : nat) : bytes := uint_bytes (N.to_uint (N.of_nat n)).
Definition print_lit (z : Z) : bytes :=
  match Z.to_int z with
  | Pos d => uint_bytes d
  | Neg d => 45%N :: uint_bytes d
  end.

(* optional sign, at least one digit, nothing else: the syntax of Rust's [str::parse::<isize>] *)
Definition split_sign (tok : bytes) : bool * bytes :=
  match tok with
  | b :: r => if N.eqb b 45 then (true, r) else if N.eqb b 43 then (false, r) else (false, tok)
  | [] => (false, tok)
  end.
Definition parse_Z (tok : bytes) : option Z :=
  let sd := split_sign tok in
  match snd sd with
  | [] => None
  | _ => match bytes_uint (snd sd) with
         | None => None
         | Some u => let z := Z.of_N (N.of_uint u) in Some (if fst sd then Z.opp z else z)
         end
  end.

Definition isize_min : Z := (- 9223372036854775808)%Z.
Definition isize_max : Z := 9223372036854775807%Z.
(* [w.parse::<isize>()]: None is Err (overflow included) *)
Definition parse_isize (tok : bytes) : option Z :=
  match parse_Z tok with
  | Some z => if Z.leb isize_min z && Z.leb z isize_max then Some z else None
  | None => None
  end.

(* strict forms: only the canonical decimal rendering is accepted *)
Definition parse_lit_strict (tok : bytes) : option Z :=
  match parse_Z tok with
  | Some z => if negb (Z.eqb z 0) && bytes_eqb (print_lit z) tok then Some z else None
  | None => None
  end.
Definition parse_nat_strict (tok : bytes) : option nat :=
  match bytes_uint tok with
  | Some u => let n := N.to_nat (N.of_uint u) in
              if bytes_eqb (print_nat n) tok then Some n else None
  | None => None
  end.

(* ------------------------------------------------------------------ splitting *)
(* fields separated by the bytes satisfying [sep]; always at least one field *)
Fixpoint fields (sep : byte -> bool) (l : bytes) : list bytes :=
  match l with
  | [] => [[]]
  | b :: r =>
      if sep b then [] :: fields sep r
      else match fields sep r with
           | [] => [[b]]
           | f :: rest => (b :: f) :: rest
           end
  end.

(* [char::is_ascii_whitespace]: space, tab, LF, FF, CR *)
Definition is_ws (b : byte) : bool :=
  N.eqb b 32 || N.eqb b 9 || N.eqb b 10 || N.eqb b 12 || N.eqb b 13.
(* [str::split_ascii_whitespace] *)
Definition tokens (l : bytes) : list bytes :=
  filter (fun t => negb (is_nil t)) (fields is_ws l).

(* [BufRead::lines] before the line-end stripping: each line with "was terminated by LF" *)
Fixpoint raw_lines (l : bytes) : list (bytes * bool) :=
  match l with
  | [] => []
  | b :: r =>
      if N.eqb b 10 then ([], true) :: raw_lines r
      else match raw_lines r with
           | [] => [([b], false)]
           | (ln, t) :: rest => (b :: ln, t) :: rest
           end
  end.
Definition strip_cr (ln : bytes) : bytes :=
  match rev ln with
  | 13%N :: r => rev r
  | _ => ln
  end.
(* the String yielded by [lines()]: LF removed, then one CR removed if an LF was removed *)
Definition rust_line (p : bytes * bool) : bytes := if snd p then strip_cr (fst p) else fst p.

(* [str::from_utf8] (what [read_line] checks on every line) *)
Definition in_range (lo hi b : N) : bool := N.leb lo b && N.leb b hi.
Definition cont (b : N) : bool := in_range 128 191 b.
Fixpoint utf8_valid (l : bytes) : bool :=
  match l with
  | [] => true
  | b0 :: r0 =>
      if N.ltb b0 128 then utf8_valid r0
      else if in_range 194 223 b0 then
        match r0 with b1 :: r1 => cont b1 && utf8_valid r1 | _ => false end
      else if N.eqb b0 224 then
        match r0 with b1 :: b2 :: r2 => in_range 160 191 b1 && cont b2 && utf8_valid r2 | _ => false end
      else if in_range 225 236 b0 || in_range 238 239 b0 then
        match r0 with b1 :: b2 :: r2 => cont b1 && cont b2 && utf8_valid r2 | _ => false end
      else if N.eqb b0 237 then
        match r0 with b1 :: b2 :: r2 => in_range 128 159 b1 && cont b2 && utf8_valid r2 | _ => false end
      else if N.eqb b0 240 then
        match r0 with
        | b1 :: b2 :: b3 :: r3 => in_range 144 191 b1 && cont b2 && cont b3 && utf8_valid r3
        | _ => false end
      else if in_range 241 243 b0 then
        match r0 with
        | b1 :: b2 :: b3 :: r3 => cont b1 && cont b2 && cont b3 && utf8_valid r3
        | _ => false end
      else if N.eqb b0 244 then
        match r0 with
        | b1 :: b2 :: b3 :: r3 => in_range 128 143 b1 && cont b2 && cont b3 && utf8_valid r3
        | _ => false end
      else false
  end.

(* ------------------------------------------------------------------ instance printer *)
(* add_clause: "{} " per literal, then "0\n" *)
Definition print_clause (c : clause) : bytes :=
  concat (map (fun l => print_lit l ++ [32%N]) c) ++ [48%N; 10%N].
(* format!("p cnf {} {}\n", n_vars, n_clauses + assumptions.len()) *)
Definition print_preamble (nv nc : nat) : bytes :=
  b_p_cnf_sp ++ print_nat nv ++ [32%N] ++ print_nat nc ++ [10%N].
(* format!("{} 0\n", a) *)
Definition print_assumption (l : lit) : bytes := print_lit l ++ [32%N; 48%N; 10%N].
Definition print_clauses (f : cnf) : bytes := concat (map print_clause f).
(* a whole instance with the given header variable count *)
Definition print_instance (nv : nat) (f : cnf) : bytes :=
  print_preamble nv (length f) ++ print_clauses f.

(* ------------------------------------------------------------------ strict instance parser *)
Fixpoint map_opt {A C} (g : A -> option C) (l : list A) : option (list C) :=
  match l with
  | [] => Some []
  | x :: r => match g x, map_opt g r with
              | Some y, Some ys => Some (y :: ys)
              | _, _ => None
              end
  end.

(* "l1 l2 ... lk 0": single spaces, canonical non-zero literals, the terminating 0 *)
Definition parse_clause_line (ln : bytes) : option clause :=
  match rev (fields (N.eqb 32) ln) with
  | last :: rinit => if bytes_eqb last [48%N] then map_opt parse_lit_strict (rev rinit) else None
  | [] => None
  end.

(* accepts exactly: "p cnf <nv> <nc>\n" followed by nc clause lines, every variable <= nv *)
Definition parse_instance (text : bytes) : option (nat * cnf) :=
  match fields (N.eqb 10) text with
  | hdr :: rest =>
      match rev rest with
      | [] :: rlines =>
          match fields (N.eqb 32) hdr with
          | [p; c; a; b] =>
              if bytes_eqb p (b_p) && bytes_eqb c (b_cnf) then
                match parse_nat_strict a, parse_nat_strict b, map_opt parse_clause_line (rev rlines) with
                | Some nv, Some nc, Some cls =>
                    if Nat.eqb (length cls) nc && Nat.leb (cnf_max cls) nv then Some (nv, cls) else None
                | _, _, _ => None
                end
              else None
          | _ => None
          end
      | _ => None
      end
  | [] => None
  end.

(* ------------------------------------------------------------------ reply parser *)
Inductive reply := RSat (m : assignment) | RUnsat | RUnknown | RPanic.

Fixpoint set_at {A} (i : nat) (x : A) (l : list A) : list A :=
  match l, i with
  | [], _ => []
  | _ :: r, O => x :: r
  | y :: r, S k => y :: set_at k x r
  end.

Record rstate := { st_status : option bool; st_assign : assignment; st_seen : bool; st_end : bool }.
Definition rstate0 (n : nat) : rstate :=
  {| st_status := None; st_assign := repeat None n; st_seen := false; st_end := false |}.

(* one word of a value line; None = panic *)
Definition do_token (n : nat) (s : rstate) (tok : bytes) : option rstate :=
  match parse_isize tok with
  | None => None                                   (* "is not a literal" *)
  | Some z =>
      if Z.eqb z 0 then
        if st_end s then None                      (* "multiple zeroes on value line" *)
        else Some {| st_status := st_status s; st_assign := st_assign s; st_seen := st_seen s; st_end := true |}
      else if Z.leb (Z.of_nat n) (Z.abs z - 1) then None     (* "out of bounds" *)
      else Some {| st_status := st_status s;
                   st_assign := set_at (Z.to_nat (Z.abs z - 1)) (Some (Z.ltb 0 z)) (st_assign s);
                   st_seen := st_seen s; st_end := st_end s |}
  end.
Fixpoint do_tokens (n : nat) (s : rstate) (toks : list bytes) : option rstate :=
  match toks with
  | [] => Some s
  | t :: r => match do_token n s t with Some s' => do_tokens n s' r | None => None end
  end.
Definition set_status (s : rstate) (b : bool) : option rstate :=
  match st_status s with
  | Some _ => None                                 (* "multiple status lines" *)
  | None => Some {| st_status := Some b; st_assign := st_assign s; st_seen := st_seen s; st_end := st_end s |}
  end.

Definition do_line (n : nat) (s : rstate) (line : bytes) : option rstate :=
  if bytes_eqb line (b_sat) then set_status s true
  else if bytes_eqb line (b_unsat) then set_status s false
  else if prefixb (b_v_sp) line then
    do_tokens n {| st_status := st_status s; st_assign := st_assign s; st_seen := true; st_end := st_end s |}
              (tl (tokens line))
  else if prefixb (b_c_sp) line || bytes_eqb line (b_c) || bytes_eqb line (b_v) || is_nil line
       then Some s
       else None.                                  (* "unexpected line" *)

Fixpoint do_lines (n : nat) (s : rstate) (ls : list (bytes * bool)) : option rstate :=
  match ls with
  | [] => Some s
  | p :: r =>
      if utf8_valid (fst p) then
        match do_line n s (rust_line p) with
        | Some s' => do_lines n s' r
        | None => None
        end
      else None                                    (* lines() yields Err: panic *)
  end.

Definition finish (s : rstate) : reply :=
  match st_status s with
  | Some true => if st_seen s && st_end s then RSat (st_assign s) else RUnknown
  | Some false => RUnsat
  | None => RUnknown
  end.

(* [n] is the solver object's n_vars at the time of the call *)
Definition reply_parse (n : nat) (out : bytes) : reply :=
  match do_lines n (rstate0 n) (raw_lines out) with
  | Some s => finish s
  | None => RPanic
  end.

(* ------------------------------------------------------------------ reply printer (layouts) *)
(* lines that the reader ignores *)
Inductive filler := FBare | FText (t : bytes) | FEmpty | FV.
Definition filler_line (f : filler) : bytes :=
  match f with
  | FBare => b_c ++ [10%N]
  | FText t => b_c_sp ++ t ++ [10%N]
  | FEmpty => [10%N]
  | FV => b_v ++ [10%N]
  end.
Definition render_fill (fs : list filler) : bytes := concat (map filler_line fs).
(* comment text: ASCII without line feed / carriage return (so that the line structure is the
   rendered one) *)
Definition text_ok (t : bytes) : bool :=
  forallb (fun b => N.ltb b 128 && negb (N.eqb b 10) && negb (N.eqb b 13)) t.
Definition filler_ok (f : filler) : bool := match f with FText t => text_ok t | _ => true end.

Fixpoint model_lits_from (i : nat) (m : assignment) : list lit :=
  match m with
  | [] => []
  | Some true :: r => pos_lit i :: model_lits_from (S i) r
  | Some false :: r => neg_lit i :: model_lits_from (S i) r
  | None :: r => model_lits_from (S i) r
  end.
Definition model_lits (m : assignment) : list lit := model_lits_from 1 m.

Definition v_line (ls : list lit) (term : bool) : bytes :=
  b_v ++ concat (map (fun l => 32%N :: print_lit l) ls) ++ (if term then b_sp_0 else []) ++ [10%N].

(* a layout: for each value line but the last, the ignorable lines before it and how many literals
   it carries; the last line takes the rest and the terminating 0 *)
Definition layout := list (list filler * nat).
Fixpoint render_v (lay : layout) (ls : list lit) : bytes :=
  match lay with
  | [] => v_line ls true
  | (fs, k) :: r => render_fill fs ++ v_line (firstn k ls) false ++ render_v r (skipn k ls)
  end.
Definition layout_ok (lay : layout) : bool := forallb (fun p => forallb filler_ok (fst p)) lay.

Definition status_sat : bytes := b_sat ++ [10%N].
Definition status_unsat : bytes := b_unsat ++ [10%N].

(* the status line before or after the value lines, ignorable lines anywhere *)
Definition render_sat (status_last : bool) (pre : list filler) (lay : layout) (post : list filler)
           (m : assignment) : bytes :=
  render_fill pre ++ (if status_last then [] else status_sat) ++ render_v lay (model_lits m)
  ++ (if status_last then status_sat else []) ++ render_fill post.
Definition render_unsat (pre post : list filler) : bytes :=
  render_fill pre ++ status_unsat ++ render_fill post.

(* vdpll's own output: eight literals per value line *)
Definition default_layout (m : assignment) : layout :=
  repeat ([], 8) (Nat.div (length (model_lits m)) 8).
Definition print_reply (r : option assignment) : bytes :=
  match r with
  | Some m => render_sat false [] (default_layout m) [] m
  | None => render_unsat [] []
  end.
