(* Model of src/utils/label.rs (LabelSet), src/aa/arguments.rs (ArgumentSet) and
   src/aa/aa_framework.rs (AAFramework).  Same data layout as the Rust code:
   tombstoned label vector, tombstoned attack vector, per-argument index vectors,
   swap_remove.  The HashMap [label_to_id] is modelled by a lookup over the live
   slots (the map is never iterated in Rust).  Definitions only. *)
From Coq Require Export List Arith Bool.
Export ListNotations.

Inductive result := ROk | RErr | RPanic.

Fixpoint set_nth {A} (i : nat) (x : A) (l : list A) : list A :=
  match l, i with
  | [], _ => []
  | _ :: r, O => x :: r
  | y :: r, S k => y :: set_nth k x r
  end.

Fixpoint position {A} (p : A -> bool) (l : list A) : option nat :=
  match l with
  | [] => None
  | x :: r => if p x then Some 0 else option_map S (position p r)
  end.

(* Vec::swap_remove *)
Definition swap_remove {A} (i : nat) (l : list A) : list A :=
  match rev l with
  | [] => l
  | last :: _ =>
      let n := length l in
      if Nat.eqb i (n - 1) then firstn (n - 1) l
      else firstn (n - 1) (set_nth i last l)
  end.

Fixpoint filter_some {A} (l : list (option A)) : list A :=
  match l with
  | [] => []
  | Some x :: r => x :: filter_some r
  | None :: r => filter_some r
  end.

Definition pair_eqb (p q : nat * nat) : bool :=
  Nat.eqb (fst p) (fst q) && Nat.eqb (snd p) (snd q).
Definition oatt_is (o : option (nat * nat)) (p : nat * nat) : bool :=
  match o with Some q => pair_eqb q p | None => false end.

Section Store.
Variable L : Type.
Variable leqb : L -> L -> bool.

(* ---------------- LabelSet ---------------- *)
Record lset := { slots : list (option (nat * L)); n_removed : nat }.

Definition slot_has (l : L) (o : option (nat * L)) : bool :=
  match o with Some (_, l') => leqb l l' | None => false end.
(* label_to_id.get(l) *)
Definition find_label (s : lset) (l : L) : option nat := position (slot_has l) (slots s).

Definition ls_len (s : lset) : nat := length (slots s) - n_removed s.
Definition ls_max_id (s : lset) : option nat :=
  match slots s with [] => None | _ => Some (length (slots s) - 1) end.
Definition ls_is_empty (s : lset) : bool := Nat.eqb (length (slots s)) (n_removed s).
Definition ls_has_id (s : lset) (id : nat) : bool :=
  match nth id (slots s) None with Some _ => true | None => false end.
Definition ls_iter (s : lset) : list (nat * L) := filter_some (slots s).

Definition new_label (s : lset) (l : L) : lset :=
  match find_label s l with
  | Some _ => s
  | None => {| slots := slots s ++ [Some (length (slots s), l)]; n_removed := n_removed s |}
  end.
Definition new_with_labels (ls : list L) : lset :=
  fold_left new_label ls {| slots := []; n_removed := 0 |}.
Definition remove_label (s : lset) (l : L) : lset * option nat :=
  match find_label s l with
  | Some id => ({| slots := set_nth id None (slots s); n_removed := S (n_removed s) |}, Some id)
  | None => (s, None)
  end.

(* ---------------- AAFramework ---------------- *)
Record fw := {
  ls : lset;
  attacks : list (option (nat * nat));
  afrom : list (list nat);
  ato : list (list nat);
  n_removed_attacks : nat }.

Definition fw_new (s : lset) : fw :=
  {| ls := s; attacks := [];
     afrom := repeat [] (ls_len s); ato := repeat [] (ls_len s);
     n_removed_attacks := 0 |}.
Definition fw_new_with_labels (l : list L) : fw := fw_new (new_with_labels l).

Definition new_argument (f : fw) (l : L) : fw :=
  let old_len := ls_len (ls f) in
  let ls' := new_label (ls f) l in
  if Nat.ltb old_len (ls_len ls') then
    {| ls := ls'; attacks := attacks f; afrom := afrom f ++ [[]]; ato := ato f ++ [[]];
       n_removed_attacks := n_removed_attacks f |}
  else
    {| ls := ls'; attacks := attacks f; afrom := afrom f; ato := ato f;
       n_removed_attacks := n_removed_attacks f |}.

Definition try_remove_attack (acc : list (option (nat * nat)) * nat) (i : nat) :=
  match nth i (fst acc) None with
  | Some _ => (set_nth i None (fst acc), S (snd acc))
  | None => acc
  end.

Definition remove_argument (f : fw) (l : L) : fw * result :=
  match remove_label (ls f) l with
  | (_, None) => (f, RErr)
  | (ls', Some id) =>
      let idx := nth id (afrom f) [] ++ nth id (ato f) [] in
      let '(atts', nrem') := fold_left try_remove_attack idx (attacks f, n_removed_attacks f) in
      ({| ls := ls'; attacks := atts';
          afrom := set_nth id [] (afrom f); ato := set_nth id [] (ato f);
          n_removed_attacks := nrem' |}, ROk)
  end.

Definition new_attack (f : fw) (from to : L) : fw * result :=
  match find_label (ls f) from, find_label (ls f) to with
  | Some a, Some b =>
      if existsb (fun i => oatt_is (nth i (attacks f) None) (a, b)) (nth a (afrom f) [])
      then (f, ROk)
      else
        let k := length (attacks f) in
        ({| ls := ls f; attacks := attacks f ++ [Some (a, b)];
            afrom := set_nth a (nth a (afrom f) [] ++ [k]) (afrom f);
            ato := set_nth b (nth b (ato f) [] ++ [k]) (ato f);
            n_removed_attacks := n_removed_attacks f |}, ROk)
  | _, _ => (f, RErr)
  end.

Definition remove_attack (f : fw) (from to : L) : fw * result :=
  match find_label (ls f) from, find_label (ls f) to with
  | Some a, Some b =>
      let fr := nth a (afrom f) [] in
      match position (fun i => oatt_is (nth i (attacks f) None) (a, b)) fr with
      | Some pos_from =>
          let attack_id := nth pos_from fr 0 in
          match position (Nat.eqb attack_id) (nth b (ato f) []) with
          | Some pos_to =>
              (* attacks_to is updated first, then attacks_from (matters when a = b: they are
                 different vectors, so the order is immaterial; kept for fidelity) *)
              let ato' := set_nth b (swap_remove pos_to (nth b (ato f) [])) (ato f) in
              let afrom' := set_nth a (swap_remove pos_from fr) (afrom f) in
              ({| ls := ls f; attacks := set_nth attack_id None (attacks f);
                  afrom := afrom'; ato := ato';
                  n_removed_attacks := S (n_removed_attacks f) |}, ROk)
          | None => (f, RPanic)
          end
      | None => (f, RErr)
      end
  | _, _ => (f, RErr)
  end.

(* pub(crate) new_attack_by_ids: bounds are checked against the LIVE count; the error
   message computes n_arguments - 1, which underflows (debug: panic) when n = 0 *)
Definition new_attack_by_ids (f : fw) (a b : nat) : fw * result :=
  let n := ls_len (ls f) in
  if Nat.leb n a || Nat.leb n b then (f, if Nat.eqb n 0 then RPanic else RErr)
  else
    let k := length (attacks f) in
    ({| ls := ls f; attacks := attacks f ++ [Some (a, b)];
        afrom := set_nth a (nth a (afrom f) [] ++ [k]) (afrom f);
        ato := set_nth b (nth b (ato f) [] ++ [k]) (ato f);
        n_removed_attacks := n_removed_attacks f |}, ROk).

(* observations *)
Definition n_arguments (f : fw) : nat := ls_len (ls f).
Definition n_attacks (f : fw) : nat := length (attacks f) - n_removed_attacks f.
Definition max_argument_id (f : fw) : option nat := ls_max_id (ls f).
Definition iter_args (f : fw) : list (nat * L) := ls_iter (ls f).
Definition iter_attacks (f : fw) : list (nat * nat) := filter_some (attacks f).
Definition iter_attacks_from (f : fw) (id : nat) : list (nat * nat) :=
  filter_some (map (fun i => nth i (attacks f) None) (nth id (afrom f) [])).
Definition iter_attacks_to (f : fw) (id : nat) : list (nat * nat) :=
  filter_some (map (fun i => nth i (attacks f) None) (nth id (ato f) [])).
Definition get_argument (f : fw) (l : L) : option nat := find_label (ls f) l.
Definition has_argument_with_id (f : fw) (id : nat) : bool := ls_has_id (ls f) id.
Definition live_ids (f : fw) : list nat := map fst (iter_args f).

(* update operations as data, for histories *)
Inductive op := OpNewArg (l : L) | OpRemArg (l : L) | OpNewAtt (a b : L) | OpRemAtt (a b : L).
Definition step (f : fw) (o : op) : fw * result :=
  match o with
  | OpNewArg l => (new_argument f l, ROk)
  | OpRemArg l => remove_argument f l
  | OpNewAtt a b => new_attack f a b
  | OpRemAtt a b => remove_attack f a b
  end.
Definition run_ops (f : fw) (os : list op) : fw := fold_left (fun f o => fst (step f o)) os f.

(* ---------------- the set-level specification ---------------- *)
Record sstore := { next_id : nat; live : list (nat * L); rel : list (nat * nat) }.

Definition s_find (s : sstore) (l : L) : option nat :=
  option_map fst (find (fun p => leqb l (snd p)) (live s)).
Definition s_has_att (s : sstore) (p : nat * nat) : bool := existsb (pair_eqb p) (rel s).
Definition s_step (s : sstore) (o : op) : sstore * result :=
  match o with
  | OpNewArg l =>
      match s_find s l with
      | Some _ => (s, ROk)
      | None => ({| next_id := S (next_id s); live := live s ++ [(next_id s, l)]; rel := rel s |}, ROk)
      end
  | OpRemArg l =>
      match s_find s l with
      | None => (s, RErr)
      | Some id =>
          ({| next_id := next_id s;
              live := filter (fun p => negb (Nat.eqb (fst p) id)) (live s);
              rel := filter (fun p => negb (Nat.eqb (fst p) id) && negb (Nat.eqb (snd p) id)) (rel s) |},
           ROk)
      end
  | OpNewAtt a b =>
      match s_find s a, s_find s b with
      | Some x, Some y =>
          if s_has_att s (x, y) then (s, ROk)
          else ({| next_id := next_id s; live := live s; rel := rel s ++ [(x, y)] |}, ROk)
      | _, _ => (s, RErr)
      end
  | OpRemAtt a b =>
      match s_find s a, s_find s b with
      | Some x, Some y =>
          if s_has_att s (x, y)
          then ({| next_id := next_id s; live := live s;
                   rel := filter (fun p => negb (pair_eqb p (x, y))) (rel s) |}, ROk)
          else (s, RErr)
      | _, _ => (s, RErr)
      end
  end.

Definition abs (f : fw) : sstore :=
  {| next_id := length (slots (ls f)); live := iter_args f; rel := iter_attacks f |}.

(* the abstract framework (Spec.AF.af) a store denotes *)
End Store.

Arguments slots {L}. Arguments n_removed {L}. Arguments ls {L}. Arguments attacks {L}.
Arguments afrom {L}. Arguments ato {L}. Arguments n_removed_attacks {L}.
Arguments next_id {L}. Arguments live {L}. Arguments rel {L}.
Arguments OpNewArg {L}. Arguments OpRemArg {L}. Arguments OpNewAtt {L}. Arguments OpRemAtt {L}.
