(* Model of src/encodings/*.rs: the four CNF encoders (aux_var: conflict-freeness,
   admissibility, complete; exp: conflict-freeness, complete; hybrid complete;
   default stable), with and without range variables, their variable layouts and
   [assignment_to_extension].  Input: a compact framework, i.e. [n] arguments
   0..n-1 and, for each argument, the list of its attackers in the order of
   [iter_attacks_to] (duplicates possible).  Output: the argument of the
   [reserve] call and the clauses in emission order.  Definitions only. *)
From Crusta Require Export Spec.AF Sat.Cnf.

Inductive enc := AuxCf | AuxAdm | AuxCo | ExpCf | ExpCo | HybCo | StDefault.

Definition zlit (v : nat) : lit := Z.of_nat v.
Definition znlit (v : nat) : lit := Z.opp (Z.of_nat v).

(* ----- variable layouts ----- *)
Definition aux_var (id : nat) : nat := 2 * (id + 1).
Definition aux_disj (id : nat) : nat := 2 * (id + 1) - 1.
Definition aux_range (n id : nat) : nat := 2 * n + id + 1.
Definition exp_var (id : nat) : nat := id + 1.
Definition exp_range (n id : nat) : nat := n + id + 1.

Definition arg_var (e : enc) (id : nat) : nat :=
  match e with
  | AuxCf | AuxAdm | AuxCo => aux_var id
  | _ => exp_var id
  end.
Definition arg_to_lit (e : enc) (id : nat) : lit := zlit (arg_var e id).
Definition first_range_var (e : enc) (n : nat) : option nat :=
  match e with
  | AuxCf | AuxAdm | AuxCo => Some (aux_range n 0)
  | ExpCf | ExpCo | HybCo => Some (exp_range n 0)
  | StDefault => None
  end.
Definition range_var (e : enc) (n id : nat) : nat :=
  match e with
  | AuxCf | AuxAdm | AuxCo => aux_range n id
  | _ => exp_range n id
  end.

Section Enc.
Variable n : nat.
Variable atk : nat -> list nat.     (* attackers of an argument, iteration order *)

(* ----- aux_var ----- *)
Definition aux_cf_arg (a : nat) : cnf :=
  map (fun b => [znlit (aux_var a); znlit (aux_var b)]) (atk a).
Definition aux_adm_arg (a : nat) : cnf :=
  map (fun b => [znlit (aux_var a); zlit (aux_disj b)]) (atk a).
Definition aux_co_arg_with (av : nat -> nat) (dv : nat -> nat) (a : nat) : cnf :=
  map (fun b => [znlit (av a); zlit (dv b)]) (atk a)
  ++ [zlit (av a) :: map (fun b => znlit (dv b)) (atk a)].
Definition disj_var_with (av : nat -> nat) (d : nat) (a : nat) : cnf :=
  [[znlit (av a); znlit d]]
  ++ map (fun b => [zlit d; znlit (av b)]) (atk a)
  ++ [znlit d :: map (fun b => zlit (av b)) (atk a)].
Definition aux_disj_arg (a : nat) : cnf := disj_var_with aux_var (aux_disj a) a.
Definition aux_range_arg (a : nat) : cnf :=
  [[znlit (aux_var a); zlit (aux_range n a)];
   [znlit (aux_disj a); zlit (aux_range n a)];
   [znlit (aux_range n a); zlit (aux_var a); zlit (aux_disj a)]].

(* ----- exp ----- *)
Fixpoint cart_prod {A} (ls : list (list A)) : list (list A) :=
  match ls with
  | [] => [[]]
  | l :: r => flat_map (fun x => map (cons x) (cart_prod r)) l
  end.
Definition exp_cf_arg (a : nat) : cnf :=
  map (fun b => [znlit (exp_var a); znlit (exp_var b)]) (atk a).
Definition defender_sets (a : nat) : list (list nat) := map atk (atk a).
Definition exp_nontrivial (a : nat) : cnf :=
  exp_cf_arg a
  ++ map (fun d => znlit (exp_var a) :: map (fun c => zlit (exp_var c)) d) (defender_sets a)
  ++ map (fun p => zlit (exp_var a) :: map (fun c => znlit (exp_var c)) p) (cart_prod (defender_sets a)).
Definition is_nil {A} (l : list A) : bool := match l with [] => true | _ => false end.
Definition exp_co_arg (a : nat) : cnf :=
  match defender_sets a with
  | [] => [[zlit (exp_var a)]]
  | ds => if existsb is_nil ds then [[znlit (exp_var a)]] else exp_nontrivial a
  end.
Definition exp_range_arg (a : nat) : cnf :=
  [[znlit (exp_var a); zlit (exp_range n a)];
   znlit (exp_range n a) :: zlit (exp_var a) :: map (fun b => zlit (exp_var b)) (atk a)].

(* ----- hybrid ----- *)
Variable threshold : nat.
Record hstate := { tbl : list (option nat); next_free : nat; out : cnf }.

(* the early-exit product of the defender-set sizes *)
Fixpoint capped_product (acc : nat) (ds : list (list nat)) : nat :=
  match ds with
  | [] => acc
  | d :: r => let acc' := acc * length d in
              if Nat.leb threshold acc' then acc' else capped_product acc' r
  end.
Definition set_tbl (i : nat) (v : nat) (t : list (option nat)) : list (option nat) :=
  firstn i t ++ match skipn i t with [] => [] | _ :: r => Some v :: r end.
Definition create_disj_for (s : hstate) (b : nat) : hstate :=
  match nth b (tbl s) None with
  | Some _ => s
  | None =>
      let d := next_free s in
      {| tbl := set_tbl b d (tbl s); next_free := S d;
         out := out s ++ disj_var_with exp_var d b |}
  end.
Definition tbl_get (t : list (option nat)) (b : nat) : nat :=
  match nth b t None with Some d => d | None => 0 end.
Definition hyb_arg (s : hstate) (a : nat) : hstate :=
  match defender_sets a with
  | [] => {| tbl := tbl s; next_free := next_free s; out := out s ++ [[zlit (exp_var a)]] |}
  | ds =>
      if existsb is_nil ds
      then {| tbl := tbl s; next_free := next_free s; out := out s ++ [[znlit (exp_var a)]] |}
      else if Nat.ltb (capped_product 1 ds) threshold
      then {| tbl := tbl s; next_free := next_free s; out := out s ++ exp_nontrivial a |}
      else
        let s' := fold_left create_disj_for (atk a) s in
        {| tbl := tbl s'; next_free := next_free s';
           out := out s' ++ aux_co_arg_with exp_var (tbl_get (tbl s')) a |}
  end.
Definition hyb_range_arg (s : hstate) (a : nat) : hstate :=
  match nth a (tbl s) None with
  | Some d =>
      {| tbl := tbl s; next_free := next_free s;
         out := out s ++ [[znlit (exp_var a); zlit (exp_range n a)];
                          [znlit d; zlit (exp_range n a)];
                          [znlit (exp_range n a); zlit (exp_var a); zlit d]] |}
  | None => {| tbl := tbl s; next_free := next_free s; out := out s ++ exp_range_arg a |}
  end.
Definition hyb_run (range : bool) : hstate :=
  fold_left (fun s a => let s1 := hyb_arg s a in if range then hyb_range_arg s1 a else s1)
            (seq 0 n)
            {| tbl := repeat None n; next_free := if range then 1 + 2 * n else 1 + n; out := [] |}.

(* ----- stable ----- *)
Definition st_arg (a : nat) : cnf :=
  map (fun b => if Nat.eqb a b then [znlit (exp_var a)] else [znlit (exp_var a); znlit (exp_var b)]) (atk a)
  ++ [zlit (exp_var a) :: map (fun b => zlit (exp_var b)) (filter (fun b => negb (Nat.eqb a b)) (atk a))].

(* ----- the encoders: (argument of reserve, clauses); None = unimplemented!() ----- *)
Definition over_args (f : nat -> cnf) : cnf := flat_map f (seq 0 n).
Definition encode (e : enc) (range : bool) : option (option nat * cnf) :=
  match e, range with
  | AuxCf, false => Some (Some (2 * n), over_args aux_cf_arg)
  | AuxAdm, false => Some (Some (2 * n), over_args (fun a => aux_adm_arg a ++ aux_disj_arg a))
  | AuxCo, false => Some (Some (2 * n), over_args (fun a => aux_co_arg_with aux_var aux_disj a ++ aux_disj_arg a))
  | AuxCf, true => Some (Some (3 * n), over_args (fun a => aux_cf_arg a ++ aux_disj_arg a ++ aux_range_arg a))
  | AuxAdm, true => Some (Some (3 * n), over_args (fun a => aux_adm_arg a ++ aux_disj_arg a ++ aux_range_arg a))
  | AuxCo, true => Some (Some (3 * n), over_args (fun a => aux_co_arg_with aux_var aux_disj a ++ aux_disj_arg a ++ aux_range_arg a))
  | ExpCf, false => Some (Some n, over_args exp_cf_arg)
  | ExpCo, false => Some (Some n, over_args exp_co_arg)
  | ExpCf, true => Some (Some (2 * n), over_args (fun a => exp_cf_arg a ++ exp_range_arg a))
  | ExpCo, true => Some (Some (2 * n), over_args (fun a => exp_co_arg a ++ exp_range_arg a))
  | HybCo, false => Some (Some n, out (hyb_run false))
  | HybCo, true => Some (Some (2 * n), out (hyb_run true))
  | StDefault, false => Some (None, over_args st_arg)
  | StDefault, true => None
  end.

(* ----- assignment_to_extension ----- *)
Definition is_true (o : option bool) : bool := match o with Some true => true | _ => false end.
Definition vars_true (m : assignment) : list nat :=
  map fst (filter (fun p => is_true (snd p)) (combine (seq 1 (length m)) m)).
Definition arg_of_var (e : enc) (v : nat) : option nat :=
  match e with
  | AuxCf | AuxAdm | AuxCo =>
      if Nat.odd v then None else let id := Nat.div2 v - 1 in if Nat.ltb id n then Some id else None
  | StDefault => if Nat.leb v n then Some (v - 1) else None
  | _ => let id := v - 1 in if Nat.ltb id n then Some id else None
  end.
Fixpoint filter_map {A B} (f : A -> option B) (l : list A) : list B :=
  match l with
  | [] => []
  | x :: r => match f x with Some y => y :: filter_map f r | None => filter_map f r end
  end.
Definition assignment_to_extension (e : enc) (m : assignment) : list nat :=
  filter_map (arg_of_var e) (vars_true m).

End Enc.

(* which candidate family each encoder is meant to capture *)
Definition enc_base (e : enc) : base :=
  match e with
  | AuxCf | ExpCf => BCf
  | AuxAdm => BAdm
  | AuxCo | ExpCo | HybCo => BCo
  | StDefault => BSt
  end.

(* the encoders applied to a Spec-level compact framework *)
Definition encode_af (e : enc) (thr : nat) (range : bool) (F : af) :=
  encode (length (args F)) (attackers F) thr e range.
