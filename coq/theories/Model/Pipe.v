(* The exchange of [exec_solver] (src/sat/external_sat_solver.rs) with the child process, as a small
   labelled transition system at the level of blocking behaviour (DESIGN 8 C16(c)).

   Actors:
     writer thread   writes the in_len bytes of the instance to the child's stdin pipe (blocks
                     when the pipe is full), then closes it; fails (EPIPE) when the child is gone;
     child           runs a program of reads on stdin / writes on stdout, then exits;
     parent          performs its two blocking actions in source order: ADrain = read the child's
                     stdout to end-of-file, AWait = wait for the child's exit.
   Two bounded pipes (capacities >= 1).  One transition moves one unit (byte, or block of bytes).
   [DrainThenWait] is the order of the code as it is now, [WaitThenDrain] the former, defective one.
   Definitions only. *)
From Coq Require Export List Arith Bool.
Export ListNotations.

Inductive order := DrainThenWait | WaitThenDrain.

(* child program *)
Inductive cop :=
| CRd (k : nat)      (* read k units from stdin (fewer at end-of-file) *)
| CRdAll             (* read stdin to end-of-file *)
| CWr (k : nat).     (* write k units to stdout *)

Inductive pact := ADrain | AWait.

Inductive wst :=
| WRun (left : nat)  (* still to be written *)
| WClosed            (* all written, stdin closed *)
| WFailed.           (* write error: the reading end is gone *)

Record config := { ord : order; cap_in : nat; cap_out : nat; in_len : nat; prog : list cop }.

Record pstate := { wr : wst;
                   inb : nat;                    (* units in the stdin pipe *)
                   ch : option (list cop);       (* None: the child has exited *)
                   outb : nat;                   (* units in the stdout pipe *)
                   pa : list pact }.             (* what the parent still has to do *)

Definition parent_prog (o : order) : list pact :=
  match o with
  | DrainThenWait => [ADrain; AWait]
  | WaitThenDrain => [AWait; ADrain]
  end.

Definition init (c : config) : pstate :=
  {| wr := WRun (in_len c); inb := 0; ch := Some (prog c); outb := 0; pa := parent_prog (ord c) |}.

Definition final (s : pstate) : bool := match pa s with [] => true | _ => false end.
Definition exited (s : pstate) : bool := match ch s with None => true | Some _ => false end.
Definition writer_done (s : pstate) : bool := match wr s with WRun _ => false | _ => true end.

(* the enabled transitions of each actor *)
Definition writer_steps (c : config) (s : pstate) : list pstate :=
  match wr s with
  | WRun O => [ {| wr := WClosed; inb := inb s; ch := ch s; outb := outb s; pa := pa s |} ]
  | WRun (S k) =>
      if exited s then [ {| wr := WFailed; inb := inb s; ch := ch s; outb := outb s; pa := pa s |} ]
      else if Nat.ltb (inb s) (cap_in c)
           then [ {| wr := WRun k; inb := S (inb s); ch := ch s; outb := outb s; pa := pa s |} ]
           else []
  | _ => []
  end.

Definition with_child (s : pstate) (p : option (list cop)) (i o : nat) : pstate :=
  {| wr := wr s; inb := i; ch := p; outb := o; pa := pa s |}.

Definition child_steps (c : config) (s : pstate) : list pstate :=
  match ch s with
  | None => []
  | Some [] => [ with_child s None (inb s) (outb s) ]                       (* exit *)
  | Some (CRd O :: r) => [ with_child s (Some r) (inb s) (outb s) ]
  | Some (CRd (S k) :: r) =>
      match inb s with
      | S i => [ with_child s (Some (CRd k :: r)) i (outb s) ]
      | O => if writer_done s then [ with_child s (Some r) 0 (outb s) ] else []   (* end-of-file *)
      end
  | Some (CRdAll :: r) =>
      match inb s with
      | S i => [ with_child s (Some (CRdAll :: r)) i (outb s) ]
      | O => if writer_done s then [ with_child s (Some r) 0 (outb s) ] else []
      end
  | Some (CWr O :: r) => [ with_child s (Some r) (inb s) (outb s) ]
  | Some (CWr (S k) :: r) =>
      if Nat.ltb (outb s) (cap_out c) then [ with_child s (Some (CWr k :: r)) (inb s) (S (outb s)) ]
      else []
  end.

Definition parent_steps (c : config) (s : pstate) : list pstate :=
  match pa s with
  | [] => []
  | ADrain :: r =>
      match outb s with
      | S o => [ {| wr := wr s; inb := inb s; ch := ch s; outb := o; pa := pa s |} ]
      | O => if exited s then [ {| wr := wr s; inb := inb s; ch := ch s; outb := 0; pa := r |} ]
             else []
      end
  | AWait :: r =>
      if exited s then [ {| wr := wr s; inb := inb s; ch := ch s; outb := outb s; pa := r |} ] else []
  end.

(* all successors; the child and the writer come first, the parent last *)
Definition steps (c : config) (s : pstate) : list pstate :=
  child_steps c s ++ writer_steps c s ++ parent_steps c s.

Definition stuck (c : config) (s : pstate) : bool := negb (final s) && match steps c s with [] => true | _ => false end.

Inductive reach (c : config) : pstate -> Prop :=
| reach_init : reach c (init c)
| reach_step : forall s s', reach c s -> In s' (steps c s) -> reach c s'.

(* the termination measure: every transition decreases it *)
Definition cop_weight (o : cop) : nat :=
  match o with CRd k => S k | CRdAll => 1 | CWr k => S (3 * k) end.
Definition measure (s : pstate) : nat :=
  (match wr s with WRun k => S (3 * k) | _ => 0 end)
  + 2 * inb s
  + (match ch s with Some p => S (fold_right (fun o acc => cop_weight o + acc) 0 p) | None => 0 end)
  + 2 * outb s
  + length (pa s).

(* a deterministic scheduler (first enabled transition) for the executable comparison with the
   timing runs of the harness *)
Inductive verdict := VFinal | VStuck | VFuel.
Fixpoint run_first (c : config) (fuel : nat) (s : pstate) : verdict :=
  if final s then VFinal
  else match fuel with
       | O => VFuel
       | S f => match steps c s with
                | [] => VStuck
                | s' :: _ => run_first c f s'
                end
       end.
Definition run_config (c : config) : verdict := run_first c (S (measure (init c))) (init c).
