(* Model of src/solvers/*.rs: MaximalExtensionComputer with its three closure sets (preferred,
   maximal range, ideal) and the static solvers (GR, CO, ST, PR, SST, STG, ID) with all their trait
   entry points (single extension, credulous / skeptical acceptance, with or without certificate,
   argument lists).  Every SAT interaction goes through Sat.Prog.  Definitions only. *)
From Crusta Require Export Spec.AF Sat.Cnf Sat.Prog Model.Encoders Model.Graph.
Open Scope prog_scope.

Inductive mstate := MMaximal | MIntermediate | MJustDiscarded | MNone | MInit.
Inductive flavour := FPref | FRange | FIdeal (forbidden : list lit).

Record computer := {
  c_e : enc;
  c_n : nat;                         (* af.n_arguments() *)
  c_has : nat -> bool;               (* has_argument_with_id *)
  c_g : gview;                       (* the framework the computer works on *)
  c_a2e : assignment -> list nat;    (* assignment_to_extension on that framework *)
  c_cur : list nat;
  c_model : option assignment;
  c_state : mstate;
  c_sel : lit;
  c_fl : flavour;
  c_addl : list lit }.               (* additional_assumptions *)

Definition with_cur (c : computer) (cur : list nat) (m : option assignment) (s : mstate) : computer :=
  {| c_e := c_e c; c_n := c_n c; c_has := c_has c; c_g := c_g c; c_a2e := c_a2e c;
     c_cur := cur; c_model := m; c_state := s; c_sel := c_sel c; c_fl := c_fl c; c_addl := c_addl c |}.
Definition with_state (c : computer) (s : mstate) : computer := with_cur c (c_cur c) (c_model c) s.

(* split_in_extension: the boolean table has max(n_args, 1 + largest id of current) entries; ids
   without a live argument are skipped *)
Definition split_in_extension (e : enc) (n_args : nat) (has : nat -> bool) (cur : list nat)
  : list lit * list lit :=
  let size := fold_left (fun acc a => Nat.max acc (S a)) cur n_args in
  let ids := filter has (seq 0 size) in
  (map (arg_to_lit e) (filter (fun i => memb i cur) ids),
   map (arg_to_lit e) (filter (fun i => negb (memb i cur)) ids)).

(* split_in_range *)
Definition split_in_range (c : computer) : list lit * list lit :=
  match first_range_var (c_e c) (c_n c) with
  | None => ([], [])   (* unreachable: the stable encoder is never used with ranges *)
  | Some frv =>
      let vars := seq frv (c_n c) in
      match c_model c with
      | Some m =>
          (map zlit (filter (fun v => negb (match value_of m v with Some false => true | _ => false end)) vars),
           map zlit (filter (fun v => match value_of m v with Some false => true | _ => false end) vars))
      | None =>
          let inrb i := memb i (c_cur c) || existsb (fun a => memb i (g_from (c_g c) a)) (c_cur c) in
          (map (fun i => zlit (frv + i)) (filter inrb (seq 0 (c_n c))),
           map (fun i => zlit (frv + i)) (filter (fun i => negb (inrb i)) (seq 0 (c_n c))))
      end
  end.

Section WithOracle.
Variable oracle : nat -> cnf -> list lit -> answer.
Variable thr : nat.                         (* DEFENDER_SETS_PROD_THRESHOLD *)
Notation solve := (Prog.solve oracle).
Notation M := Prog.M.

Definition encode_m (e : enc) (range : bool) (F : af) : M unit :=
  match encode_af e thr range F with
  | None => panic
  | Some (r, C) =>
      (match r with Some k => reserve k | None => ret tt end) ;;; add_clauses C
  end.

Definition new_computer (e : enc) (n : nat) (has : nat -> bool) (g : gview)
           (a2e : assignment -> list nat) (fl : flavour) : M computer :=
  nv <- n_vars ;;
  ret {| c_e := e; c_n := n; c_has := has; c_g := g; c_a2e := a2e; c_cur := []; c_model := None;
         c_state := MInit; c_sel := zlit (1 + nv); c_fl := fl; c_addl := [] |}.

(* a computer on a compact component framework *)
Definition new_cc_computer (e : enc) (F : af) (fl : flavour) : M computer :=
  let n := length (args F) in
  new_computer e n (fun i => Nat.ltb i n) (view_of_af F) (assignment_to_extension n e) fl.

Definition solve_c (c : computer) (a : list lit) : M (option (assignment * list nat)) :=
  r <- solve (a ++ c_addl c) ;;
  ret (option_map (fun m => (m, c_a2e c m)) r).

Definition increase_assumptions (c : computer) : M (list lit) :=
  match c_fl c with
  | FPref =>
      let '(i, o) := split_in_extension (c_e c) (c_n c) (c_has c) (c_cur c) in
      add_clause (o ++ [c_sel c]) ;;; ret (i ++ [negate (c_sel c)])
  | FIdeal forb =>
      let '(i, o) := split_in_extension (c_e c) (c_n c) (c_has c) (c_cur c) in
      add_clause (o ++ [c_sel c]) ;;; ret (i ++ [negate (c_sel c)] ++ forb)
  | FRange =>
      let '(i, o) := split_in_range c in
      add_clause (o ++ [c_sel c]) ;;; ret (i ++ [negate (c_sel c)])
  end.
Definition discard_maximal (c : computer) : M unit :=
  match c_fl c with
  | FPref => add_clause (snd (split_in_extension (c_e c) (c_n c) (c_has c) (c_cur c)) ++ [c_sel c])
  | FRange => add_clause (snd (split_in_range c) ++ [c_sel c])
  | FIdeal _ => panic
  end.
Definition discard_current (c : computer) : M unit :=
  match c_fl c with
  | FPref => add_clause (snd (split_in_extension (c_e c) (c_n c) (c_has c) (c_cur c)) ++ [c_sel c])
  | _ => panic
  end.
Definition new_search (c : computer) : M computer :=
  r <- solve_c c [negate (c_sel c)] ;;
  ret match r with
      | Some (m, e) => with_cur c e (Some m) MIntermediate
      | None => with_state c MNone
      end.
Definition compute_next (c : computer) : M computer :=
  match c_state c with
  | MMaximal => discard_maximal c ;;; new_search c
  | MIntermediate =>
      a <- increase_assumptions c ;;
      r <- solve_c c a ;;
      ret match r with
          | Some (m, e) => with_cur c e (Some m) MIntermediate
          | None => with_state c MMaximal
          end
  | MJustDiscarded => new_search c
  | MNone => panic
  | MInit => ret (with_cur c (grounded (c_g c)) (c_model c) MIntermediate)
  end.
Definition discard_current_search (c : computer) : M computer :=
  discard_current c ;;; ret (with_state c MJustDiscarded).
Definition drop (c : computer) : M unit := add_clause [c_sel c].

Fixpoint compute_maximal (fuel : nat) (c : computer) : M (list nat) :=
  match fuel with
  | O => out_of_fuel
  | S f =>
      match c_state c with
      | MMaximal => drop c ;;; ret (c_cur c)
      | _ => c' <- compute_next c ;; compute_maximal f c'
      end
  end.

Definition meets (al cur : list nat) : bool := existsb (fun a => memb a cur) al.
Definition lift (c : comp) (l : list nat) : list nat := map (cc_global c) l.
Definition locals (c : comp) (al : list nat) : option (list nat) :=
  fold_right (fun a acc => match cc_local c a, acc with
                           | Some i, Some l => Some (i :: l)
                           | _, _ => None
                           end) (Some []) al.

Definition ccs_m (g : gview) : M (list comp) :=
  match all_ccs g with Some l => ret l | None => panic end.
Definition remaining_m (g : gview) (s : ccstate) : M (list comp) :=
  match remaining_ccs g s with Some l => ret l | None => panic end.
Definition merged_m (g : gview) (al : list nat) : M (ccstate * comp) :=
  match merged_cc_of g (cc_new g) al with Some r => ret r | None => panic end.
Definition locals_m (c : comp) (al : list nat) : M (list nat) :=
  match locals c al with Some l => ret l | None => panic end.

Fixpoint for_ccs {A} (l : list comp) (acc : A) (f : A -> comp -> M A) : M A :=
  match l with
  | [] => ret acc
  | c :: r => a <- f acc c ;; for_ccs r a f
  end.

(* ---------------------------------------------------------------- GR *)
Definition gr_se (g : gview) : list nat := grounded g.
Definition gr_dc (g : gview) (al : list nat) : bool * option (list nat) :=
  let e := grounded g in if meets al e then (true, Some e) else (false, None).
Definition gr_ds (g : gview) (al : list nat) : bool * option (list nat) :=
  let e := grounded g in if meets al e then (true, None) else (false, Some e).

(* ---------------------------------------------------------------- CO *)
(* the selector-guarded disjunction query shared by CO-DC and ST-DC: clause (l1 \/ ... \/ lk \/ -sel),
   one solve under the assumption sel, then (certificate-less variants) the unit clause -sel *)
Definition guarded_disj (e : enc) (lam : M (list nat)) (close : bool) : M (option assignment) :=
  nv <- n_vars ;;
  let sel := zlit (1 + nv) in
  la <- lam ;;
  add_clause (map (arg_to_lit e) la ++ [negate sel]) ;;;
  r <- solve [sel] ;;
  (if close then add_clause [negate sel] else ret tt) ;;;
  ret r.

Definition co_dc (e : enc) (g : gview) (al : list nat) : M bool :=
  new_solver ;;;
  sc <- merged_m g al ;;
  let c := snd sc in
  encode_m e false (c_af c) ;;;
  r <- guarded_disj e (locals_m c al) true ;;
  ret (match r with Some _ => true | None => false end).

Definition co_dc_cert (e : enc) (g : gview) (al : list nat) : M (bool * option (list nat)) :=
  sc <- merged_m g al ;;
  let c := snd sc in
  new_solver ;;;
  encode_m e false (c_af c) ;;;
  r <- guarded_disj e (locals_m c al) false ;;
  match r with
  | Some m =>
      let ext0 := lift c (assignment_to_extension (length (args (c_af c))) e m) in
      others <- remaining_m g (fst sc) ;;
      ret (true, Some (ext0 ++ flat_map (fun oc => lift oc (grounded (view_of_af (c_af oc)))) others))
  | None => ret (false, None)
  end.

(* ---------------------------------------------------------------- ST *)
Definition st_a2e (c : comp) (m : assignment) : list nat :=
  lift c (assignment_to_extension (length (args (c_af c))) StDefault m).

(* one connected component of the stable solver: a fresh session, the encoding, and the query of
   the component; Some (m, acc): a model of the component and whether it accepts a listed
   argument; None: the component ends the computation (no suitable stable extension) *)
Definition st_cc (c : comp) (in_cc : list nat) (polarity : bool) : M (option (assignment * bool)) :=
  new_solver ;;; encode_m StDefault false (c_af c) ;;;
  match in_cc with
  | [] =>
      m <- solve [] ;;
      ret (option_map (fun m => (m, false)) m)
  | _ =>
      if polarity then
        m1 <- guarded_disj StDefault (ret in_cc) true ;;
        match m1 with
        | Some m => ret (Some (m, true))
        | None =>
            m2 <- solve [] ;;
            ret (option_map (fun m => (m, false)) m2)
        end
      else
        m <- solve (map (fun a => negate (arg_to_lit StDefault a)) in_cc) ;;
        ret (option_map (fun m => (m, false)) m)
  end.

Fixpoint st_se_loop (l : list comp) (merged : list nat) : M (option (list nat)) :=
  match l with
  | [] => ret (Some merged)
  | c :: r =>
      m <- st_cc c [] false ;;
      match m with
      | Some (m, _) => st_se_loop r (merged ++ st_a2e c m)
      | None => ret None
      end
  end.
Definition st_se (g : gview) : M (option (list nat)) :=
  ccs <- ccs_m g ;;
  st_se_loop ccs [].

Fixpoint st_accept_loop (al : list nat) (polarity status_on_unsat : bool) (l : list comp)
         (merged : list nat) (found : bool) : M (bool * option (list nat)) :=
  match l with
  | [] => if found then ret (negb status_on_unsat, Some merged) else ret (status_on_unsat, None)
  | c :: r =>
      m <- st_cc c (Encoders.filter_map (cc_local c) al) polarity ;;
      match m with
      | Some (m, acc) => st_accept_loop al polarity status_on_unsat r (merged ++ st_a2e c m) (acc || found)
      | None => ret (status_on_unsat, None)
      end
  end.
Definition st_accept (g : gview) (al : list nat) (polarity status_on_unsat : bool)
  : M (bool * option (list nat)) :=
  ccs <- ccs_m g ;;
  st_accept_loop al polarity status_on_unsat ccs [] (negb polarity).
Definition st_dc (g : gview) (al : list nat) := st_accept g al true false.
Definition st_ds (g : gview) (al : list nat) := st_accept g al false true.

(* ---------------------------------------------------------------- PR *)
Definition pr_max_in_cc (fuel : nat) (e : enc) (c : comp) : M (list nat) :=
  new_solver ;;; encode_m e false (c_af c) ;;;
  k <- new_cc_computer e (c_af c) FPref ;;
  l <- compute_maximal fuel k ;;
  ret (lift c l).

Definition pr_se (fuel : nat) (e : enc) (g : gview) : M (option (list nat)) :=
  ccs <- ccs_m g ;;
  r <- for_ccs ccs [] (fun merged c => l <- pr_max_in_cc fuel e c ;; ret (merged ++ l)) ;;
  ret (Some r).

Fixpoint pr_ds_loop (fuel : nat) (F : af) (la : list nat) (shortcut : bool) (k : computer)
  : M (bool * option (list nat)) :=
  match fuel with
  | O => out_of_fuel
  | S f =>
      k <- compute_next k ;;
      match c_state k with
      | MMaximal =>
          if negb (meets la (c_cur k)) then drop k ;;; ret (false, Some (c_cur k))
          else pr_ds_loop f F la shortcut k
      | MIntermediate =>
          if meets la (c_cur k) then k' <- discard_current_search k ;; pr_ds_loop f F la shortcut k'
          else if shortcut && forallb (fun a => existsb (fun b => memb b (c_cur k)) (attackers F a)) la
               then drop k ;;; ret (false, Some (c_cur k))
               else pr_ds_loop f F la shortcut k
      | MNone => drop k ;;; ret (true, None)
      | _ => pr_ds_loop f F la shortcut k
      end
  end.
Definition pr_ds_in_cc (fuel : nat) (e : enc) (c : comp) (al : list nat) (shortcut : bool)
  : M (bool * option (list nat)) :=
  la <- locals_m c al ;;
  new_solver ;;; encode_m e false (c_af c) ;;;
  k <- new_cc_computer e (c_af c) FPref ;;
  pr_ds_loop fuel (c_af c) la shortcut k.

Definition pr_ds (fuel : nat) (e : enc) (g : gview) (al : list nat) : M bool :=
  sc <- merged_m g al ;;
  r <- pr_ds_in_cc fuel e (snd sc) al true ;;
  ret (fst r).
Definition pr_ds_cert (fuel : nat) (e : enc) (g : gview) (al : list nat) : M (bool * option (list nat)) :=
  sc <- merged_m g al ;;
  r <- pr_ds_in_cc fuel e (snd sc) al false ;;
  match r with
  | (true, None) => ret (true, None)
  | (false, Some ce) =>
      others <- remaining_m g (fst sc) ;;
      merged <- for_ccs others (lift (snd sc) ce)
                  (fun merged c => l <- pr_max_in_cc fuel e c ;; ret (merged ++ l)) ;;
      ret (false, Some merged)
  | _ => panic
  end.

(* ---------------------------------------------------------------- SST / STG *)
Definition rg_max_in_cc (fuel : nat) (e : enc) (c : comp) : M (list nat) :=
  new_solver ;;; encode_m e true (c_af c) ;;;
  k <- new_cc_computer e (c_af c) FRange ;;
  l <- compute_maximal fuel k ;;
  ret (lift c l).

Definition rg_se (fuel : nat) (e : enc) (g : gview) : M (option (list nat)) :=
  ccs <- ccs_m g ;;
  r <- for_ccs ccs [] (fun merged c => l <- rg_max_in_cc fuel e c ;; ret (merged ++ l)) ;;
  ret (Some r).

Fixpoint rg_loop (fuel : nat) (e : enc) (n : nat) (la : list nat) (cred : bool) (k : computer)
  : M (bool * option (list nat)) :=
  match fuel with
  | O => out_of_fuel
  | S f =>
      k <- compute_next k ;;
      match c_state k with
      | MMaximal =>
          if (cred && meets la (c_cur k)) || (negb cred && negb (meets la (c_cur k)))
          then drop k ;;; ret (cred, Some (c_cur k))
          else
            let '(inrg, notr) := split_in_range k in
            let base := inrg ++ map negate notr ++ [c_sel k] in
            if cred then
              nv <- n_vars ;;
              let sel := zlit (1 + nv) in
              add_clause (map (arg_to_lit e) la ++ [negate sel]) ;;;
              r <- solve (base ++ [sel]) ;;
              add_clause [negate sel] ;;;
              match r with
              | Some m => drop k ;;; ret (cred, Some (assignment_to_extension n e m))
              | None => rg_loop f e n la cred k
              end
            else
              r <- solve (base ++ map (fun a => negate (arg_to_lit e a)) la) ;;
              match r with
              | Some m => drop k ;;; ret (cred, Some (assignment_to_extension n e m))
              | None => rg_loop f e n la cred k
              end
      | MNone => drop k ;;; ret (negb cred, None)
      | _ => rg_loop f e n la cred k
      end
  end.
Definition rg_in_cc (fuel : nat) (e : enc) (c : comp) (al : list nat) (cred : bool)
  : M (bool * option (list nat)) :=
  la <- locals_m c al ;;
  new_solver ;;; encode_m e true (c_af c) ;;;
  k <- new_cc_computer e (c_af c) FRange ;;
  rg_loop fuel e (length (args (c_af c))) la cred k.

Definition rg_accept (fuel : nat) (e : enc) (g : gview) (al : list nat) (cred : bool) : M bool :=
  sc <- merged_m g al ;;
  r <- rg_in_cc fuel e (snd sc) al cred ;;
  ret (fst r).
Definition rg_accept_cert (fuel : nat) (e : enc) (g : gview) (al : list nat) (cred : bool)
  : M (bool * option (list nat)) :=
  sc <- merged_m g al ;;
  r <- rg_in_cc fuel e (snd sc) al cred ;;
  match snd r with
  | None => ret (negb cred, None)
  | Some ce =>
      others <- remaining_m g (fst sc) ;;
      merged <- for_ccs others (lift (snd sc) ce)
                  (fun merged c => l <- rg_max_in_cc fuel e c ;; ret (merged ++ l)) ;;
      ret (cred, Some merged)
  end.

(* ---------------------------------------------------------------- ID *)
(* PreferredSemanticsSolver::enumerate_extensions with the callback of
   compute_in_all_extensions_for_cc; state: (in_all, n_in_all, n_preferred) *)
Fixpoint id_enum_loop (fuel : nat) (n : nat) (ngr : nat) (k : computer)
         (in_all : list bool) (n_in_all n_pref : nat) : M (list bool * nat * nat) :=
  match fuel with
  | O => out_of_fuel
  | S f =>
      k <- compute_next k ;;
      match c_state k with
      | MMaximal =>
          let kept := filter (fun a => nth_bool in_all a) (c_cur k) in
          let new_in_all := map (fun i => memb i kept) (seq 0 n) in
          let n_in_all' := length kept in
          if Nat.eqb n_in_all' ngr
          then drop k ;;; ret (new_in_all, n_in_all', S n_pref)
          else id_enum_loop f n ngr k new_in_all n_in_all' (S n_pref)
      | MNone => drop k ;;; ret (in_all, n_in_all, n_pref)
      | _ => id_enum_loop f n ngr k in_all n_in_all n_pref
      end
  end.
Definition id_in_all (fuel : nat) (e : enc) (F : af) (ngr : nat) : M (list bool * nat * nat) :=
  let n := length (args F) in
  encode_m e false F ;;;
  k <- new_cc_computer e F FPref ;;
  id_enum_loop fuel n ngr k (repeat true n) 0 0.

Definition id_forbidden (e : enc) (in_all : list bool) : list lit :=
  map (fun i => negate (arg_to_lit e i))
      (filter (fun i => negb (nth_bool in_all i)) (seq 0 (length in_all))).
Definition id_single (in_all : list bool) : list nat :=
  filter (fun i => nth_bool in_all i) (seq 0 (length in_all)).
Definition id_maximal_allowed (fuel : nat) (e : enc) (F : af) (in_all : list bool) : M (list nat) :=
  k <- new_cc_computer e F (FIdeal (id_forbidden e in_all)) ;;
  compute_maximal fuel k.

(* compute_one_extension_for_cc (compact ids) *)
Definition id_ext_for_cc (fuel : nat) (e : enc) (F : af) : M (list nat) :=
  let gr := grounded (view_of_af F) in
  new_solver ;;;
  r <- id_in_all fuel e F (length gr) ;;
  let '(in_all, n_in_all, n_pref) := r in
  if Nat.eqb n_in_all (length gr) then ret gr
  else if Nat.eqb n_pref 1 then ret (id_single in_all)
  else id_maximal_allowed fuel e F in_all.

Definition id_se (fuel : nat) (e : enc) (g : gview) : M (option (list nat)) :=
  ccs <- ccs_m g ;;
  r <- for_ccs ccs []
         (fun merged c =>
            new_solver ;;; encode_m e false (c_af c) ;;;      (* a session that is never used *)
            l <- id_ext_for_cc fuel e (c_af c) ;;
            ret (merged ++ lift c l)) ;;
  ret (Some r).

(* check_credulous_acceptance_for_cc *)
Definition id_cred_for_cc (fuel : nat) (e : enc) (F : af) (la : list nat)
  : M (bool * option (list nat)) :=
  let gr := grounded (view_of_af F) in
  new_solver ;;;
  r <- id_in_all fuel e F (length gr) ;;
  let '(in_all, n_in_all, n_pref) := r in
  if forallb (fun a => negb (nth_bool in_all a)) la then ret (false, None)
  else
    let result (ext : list nat) := if meets la ext then (true, Some ext) else (false, None) in
    if Nat.eqb n_in_all (length gr) then ret (result gr)
    else if Nat.eqb n_pref 1 then ret (result (id_single in_all))
    else l <- id_maximal_allowed fuel e F in_all ;; ret (result l).

Definition id_dc (fuel : nat) (e : enc) (g : gview) (al : list nat) : M bool :=
  sc <- merged_m g al ;;
  la <- locals_m (snd sc) al ;;
  r <- id_cred_for_cc fuel e (c_af (snd sc)) la ;;
  ret (fst r).
Definition id_dc_cert (fuel : nat) (e : enc) (g : gview) (al : list nat)
  : M (bool * option (list nat)) :=
  sc <- merged_m g al ;;
  la <- locals_m (snd sc) al ;;
  r <- id_cred_for_cc fuel e (c_af (snd sc)) la ;;
  match r with
  | (true, Some ce) =>
      others <- remaining_m g (fst sc) ;;
      merged <- for_ccs others (lift (snd sc) ce)
                  (fun merged c => l <- id_ext_for_cc fuel e (c_af c) ;; ret (merged ++ lift c l)) ;;
      ret (true, Some merged)
  | _ => ret (false, None)
  end.
Definition id_ds_cert (fuel : nat) (e : enc) (g : gview) (al : list nat)
  : M (bool * option (list nat)) :=
  r <- id_se fuel e g ;;
  match r with
  | Some ext => if meets al ext then ret (true, None) else ret (false, Some ext)
  | None => panic
  end.

(* ---------------------------------------------------------------- the public entry points *)
Inductive query := QSE | QDC | QDS.
Inductive outcome :=
| OExt (e : option (list nat))                       (* single extension / no extension *)
| OAcc (b : bool) (cert : option (list nat)).

(* [sem] names the SOLVER TYPE used (Complete, Stable, ...), as in the library API *)
Definition run_query (fuel : nat) (s : sem) (q : query) (cert : bool) (e : enc) (g : gview)
           (al : list nat) : M outcome :=
  let acc (m : M (bool * option (list nat))) := r <- m ;; ret (OAcc (fst r) (snd r)) in
  let accb (m : M bool) := r <- m ;; ret (OAcc r None) in
  let nocert (m : M (bool * option (list nat))) := r <- m ;; ret (OAcc (fst r) None) in
  match s, q with
  | GR, QSE => ret (OExt (Some (gr_se g)))
  | GR, QDC => if cert then acc (ret (gr_dc g al)) else nocert (ret (gr_dc g al))
  | GR, QDS => if cert then acc (ret (gr_ds g al)) else nocert (ret (gr_ds g al))
  | CO, QDC => if cert then acc (co_dc_cert e g al) else accb (co_dc e g al)
  | ST, QSE => r <- st_se g ;; ret (OExt r)
  | ST, QDC => if cert then acc (st_dc g al) else nocert (st_dc g al)
  | ST, QDS => if cert then acc (st_ds g al) else nocert (st_ds g al)
  | PR, QSE => r <- pr_se fuel e g ;; ret (OExt r)
  | PR, QDS => if cert then acc (pr_ds_cert fuel e g al) else accb (pr_ds fuel e g al)
  | SST, QSE | STG, QSE => r <- rg_se fuel e g ;; ret (OExt r)
  | SST, QDC | STG, QDC => if cert then acc (rg_accept_cert fuel e g al true) else accb (rg_accept fuel e g al true)
  | SST, QDS | STG, QDS => if cert then acc (rg_accept_cert fuel e g al false) else accb (rg_accept fuel e g al false)
  | ID, QSE => r <- id_se fuel e g ;; ret (OExt r)
  | ID, QDC => if cert then acc (id_dc_cert fuel e g al) else accb (id_dc fuel e g al)
  | ID, QDS => if cert then acc (id_ds_cert fuel e g al) else accb (id_dc fuel e g al)
  | _, _ => panic                   (* no such trait implementation *)
  end.

End WithOracle.
