(* Model of src/io/iccma23_reader.rs and src/io/aspartix_reader.rs (with the parts of std they rest
   on: BufRead::lines(), UTF-8 validation, str::split_whitespace, str::trim, isize/usize FromStr,
   and the four regular expressions of aspartix_reader.rs as hand-written matchers).
   Bytes and code points are [N].  Definitions only.

   Conventions:
   - a file is a [list N] of bytes (< 256);
   - a decoded line is a [str] = list of Unicode scalar values;
   - the result of a reader is [RdOk fw | RdErr | RdPanic]; [RdPanic] is produced exactly where the
     Rust code would panic ([unwrap] on the result of [new_attack_by_ids], [get_label_by_id] on a
     removed id).  Proofs/ReadersProofs.v shows that [read_iccma]/[read_apx] never return it. *)
From Coq Require Export List NArith ZArith Bool.
From Crusta Require Export Model.Store Model.UnicodeTables.
Export ListNotations.
Local Open Scope N_scope.

Definition str := list N.

Inductive rd (A : Type) := RdOk (x : A) | RdErr | RdPanic.
Arguments RdOk {A}. Arguments RdErr {A}. Arguments RdPanic {A}.

Fixpoint str_eqb (a b : str) : bool :=
  match a, b with
  | [], [] => true
  | x :: a', y :: b' => (x =? y) && str_eqb a' b'
  | _, _ => false
  end.

(* ------------------------------------------------------------------ character classes *)
Definition in_ranges (c : N) (rs : list (N * N)) : bool :=
  existsb (fun r => (fst r <=? c) && (c <=? snd r)) rs.
(* char::is_whitespace (split_whitespace, trim) and \s of the regex crate: Unicode White_Space *)
Definition is_ws (c : N) : bool := in_ranges c white_space_ranges.
(* \d of the regex crate (Unicode mode): general category Nd *)
Definition is_dec (c : N) : bool := in_ranges c decimal_number_ranges.
(* [[:alpha:]] is ASCII-only even in Unicode mode *)
Definition is_alpha (c : N) : bool := ((65 <=? c) && (c <=? 90)) || ((97 <=? c) && (c <=? 122)).
Definition is_id_start (c : N) : bool := (c =? 95) || is_alpha c.       (* [_[:alpha:]] *)
Definition is_id_char (c : N) : bool := is_id_start c || is_dec c.      (* [_[:alpha:]\d] *)
Definition is_digit (c : N) : bool := (48 <=? c) && (c <=? 57).         (* ASCII digit *)

(* ------------------------------------------------------------------ UTF-8 *)
Definition is_cont (b : N) : bool := (128 <=? b) && (b <=? 191).

(* core::str::from_utf8: shortest form only, no surrogates, at most U+10FFFF *)
Fixpoint utf8_decode (l : list N) : option str :=
  match l with
  | [] => Some []
  | b0 :: r0 =>
      if b0 <? 128 then option_map (cons b0) (utf8_decode r0)
      else if b0 <? 194 then None
      else if b0 <? 224 then
        match r0 with
        | b1 :: r1 =>
            if is_cont b1
            then option_map (cons ((b0 - 192) * 64 + (b1 - 128))) (utf8_decode r1)
            else None
        | _ => None
        end
      else if b0 <? 240 then
        match r0 with
        | b1 :: b2 :: r2 =>
            if is_cont b1 && is_cont b2
               && (if b0 =? 224 then 160 <=? b1 else true)
               && (if b0 =? 237 then b1 <=? 159 else true)
            then option_map (cons ((b0 - 224) * 4096 + (b1 - 128) * 64 + (b2 - 128))) (utf8_decode r2)
            else None
        | _ => None
        end
      else if b0 <? 245 then
        match r0 with
        | b1 :: b2 :: b3 :: r3 =>
            if is_cont b1 && is_cont b2 && is_cont b3
               && (if b0 =? 240 then 144 <=? b1 else true)
               && (if b0 =? 244 then b1 <=? 143 else true)
            then option_map
                   (cons ((b0 - 240) * 262144 + (b1 - 128) * 4096 + (b2 - 128) * 64 + (b3 - 128)))
                   (utf8_decode r3)
            else None
        | _ => None
        end
      else None
  end.

(* ------------------------------------------------------------------ BufRead::lines() *)
(* raw lines: bytes up to (excluding) each LF, with a flag "was terminated by LF"; a final
   non-terminated chunk is a line iff it is non-empty *)
Fixpoint raw_lines (l : list N) : list (list N * bool) :=
  match l with
  | [] => []
  | b :: r =>
      if b =? 10 then ([], true) :: raw_lines r
      else match raw_lines r with
           | [] => [([b], false)]
           | (x, t) :: rest => (b :: x, t) :: rest
           end
  end.

(* one trailing CR is removed, and only when the line was terminated by LF *)
Fixpoint strip_cr (l : list N) : list N :=
  match l with
  | [] => []
  | b :: r => match r with
              | [] => if b =? 13 then [] else [b]
              | _ => b :: strip_cr r
              end
  end.

(* None = io::Error(InvalidData) for that line *)
Definition line_of (p : list N * bool) : option str :=
  utf8_decode (if snd p then strip_cr (fst p) else fst p).
Definition lines (bytes : list N) : list (option str) := map line_of (raw_lines bytes).

(* ------------------------------------------------------------------ str helpers *)
(* str::split_whitespace *)
Fixpoint split_ws (l : str) : list str :=
  match l with
  | [] => []
  | c :: r =>
      if is_ws c then split_ws r
      else match r with
           | [] => [[c]]
           | d :: _ =>
               if is_ws d then [c] :: split_ws r
               else match split_ws r with
                    | w :: ws => (c :: w) :: ws
                    | [] => [[c]]
                    end
           end
  end.

Fixpoint drop_ws (l : str) : str :=
  match l with
  | c :: r => if is_ws c then drop_ws r else l
  | [] => []
  end.
Definition all_ws (l : str) : bool := forallb is_ws l.     (* l.trim().is_empty() *)

Fixpoint strip_prefix (p l : str) : option str :=
  match p with
  | [] => Some l
  | x :: p' => match l with
               | y :: l' => if x =? y then strip_prefix p' l' else None
               | [] => None
               end
  end.

(* longest prefix without [x], and what follows (starting at the first [x], if any) *)
Fixpoint span_not (x : N) (l : str) : str * str :=
  match l with
  | [] => ([], [])
  | c :: r => if c =? x then ([], l) else let '(a, b) := span_not x r in (c :: a, b)
  end.
Fixpoint span_p (p : N -> bool) (l : str) : str * str :=
  match l with
  | [] => ([], [])
  | c :: r => if p c then let '(a, b) := span_p p r in (c :: a, b) else ([], l)
  end.

(* ------------------------------------------------------------------ integer parsing *)
Fixpoint digits_val (l : str) (acc : N) : option N :=
  match l with
  | [] => Some acc
  | c :: r => if is_digit c then digits_val r (acc * 10 + (c - 48)) else None
  end.
Definition parse_digits (l : str) : option N :=
  match l with [] => None | _ => digits_val l 0 end.

Definition isize_max : N := 9223372036854775807.
Definition usize_max : N := 18446744073709551615.

(* <isize as FromStr>::from_str *)
Definition parse_isize (w : str) : option Z :=
  match w with
  | [] => None
  | c :: r =>
      if c =? 43 then
        match parse_digits r with
        | Some v => if v <=? isize_max then Some (Z.of_N v) else None
        | None => None
        end
      else if c =? 45 then
        match parse_digits r with
        | Some v => if v <=? isize_max + 1 then Some (- Z.of_N v)%Z else None
        | None => None
        end
      else
        match digits_val w 0 with
        | Some v => if v <=? isize_max then Some (Z.of_N v) else None
        | None => None
        end
  end.

(* <usize as FromStr>::from_str ('-' is not a sign for an unsigned type) *)
Definition parse_usize (w : str) : option N :=
  match w with
  | [] => None
  | c :: r =>
      if c =? 43 then
        match parse_digits r with
        | Some v => if v <=? usize_max then Some v else None
        | None => None
        end
      else
        match digits_val w 0 with
        | Some v => if v <=? usize_max then Some v else None
        | None => None
        end
  end.

(* ------------------------------------------------------------------ ICCMA'23 reader *)
Definition w_p : str := [112].
Definition w_af : str := [97; 102].

(* read_preamble(words, "af") *)
Definition read_preamble (words : list str) : option nat :=
  match words with
  | [w0; w1; w2] =>
      if str_eqb w0 w_p then
        if str_eqb w1 w_af then
          match parse_isize w2 with
          | Some z => if (0 <=? z)%Z then Some (Z.to_nat z) else None
          | None => None
          end
        else None
      else None
  | _ => None
  end.

(* the closure read_arg of Iccma23Reader::read *)
Definition read_idx (w : str) (n_args : nat) : option nat :=
  match parse_isize w with
  | Some z => if ((1 <=? z) && (z <=? Z.of_nat n_args))%Z then Some (Z.to_nat z) else None
  | None => None
  end.

Definition starts_with_hash (l : str) : bool :=
  match l with c :: _ => c =? 35 | [] => false end.
Definition is_nil (l : str) : bool := match l with [] => true | _ => false end.

Fixpoint iccma_lines (ls : list (option str)) (af : option (fw nat)) (found_empty : bool)
  : rd (fw nat) :=
  match ls with
  | [] => match af with None => RdErr | Some f => RdOk f end
  | None :: _ => RdErr
  | Some l :: r =>
      if starts_with_hash l then iccma_lines r af found_empty
      else if is_nil l then iccma_lines r af true
      else if found_empty then RdErr
      else
        let words := split_ws l in
        match af with
        | None =>
            match read_preamble words with
            | Some n => iccma_lines r (Some (fw_new_with_labels nat Nat.eqb (seq 1 n))) found_empty
            | None => RdErr
            end
        | Some f =>
            match words with
            | [w0; w1] =>
                let n_args := n_arguments nat f in
                match read_idx w0 n_args, read_idx w1 n_args with
                | Some a, Some b =>
                    match new_attack_by_ids nat f (a - 1) (b - 1) with
                    | (f', ROk) => iccma_lines r (Some f') found_empty
                    | _ => RdPanic
                    end
                | _, _ => RdErr
                end
            | _ => RdErr
            end
        end
  end.

Definition read_iccma (bytes : list N) : rd (fw nat) := iccma_lines (lines bytes) None false.

(* Iccma23Reader::read_arg_from_str: Ok (id, label) *)
Definition iccma_read_arg (f : fw nat) (arg : str) : rd (nat * nat) :=
  match parse_usize arg with
  | Some n =>
      if (0 <? n) && (n <=? N.of_nat (n_arguments nat f)) then
        match nth (N.to_nat n - 1) (slots (ls f)) None with
        | Some p => RdOk p
        | None => RdPanic
        end
      else RdErr
  | None => RdErr
  end.

(* ------------------------------------------------------------------ Aspartix reader *)
Definition w_arg_open : str := [97; 114; 103; 40].    (* "arg(" *)
Definition w_att_open : str := [97; 116; 116; 40].    (* "att(" *)

(* after the closing parenthesis: `.\s*$` with an UNESCAPED dot: any one character, then blanks *)
Definition match_tail (l : str) : bool :=
  match l with
  | _close :: _any :: tl => all_ws tl
  | _ => false
  end.

(* ARG_LINE_PATTERN  ^\s*arg\([^)]+\).\s*$  ; Some x = the text between the parentheses *)
Definition match_arg_line (l : str) : option str :=
  match strip_prefix w_arg_open (drop_ws l) with
  | None => None
  | Some r =>
      let '(x, r') := span_not 41 r in
      match x with
      | [] => None
      | _ => if match_tail r' then Some x else None
      end
  end.

(* ATT_LINE_PATTERN  ^\s*att\([^,]+,[^)]+\).\s*$ *)
Definition match_att_line (l : str) : option (str * str) :=
  match strip_prefix w_att_open (drop_ws l) with
  | None => None
  | Some r =>
      let '(x1, r1) := span_not 44 r in
      match x1, r1 with
      | _ :: _, _comma :: r2 =>
          let '(x2, r3) := span_not 41 r2 in
          match x2 with
          | [] => None
          | _ => if match_tail r3 then Some (x1, x2) else None
          end
      | _, _ => None
      end
  end.

(* ARG_AND_SPACE_PATTERN  \s*[_[:alpha:]][_[:alpha:]\d]*\s*  anchored on both sides (it is a capture
   group delimited by `(`/`,` and `,`/`)`, which none of its characters can be); the result is the
   trimmed capture, i.e. the identifier *)
Definition match_ident_ws (x : str) : option str :=
  match drop_ws x with
  | c :: r =>
      if is_id_start c then
        let '(id, tl) := span_p is_id_char r in
        if all_ws tl then Some (c :: id) else None
      else None
  | [] => None
  end.

Definition apx_fw (labels : list str) (af : option (fw str)) : fw str :=
  match af with
  | Some f => f
  | None => fw_new_with_labels str str_eqb labels
  end.

Fixpoint apx_lines (ls : list (option str)) (labels : list str) (af : option (fw str))
  : rd (fw str) :=
  match ls with
  | [] => RdOk (apx_fw labels af)
  | None :: _ => RdErr
  | Some l :: r =>
      if all_ws l then apx_lines r labels af
      else
        match match_arg_line l with
        | Some x =>
            match match_ident_ws x with
            | None => RdErr
            | Some a =>
                match af with
                | Some _ => RdErr
                | None => apx_lines r (labels ++ [a]) af
                end
            end
        | None =>
            match match_att_line l with
            | Some (x1, x2) =>
                match match_ident_ws x1, match_ident_ws x2 with
                | Some a, Some b =>
                    match new_attack str str_eqb (apx_fw labels af) a b with
                    | (f', ROk) => apx_lines r labels (Some f')
                    | _ => RdErr
                    end
                | _, _ => RdErr
                end
            | None => RdErr
            end
        end
  end.

Definition read_apx (bytes : list N) : rd (fw str) := apx_lines (lines bytes) [] None.

(* AspartixReader::read_arg_from_str: Ok (id, label) *)
Definition apx_read_arg (f : fw str) (arg : str) : rd (nat * str) :=
  match find_label str str_eqb (ls f) arg with
  | Some id => RdOk (id, arg)
  | None => RdErr
  end.

(* what the tie compares: labels in iteration order, attacks as id pairs in iteration order *)
Definition observe {L} (f : fw L) : list L * list (nat * nat) :=
  (map snd (iter_args L f), iter_attacks L f).
