(* Model of src/io/aspartix_writer.rs, src/io/iccma23_writer.rs and the two helpers of
   src/io/specs.rs (write_no_extension, write_acceptance_status), with Display of usize and of
   String (UTF-8 encoding), plus the reference parsers of the two answer formats used to STATE the
   read-back property of C14 (crustabri has no reader for answers).  Definitions only. *)
From Crusta Require Export Model.Readers.
Local Open Scope N_scope.

(* ------------------------------------------------------------------ Display *)
(* char::encode_utf8 *)
Definition utf8_encode_cp (c : N) : list N :=
  if c <? 128 then [c]
  else if c <? 2048 then [192 + c / 64; 128 + c mod 64]
  else if c <? 65536 then [224 + c / 4096; 128 + (c / 64) mod 64; 128 + c mod 64]
  else [240 + c / 262144; 128 + (c / 4096) mod 64; 128 + (c / 64) mod 64; 128 + c mod 64].
Definition utf8_encode (s : str) : list N := flat_map utf8_encode_cp s.

(* Display of an unsigned integer: decimal, no sign, no leading zero ("0" for zero).
   Fuel = 1 + number of bits, always enough (Proofs/WritersProofs.v). *)
Fixpoint dec_aux (fuel : nat) (n : N) (acc : list N) : list N :=
  match fuel with
  | O => acc
  | S f =>
      let acc' := (48 + n mod 10) :: acc in
      if n <? 10 then acc' else dec_aux f (n / 10) acc'
  end.
Definition dec (n : N) : list N := dec_aux (S (N.size_nat n)) n [].
Definition dec_nat (n : nat) : list N := dec (N.of_nat n).

(* ------------------------------------------------------------------ AspartixWriter::write_framework *)
Section WriteFramework.
Variable L : Type.
Variable disp : L -> list N.        (* Display of the label type, as bytes *)

(* arguments.get_argument_by_id(id).label(); None = the unwrap of get_label_by_id panics *)
Definition label_of (f : fw L) (id : nat) : option L :=
  match nth id (slots (ls f)) None with
  | Some (_, l) => Some l
  | None => None
  end.

Definition arg_line (l : L) : list N := [97; 114; 103; 40] ++ disp l ++ [41; 46; 10].
Definition att_line (a b : L) : list N :=
  [97; 116; 116; 40] ++ disp a ++ [44] ++ disp b ++ [41; 46; 10].

Fixpoint att_lines (f : fw L) (atts : list (nat * nat)) : option (list N) :=
  match atts with
  | [] => Some []
  | (a, b) :: r =>
      match label_of f a, label_of f b, att_lines f r with
      | Some la, Some lb, Some rest => Some (att_line la lb ++ rest)
      | _, _, _ => None
      end
  end.

(* None = panic (an attack whose end point is a removed id; never for a reachable store) *)
Definition write_apx (f : fw L) : option (list N) :=
  option_map (app (flat_map (fun p => arg_line (snd p)) (iter_args L f)))
             (att_lines f (iter_attacks L f)).
End WriteFramework.

(* ------------------------------------------------------------------ answers *)
(* specs::write_no_extension, specs::write_acceptance_status *)
Definition write_no : list N := [78; 79; 10].
Definition write_status (b : bool) : list N := if b then [89; 69; 83; 10] else [78; 79; 10].

(* Iccma23Writer::write_single_extension over the labels (usize) of the extension *)
Definition write_w (labels : list N) : list N :=
  [119] ++ flat_map (fun n => 32 :: dec n) labels ++ [10].

(* AspartixWriter::write_single_extension over the labels (String) of the extension *)
Fixpoint join_comma (items : list (list N)) : list N :=
  match items with
  | [] => []
  | x :: r => match r with
              | [] => x
              | _ => x ++ [44] ++ join_comma r
              end
  end.
Definition write_bracket (labels : list str) : list N :=
  [91] ++ join_comma (map utf8_encode labels) ++ [93; 10].

(* ------------------------------------------------------------------ reference parsers (spec side) *)
(* split on every occurrence of the separator; never returns [] *)
Fixpoint split_on (x : N) (l : list N) : list (list N) :=
  match l with
  | [] => [[]]
  | c :: r =>
      if c =? x then [] :: split_on x r
      else match split_on x r with
           | w :: ws => (c :: w) :: ws
           | [] => [[c]]
           end
  end.

Fixpoint map_opt {A B} (f : A -> option B) (l : list A) : option (list B) :=
  match l with
  | [] => Some []
  | x :: r => match f x, map_opt f r with
              | Some y, Some ys => Some (y :: ys)
              | _, _ => None
              end
  end.

(* exactly one LF-terminated line: `w`, then for each label one blank and its decimal digits *)
Definition parse_w (bytes : list N) : option (list N) :=
  match raw_lines bytes with
  | [(l, true)] =>
      match split_on 32 l with
      | w :: ws => if str_eqb w [119] then map_opt parse_digits ws else None
      | [] => None
      end
  | _ => None
  end.

Fixpoint unsnoc (l : list N) : option (list N * N) :=
  match l with
  | [] => None
  | x :: r => match unsnoc r with
              | None => Some ([], x)
              | Some (i, y) => Some (x :: i, y)
              end
  end.

Definition nonempty_decode (b : list N) : option str :=
  match b with [] => None | _ => utf8_decode b end.

(* exactly one LF-terminated line: `[`, the labels separated by single commas, `]` *)
Definition parse_bracket (bytes : list N) : option (list str) :=
  match raw_lines bytes with
  | [(91 :: r, true)] =>
      match unsnoc r with
      | Some (body, 93) =>
          match body with
          | [] => Some []
          | _ => map_opt nonempty_decode (split_on 44 body)
          end
      | _ => None
      end
  | _ => None
  end.
