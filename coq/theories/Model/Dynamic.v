(* Model of src/dynamics/*.rs: the dynamic constraints encoder (variable tables, selector
   assumptions, the clauses emitted by every update), its buffered wrapper (event buffer, replay
   cursor, shadow framework, result caches), the dynamic complete / stable / preferred solvers, the
   assumptions-on-attacks encoder and its two solvers, and the recompute-from-scratch wrapper.
   Every SAT interaction goes through Sat.Prog; a Rust panic (unwrap on None, index out of bounds)
   is the explicit result [panic].  Definitions only. *)
From Crusta Require Export Spec.AF Sat.Cnf Sat.Prog Model.Store Model.Encoders Model.Graph Model.Solvers.
Open Scope prog_scope.

Inductive dsem := DCO | DST | DPR.
(* SolverVarType of both encoders *)
Inductive vtype := VArg (id : nat) | VDisj (id : nat) | VSel (id : nat) | VAttack | VIgnored.

(* ------------------------------------------------------------------ pure pieces *)

(* new_solver_var: the table is padded with Ignored up to the solver's n_vars, then the new entry is
   pushed; returns the new table and the index (= variable) of the new entry *)
Definition alloc_var (vars : list vtype) (nv : nat) (t : vtype) : list vtype * nat :=
  let padded := vars ++ repeat VIgnored (S nv - length vars) in
  (padded ++ [t], length padded).

(* add_attacks_to_constraints_for_complete_semantics, in emission order; the attacker disjunction
   variable of an argument is 1 + its variable *)
Definition co_clauses (sl : lit) (to_v : nat) (atk_v : list nat) : cnf :=
  map (fun b => [negate sl; znlit to_v; zlit (S b)]) atk_v
  ++ [[negate sl; zlit to_v] ++ map (fun b => znlit (S b)) atk_v]
  ++ map (fun b => [negate sl; zlit (S to_v); znlit b]) atk_v
  ++ [[negate sl; znlit (S to_v)] ++ map zlit atk_v].
(* add_attacks_to_constraints_for_stable_semantics *)
Definition st_clauses (sl : lit) (to_v : nat) (atk_v : list nat) : cnf :=
  map (fun b => [negate sl; znlit to_v; znlit b]) atk_v
  ++ [[negate sl; zlit to_v] ++ map zlit atk_v].

Definition tbl_var (t : list (option nat)) (id : nat) : option nat :=
  match nth_error t id with Some (Some v) => Some v | _ => None end.
Fixpoint tbl_vars (t : list (option nat)) (ids : list nat) : option (list nat) :=
  match ids with
  | [] => Some []
  | i :: r => match tbl_var t i, tbl_vars t r with
              | Some v, Some l => Some (v :: l)
              | _, _ => None
              end
  end.

(* solver_var_to_arg *)
Definition var_to_arg (vars : list vtype) (v : nat) : option nat :=
  match nth_error vars v with Some (VArg id) => Some id | _ => None end.
(* the variables (1-based) whose value satisfies p *)
Definition vars_where (p : option bool -> bool) (m : assignment) : list nat :=
  map fst (filter (fun q => p (snd q)) (combine (seq 1 (length m)) m)).
Definition is_some_true (o : option bool) : bool := match o with Some true => true | _ => false end.
Definition not_some_false (o : option bool) : bool := match o with Some false => false | _ => true end.
Definition not_some_true (o : option bool) : bool := negb (is_some_true o).
(* assignment_to_extension of the dynamic encoders (ids, in variable order) *)
Definition dyn_a2e (vars : list vtype) (m : assignment) : list nat :=
  Encoders.filter_map (var_to_arg vars) (vars_where is_some_true m).
Definition args_where (p : option bool -> bool) (vars : list vtype) (m : assignment) : list nat :=
  Encoders.filter_map (var_to_arg vars) (vars_where p m).

Definition must_update (l : list nat) (id : nat) : list nat := if memb id l then l else l ++ [id].

Record denc := {
  e_sem : dsem;
  e_a2v : list (option nat);           (* arg_id_to_solver_var *)
  e_a2s : list (option nat);           (* arg_id_to_attacker_set_selector_var *)
  e_vars : list vtype;                 (* solver_vars *)
  e_assum : list lit;                  (* assumptions *)
  e_upd : bool }.                      (* update_attacks_to_constraints *)
Definition enc_new (s : dsem) : denc :=
  {| e_sem := s; e_a2v := []; e_a2s := []; e_vars := [VIgnored]; e_assum := []; e_upd := true |}.
Definition enc_with (e : denc) (a2v a2s : list (option nat)) (vars : list vtype) (assum : list lit) : denc :=
  {| e_sem := e_sem e; e_a2v := a2v; e_a2s := a2s; e_vars := vars; e_assum := assum; e_upd := e_upd e |}.
Definition enc_enable (e : denc) (b : bool) : denc :=
  {| e_sem := e_sem e; e_a2v := e_a2v e; e_a2s := e_a2s e; e_vars := e_vars e; e_assum := e_assum e; e_upd := b |}.

(* the assumptions-on-attacks encoder *)
Record aenc := {
  a_sem : dsem;
  a_a2v : list (option nat);
  a_vars : list vtype;
  a_num : nat; a_den : nat;            (* arg_factor = a_num / a_den *)
  a_next : nat;                        (* next_dummy_arg_var *)
  a_n : nat;                           (* n_arg_vars *)
  a_need : bool }.                     (* need_to_encode *)
Definition aenc_new (s : dsem) (num den : nat) : aenc :=
  {| a_sem := s; a_a2v := []; a_vars := [VIgnored]; a_num := num; a_den := den; a_next := 0; a_n := 0;
     a_need := true |}.
Definition aenc_with (e : aenc) (a2v : list (option nat)) (vars : list vtype) (next n : nat) (need : bool) : aenc :=
  {| a_sem := a_sem e; a_a2v := a2v; a_vars := vars; a_num := a_num e; a_den := a_den e; a_next := next;
     a_n := n; a_need := need |}.

Inductive xenc := XStd (e : denc) | XAtt (e : aenc).
Definition x_vars (x : xenc) : list vtype := match x with XStd e => e_vars e | XAtt e => a_vars e end.
Definition x_a2v (x : xenc) : list (option nat) := match x with XStd e => e_a2v e | XAtt e => a_a2v e end.

Inductive dkind := KCo | KSt | KPr | KCoAtt (num den : nat) | KStAtt (num den : nat) | KDummy (s : sem).

Section Dyn.
Variable oracle : nat -> cnf -> list lit -> answer.
Variable L : Type.
Variable leqb : L -> L -> bool.
Notation M := Prog.M.
Notation solve := (Prog.solve oracle).

Definition opt_m {A} (o : option A) : M A := match o with Some a => ret a | None => panic end.
Fixpoint fold_m {A B} (f : A -> B -> M A) (l : list B) (a : A) : M A :=
  match l with
  | [] => ret a
  | x :: r => a' <- f a x ;; fold_m f r a'
  end.

(* Argument::label of a live id (get_argument_by_id(..).label(): unwrap on a removed id) *)
Definition label_of (af : fw L) (id : nat) : option L :=
  match nth id (slots (ls af)) None with Some (_, l) => Some l | None => None end.
Fixpoint labels_of (af : fw L) (ids : list nat) : option (list L) :=
  match ids with
  | [] => Some []
  | i :: r => match label_of af i, labels_of af r with
              | Some l, Some ls => Some (l :: ls)
              | _, _ => None
              end
  end.
Definition lmem (l : L) (ls : list L) : bool := existsb (leqb l) ls.

(* ------------------------------------------------------------------ DynamicConstraintsEncoder *)

(* new_solver_var: one n_vars() call, then the allocation above it *)
Definition new_solver_var (vars : list vtype) (t : vtype) : M (list vtype * nat) :=
  nv <- n_vars ;; ret (alloc_var vars nv t).
(* the variables of a new argument: its own and, for CO / PR, the attacker disjunction variable,
   which the clause generators address as "1 + the argument's variable" *)
Definition alloc_arg_vars (sm : dsem) (vars : list vtype) (arg_id : nat) : M (list vtype * nat) :=
  r1 <- new_solver_var vars (VArg arg_id) ;;
  match sm with
  | DST => ret r1
  | _ =>
      r2 <- new_solver_var (fst r1) (VDisj arg_id) ;;
      add_clause [znlit (snd r1); znlit (snd r2)] ;;; ret (fst r2, snd r1)
  end.

Definition remove_selector (e : denc) (s : nat) : M denc :=
  if Nat.ltb s (length (e_vars e)) then
    add_clause [znlit s] ;;;
    match position (Z.eqb (zlit s)) (e_assum e) with
    | Some p => ret (enc_with e (e_a2v e) (e_a2s e) (set_nth s VIgnored (e_vars e)) (swap_remove p (e_assum e)))
    | None => panic
    end
  else panic.

Definition update_attacks_to (af : fw L) (e : denc) (to_id : nat) : M denc :=
  if negb (e_upd e) then ret e
  else
    match nth_error (e_a2s e) to_id with
    | None => panic
    | Some os =>
        e1 <- match os with
              | Some s =>
                  e' <- remove_selector e s ;;
                  ret (enc_with e' (e_a2v e') (set_nth to_id None (e_a2s e')) (e_vars e') (e_assum e'))
              | None => ret e
              end ;;
        r <- new_solver_var (e_vars e1) (VSel to_id) ;;
        let '(vars, sv) := r in
        let sl := zlit sv in
        let e2 := enc_with e1 (e_a2v e1) (set_nth to_id (Some sv) (e_a2s e1)) vars (e_assum e1 ++ [sl]) in
        if negb (has_argument_with_id L af to_id) then panic
        else
          let attackers := map fst (iter_attacks_to L af to_id) in
          match tbl_var (e_a2v e2) to_id, tbl_vars (e_a2v e2) attackers with
          | Some tv, Some avs =>
              add_clauses (match e_sem e2 with
                           | DST => st_clauses sl tv avs
                           | _ => co_clauses sl tv avs
                           end) ;;;
              ret e2
          | _, _ => panic
          end
    end.

Definition enc_new_argument (af : fw L) (e : denc) (l : L) : M (fw L * denc) :=
  match get_argument L leqb af l with
  | Some _ => ret (af, e)
  | None =>
      let af' := Store.new_argument L leqb af l in
      match max_argument_id L af' with
      | None => panic
      | Some arg_id =>
          r <- alloc_arg_vars (e_sem e) (e_vars e) arg_id ;;
          let e3 := enc_with e (e_a2v e ++ [Some (snd r)]) (e_a2s e ++ [None]) (fst r) (e_assum e) in
          e4 <- update_attacks_to af' e3 arg_id ;;
          ret (af', e4)
      end
  end.

Definition enc_remove_argument (af : fw L) (e : denc) (l : L) : M (fw L * denc * result) :=
  match get_argument L leqb af l with
  | None => ret (af, e, RErr)
  | Some arg_id =>
      let upd := filter (fun id => negb (Nat.eqb id arg_id)) (map snd (iter_attacks_from L af arg_id)) in
      match Store.remove_argument L leqb af l with
      | (af', ROk) =>
          match tbl_var (e_a2v e) arg_id with
          | None => panic
          | Some v =>
              let e1 := enc_with e (set_nth arg_id None (e_a2v e)) (e_a2s e) (e_vars e) (e_assum e) in
              e2 <- match nth_error (e_a2s e1) arg_id with
                    | None => panic
                    | Some None => ret e1
                    | Some (Some s) =>
                        e' <- remove_selector e1 s ;;
                        ret (enc_with e' (e_a2v e') (set_nth arg_id None (e_a2s e')) (e_vars e') (e_assum e'))
                    end ;;
              if Nat.ltb v (length (e_vars e2)) then
                add_clause [zlit v] ;;;
                e4 <- fold_m (update_attacks_to af')
                             upd
                             (enc_with e2 (e_a2v e2) (e_a2s e2) (set_nth v VIgnored (e_vars e2)) (e_assum e2)) ;;
                ret (af', e4, ROk)
              else panic
          end
      | (_, _) => ret (af, e, RErr)
      end
  end.

Definition enc_new_attack (af : fw L) (e : denc) (a b : L) : M (fw L * denc * result) :=
  match Store.new_attack L leqb af a b with
  | (af', ROk) =>
      match get_argument L leqb af' b with
      | None => panic
      | Some to_id => e' <- update_attacks_to af' e to_id ;; ret (af', e', ROk)
      end
  | (_, RPanic) => panic
  | (_, RErr) => ret (af, e, RErr)
  end.
Definition enc_remove_attack (af : fw L) (e : denc) (a b : L) : M (fw L * denc * result) :=
  match Store.remove_attack L leqb af a b with
  | (af', ROk) =>
      match get_argument L leqb af' b with
      | None => panic
      | Some to_id => e' <- update_attacks_to af' e to_id ;; ret (af', e', ROk)
      end
  | (_, RPanic) => panic
  | (_, RErr) => ret (af, e, RErr)
  end.

(* ------------------------------------------------------------------ assumptions on attacks *)

(* index of the attack variable of (attacked variable, attacker variable) in the assumption vector *)
Definition att_index (n va vb : nat) : nat := (va - 1) * n + vb - 1.
Fixpoint att_indices (e : aenc) (atts : list (nat * nat)) : option (list nat) :=
  match atts with
  | [] => Some []
  | (from, to) :: r =>
      match tbl_var (a_a2v e) to, tbl_var (a_a2v e) from, att_indices e r with
      | Some vt, Some vf, Some l =>
          let i := att_index (a_n e) vt vf in
          if Nat.ltb i (a_n e * a_n e) then Some (i :: l) else None
      | _, _, _ => None
      end
  end.
Definition att_assumptions (af : fw L) (e : aenc) : option (list lit) :=
  match att_indices e (iter_attacks L af) with
  | None => None
  | Some idx =>
      Some (map (fun i => if memb i idx then zlit (1 + i + a_n e) else znlit (1 + a_n e + i))
                (seq 0 (a_n e * a_n e)))
  end.

Definition att_new_argument (af : fw L) (e : aenc) (l : L) : M (fw L * aenc) :=
  match get_argument L leqb af l with
  | Some _ => ret (af, e)
  | None =>
      let af' := Store.new_argument L leqb af l in
      let need := a_need e || Nat.leb (a_n e) (a_next e) in
      if need then ret (af', aenc_with e (a_a2v e) (a_vars e) (a_next e) (a_n e) true)
      else
        match max_argument_id L af' with
        | None => panic
        | Some arg_id =>
            let nx := a_next e in
            if Nat.ltb nx (length (a_vars e)) then
              let vars1 := set_nth nx (VArg arg_id) (a_vars e) in
              match a_sem e with
              | DCO =>
                  let d := nx + a_n e * (1 + a_n e) in
                  if Nat.ltb d (length vars1)
                  then ret (af', aenc_with e (a_a2v e ++ [Some nx]) (set_nth d (VDisj arg_id) vars1) (S nx) (a_n e) false)
                  else panic
              | _ => ret (af', aenc_with e (a_a2v e ++ [Some nx]) vars1 (S nx) (a_n e) false)
              end
            else panic
        end
  end.

Definition att_remove_argument (af : fw L) (e : aenc) (l : L) : M (fw L * aenc * result) :=
  match get_argument L leqb af l with
  | None => ret (af, e, RErr)
  | Some arg_id =>
      match Store.remove_argument L leqb af l with
      | (af', ROk) =>
          if Nat.ltb arg_id (length (a_a2v e)) then
            match nth arg_id (a_a2v e) None with
            | Some v =>
                if Nat.ltb v (length (a_vars e)) then
                  add_clause [zlit v] ;;;
                  ret (af', aenc_with e (set_nth arg_id None (a_a2v e)) (set_nth v VIgnored (a_vars e))
                                      (a_next e) (a_n e) (a_need e), ROk)
                else panic
            | None => ret (af', e, ROk)
            end
          else ret (af', e, ROk)
      | (_, _) => ret (af, e, RErr)
      end
  end.

(* the table of arg_id_to_solver_var after a re-encoding: live arguments get 1, 2, ... in iteration order *)
Definition att_fresh_a2v (af : fw L) : list (option nat) :=
  let size := 1 + match max_argument_id L af with Some m => m | None => 0 end in
  fold_left (fun t p => set_nth (fst p) (Some (snd p)) t)
            (combine (live_ids L af) (seq 1 (length (live_ids L af))))
            (repeat None size).

Definition att_lit (n arg_var attacker_var : nat) : lit :=
  zlit (1 + n + n * (arg_var - 1) + attacker_var - 1).

(* inner loops; [aux] is 1 + n_vars() at each iteration *)
Fixpoint st_inner (n arg_var : nat) (attackers : list nat) (cl : clause) : M clause :=
  match attackers with
  | [] => ret cl
  | b :: r =>
      nv <- n_vars ;;
      let aux := zlit (S nv) in
      let bl := zlit b in
      let al := att_lit n arg_var b in
      add_clause [negate aux; bl] ;;;
      add_clause [negate aux; al] ;;;
      add_clause [aux; negate bl; negate al] ;;;
      add_clause [negate al; znlit arg_var; negate bl] ;;;
      st_inner n arg_var r (cl ++ [aux])
  end.
Definition disj_of (n v : nat) : lit := zlit (v + n * (1 + n)).
Fixpoint co_inner1 (n arg_var : nat) (attackers : list nat) (cl : clause) : M clause :=
  match attackers with
  | [] => ret cl
  | b :: r =>
      nv <- n_vars ;;
      let aux := zlit (S nv) in
      let bd := disj_of n b in
      let al := att_lit n arg_var b in
      add_clause [negate aux; negate bd] ;;;
      add_clause [negate aux; al] ;;;
      add_clause [aux; bd; negate al] ;;;
      add_clause [negate al; znlit arg_var; bd] ;;;
      co_inner1 n arg_var r (cl ++ [aux])
  end.
Fixpoint co_inner2 (n arg_var : nat) (attackers : list nat) (cl : clause) : M clause :=
  match attackers with
  | [] => ret cl
  | b :: r =>
      nv <- n_vars ;;
      let aux := zlit (S nv) in
      let bl := zlit b in
      let al := att_lit n arg_var b in
      add_clause [negate aux; bl] ;;;
      add_clause [negate aux; al] ;;;
      add_clause [aux; negate bl; negate al] ;;;
      add_clause [negate al; disj_of n arg_var; negate bl] ;;;
      co_inner2 n arg_var r (cl ++ [aux])
  end.

Definition att_update_encoding (af : fw L) (e : aenc) : M aenc :=
  if negb (a_need e) then ret e
  else
    let n_args := n_arguments L af in
    let n := (n_args * a_num e) / a_den e in
    let ids := live_ids L af in
    match a_sem e with
    | DST =>
        new_solver ;;;
        reserve (n * (1 + n)) ;;;
        if Nat.ltb n n_args then panic
        else
          let vars := [VIgnored] ++ map VArg ids ++ repeat VIgnored (n - n_args) ++ repeat VAttack (n * n) in
          fold_m (fun (_ : unit) arg_var =>
                    cl <- st_inner n arg_var (seq 1 n) [zlit arg_var] ;; add_clause cl)
                 (seq 1 n) tt ;;;
          ret (aenc_with e (att_fresh_a2v af) vars (n_args + 1) n false)
    | DCO =>
        new_solver ;;;
        reserve (n * (2 + n)) ;;;
        if Nat.ltb n n_args then panic
        else
          let vars := [VIgnored] ++ map VArg ids ++ repeat VIgnored (n - n_args) ++ repeat VAttack (n * n)
                      ++ map VDisj ids ++ repeat VIgnored (n - n_args) in
          fold_m (fun (_ : unit) arg_var =>
                    add_clause [znlit arg_var; negate (disj_of n arg_var)] ;;;
                    cl <- co_inner1 n arg_var (seq 1 n) [zlit arg_var] ;; add_clause cl)
                 (seq 1 n) tt ;;;
          fold_m (fun (_ : unit) arg_var =>
                    cl <- co_inner2 n arg_var (seq 1 n) [negate (disj_of n arg_var)] ;; add_clause cl)
                 (seq 1 n) tt ;;;
          ret (aenc_with e (att_fresh_a2v af) vars (n_args + 1) n false)
    | DPR => panic
    end.

(* ------------------------------------------------------------------ the buffered wrappers *)

Inductive devent :=
| DNewArg (l : L) | DRemArg (l : L) | DNewAtt (a b : L) | DRemAtt (a b : L)
| DCred (acc refused : list L) (ext : option (list nat))
| DSkep (acc refused : list L) (ext : option (list nat)).

Record dbuf := {
  b_buffer : list devent;
  b_next : nat;                        (* next_to_encode *)
  b_enc : xenc;
  b_shadow : fw L }.
Definition buf_with (b : dbuf) (buffer : list devent) (next : nat) (x : xenc) (sh : fw L) : dbuf :=
  {| b_buffer := buffer; b_next := next; b_enc := x; b_shadow := sh |}.
Definition buf_push (b : dbuf) (ev : devent) : dbuf :=
  buf_with b (b_buffer b ++ [ev]) (b_next b) (b_enc b) (b_shadow b).

Definition empty_fw : fw L := fw_new_with_labels L leqb [].

(* buffer_new_argument, buffer_remove_argument, buffer_new_attack, buffer_remove_attack *)
Definition buf_update (b : dbuf) (o : op L) : dbuf * result :=
  match o with
  | OpNewArg l =>
      (buf_with b (b_buffer b ++ [DNewArg l]) (b_next b) (b_enc b) (Store.new_argument L leqb (b_shadow b) l), ROk)
  | OpRemArg l =>
      match Store.remove_argument L leqb (b_shadow b) l with
      | (sh, ROk) => (buf_with b (b_buffer b ++ [DRemArg l]) (b_next b) (b_enc b) sh, ROk)
      | (_, r) => (b, r)
      end
  | OpNewAtt x y =>
      match Store.new_attack L leqb (b_shadow b) x y with
      | (sh, ROk) => (buf_with b (b_buffer b ++ [DNewAtt x y]) (b_next b) (b_enc b) sh, ROk)
      | (_, r) => (b, r)
      end
  | OpRemAtt x y =>
      match Store.remove_attack L leqb (b_shadow b) x y with
      | (sh, ROk) => (buf_with b (b_buffer b ++ [DRemAtt x y]) (b_next b) (b_enc b) sh, ROk)
      | (_, r) => (b, r)
      end
  end.

Definition unwrap_ok {A} (r : A * result) : M A :=
  match r with (a, ROk) => ret a | _ => panic end.

(* one buffered event replayed on the standard encoder: state (af, encoder, ids to re-encode) *)
Definition std_replay (st : fw L * denc * list nat) (ev : devent) : M (fw L * denc * list nat) :=
  let '(af, e, upd) := st in
  match ev with
  | DNewArg l =>
      r <- enc_new_argument af e l ;;
      id <- opt_m (get_argument L leqb (fst r) l) ;;
      ret (fst r, snd r, must_update upd id)
  | DRemArg l =>
      arg_id <- opt_m (get_argument L leqb af l) ;;
      let upd' := fold_left must_update
                            (filter (fun id => negb (Nat.eqb id arg_id)) (map snd (iter_attacks_from L af arg_id)))
                            upd in
      r <- enc_remove_argument af e l ;;
      p <- unwrap_ok r ;;
      ret (fst p, snd p, upd')
  | DNewAtt x y =>
      r <- enc_new_attack af e x y ;;
      p <- unwrap_ok r ;;
      id <- opt_m (get_argument L leqb (fst p) y) ;;
      ret (fst p, snd p, must_update upd id)
  | DRemAtt x y =>
      r <- enc_remove_attack af e x y ;;
      p <- unwrap_ok r ;;
      id <- opt_m (get_argument L leqb (fst p) y) ;;
      ret (fst p, snd p, must_update upd id)
  | _ => ret st
  end.

Definition att_replay (st : fw L * aenc) (ev : devent) : M (fw L * aenc) :=
  let '(af, e) := st in
  match ev with
  | DNewArg l => att_new_argument af e l
  | DRemArg l => r <- att_remove_argument af e l ;; unwrap_ok r
  | DNewAtt x y => p <- unwrap_ok (Store.new_attack L leqb af x y) ;; ret (p, e)
  | DRemAtt x y => p <- unwrap_ok (Store.remove_attack L leqb af x y) ;; ret (p, e)
  | _ => ret st
  end.

Definition update_encoding (af : fw L) (b : dbuf) : M (fw L * dbuf) :=
  let pending := skipn (b_next b) (b_buffer b) in
  match b_enc b with
  | XStd e =>
      st <- fold_m std_replay pending (af, e, []) ;;
      let '(af', e', upd) := st in
      e'' <- fold_m (update_attacks_to af')
                    (filter (has_argument_with_id L af') upd)
                    (enc_enable e' true) ;;
      ret (af', buf_with b (b_buffer b) (length (b_buffer b)) (XStd (enc_enable e'' false)) (b_shadow b))
  | XAtt e =>
      st <- fold_m att_replay pending (af, e) ;;
      e' <- att_update_encoding (fst st) (snd st) ;;
      ret (fst st, buf_with b (b_buffer b) (length (b_buffer b)) (XAtt e') (b_shadow b))
  end.

(* is_credulously_accepted / is_skeptically_accepted: scan of the trailing computation events *)
Fixpoint cred_scan (rev_buffer : list devent) (l : L) : option bool * option (list nat) :=
  match rev_buffer with
  | DCred acc refused ext :: r =>
      match ext with
      | Some e => if lmem l acc then (Some true, Some e)
                  else if lmem l refused then (Some false, None) else cred_scan r l
      | None => if lmem l refused then (Some false, None) else cred_scan r l
      end
  | DSkep acc _ ext :: r =>
      match ext with
      | Some e => if lmem l acc then (Some true, Some e) else cred_scan r l
      | None => cred_scan r l
      end
  | _ => (None, None)
  end.
Fixpoint skep_scan (rev_buffer : list devent) (l : L) : option bool * option (list nat) :=
  match rev_buffer with
  | DSkep acc refused ext :: r =>
      if lmem l acc then (Some true, None)
      else match ext with
           | Some e => if lmem l refused then (Some false, Some e) else skep_scan r l
           | None => skep_scan r l
           end
  | DCred _ refused ext :: r =>
      match ext with
      | Some e => if lmem l refused then (Some false, Some e) else skep_scan r l
      | None => skep_scan r l
      end
  | _ => (None, None)
  end.
Definition is_cred (b : dbuf) (l : L) := cred_scan (rev (b_buffer b)) l.
Definition is_skep (b : dbuf) (l : L) := skep_scan (rev (b_buffer b)) l.

(* ------------------------------------------------------------------ the solvers *)

Record dsolver := { s_kind : dkind; s_af : fw L; s_buf : dbuf }.
Definition answer_t := (bool * option (list nat))%type.

Definition x_assumptions (af : fw L) (x : xenc) : M (list lit) :=
  match x with
  | XStd e => ret (e_assum e)
  | XAtt e => opt_m (att_assumptions af e)
  end.
(* arg_to_lit of both encoders (unwrap on an unknown label / an argument without variable) *)
Definition x_arg_var (af : fw L) (x : xenc) (l : L) : M nat :=
  id <- opt_m (get_argument L leqb af l) ;;
  opt_m (tbl_var (x_a2v x) id).

(* credulous acceptance of the complete and stable solvers (both encoder families) *)
Definition dc_query (s : dsolver) (l : L) : M (dsolver * answer_t) :=
  match is_cred (s_buf s) l with
  | (Some b, Some e) => ret (s, (b, Some e))
  | _ =>
      r <- update_encoding (s_af s) (s_buf s) ;;
      let '(af, buf) := r in
      let x := b_enc buf in
      asm <- x_assumptions af x ;;
      v <- x_arg_var af x l ;;
      m <- solve (asm ++ [zlit v]) ;;
      match m with
      | Some m =>
          acc <- opt_m (labels_of af (args_where not_some_false (x_vars x) m)) ;;
          let ext := dyn_a2e (x_vars x) m in
          ret ({| s_kind := s_kind s; s_af := af; s_buf := buf_push buf (DCred acc [] (Some ext)) |},
               (true, Some ext))
      | None =>
          ret ({| s_kind := s_kind s; s_af := af; s_buf := buf_push buf (DCred [] [l] None) |}, (false, None))
      end
  end.

(* skeptical acceptance of the stable solvers *)
Definition st_ds_query (s : dsolver) (l : L) : M (dsolver * answer_t) :=
  match is_skep (s_buf s) l with
  | (Some b, Some e) => ret (s, (b, Some e))
  | _ =>
      r <- update_encoding (s_af s) (s_buf s) ;;
      let '(af, buf) := r in
      let x := b_enc buf in
      asm <- x_assumptions af x ;;
      v <- x_arg_var af x l ;;
      m <- solve (asm ++ [znlit v]) ;;
      match m with
      | Some m =>
          refused <- opt_m (labels_of af (args_where not_some_true (x_vars x) m)) ;;
          let ext := dyn_a2e (x_vars x) m in
          ret ({| s_kind := s_kind s; s_af := af; s_buf := buf_push buf (DSkep [] refused (Some ext)) |},
               (false, Some ext))
      | None =>
          id <- opt_m (get_argument L leqb af l) ;;
          refused <- opt_m (labels_of af (map snd (iter_attacks_from L af id))) ;;
          ret ({| s_kind := s_kind s; s_af := af; s_buf := buf_push buf (DSkep [l] refused None) |}, (true, None))
      end
  end.

(* ---- the preferred solver: MaximalExtensionComputer on the shared session *)
Record dcomp := { k_cur : list nat; k_state : mstate; k_sel : lit }.
Definition k_with (k : dcomp) (cur : list nat) (s : mstate) : dcomp :=
  {| k_cur := cur; k_state := s; k_sel := k_sel k |}.

(* split_in_extension with the dynamic encoder's arg_to_lit *)
Definition dyn_split (af : fw L) (e : denc) (cur : list nat) : option (list lit * list lit) :=
  let n_ids := match max_argument_id L af with Some m => S m | None => 0 end in
  let size := fold_left (fun acc a => Nat.max acc (S a)) cur (Nat.max (n_arguments L af) n_ids) in
  let ids := filter (has_argument_with_id L af) (seq 0 size) in
  match tbl_vars (e_a2v e) (filter (fun i => memb i cur) ids),
        tbl_vars (e_a2v e) (filter (fun i => negb (memb i cur)) ids) with
  | Some i, Some o => Some (map zlit i, map zlit o)
  | _, _ => None
  end.

Definition k_solve (e : denc) (a : list lit) : M (option (list nat)) :=
  r <- solve (a ++ e_assum e) ;;
  ret (option_map (dyn_a2e (e_vars e)) r).
Definition k_new_search (e : denc) (k : dcomp) : M dcomp :=
  r <- k_solve e [negate (k_sel k)] ;;
  ret match r with Some ext => k_with k ext MIntermediate | None => k_with k (k_cur k) MNone end.
Definition k_discard (af : fw L) (e : denc) (k : dcomp) : M unit :=
  sp <- opt_m (dyn_split af e (k_cur k)) ;;
  add_clause (snd sp ++ [k_sel k]).
Definition k_compute_next (af : fw L) (e : denc) (k : dcomp) : M dcomp :=
  match k_state k with
  | MMaximal => k_discard af e k ;;; k_new_search e k
  | MIntermediate =>
      sp <- opt_m (dyn_split af e (k_cur k)) ;;
      add_clause (snd sp ++ [k_sel k]) ;;;
      r <- k_solve e (fst sp ++ [negate (k_sel k)]) ;;
      ret match r with Some ext => k_with k ext MIntermediate | None => k_with k (k_cur k) MMaximal end
  | MJustDiscarded => k_new_search e k
  | MNone => panic
  | MInit => ret (k_with k (grounded (view_of_fw af)) MIntermediate)
  end.

Definition bools_of (size : nat) (ids : list nat) : list bool := map (fun i => memb i ids) (seq 0 size).
Definition or_at (ids : list nat) (v : list bool) : list bool :=
  map (fun p => snd p || memb (fst p) ids) (combine (seq 0 (length v)) v).
(* add_defeated_in_current_to_missing *)
Definition add_defeated (af : fw L) (cur : list nat) (missing : list bool) : list bool :=
  or_at (flat_map (fun a => map snd (iter_attacks_from L af a)) cur) missing.
Definition trues (af : fw L) (v : list bool) : list nat :=
  filter (fun i => nth i v false && has_argument_with_id L af i) (seq 0 (length v)).

Fixpoint pr_loop (fuel : nat) (af : fw L) (e : denc) (arg_id : nat) (k : dcomp)
         (first_max : bool) (in_all : option (list bool)) (missing : list bool)
  : M (dcomp * bool * list bool * list bool * option (list nat)) :=
  match fuel with
  | O => out_of_fuel
  | S f =>
      k <- k_compute_next af e k ;;
      let size := length missing in
      match k_state k with
      | MMaximal =>
          let in_cur := bools_of size (k_cur k) in
          let missing1 := add_defeated af (k_cur k) missing in
          let arg_missing := negb (nth arg_id in_cur false) in
          let missing_in_cur := map negb in_cur in
          let in_all' := if first_max then Some in_cur
                         else option_map (fun ia => map (fun p => fst p && snd p) (combine ia in_cur)) in_all in
          let missing2 := if first_max then missing1
                          else map (fun p => fst p || negb (snd p)) (combine missing1 in_cur) in
          if arg_missing then ret (k, false, [], missing_in_cur, Some (k_cur k))
          else pr_loop f af e arg_id k false in_all' missing2
      | MIntermediate =>
          let missing1 := add_defeated af (k_cur k) missing in
          if memb arg_id (k_cur k) then
            let in_all' := if first_max then Some (bools_of size (k_cur k)) else in_all in
            k_discard af e k ;;;
            pr_loop f af e arg_id (k_with k (k_cur k) MJustDiscarded) false in_all' missing1
          else pr_loop f af e arg_id k first_max in_all missing1
      | MNone =>
          ret (k, true, match in_all with Some ia => ia | None => [] end, missing, None)
      | _ => pr_loop f af e arg_id k first_max in_all missing
      end
  end.

Definition pr_ds_query (fuel : nat) (s : dsolver) (l : L) : M (dsolver * answer_t) :=
  match is_skep (s_buf s) l with
  | (Some b, Some e) => ret (s, (b, Some e))
  | _ =>
      r <- update_encoding (s_af s) (s_buf s) ;;
      let '(af, buf) := r in
      match b_enc buf with
      | XAtt _ => panic
      | XStd e =>
          nv <- n_vars ;;
          let k0 := {| k_cur := []; k_state := MInit; k_sel := zlit (1 + nv) |} in
          arg_id <- opt_m (get_argument L leqb af l) ;;
          let size := 1 + match max_argument_id L af with Some m => m | None => 0 end in
          res <- pr_loop fuel af e arg_id k0 true None (repeat false size) ;;
          let '(k, result, acc_b, ref_b, ext) := res in
          acc <- opt_m (labels_of af (trues af acc_b)) ;;
          refused <- opt_m (labels_of af (trues af ref_b)) ;;
          add_clause [k_sel k] ;;;
          ret ({| s_kind := s_kind s; s_af := af; s_buf := buf_push buf (DSkep acc refused ext) |}, (result, ext))
      end
  end.

(* ------------------------------------------------------------------ public interface *)
Variable thr : nat.

Definition dyn_new (k : dkind) : M dsolver :=
  let mk x := {| s_kind := k; s_af := empty_fw;
                 s_buf := {| b_buffer := []; b_next := 0; b_enc := x; b_shadow := empty_fw |} |} in
  match k with
  | KCo => new_solver ;;; ret (mk (XStd (enc_enable (enc_new DCO) false)))
  | KSt => new_solver ;;; ret (mk (XStd (enc_enable (enc_new DST) false)))
  | KPr => new_solver ;;; ret (mk (XStd (enc_enable (enc_new DPR) false)))
  | KCoAtt num den => new_solver ;;; ret (mk (XAtt (aenc_new DCO num den)))
  | KStAtt num den => new_solver ;;; ret (mk (XAtt (aenc_new DST num den)))
  | KDummy _ => ret (mk (XStd (enc_new DCO)))
  end.

(* DynamicSolver::{new_argument, remove_argument, new_attack, remove_attack} *)
Definition dyn_update (s : dsolver) (o : op L) : dsolver * result :=
  match s_kind s with
  | KDummy _ =>
      let '(af, r) := step L leqb (s_af s) o in
      ({| s_kind := s_kind s; s_af := af; s_buf := s_buf s |}, r)
  | _ =>
      let '(b, r) := buf_update (s_buf s) o in
      ({| s_kind := s_kind s; s_af := s_af s; s_buf := b |}, r)
  end.

Definition outcome_answer (o : outcome) : M answer_t :=
  match o with OAcc b c => ret (b, c) | OExt _ => panic end.

(* are_{credulously,skeptically}_accepted[_with_certificate] on one argument *)
Definition dyn_query (fuel : nat) (s : dsolver) (q : query) (cert : bool) (l : L) : M (dsolver * answer_t) :=
  let strip (m : M (dsolver * answer_t)) :=
    r <- m ;; ret (fst r, if cert then snd r else (fst (snd r), None)) in
  match s_kind s, q with
  | (KCo | KCoAtt _ _), QDC => strip (dc_query s l)
  | (KSt | KStAtt _ _), QDC => strip (dc_query s l)
  | (KSt | KStAtt _ _), QDS => strip (st_ds_query s l)
  | KPr, QDS => strip (pr_ds_query fuel s l)
  | KDummy sm, (QDC | QDS) =>
      id <- opt_m (get_argument L leqb (s_af s) l) ;;
      o <- run_query oracle thr fuel sm q cert AuxCo (view_of_fw (s_af s)) [id] ;;
      a <- outcome_answer o ;;
      ret (s, a)
  | _, _ => panic                    (* unimplemented!() *)
  end.

End Dyn.
