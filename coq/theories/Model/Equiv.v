(* Model of src/utils/equivalency_computer.rs (EquivalencyComputer), function by function, over a
   compact framework F : af (args F = seq 0 n; atts F = the attack list in insertion order,
   duplicates kept, as built by the ICCMA reader through new_attack_by_ids).

   Iteration orders: [iter_attacks] is [atts F]; [iter_attacks_from_id a] yields the attacks from
   [a] in insertion order, i.e. their targets are [attacked F a] (Spec/AF.v).

   Data layout: the Rust vectors [n_attacks_to], [local_n_attacks_to], [in_classes],
   [propagations], [init_to_reduced_id] are lists indexed by argument id.  The two boolean vectors
   [in_propagated] / [in_defeated] of [propagate] are, at every program point, the characteristic
   vectors of the vectors [propagated] / [defeated] (they are set exactly when an id is pushed);
   the model tests membership in the lists instead.

   Rust panics are explicit: [Panic] (usize underflow of a counter under overflow-checks, [v[0]] on
   an empty class, [unwrap] of a failed [new_attack], out-of-range argument id); loops that are
   [while] loops in Rust are fuelled and running out of fuel is the distinguished [OutOfFuel].
   Indexing a vector out of its bounds cannot be observed on compact frameworks (every id < n);
   there the list accessors return a default, which is outside the quantifier of C19.
   Definitions only. *)
From Crusta Require Export Spec.AF Model.Store Model.Graph.

Inductive outcome (A : Type) := Done (a : A) | Panic | OutOfFuel.
Arguments Done {A}. Arguments Panic {A}. Arguments OutOfFuel {A}.

(* a loop body that may panic, folded over a list (for_each with early exit on panic) *)
Fixpoint ofold {S A : Type} (f : S -> A -> outcome S) (l : list A) (s : S) : outcome S :=
  match l with
  | [] => Done s
  | x :: r =>
      match f s x with
      | Done s' => ofold f r s'
      | Panic => Panic
      | OutOfFuel => OutOfFuel
      end
  end.

(* ---------------- enum EqClass ---------------- *)
Inductive eqclass :=
  | Grounded (v : list nat)
  | GroundedDefeated (v : list nat)
  | NotGrounded (v : list nat).
Definition members (c : eqclass) : list nat :=
  match c with Grounded v | GroundedDefeated v | NotGrounded v => v end.
(* EqClass::first is v[0]: a panic on an empty vector *)
Definition cl_first (c : eqclass) : option nat := hd_error (members c).
Definition is_defeated_class (c : eqclass) : bool :=
  match c with GroundedDefeated _ => true | _ => false end.

(* ---------------- n_attacks_to (first lines of compute_classes) ---------------- *)
Definition n_attacks_to (F : af) : list nat :=
  fold_left (fun c p => set_nth (snd p) (S (nth_nat c (snd p))) c)
            (atts F) (repeat 0 (length (args F))).

(* ---------------- propagate ---------------- *)
Record pstate := { p_cnt : list nat; p_prop : list nat; p_def : list nat }.

(* innermost closure: one attack [def] from a newly defeated argument *)
Definition p_defend (seeds : list nat) (s : pstate) (defended : nat) : outcome pstate :=
  if memb defended seeds then Done s
  else
    match nth_nat (p_cnt s) defended with
    | O => Panic                                   (* local_n_attacks_to[defended] -= 1 underflows *)
    | S k =>
        Done {| p_cnt := set_nth defended k (p_cnt s);
                p_prop := if Nat.eqb k 0 then p_prop s ++ [defended] else p_prop s;
                p_def := p_def s |}
    end.

(* try_for_each over the attacks from [id]: [Done None] is Err(()) (a conflict) *)
Fixpoint p_attack_all (F : af) (seeds : list nat) (l : list nat) (s : pstate)
  : outcome (option pstate) :=
  match l with
  | [] => Done (Some s)
  | a :: r =>
      if memb a (p_prop s) then Done None
      else if memb a (p_def s) then p_attack_all F seeds r s
      else
        match ofold (p_defend seeds) (attacked F a)
                    {| p_cnt := p_cnt s; p_prop := p_prop s; p_def := p_def s ++ [a] |} with
        | Done s' => p_attack_all F seeds r s'
        | Panic => Panic
        | OutOfFuel => OutOfFuel
        end
  end.

(* while next_index < propagated.len() *)
Fixpoint p_loop (fuel : nat) (F : af) (seeds : list nat) (idx : nat) (s : pstate)
  : outcome (option (list nat * list nat)) :=
  match fuel with
  | O => OutOfFuel
  | S f =>
      match nth_error (p_prop s) idx with
      | None => Done (Some (p_prop s, p_def s))
      | Some id =>
          match p_attack_all F seeds (attacked F id) s with
          | Done (Some s') => p_loop f F seeds (S idx) s'
          | Done None => Done None
          | Panic => Panic
          | OutOfFuel => OutOfFuel
          end
      end
  end.

Definition propagate_fuel (F : af) (seeds : list nat) : nat :=
  S (length seeds + length (args F)).

Definition propagate (F : af) (nat_to : list nat) (seeds : list nat)
  : outcome (option (list nat * list nat)) :=
  p_loop (propagate_fuel F seeds) F seeds 0
         {| p_cnt := nat_to; p_prop := seeds; p_def := [] |}.

(* ---------------- compute_grounded_classes ---------------- *)
Definition unattacked_args (nat_to : list nat) : list nat :=
  filter (fun a => Nat.eqb (nth_nat nat_to a) 0) (seq 0 (length nat_to)).

Definition compute_grounded_classes (F : af) (nat_to : list nat)
  : outcome (option (list nat * list nat)) :=
  propagate F nat_to (unattacked_args nat_to).

(* ---------------- compute_classes ---------------- *)
Record cstate := {
  c_classes : list eqclass;
  c_in : list bool;                              (* in_classes *)
  c_props : list (option (list nat)) }.          (* propagations *)

(* the closure run on every retained id of arg_propagations *)
Definition c_candidate (F : af) (nat_to : list nat) (arg : nat)
    (st : list nat * list bool * list (option (list nat))) (id : nat)
  : outcome (list nat * list bool * list (option (list nat))) :=
  let '(cls, inc, props) := st in
  match propagate F nat_to [id] with
  | Done r =>
      let p := match r with Some (p, _) => p | None => [] end in
      if memb arg p
      then Done (cls ++ [id], set_nth id true inc, set_nth id (Some []) props)
      else Done (cls, inc, set_nth id (Some p) props)
  | Panic => Panic
  | OutOfFuel => OutOfFuel
  end.

(* body of [for arg in 0..af.n_arguments()] *)
Definition c_step (F : af) (nat_to : list nat) (st : cstate) (arg : nat) : outcome cstate :=
  if nth_bool (c_in st) arg then Done st
  else
    let fetched : outcome (option (list nat) * list (option (list nat))) :=
      match nth arg (c_props st) None with
      | Some p => Done (Some p, set_nth arg (Some []) (c_props st))
      | None =>
          match propagate F nat_to [arg] with
          | Done r => Done (option_map fst r, c_props st)
          | Panic => Panic
          | OutOfFuel => OutOfFuel
          end
      end in
    match fetched with
    | Done (opt_arg_propagations, props1) =>
        let inc1 := set_nth arg true (c_in st) in
        match opt_arg_propagations with
        | None =>
            Done {| c_classes := c_classes st ++ [NotGrounded [arg]]; c_in := inc1; c_props := props1 |}
        | Some ap =>
            let retained := filter (fun id => negb (nth_bool inc1 id) && Nat.ltb arg id) ap in
            match ofold (c_candidate F nat_to arg) retained ([arg], inc1, props1) with
            | Done (cls, inc2, props2) =>
                Done {| c_classes := c_classes st ++ [NotGrounded cls]; c_in := inc2; c_props := props2 |}
            | Panic => Panic
            | OutOfFuel => OutOfFuel
            end
        end
    | Panic => Panic
    | OutOfFuel => OutOfFuel
    end.

Definition mark_all (l : list nat) (inc : list bool) : list bool :=
  fold_left (fun v id => set_nth id true v) l inc.

Definition compute_classes (F : af) : outcome (list eqclass) :=
  let n := length (args F) in
  let nat_to := n_attacks_to F in
  match compute_grounded_classes F nat_to with
  | Done (Some (grounded, defeated)) =>
      let classes0 :=
        (match grounded with [] => [] | _ => [Grounded grounded] end) ++
        (match defeated with [] => [] | _ => [GroundedDefeated defeated] end) in
      let inc0 := fold_left (fun v c => mark_all (members c) v) classes0 (repeat false n) in
      match ofold (c_step F nat_to) (seq 0 n)
                  {| c_classes := classes0; c_in := inc0; c_props := repeat None n |} with
      | Done st => Done (c_classes st)
      | Panic => Panic
      | OutOfFuel => OutOfFuel
      end
  | Done None => Done (map (fun i => NotGrounded [i]) (seq 0 n))
  | Panic => Panic
  | OutOfFuel => OutOfFuel
  end.

(* ---------------- reduce_af ---------------- *)
(* The label of the initial argument with id i is [lab i] (the ICCMA reader: i + 1). *)
Fixpoint firsts (classes : list eqclass) : option (list nat) :=
  match classes with
  | [] => Some []
  | c :: r =>
      match cl_first c, firsts r with
      | Some a, Some l => Some (a :: l)
      | _, _ => None
      end
  end.

Definition init_to_reduced_ids (n : nat) (classes : list eqclass) : list nat :=
  snd (fold_left
         (fun acc c =>
            let '(class_id, v) := acc in
            (S class_id, fold_left (fun v arg_id => set_nth arg_id class_id v) (members c) v))
         classes (0, repeat 0 n)).

Definition reduce_attack (lab : nat -> nat) (classes : list eqclass) (i2r : list nat)
    (labels : list nat) (f : fw nat) (p : nat * nat) : outcome (fw nat) :=
  let reduced_from_id := nth_nat i2r (fst p) in
  match nth_error classes reduced_from_id with
  | None => Panic
  | Some c =>
      if is_defeated_class c then Done f
      else
        match nth_error labels reduced_from_id, nth_error labels (nth_nat i2r (snd p)) with
        | Some lf, Some lt =>
            match new_attack nat Nat.eqb f lf lt with
            | (f', ROk) => Done f'
            | _ => Panic                                   (* .unwrap() *)
            end
        | _, _ => Panic
        end
  end.

Definition reduce_af (lab : nat -> nat) (F : af) (classes : list eqclass)
  : outcome (fw nat * list nat) :=
  match firsts classes with
  | None => Panic
  | Some fs =>
      let labels := map lab fs in
      let i2r := init_to_reduced_ids (length (args F)) classes in
      match ofold (reduce_attack lab classes i2r labels) (atts F)
                  (fw_new_with_labels nat Nat.eqb labels) with
      | Done f => Done (f, i2r)
      | Panic => Panic
      | OutOfFuel => OutOfFuel
      end
  end.

(* ---------------- struct EquivalencyComputer ---------------- *)
Record ecomp := { e_classes : list eqclass; e_reduced : fw nat; e_i2r : list nat }.

Definition equivalency_new (lab : nat -> nat) (F : af) : outcome ecomp :=
  match compute_classes F with
  | Done classes =>
      match reduce_af lab F classes with
      | Done (f, i2r) => Done {| e_classes := classes; e_reduced := f; e_i2r := i2r |}
      | Panic => Panic
      | OutOfFuel => OutOfFuel
      end
  | Panic => Panic
  | OutOfFuel => OutOfFuel
  end.

(* init_to_reduced_arg: the (id, label) of the reduced argument; None = panic (id out of range /
   get_argument_by_id on an id that is not an argument of the reduced framework) *)
Definition init_to_reduced_arg (F : af) (e : ecomp) (a : nat) : option (nat * nat) :=
  if Nat.ltb a (length (args F)) then
    let r := nth_nat (e_i2r e) a in
    match nth r (slots (Store.ls (e_reduced e))) None with
    | Some (id, l) => Some (id, l)
    | None => None
    end
  else None.

(* reduced_arg_to_init_args: ids of the initial arguments; None = panic (index out of range) *)
Definition reduced_arg_to_init_args (e : ecomp) (r : nat) : option (list nat) :=
  option_map members (nth_error (e_classes e) r).

(* the two maps at the level of ids, for the statements of C19 *)
Definition init_to_reduced (F : af) (classes : list eqclass) (a : nat) : nat :=
  nth_nat (init_to_reduced_ids (length (args F)) classes) a.
Definition reduced_to_init (classes : list eqclass) (r : nat) : list nat :=
  match nth_error classes r with Some c => members c | None => [] end.
