(* Model of src/utils/grounded_extension_computer.rs and
   src/utils/connected_components_computer.rs, over a "view" of a framework that reproduces the
   iteration orders of AAFramework (attacks from / to an argument, arguments by id, all attacks).
   Definitions only. *)
From Crusta Require Export Spec.AF Model.Store.

Record gview := {
  g_maxid : option nat;                 (* max_argument_id *)
  g_ids : list nat;                     (* live ids in iteration order *)
  g_from : nat -> list nat;             (* targets of the attacks from an argument, iteration order *)
  g_to : nat -> list nat;               (* sources of the attacks to an argument, iteration order *)
  g_atts : list (nat * nat) }.          (* iter_attacks *)

Definition view_of_fw {L} (f : fw L) : gview :=
  {| g_maxid := max_argument_id L f;
     g_ids := live_ids L f;
     g_from := fun a => map snd (iter_attacks_from L f a);
     g_to := fun a => map fst (iter_attacks_to L f a);
     g_atts := iter_attacks L f |}.

(* a compact framework as built by the readers / the component extraction: n arguments, attacks
   inserted with new_attack_by_ids in list order *)
Definition view_of_af (F : af) : gview :=
  let n := length (args F) in
  {| g_maxid := match n with 0 => None | S k => Some k end;
     g_ids := seq 0 n;
     g_from := attacked F;
     g_to := attackers F;
     g_atts := atts F |}.

Definition nth_nat (l : list nat) (i : nat) : nat := nth i l 0.
Definition nth_bool (l : list bool) (i : nat) : bool := nth i l false.

(* ---------------- grounded extension ---------------- *)
Record gstate := { g_ext : list nat; defeated : list bool; cnt : list nat }.

(* inner loop: the attacks from a newly defeated argument *)
Definition g_defend (s : gstate) (defended : nat) : gstate :=
  if Nat.eqb (nth_nat (cnt s) defended) 1
  then {| g_ext := g_ext s ++ [defended]; defeated := defeated s; cnt := cnt s |}
  else {| g_ext := g_ext s; defeated := defeated s;
          cnt := set_nth defended (nth_nat (cnt s) defended - 1) (cnt s) |}.
Definition g_defeat (g : gview) (s : gstate) (d : nat) : gstate :=
  if nth_bool (defeated s) d then s
  else fold_left g_defend (g_from g d)
         {| g_ext := g_ext s; defeated := set_nth d true (defeated s); cnt := cnt s |}.
Definition g_process (g : gview) (s : gstate) (a : nat) : gstate :=
  fold_left (g_defeat g) (g_from g a) s.
Fixpoint g_loop (fuel : nat) (g : gview) (k : nat) (s : gstate) : list nat :=
  match fuel with
  | O => g_ext s
  | S f =>
      match nth_error (g_ext s) k with
      | None => g_ext s
      | Some a => g_loop f g (S k) (g_process g s a)
      end
  end.
Definition grounded (g : gview) : list nat :=
  match g_maxid g with
  | None => []
  | Some m =>
      let size := S m in
      let init := fold_left
        (fun s a =>
           let c := length (g_to g a) in
           {| g_ext := if Nat.eqb c 0 then g_ext s ++ [a] else g_ext s;
              defeated := defeated s;
              cnt := set_nth a c (cnt s) |})
        (g_ids g)
        {| g_ext := []; defeated := repeat false size; cnt := repeat 0 size |} in
      g_loop (S size) g 0 init
  end.

(* ---------------- connected components ---------------- *)
Record ccstate := { in_cc : list bool; next_arg : nat }.

Definition has_id (g : gview) (i : nat) : bool := memb i (g_ids g).

Fixpoint update_next_fuel (fuel : nat) (g : gview) (s : ccstate) : ccstate :=
  match fuel with
  | O => s
  | S f =>
      if Nat.ltb (next_arg s) (length (in_cc s)) &&
         (nth_bool (in_cc s) (next_arg s) || negb (has_id g (next_arg s)))
      then update_next_fuel f g {| in_cc := in_cc s; next_arg := S (next_arg s) |}
      else s
  end.
Definition update_next (g : gview) (s : ccstate) : ccstate :=
  update_next_fuel (S (length (in_cc s))) g s.

Definition cc_new (g : gview) : ccstate :=
  update_next g {| in_cc := repeat false (S (match g_maxid g with Some m => m | None => 0 end));
                   next_arg := 0 |}.

(* the neighbours visited from [a]: attacks from a (their targets), then attacks to a (their sources) *)
Definition neighbours (g : gview) (a : nat) : list nat := g_from g a ++ g_to g a.

Record dfs := { d_s : ccstate; d_current : list nat; d_stack : list nat }.
Definition dfs_visit (g : gview) (d : dfs) (b : nat) : dfs :=
  if nth_bool (in_cc (d_s d)) b then d
  else
    let s1 := {| in_cc := set_nth b true (in_cc (d_s d)); next_arg := next_arg (d_s d) |} in
    let s2 := if Nat.eqb (next_arg s1) b then update_next g s1 else s1 in
    {| d_s := s2; d_current := d_current d ++ [b]; d_stack := d_stack d ++ [b] |}.
(* Vec::pop takes the LAST element *)
Definition pop_last {A} (l : list A) : option (A * list A) :=
  match rev l with [] => None | x :: r => Some (x, rev r) end.
Fixpoint dfs_loop (fuel : nat) (g : gview) (d : dfs) : dfs :=
  match fuel with
  | O => d
  | S f =>
      match pop_last (d_stack d) with
      | None => d
      | Some (a, rest) =>
          dfs_loop f g (fold_left (dfs_visit g)
                                  (neighbours g a)
                                  {| d_s := d_s d; d_current := d_current d; d_stack := rest |})
      end
  end.
Definition find_cc (g : gview) (s : ccstate) (a : nat) : ccstate * list nat :=
  let s1 := update_next g {| in_cc := set_nth a true (in_cc s); next_arg := next_arg s |} in
  let d := dfs_loop (S (length (in_cc s))) g {| d_s := s1; d_current := [a]; d_stack := [a] |} in
  (d_s d, d_current d).

(* extract_connected_component: compact re-indexing by position in the component list; every attack
   of the framework whose attacker is in the component is copied, in iter_attacks order; the
   [unwrap] on the attacked argument's mapping is a panic when it is absent *)
Definition index_of (l : list nat) (a : nat) : option nat := position (Nat.eqb a) l.
Definition extract_atts (comp : list nat) (all : list (nat * nat)) : option (list (nat * nat)) :=
  fold_left
    (fun acc p =>
       match acc with
       | None => None
       | Some l =>
           match index_of comp (fst p) with
           | None => Some l
           | Some i => match index_of comp (snd p) with
                       | Some j => Some (l ++ [(i, j)])
                       | None => None
                       end
           end
       end)
    all (Some []).

(* a component: the original ids in component order (position = compact id) and the compact af *)
Record comp := { c_ids : list nat; c_af : af }.
Definition extract_cc (g : gview) (ids : list nat) : option comp :=
  match extract_atts ids (g_atts g) with
  | None => None
  | Some l => Some {| c_ids := ids; c_af := {| args := seq 0 (length ids); atts := l |} |}
  end.

(* next_connected_component *)
Definition next_cc (g : gview) (s : ccstate) : option (ccstate * option comp) :=
  match g_ids g with
  | [] => None
  | _ =>
      if Nat.eqb (next_arg s) (length (in_cc s)) then None
      else let '(s', ids) := find_cc g s (next_arg s) in Some (s', extract_cc g ids)
  end.

(* merged_connected_components_of: None = panic ("already computed" / unwrap) *)
Definition merged_cc_of (g : gview) (s : ccstate) (al : list nat) : option (ccstate * comp) :=
  if existsb (fun a => nth_bool (in_cc s) a) al then None
  else
    let '(s', ids) :=
      fold_left (fun acc a =>
                   let '(s0, l) := acc in
                   if nth_bool (in_cc s0) a then acc
                   else let '(s1, c) := find_cc g s0 a in (s1, l ++ c))
                al (s, []) in
    match extract_cc g ids with
    | Some c => Some (s', c)
    | None => None
    end.

(* all components, in the order of iter_connected_components; None = panic *)
Fixpoint all_ccs_fuel (fuel : nat) (g : gview) (s : ccstate) : option (list comp) :=
  match fuel with
  | O => Some []
  | S f =>
      match next_cc g s with
      | None => Some []
      | Some (_, None) => None
      | Some (s', Some c) =>
          match all_ccs_fuel f g s' with
          | Some l => Some (c :: l)
          | None => None
          end
      end
  end.
Definition remaining_ccs (g : gview) (s : ccstate) : option (list comp) :=
  all_ccs_fuel (S (length (in_cc s))) g s.
Definition all_ccs (g : gview) : option (list comp) := remaining_ccs g (cc_new g).

(* position of an original id inside a component (cc_af.argument_set().get_argument(label)) *)
Definition cc_local (c : comp) (a : nat) : option nat := index_of (c_ids c) a.
Definition cc_global (c : comp) (i : nat) : nat := nth i (c_ids c) 0.
