(* Model of the decision logic of the two command-line tools between the parsed options and stdout:
   src/aa/problem.rs (problem strings), src/app/solve_command.rs (dispatch of the 21 problems to
   solver types, encoders, certificate handling, argument checks), src/app/problems_command.rs,
   src/io/{specs,iccma23_writer,aspartix_writer}.rs (the bytes written), src/io/*_reader.rs
   ([read_arg_from_str] only) and src/main_iccma23.rs ([translate_args_os_params]).
   NOT modelled: clap's tokenizer (only the plain `-o value` token form, [parse_tokens], as a
   convenience for the tie), the logger (stdout lines starting with `![` when logging is not off),
   file reading (the framework returned by the reader is an input: C13), help/authors/check paths.
   Bytes are [list N].  Definitions only.

   BYTES AND LABELS.  Everything that comes from the command line ([o_problem], [o_arg], the argv
   tokens) is the BYTE string of the OS argument, as the harness passes it (UTF-8 for text).  clap
   hands these to the command as `&str` (`value_of`), i.e. it UTF-8 decodes them and panics
   (status 101) on invalid UTF-8.  Labels of an Aspartix framework are Rust `String`s: the model
   keeps them, as the reader does (Model/Readers.v), as lists of Unicode code points ([str]).  So:
   - [apx_instance]: `Display` of a label is its UTF-8 encoding ([Writers.utf8_encode]); the `-a`
     operand is UTF-8 decoded ([Readers.utf8_decode]) and looked up by code points (String
     comparison); an operand that is not UTF-8 names no argument (Rust: panic in `value_of`;
     either way a non-zero exit without output);
   - [iccma_instance]: labels are numbers, printed in ASCII decimal; `usize::from_str` accepts only
     an optional `+` and ASCII digits, which are the same as bytes and as code points, and any
     byte >= 128 makes it fail, as any non-ASCII code point does: reading the bytes directly is exact;
   - problem strings and option values are compared with ASCII words only: a non-ASCII byte never
     matches, as a non-ASCII code point never does. *)
From Coq Require Import String Ascii NArith.
(* imported first, not exported: the names of Model.Solvers and of this file take precedence *)
From Crusta Require Import Model.Writers.
From Crusta Require Export Model.Solvers.
Open Scope prog_scope.

Definition bytes := list N.

Fixpoint B (s : string) : bytes :=
  match s with
  | EmptyString => []
  | String c r => N_of_ascii c :: B r
  end.
Arguments B s%string.
(* byte-string literals: [bs "abc"] elaborates to the list of the N codes itself, so that the
   extracted program does not depend on Coq's String/Ascii modules ([B] is for statements only) *)
Notation "'bs' s" := (ltac:(let v := eval vm_compute in (B s%string) in exact v))
  (at level 0, s at level 0, only parsing).


Fixpoint beqb (a b : bytes) : bool :=
  match a, b with
  | [], [] => true
  | x :: a', y :: b' => N.eqb x y && beqb a' b'
  | _, _ => false
  end.
Definition bmem (a : bytes) (l : list bytes) : bool := existsb (beqb a) l.

Definition nl : N := 10%N.
Definition space : N := 32%N.
Definition comma : N := 44%N.
Definition hyphen : N := 45%N.

(* ------------------------------------------------------------------ (a) problem strings *)
(* u8::to_ascii_lowercase / to_ascii_uppercase *)
Definition lower_byte (b : N) : N := if (N.leb 65 b && N.leb b 90)%bool then (b + 32)%N else b.
Definition upper_byte (b : N) : N := if (N.leb 97 b && N.leb b 122)%bool then (b - 32)%N else b.
Definition lower (w : bytes) : bytes := map lower_byte w.
Definition upper (w : bytes) : bytes := map upper_byte w.

(* declaration orders of the enums (strum EnumIter) *)
Definition all_sems : list sem := [GR; CO; PR; ST; SST; STG; ID].
Definition all_queries : list query := [QSE; QDC; QDS].
Definition sem_name (s : sem) : bytes :=
  match s with
  | GR => bs "GR" | CO => bs "CO" | PR => bs "PR" | ST => bs "ST"
  | SST => bs "SST" | STG => bs "STG" | ID => bs "ID"
  end.
Definition query_name (q : query) : bytes :=
  match q with QSE => bs "SE" | QDC => bs "DC" | QDS => bs "DS" end.
Definition problem_string (q : query) (s : sem) : bytes := query_name q ++ hyphen :: sem_name s.
(* Query::iter_problem_strings *)
Definition problems_21 : list bytes :=
  flat_map (fun s => map (fun q => problem_string q s) all_queries) all_sems.

(* str::find(sep) + the two slices around it *)
Fixpoint split_first (sep : N) (p : bytes) : option (bytes * bytes) :=
  match p with
  | [] => None
  | x :: r =>
      if N.eqb x sep then Some ([], r)
      else match split_first sep r with
           | Some (a, b) => Some (x :: a, b)
           | None => None
           end
  end.

(* TryFrom<&str> for Query / Semantics *)
Definition query_of_bytes (w : bytes) : option query :=
  let l := lower w in
  if beqb l (bs "se") then Some QSE
  else if beqb l (bs "dc") then Some QDC
  else if beqb l (bs "ds") then Some QDS
  else None.
Definition sem_of_bytes (w : bytes) : option sem :=
  let l := lower w in
  if beqb l (bs "gr") then Some GR
  else if beqb l (bs "co") then Some CO
  else if beqb l (bs "pr") then Some PR
  else if beqb l (bs "st") then Some ST
  else if beqb l (bs "sst") then Some SST
  else if beqb l (bs "stg") then Some STG
  else if beqb l (bs "id") then Some ID
  else None.

Inductive perr := PNoHyphen | PBadQuery | PBadSem.
(* Query::read_problem_string *)
Definition read_problem_string (p : bytes) : perr + (query * sem) :=
  match split_first hyphen p with
  | None => inl PNoHyphen
  | Some (a, b) =>
      match query_of_bytes a with
      | None => inl PBadQuery
      | Some q =>
          match sem_of_bytes b with
          | None => inl PBadSem
          | Some s => inr (q, s)
          end
      end
  end.
Definition accepted (p : bytes) : bool :=
  match read_problem_string p with inr _ => true | inl _ => false end.

(* ------------------------------------------------------------------ (b) dispatch of solve_command.rs *)
(* which solver type answers (query, semantics): compute_one_extension /
   check_credulous_acceptance / check_skeptical_acceptance *)
Definition solver_for (q : query) (s : sem) : sem :=
  match q, s with
  | QSE, CO => GR           (* SE-CO: the grounded extension *)
  | QDS, CO => GR           (* DS-CO: membership in the grounded extension *)
  | QDC, PR => CO           (* DC-PR: credulous acceptance under the complete semantics *)
  | _, _ => s
  end.

Inductive encoding_opt := EncAbsent | EncAuxVar | EncExp | EncHybrid.
(* create_encoder: [raw] is the problem string as typed (the comparison with "SE-PR" is exact) *)
Definition encoder_for (raw : bytes) (s : sem) (eo : encoding_opt) : enc :=
  let co_like := match eo with
                 | EncAbsent | EncAuxVar => AuxCo
                 | EncExp => ExpCo
                 | EncHybrid => HybCo
                 end in
  match s with
  | GR | ST => StDefault                       (* None: no encoder object is built *)
  | STG => match eo with EncAuxVar => AuxCf | EncAbsent | EncExp | EncHybrid => ExpCf end
  | PR => if beqb raw (bs "SE-PR")
          then match eo with
               | EncAbsent | EncAuxVar => AuxAdm
               | EncExp => ExpCo
               | EncHybrid => HybCo
               end
          else co_like
  | CO | SST | ID => co_like
  end.

(* ------------------------------------------------------------------ (c) instances and rendering *)
Inductive reader := RApx | RIccma23 | RIccma23Aba.
Inductive writer := WApx | WIccma.
Definition writer_of (r : reader) : writer := match r with RApx => WApx | _ => WIccma end.

(* what the command needs from the framework returned by the reader in use *)
Record instance := {
  i_g : gview;
  i_label : nat -> bytes;            (* Display of the label of the argument with this id *)
  i_arg : bytes -> option nat }.     (* InstanceReader::read_arg_from_str: id of the argument *)

(* Display for usize *)
Fixpoint dec_fuel (fuel : nat) (n : N) (acc : bytes) : bytes :=
  match fuel with
  | O => acc
  | S f =>
      let acc' := (48 + N.modulo n 10)%N :: acc in
      if N.eqb (N.div n 10) 0 then acc' else dec_fuel f (N.div n 10) acc'
  end.
Definition dec (n : N) : bytes := dec_fuel (S (N.to_nat (N.log2 n))) n [].

(* usize::from_str: optional '+', at least one digit, digits only, no overflow *)
Definition is_digit (d : N) : bool := (N.leb 48 d && N.leb d 57)%bool.
Fixpoint digits_value (l : bytes) (acc : N) : option N :=
  match l with
  | [] => Some acc
  | d :: r => if is_digit d then digits_value r (acc * 10 + (d - 48))%N else None
  end.
Definition usize_limit : N := 18446744073709551616%N.   (* 2^64 *)
Definition parse_usize (a : bytes) : option N :=
  let digits := match a with
                | x :: r => if N.eqb x 43 then r else a
                | [] => []
                end in
  match digits with
  | [] => None
  | _ => match digits_value digits 0%N with
         | Some v => if N.ltb v usize_limit then Some v else None
         | None => None
         end
  end.

Definition label_of {L} (f : fw L) (id : nat) : option L :=
  match find (fun p => Nat.eqb (fst p) id) (iter_args L f) with
  | Some p => Some (snd p)
  | None => None
  end.

(* Iccma23Reader: labels are the numbers 1..n, argument "k" is the one with id k-1 *)
Definition iccma_instance (f : fw nat) : instance :=
  {| i_g := view_of_fw f;
     i_label := fun id => match label_of f id with Some l => dec (N.of_nat l) | None => [] end;
     i_arg := fun a =>
       match parse_usize a with
       | Some v => if (N.ltb 0 v && N.leb v (N.of_nat (n_arguments nat f)))%bool
                   then Some (N.to_nat v - 1) else None
       | None => None
       end |}.
(* AspartixReader: labels are the identifiers of the file (Strings = code points): printed in
   UTF-8; the operand of -a is UTF-8 decoded, then looked up *)
Definition apx_instance (f : fw str) : instance :=
  {| i_g := view_of_fw f;
     i_label := fun id => match label_of f id with Some l => utf8_encode l | None => [] end;
     i_arg := fun a => match utf8_decode a with
                       | Some s => get_argument str str_eqb f s
                       | None => None
                       end |}.

(* specs::write_acceptance_status / write_no_extension *)
Definition status_line (b : bool) : bytes := (if b then bs "YES" else bs "NO") ++ [nl].
Definition no_extension_line : bytes := bs "NO" ++ [nl].
(* Iccma23Writer / AspartixWriter :: write_single_extension *)
Definition witness_line (w : writer) (label : nat -> bytes) (e : list nat) : bytes :=
  match w with
  | WIccma => 119%N :: flat_map (fun a => space :: label a) e ++ [nl]
  | WApx =>
      91%N :: match e with
              | [] => []
              | a :: r => label a ++ flat_map (fun b => comma :: label b) r
              end ++ [93%N; nl]
  end.
Definition render (w : writer) (label : nat -> bytes) (o : outcome) : bytes :=
  match o with
  | OExt (Some e) => witness_line w label e
  | OExt None => no_extension_line
  | OAcc b None => status_line b
  | OAcc b (Some c) => status_line b ++ witness_line w label c
  end.

(* problems_command.rs *)
Definition problems_line : bytes :=
  91%N :: match problems_21 with
          | [] => []
          | a :: r => a ++ flat_map (fun b => comma :: b) r
          end ++ [93%N; nl].

(* ------------------------------------------------------------------ the solve command *)
Record options := {
  o_reader : reader;
  o_problem : bytes;
  o_arg : option bytes;
  o_cert : bool;
  o_encoding : encoding_opt;
  o_logging_off : bool }.   (* not used by [run]: log lines are outside the model *)

Inductive cli_result :=
| Exit0 (out : bytes)       (* status 0, these bytes on stdout (log lines apart) *)
| ExitNonZero               (* status 1 (error reported) or 101 (panic); nothing written by the writers *)
| ModelOutOfFuel.           (* artefact of the fuelled loops of Model.Solvers, no Rust counterpart *)

Inductive uerr := UReaderAba | UFile | UArg | UProblem (e : perr) | UMissingArg.

(* execute / execute_with_reader_and_writer up to the construction of the solver, in the order of
   the code: reader, file, -a, problem string, presence of -a *)
Definition validate (o : options) (inst : option instance)
  : uerr + (instance * query * sem * list nat) :=
  match o_reader o with
  | RIccma23Aba => inl UReaderAba                (* unreachable!(): panic *)
  | RApx | RIccma23 =>
      match inst with
      | None => inl UFile
      | Some i =>
          let go (arg : option nat) :=
            match read_problem_string (o_problem o) with
            | inl e => inl (UProblem e)
            | inr (q, s) =>
                match q, arg with
                | QSE, _ => inr (i, q, s, [])             (* -a, if any, is ignored (warning) *)
                | _, Some a => inr (i, q, s, [a])
                | _, None => inl UMissingArg
                end
            end in
          match o_arg o with
          | None => go None
          | Some a => match i_arg i a with
                      | None => inl UArg
                      | Some id => go (Some id)
                      end
          end
      end
  end.

Section WithOracle.
Variable oracle : nat -> cnf -> list lit -> answer.
Variable thr : nat.
Variable d : discipline.
Variable fuel : nat.

Definition query_prog (o : options) (i : instance) (q : query) (s : sem) (al : list nat) : Prog.M outcome :=
  run_query oracle thr fuel (solver_for q s) q (o_cert o)
            (encoder_for (o_problem o) s (o_encoding o)) (i_g i) al.

(* result and SAT log of the command; the bytes are built after the query returned *)
Definition run_traced (o : options) (inst : option instance) : cli_result * list (nat * event) :=
  match validate o inst with
  | inl _ => (ExitNonZero, [])
  | inr (i, q, s, al) =>
      let r := Prog.run d (query_prog o i q s al) in
      (match r with
       | Done out _ => Exit0 (render (writer_of (o_reader o)) (i_label i) out)
       | Abort _ => ExitNonZero          (* unwrap_model on Unknown: panic *)
       | Panic _ => ExitNonZero
       | OutOfFuel _ => ModelOutOfFuel
       end, log_of r)
  end.
Definition run (o : options) (inst : option instance) : cli_result := fst (run_traced o inst).

End WithOracle.

(* with a recorded / given answer script *)
Definition run_script (script : list answer) thr d fuel o inst : cli_result :=
  run (script_oracle script) thr d fuel o inst.

(* ------------------------------------------------------------------ (d) argv *)
(* main_iccma23.rs: translate_args_os_params (tokens after the program name) *)
Definition common_args : list bytes := [bs "--logging-level"; bs "off"].
Definition is_problems_only (real : list bytes) : bool :=
  match real with [t] => beqb t (bs "--problems") | _ => false end.
Definition wrapper_argv (real : list bytes) : list bytes :=
  match real with
  | [] => bs "authors" :: common_args
  | _ => if is_problems_only real then bs "problems" :: common_args
         else bs "solve" :: real ++ common_args ++ [bs "--with-certificate"; bs "--reader"; bs "iccma23"]
  end.

(* The plain token form of clap's grammar for the `solve` subcommand ([full] = true) and for the
   wrapper's pre-validation app ([full] = false: -f, -p, -a only): every option is its own token,
   followed by its value token.  Anything else is rejected; `=` forms, grouped short flags, `--`,
   help flags and the external-solver options are OUTSIDE this model (clap is trusted). *)
Record popts := {
  p_f : option bytes; p_p : option bytes; p_a : option bytes; p_r : option bytes;
  p_enc : option bytes; p_log : option bytes; p_c : bool }.
Definition popts_empty : popts :=
  {| p_f := None; p_p := None; p_a := None; p_r := None; p_enc := None; p_log := None; p_c := false |}.

Inductive optkey := KF | KP | KA | KR | KEnc | KLog.
Definition key_of (full : bool) (t : bytes) : option optkey :=
  if beqb t (bs "-f") then Some KF
  else if beqb t (bs "-p") then Some KP
  else if beqb t (bs "-a") then Some KA
  else if negb full then None
  else if beqb t (bs "-r") || beqb t (bs "--reader") then Some KR
  else if beqb t (bs "--encoding") then Some KEnc
  else if beqb t (bs "--logging-level") then Some KLog
  else None.
Definition get_key (k : optkey) (p : popts) : option bytes :=
  match k with KF => p_f p | KP => p_p p | KA => p_a p | KR => p_r p | KEnc => p_enc p | KLog => p_log p end.
Definition set_key (k : optkey) (v : bytes) (p : popts) : popts :=
  match k with
  | KF => {| p_f := Some v; p_p := p_p p; p_a := p_a p; p_r := p_r p; p_enc := p_enc p; p_log := p_log p; p_c := p_c p |}
  | KP => {| p_f := p_f p; p_p := Some v; p_a := p_a p; p_r := p_r p; p_enc := p_enc p; p_log := p_log p; p_c := p_c p |}
  | KA => {| p_f := p_f p; p_p := p_p p; p_a := Some v; p_r := p_r p; p_enc := p_enc p; p_log := p_log p; p_c := p_c p |}
  | KR => {| p_f := p_f p; p_p := p_p p; p_a := p_a p; p_r := Some v; p_enc := p_enc p; p_log := p_log p; p_c := p_c p |}
  | KEnc => {| p_f := p_f p; p_p := p_p p; p_a := p_a p; p_r := p_r p; p_enc := Some v; p_log := p_log p; p_c := p_c p |}
  | KLog => {| p_f := p_f p; p_p := p_p p; p_a := p_a p; p_r := p_r p; p_enc := p_enc p; p_log := Some v; p_c := p_c p |}
  end.
Definition set_c (p : popts) : popts :=
  {| p_f := p_f p; p_p := p_p p; p_a := p_a p; p_r := p_r p; p_enc := p_enc p; p_log := p_log p; p_c := true |}.

Definition readers_possible : list bytes := [bs "apx"; bs "iccma23"; bs "iccma23_aba"].
Definition encodings_possible : list bytes := [bs "aux_var"; bs "exp"; bs "hybrid"].
Definition levels_possible : list bytes := [bs "trace"; bs "debug"; bs "info"; bs "warn"; bs "error"; bs "off"].
Definition value_ok (k : optkey) (v : bytes) : bool :=
  match v with
  | [] => false                                   (* empty_values(false) / not a possible value *)
  | x :: _ =>
      negb (N.eqb x hyphen) &&                    (* a token starting with `-` is not taken as a value *)
      match k with
      | KF | KP | KA => true
      | KR => bmem v readers_possible
      | KEnc => bmem v encodings_possible
      | KLog => bmem v levels_possible
      end
  end.

Fixpoint parse_tokens (full : bool) (ts : list bytes) (p : popts) : option popts :=
  match ts with
  | [] => match p_f p, p_p p with Some _, Some _ => Some p | _, _ => None end   (* required(true) *)
  | t :: r =>
      match key_of full t with
      | Some k =>
          match r with
          | v :: r' =>
              match get_key k p with
              | Some _ => None                                        (* multiple(false) *)
              | None => if value_ok k v then parse_tokens full r' (set_key k v p) else None
              end
          | [] => None                                                (* requires a value *)
          end
      | None =>
          if full && (beqb t (bs "-c") || beqb t (bs "--with-certificate"))
          then (if p_c p then None else parse_tokens full r (set_c p))
          else None                                                   (* unknown flag / stray operand *)
      end
  end.

Definition reader_of_bytes (v : bytes) : reader :=
  if beqb v (bs "apx") then RApx else if beqb v (bs "iccma23") then RIccma23 else RIccma23Aba.
Definition encoding_of_bytes (v : option bytes) : encoding_opt :=
  match v with
  | None => EncAbsent
  | Some v => if beqb v (bs "aux_var") then EncAuxVar else if beqb v (bs "exp") then EncExp else EncHybrid
  end.
Definition options_of (p : popts) : option (options * bytes) :=
  match p_f p, p_p p with
  | Some f, Some pr =>
      Some ({| o_reader := match p_r p with Some v => reader_of_bytes v | None => RIccma23 end;
               o_problem := pr; o_arg := p_a p; o_cert := p_c p;
               o_encoding := encoding_of_bytes (p_enc p);
               o_logging_off := match p_log p with Some v => beqb v (bs "off") | None => false end |}, f)
  | _, _ => None
  end.

Inductive cmd :=
| CSolve (o : options) (file : bytes)
| CProblems
| CReject               (* usage error: status 1, no answer *)
| CUnmodelled.          (* authors, check, help: outside the model *)

Definition only_logging (ts : list bytes) : bool :=
  match ts with
  | [] => true
  | [a; v] => beqb a (bs "--logging-level") && bmem v levels_possible
  | _ => false
  end.
Definition parse_main (argv : list bytes) : cmd :=
  match argv with
  | [] => CReject                                            (* SubcommandRequired *)
  | t :: rest =>
      if beqb t (bs "solve") then
        match parse_tokens true rest popts_empty with
        | Some p => match options_of p with Some (o, f) => CSolve o f | None => CReject end
        | None => CReject
        end
      else if beqb t (bs "problems") then (if only_logging rest then CProblems else CReject)
      else if bmem t [bs "authors"; bs "check"; bs "help"; bs "-h"; bs "--help"] then CUnmodelled
      else CReject
  end.
(* the wrapper: pre-validation by its own clap app, then the translated argv *)
Definition parse_wrapper (real : list bytes) : cmd :=
  match real with
  | [] => parse_main (wrapper_argv real)
  | _ =>
      if is_problems_only real then parse_main (wrapper_argv real)
      else match parse_tokens false real popts_empty with
           | Some _ => parse_main (wrapper_argv real)
           | None => CReject
           end
  end.

(* one tool run: [inst] is what the reader selected by the options returns for the -f operand *)
Definition exec (oracle : nat -> cnf -> list lit -> answer) thr d fuel (c : cmd) (inst : option instance)
  : option cli_result :=
  match c with
  | CSolve o _ => Some (run oracle thr d fuel o inst)
  | CProblems => Some (Exit0 problems_line)
  | CReject => Some ExitNonZero
  | CUnmodelled => None
  end.

(* ------------------------------------------------------------------ reading an answer back *)
Fixpoint split_on (sep : N) (l : bytes) : list bytes :=
  match l with
  | [] => [[]]
  | x :: r =>
      if N.eqb x sep then [] :: split_on sep r
      else match split_on sep r with
           | h :: t => (x :: h) :: t
           | [] => [[x]]
           end
  end.
Fixpoint strip_last (l : bytes) : option (bytes * N) :=
  match l with
  | [] => None
  | x :: r => match r with
              | [] => Some ([], x)
              | _ => match strip_last r with
                     | Some (i, z) => Some (x :: i, z)
                     | None => None
                     end
              end
  end.
Fixpoint map_opt {A C} (f : A -> option C) (l : list A) : option (list C) :=
  match l with
  | [] => Some []
  | x :: r => match f x, map_opt f r with
              | Some y, Some ys => Some (y :: ys)
              | _, _ => None
              end
  end.
(* the witness line without its terminator *)
Definition parse_witness (w : writer) (un : bytes -> option nat) (line : bytes) : option (list nat) :=
  match w, line with
  | WIccma, x :: rest =>
      if N.eqb x 119 then
        match rest with
        | [] => Some []
        | y :: r => if N.eqb y space then map_opt un (split_on space r) else None
        end
      else None
  | WApx, x :: rest =>
      if N.eqb x 91 then
        match strip_last rest with
        | Some (inner, z) =>
            if N.eqb z 93 then
              match inner with
              | [] => Some []
              | _ => map_opt un (split_on comma inner)
              end
            else None
        | None => None
        end
      else None
  | _, [] => None
  end.
Definition status_of_line (l : bytes) : option bool :=
  if beqb l (bs "YES") then Some true else if beqb l (bs "NO") then Some false else None.
(* the whole stdout of a query of kind [q] *)
Definition parse_answer (w : writer) (un : bytes -> option nat) (q : query) (out : bytes) : option outcome :=
  match split_first nl out with
  | None => None
  | Some (l1, rest) =>
      match q with
      | QSE =>
          match rest with
          | [] => if beqb l1 (bs "NO") then Some (OExt None)
                  else match parse_witness w un l1 with
                       | Some e => Some (OExt (Some e))
                       | None => None
                       end
          | _ => None
          end
      | QDC | QDS =>
          match status_of_line l1 with
          | None => None
          | Some b =>
              match rest with
              | [] => Some (OAcc b None)
              | _ => match split_first nl rest with
                     | Some (l2, []) =>
                         match parse_witness w un l2 with
                         | Some e => Some (OAcc b (Some e))
                         | None => None
                         end
                     | _ => None
                     end
              end
          end
      end
  end.
