(* Specification-level definitions used by the statements of C15 and C16: what a history of calls
   on a SAT solver object declares, the incremental solving contract, correctness of a solving
   function, and the vocabulary of the statements about replies.  Definitions only. *)
From Crusta Require Export Sat.Cnf Sat.Dimacs Sat.Dpll Model.SatObjects.

Definition op_vars (o : sop) : nat :=
  match o with OAdd c => clause_max c | OReserve n => n | OSolve a => clause_max a | ONVars => 0 end.
(* the declared variable count: largest variable in a clause, an assumption list or a reserve *)
Fixpoint hist_nvars (ops : list sop) : nat :=
  match ops with [] => 0 | o :: r => Nat.max (op_vars o) (hist_nvars r) end.
(* without the reservations: what the backend of CadicalSolver has seen *)
Definition op_seen (o : sop) : nat := match o with OReserve _ => 0 | _ => op_vars o end.
Fixpoint hist_seen (ops : list sop) : nat :=
  match ops with [] => 0 | o :: r => Nat.max (op_seen o) (hist_seen r) end.
Definition op_res (o : sop) : nat := match o with OReserve n => n | _ => 0 end.
Fixpoint hist_res (ops : list sop) : nat :=
  match ops with [] => 0 | o :: r => Nat.max (op_res o) (hist_res r) end.

Definition op_ok (o : sop) : bool :=
  match o with OAdd c => clause_ok c | OSolve a => clause_ok a | _ => true end.
Definition hist_ok (ops : list sop) : bool := forallb op_ok ops.


(* the formula of a solve call *)
Definition query (done : list sop) (a : list lit) : cnf := clauses_of done ++ units a.


(* what the statement of C15 requires of the observation of one call, given the calls before it *)
Definition contract_ok (done : list sop) (o : sop) (ob : sobs) : Prop :=
  match o with
  | OAdd _ | OReserve _ => ob = ObsUnit
  | ONVars => ob = ObsNum (hist_nvars done)
  | OSolve a =>
      match ob with
      | ObsAns (Sat m) => models m (query done a) = true /\ length m = hist_nvars (done ++ [o])
      | ObsAns Unsat => forall m, models m (query done a) = false
      | ObsAns Unknown => True
      | _ => False
      end
  end.
Fixpoint all_ok (done ops : list sop) (obs : list sobs) : Prop :=
  match ops, obs with
  | [], [] => True
  | o :: r, ob :: robs => contract_ok done o ob /\ all_ok (done ++ [o]) r robs
  | _, _ => False
  end.
(* every solve call is decided *)
Definition decided (ob : sobs) : Prop := match ob with ObsAns Unknown | ObsPanic => False | _ => True end.

(* a solving function that is correct on well-formed instances *)
Definition solver_correct (fn : bytes -> bytes) : Prop :=
  forall nv f, cnf_ok f = true -> cnf_max f <= nv -> (Z.of_nat nv <= isize_max)%Z ->
  match reply_parse nv (fn (print_instance nv f)) with
  | RSat m => models m f = true /\ length m = nv
  | RUnsat => forall m, models m f = false
  | RUnknown => True
  | RPanic => False
  end.

Definition small (ops : list sop) : Prop := (Z.of_nat (hist_nvars ops) <= isize_max)%Z.


(* the value lines without the terminating 0 (cut at a word boundary, for every split) *)
Fixpoint render_v_cut (lay : layout) (ls : list lit) : bytes :=
  match lay with
  | [] => v_line ls false
  | (fs, k) :: r => render_fill fs ++ v_line (firstn k ls) false ++ render_v_cut r (skipn k ls)
  end.


Definition lines_of (out : bytes) : list bytes := map rust_line (raw_lines out).
(* some value line carries a word that reads as 0 *)
Definition has_terminator (ls : list bytes) : Prop :=
  exists ln tok, In ln ls /\ prefixb b_v_sp ln = true /\ In tok (tl (tokens ln)) /\ parse_isize tok = Some 0%Z.

