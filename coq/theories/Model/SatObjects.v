(* State machines of crustabri's SAT solver objects (src/sat/):
     [CadicalSolver]      wrapper logic only; CaDiCaL's answer is an oracle parameter ([backend]);
     [BufferedSatSolver]  accumulated DIMACS text, n_vars, n_clauses; the solving function
                          (bytes -> bytes, e.g. a child process) is a parameter;
     [ExternalSatSolver]  = BufferedSatSolver with [exec_solver] as solving function.
   Definitions only. *)
From Crusta Require Export Sat.Cnf Sat.Dimacs Sat.Dpll.

(* one step of a history of calls on a SatSolver object *)
Inductive sop :=
| OAdd (c : clause)            (* add_clause *)
| OReserve (n : nat)           (* reserve *)
| OSolve (a : list lit)        (* solve_under_assumptions (solve = OSolve []) *)
| ONVars.                      (* n_vars *)

(* what a call returns *)
Inductive sobs :=
| ObsUnit
| ObsNum (n : nat)
| ObsAns (r : answer)
| ObsPanic.

(* ------------------------------------------------------------------ CadicalSolver *)
(* the backend: given the clauses forwarded so far (in order), the assumptions of this call and
   max_variable() after the call, CaDiCaL's verdict and its value(i) function *)
Inductive banswer := BSat (value : nat -> option bool) | BUnsat | BUnknown.
Definition backend := cnf -> list lit -> nat -> banswer.

Record cstate := { cclauses : cnf;      (* forwarded to the backend, most recent first *)
                   cmaxvar : nat;       (* solver.max_variable(): clauses and assumptions seen *)
                   creserved : nat }.   (* max_reserved *)
Definition cad_new : cstate := {| cclauses := []; cmaxvar := 0; creserved := 0 |}.
Definition cad_n_vars (s : cstate) : nat := Nat.max (cmaxvar s) (creserved s).

Definition cad_step (bk : backend) (s : cstate) (o : sop) : cstate * sobs :=
  match o with
  | OAdd c => ({| cclauses := c :: cclauses s; cmaxvar := Nat.max (cmaxvar s) (clause_max c);
                  creserved := creserved s |}, ObsUnit)
  | OReserve n => ({| cclauses := cclauses s; cmaxvar := cmaxvar s;
                      creserved := Nat.max (creserved s) n |}, ObsUnit)
  | ONVars => (s, ObsNum (cad_n_vars s))
  | OSolve a =>
      let mv := Nat.max (cmaxvar s) (clause_max a) in
      let s' := {| cclauses := cclauses s; cmaxvar := mv; creserved := creserved s |} in
      match bk (rev (cclauses s)) a mv with
      | BSat value => (s', ObsAns (Sat (map value (seq 1 mv) ++ repeat None (creserved s - mv))))
      | BUnsat => (s', ObsAns Unsat)
      | BUnknown => (s', ObsAns Unknown)
      end
  end.

(* ------------------------------------------------------------------ BufferedSatSolver *)
Record bstate := { btext : bytes;       (* self.clauses *)
                   bnvars : nat;
                   bnclauses : nat }.
Definition buf_new : bstate := {| btext := []; bnvars := 0; bnclauses := 0 |}.

(* the bytes handed to the solving function by solve_under_assumptions *)
Definition buf_instance (s : bstate) (a : list lit) : bytes :=
  print_preamble (Nat.max (bnvars s) (clause_max a)) (bnclauses s + length a)
  ++ btext s ++ concat (map print_assumption a).

Definition obs_of_reply (r : reply) : sobs :=
  match r with
  | RSat m => ObsAns (Sat m)
  | RUnsat => ObsAns Unsat
  | RUnknown => ObsAns Unknown
  | RPanic => ObsPanic
  end.

Definition buf_step (solving : bytes -> bytes) (s : bstate) (o : sop) : bstate * sobs :=
  match o with
  | OAdd c => ({| btext := btext s ++ print_clause c; bnvars := Nat.max (bnvars s) (clause_max c);
                  bnclauses := S (bnclauses s) |}, ObsUnit)
  | OReserve n => ({| btext := btext s; bnvars := Nat.max (bnvars s) n;
                      bnclauses := bnclauses s |}, ObsUnit)
  | ONVars => (s, ObsNum (bnvars s))
  | OSolve a =>
      let nv := Nat.max (bnvars s) (clause_max a) in
      ({| btext := btext s; bnvars := nv; bnclauses := bnclauses s |},
       obs_of_reply (reply_parse nv (solving (buf_instance s a))))
  end.

(* ------------------------------------------------------------------ histories *)
Fixpoint run_obj {St} (step : St -> sop -> St * sobs) (s : St) (ops : list sop) : St * list sobs :=
  match ops with
  | [] => (s, [])
  | o :: r => let (s1, ob) := step s o in
              let (s2, obs) := run_obj step s1 r in (s2, ob :: obs)
  end.

(* the clauses added by a history, in order *)
Fixpoint clauses_of (ops : list sop) : cnf :=
  match ops with
  | [] => []
  | OAdd c :: r => c :: clauses_of r
  | _ :: r => clauses_of r
  end.

(* ------------------------------------------------------------------ the reference solver as
   backend / solving function *)
Definition dpll_backend : backend := fun f a mv =>
  match solve_n mv f a with
  | Some m => BSat (fun i => nth (i - 1) m None)
  | None => BUnsat
  end.

(* vdpll: strict parse, solve, print; an ill-formed instance gets a comment and no status line *)
Definition vdpll_fn (inst : bytes) : bytes :=
  match parse_instance inst with
  | Some (nv, cls) => print_reply (solve_n nv cls [])
  | None => b_error ++ [10%N]
  end.

Definition verdict_of (o : sobs) : option bool :=
  match o with
  | ObsAns (Sat _) => Some true
  | ObsAns Unsat => Some false
  | _ => None
  end.
