(* Spec layer: the boolean (brute-force) deciders of Spec/AF.v decide the Prop-level
   semantics.  Depends only on Spec/AF.v.  No hypothesis on the framework is needed:
   every semantics demands [incl S (args F)] itself, and the universally quantified
   competitors in gr/pr/sst/stg/idl are cfs/adm/co sets, hence included in [args F],
   hence represented (up to set equality) by [canon (args F) S'] in the powerset. *)
From Coq Require Import List Arith Bool Lia Setoid.
From Crusta Require Import Spec.AF.
Import ListNotations.

(* ------------------------------------------------------------------ *)
(** * Small boolean facts *)

Lemma implb_iff : forall a b : bool, implb a b = true <-> (a = true -> b = true).
Proof.
  intros a b. destruct a, b; cbn [implb]; split; intros H;
    try reflexivity; try discriminate; try (apply H; reflexivity).
Qed.

Lemma bool_eq_iff : forall a b : bool, (a = true <-> b = true) -> a = b.
Proof.
  intros a b [H1 H2]. destruct a, b; try reflexivity.
  - symmetry. apply H1. reflexivity.
  - apply H2. reflexivity.
Qed.

Lemma forallb_filter : forall (A : Type) (f g : A -> bool) (l : list A),
  forallb f (filter g l) = forallb (fun x => implb (g x) (f x)) l.
Proof.
  intros A f g l. induction l as [|x r IH]; [reflexivity|].
  cbn [filter forallb]. destruct (g x) eqn:E; cbn [forallb implb]; rewrite IH; reflexivity.
Qed.

(* ------------------------------------------------------------------ *)
(** * Membership, inclusion, attacks *)

Lemma memb_In : forall a S, memb a S = true <-> In a S.
Proof.
  intros a S. unfold memb. rewrite existsb_exists. split.
  - intros [x [Hx E]]. apply Nat.eqb_eq in E. subst x. exact Hx.
  - intros H. exists a. split; [exact H | apply Nat.eqb_refl].
Qed.

Lemma memb_false : forall a S, memb a S = false <-> ~ In a S.
Proof.
  intros a S. split.
  - intros E H. apply memb_In in H. congruence.
  - intros H. destruct (memb a S) eqn:E; [|reflexivity].
    exfalso. apply H. apply memb_In. exact E.
Qed.

Lemma subsetb_incl : forall S T, subsetb S T = true <-> incl S T.
Proof.
  intros S T. unfold subsetb, incl. rewrite forallb_forall. split.
  - intros H a Ha. apply (proj1 (memb_In a T)). apply H. exact Ha.
  - intros H a Ha. apply (proj2 (memb_In a T)). apply H. exact Ha.
Qed.

Lemma attb_att : forall F a b, attb F a b = true <-> att F a b.
Proof.
  intros F a b. unfold attb, att. rewrite existsb_exists. split.
  - intros [[x y] [Hx E]]. cbn [fst snd] in E. apply andb_true_iff in E.
    destruct E as [E1 E2]. apply Nat.eqb_eq in E1. apply Nat.eqb_eq in E2.
    subst x y. exact Hx.
  - intros H. exists (a, b). split; [exact H|]. cbn [fst snd].
    rewrite !Nat.eqb_refl. reflexivity.
Qed.

Lemma in_attackers : forall F a b, In b (attackers F a) <-> att F b a.
Proof.
  intros F a b. unfold attackers, att. rewrite in_map_iff. split.
  - intros [[x y] [E H]]. apply filter_In in H. destruct H as [H E2].
    cbn [fst snd] in E, E2. apply Nat.eqb_eq in E2. subst x y. exact H.
  - intros H. exists (b, a). split; [reflexivity|]. apply filter_In.
    split; [exact H|]. cbn [fst snd]. apply Nat.eqb_refl.
Qed.

Lemma in_attacked : forall F a b, In b (attacked F a) <-> att F a b.
Proof.
  intros F a b. unfold attacked, att. rewrite in_map_iff. split.
  - intros [[x y] [E H]]. apply filter_In in H. destruct H as [H E2].
    cbn [fst snd] in E, E2. apply Nat.eqb_eq in E2. subst x y. exact H.
  - intros H. exists (a, b). split; [reflexivity|]. apply filter_In.
    split; [exact H|]. cbn [fst snd]. apply Nat.eqb_refl.
Qed.

(* ------------------------------------------------------------------ *)
(** * The local (non-quantified) deciders *)

Lemma cfb_cf : forall F S, cfb F S = true <-> cf F S.
Proof.
  intros F S. unfold cfb, cf. rewrite forallb_forall. split.
  - intros H a b Ha Hb Hatt. specialize (H a Ha). rewrite forallb_forall in H.
    specialize (H b Hb). apply negb_true_iff in H. apply attb_att in Hatt. congruence.
  - intros H a Ha. apply forallb_forall. intros b Hb. apply negb_true_iff.
    destruct (attb F a b) eqn:E; [|reflexivity].
    apply attb_att in E. exfalso. exact (H a b Ha Hb E).
Qed.

Lemma attacked_byb_spec : forall F S a,
  attacked_byb F S a = true <-> exists b, In b S /\ att F b a.
Proof.
  intros F S a. unfold attacked_byb. rewrite existsb_exists. split.
  - intros [b [Hb Hm]]. exists b. split.
    + apply (proj1 (memb_In b S)). exact Hm.
    + apply (proj1 (in_attackers F a b)). exact Hb.
  - intros [b [Hb Hatt]]. exists b. split.
    + apply (proj2 (in_attackers F a b)). exact Hatt.
    + apply (proj2 (memb_In b S)). exact Hb.
Qed.

Lemma defendsb_defends : forall F S a, defendsb F S a = true <-> defends F S a.
Proof.
  intros F S a. unfold defendsb, defends. rewrite forallb_forall. split.
  - intros H b Hb. apply (proj1 (attacked_byb_spec F S b)). apply H.
    apply (proj2 (in_attackers F a b)). exact Hb.
  - intros H b Hb. apply (proj2 (attacked_byb_spec F S b)). apply H.
    apply (proj1 (in_attackers F a b)). exact Hb.
Qed.

Lemma cfsb_cfs : forall F S, cfsb F S = true <-> cfs F S.
Proof.
  intros F S. unfold cfsb, cfs. rewrite andb_true_iff, subsetb_incl, cfb_cf. reflexivity.
Qed.

Lemma admb_adm : forall F S, admb F S = true <-> adm F S.
Proof.
  intros F S. unfold admb, adm.
  rewrite !andb_true_iff, subsetb_incl, cfb_cf, forallb_forall. split.
  - intros [[Hi Hc] Hd]. split; [exact Hi|]. split; [exact Hc|].
    intros a Ha. apply (proj1 (defendsb_defends F S a)). apply Hd. exact Ha.
  - intros [Hi [Hc Hd]]. split; [split; [exact Hi | exact Hc]|].
    intros a Ha. apply (proj2 (defendsb_defends F S a)). apply Hd. exact Ha.
Qed.

Lemma cob_co : forall F S, cob F S = true <-> co F S.
Proof.
  intros F S. unfold cob, co. rewrite andb_true_iff, admb_adm, forallb_forall. split.
  - intros [Ha Hc]. split; [exact Ha|]. intros a Hin Hd.
    specialize (Hc a Hin). rewrite implb_iff in Hc.
    apply (proj1 (memb_In a S)). apply Hc. apply (proj2 (defendsb_defends F S a)). exact Hd.
  - intros [Ha Hc]. split; [exact Ha|]. intros a Hin. apply implb_iff. intros Hd.
    apply (proj2 (memb_In a S)). apply Hc; [exact Hin|].
    apply (proj1 (defendsb_defends F S a)). exact Hd.
Qed.

Lemma stb_st : forall F S, stb F S = true <-> st F S.
Proof.
  intros F S. unfold stb, st.
  rewrite !andb_true_iff, subsetb_incl, cfb_cf, forallb_forall. split.
  - intros [[Hi Hc] Hs]. split; [exact Hi|]. split; [exact Hc|].
    intros a Hin Hn. specialize (Hs a Hin). apply orb_true_iff in Hs.
    destruct Hs as [Hs|Hs].
    + exfalso. apply Hn. apply memb_In. exact Hs.
    + apply (proj1 (attacked_byb_spec F S a)). exact Hs.
  - intros [Hi [Hc Hs]]. split; [split; [exact Hi | exact Hc]|].
    intros a Hin. apply orb_true_iff. destruct (memb a S) eqn:E; [left; reflexivity|].
    right. apply (proj2 (attacked_byb_spec F S a)). apply Hs; [exact Hin|].
    apply memb_false. exact E.
Qed.

Lemma in_rangeb_spec : forall F S a, in_rangeb F S a = true <-> in_range F S a.
Proof.
  intros F S a. unfold in_rangeb, in_range.
  rewrite orb_true_iff, memb_In, attacked_byb_spec. reflexivity.
Qed.

Lemma range_inclb_spec : forall F S S',
  range_inclb F S S' = true <-> range_incl F S S'.
Proof.
  intros F S S'. unfold range_inclb, range_incl. rewrite forallb_forall. split.
  - intros H a Hin Hr. specialize (H a Hin). rewrite implb_iff in H.
    apply (proj1 (in_rangeb_spec F S' a)). apply H.
    apply (proj2 (in_rangeb_spec F S a)). exact Hr.
  - intros H a Hin. apply implb_iff. intros Hr.
    apply (proj2 (in_rangeb_spec F S' a)). apply H; [exact Hin|].
    apply (proj1 (in_rangeb_spec F S a)). exact Hr.
Qed.

(* ------------------------------------------------------------------ *)
(** * Powerset *)

Definition canon (l S : list nat) : list nat := filter (fun a => memb a S) l.

Lemma canon_in_powerset : forall l S, In (canon l S) (powerset l).
Proof.
  intros l S. induction l as [|x r IH].
  - left. reflexivity.
  - unfold canon in *. cbn [filter powerset]. cbv zeta.
    apply in_or_app. destruct (memb x S) eqn:E.
    + right. apply in_map. exact IH.
    + left. exact IH.
Qed.

Lemma in_canon : forall l S a, In a (canon l S) <-> In a l /\ In a S.
Proof.
  intros l S a. unfold canon. rewrite filter_In, memb_In. reflexivity.
Qed.

Lemma canon_equiv : forall l S, incl S l -> (forall a, In a (canon l S) <-> In a S).
Proof.
  intros l S Hi a. rewrite in_canon. split.
  - intros [_ H]. exact H.
  - intros H. split; [apply Hi; exact H | exact H].
Qed.

Lemma powerset_incl : forall l S, In S (powerset l) -> incl S l.
Proof.
  induction l as [|x r IH]; intros S H.
  - cbn [powerset] in H. destruct H as [H|[]]. subst S. intros a [].
  - cbn [powerset] in H. cbv zeta in H. apply in_app_or in H. destruct H as [H|H].
    + apply incl_tl. apply IH. exact H.
    + apply in_map_iff in H. destruct H as [T [E HT]]. subst S.
      apply IH in HT. intros a [Ha|Ha]; [left; exact Ha | right; apply HT; exact Ha].
Qed.

Lemma NoDup_app_intro : forall (A : Type) (l1 l2 : list A),
  NoDup l1 -> NoDup l2 -> (forall x, In x l1 -> In x l2 -> False) -> NoDup (l1 ++ l2).
Proof.
  intros A l1 l2 H1 H2 Hd. induction l1 as [|x r IH]; [exact H2|].
  inversion H1 as [|? ? Hx Hr]; subst. cbn [app]. constructor.
  - intros Hin. apply in_app_or in Hin. destruct Hin as [Hin|Hin].
    + exact (Hx Hin).
    + apply (Hd x); [left; reflexivity | exact Hin].
  - apply IH; [exact Hr|]. intros y Hy1 Hy2. apply (Hd y); [right; exact Hy1 | exact Hy2].
Qed.

Lemma NoDup_map_cons : forall (x : nat) (p : list (list nat)),
  NoDup p -> NoDup (map (cons x) p).
Proof.
  intros x p H. induction H as [|T p HT Hp IH]; cbn [map]; constructor.
  - rewrite in_map_iff. intros [T' [E HT']]. inversion E; subst T'. exact (HT HT').
  - exact IH.
Qed.

Lemma powerset_NoDup : forall l, NoDup l -> NoDup (powerset l).
Proof.
  induction l as [|x r IH]; intros H.
  - cbn [powerset]. constructor; [intros [] | constructor].
  - inversion H as [|? ? Hx Hr]; subst. cbn [powerset]. cbv zeta.
    apply NoDup_app_intro.
    + apply IH. exact Hr.
    + apply NoDup_map_cons. apply IH. exact Hr.
    + intros T HT1 HT2. apply in_map_iff in HT2. destruct HT2 as [T' [E _]]. subst T.
      apply powerset_incl in HT1. apply Hx. apply HT1. left. reflexivity.
Qed.

(* ------------------------------------------------------------------ *)
(** * Invariance under set equality *)

Definition seteq (S T : list nat) : Prop := forall a, In a S <-> In a T.

Lemma seteq_refl : forall S, seteq S S.
Proof. intros S a. reflexivity. Qed.

Lemma seteq_sym : forall S T, seteq S T -> seteq T S.
Proof. intros S T E a. symmetry. apply E. Qed.

Lemma seteq_trans : forall S T U, seteq S T -> seteq T U -> seteq S U.
Proof. intros S T U E1 E2 a. rewrite (E1 a). apply E2. Qed.

Lemma canon_seteq : forall l S, incl S l -> seteq (canon l S) S.
Proof. intros l S Hi a. apply canon_equiv. exact Hi. Qed.

Lemma seteq_incl_l : forall S T U, seteq S T -> incl S U -> incl T U.
Proof. intros S T U E H a Ha. apply H. apply (proj2 (E a)). exact Ha. Qed.

Lemma seteq_incl_r : forall S T U, seteq S T -> incl U S -> incl U T.
Proof. intros S T U E H a Ha. apply (proj1 (E a)). apply H. exact Ha. Qed.

Lemma cf_seteq : forall F S T, seteq S T -> cf F S -> cf F T.
Proof.
  intros F S T E H a b Ha Hb. apply H.
  - apply (proj2 (E a)). exact Ha.
  - apply (proj2 (E b)). exact Hb.
Qed.

Lemma defends_seteq : forall F S T a, seteq S T -> defends F S a -> defends F T a.
Proof.
  intros F S T a E H b Hb. destruct (H b Hb) as [c [Hc Hcb]].
  exists c. split; [apply (proj1 (E c)); exact Hc | exact Hcb].
Qed.

Lemma cfs_seteq : forall F S T, seteq S T -> cfs F S -> cfs F T.
Proof.
  intros F S T E [Hi Hc]. split.
  - exact (seteq_incl_l S T _ E Hi).
  - exact (cf_seteq F S T E Hc).
Qed.

Lemma adm_seteq : forall F S T, seteq S T -> adm F S -> adm F T.
Proof.
  intros F S T E [Hi [Hc Hd]]. split; [|split].
  - exact (seteq_incl_l S T _ E Hi).
  - exact (cf_seteq F S T E Hc).
  - intros a Ha. apply (defends_seteq F S T a E). apply Hd. apply (proj2 (E a)). exact Ha.
Qed.

Lemma co_seteq : forall F S T, seteq S T -> co F S -> co F T.
Proof.
  intros F S T E [Ha Hc]. split.
  - exact (adm_seteq F S T E Ha).
  - intros a Hin Hd. apply (proj1 (E a)). apply Hc; [exact Hin|].
    exact (defends_seteq F T S a (seteq_sym S T E) Hd).
Qed.

Lemma st_seteq : forall F S T, seteq S T -> st F S -> st F T.
Proof.
  intros F S T E [Hi [Hc Hs]]. split; [|split].
  - exact (seteq_incl_l S T _ E Hi).
  - exact (cf_seteq F S T E Hc).
  - intros a Hin Hn. destruct (Hs a Hin) as [b [Hb Hba]].
    + intros Ha. apply Hn. apply (proj1 (E a)). exact Ha.
    + exists b. split; [apply (proj1 (E b)); exact Hb | exact Hba].
Qed.

Lemma in_range_seteq : forall F S T a, seteq S T -> in_range F S a -> in_range F T a.
Proof.
  intros F S T a E [H|[b [Hb Hba]]].
  - left. apply (proj1 (E a)). exact H.
  - right. exists b. split; [apply (proj1 (E b)); exact Hb | exact Hba].
Qed.

Lemma range_incl_seteq_l : forall F S T U,
  seteq S T -> range_incl F S U -> range_incl F T U.
Proof.
  intros F S T U E H a Hin Hr. apply H; [exact Hin|].
  exact (in_range_seteq F T S a (seteq_sym S T E) Hr).
Qed.

Lemma range_incl_seteq_r : forall F S T U,
  seteq S T -> range_incl F U S -> range_incl F U T.
Proof.
  intros F S T U E H a Hin Hr. apply (in_range_seteq F S T a E). apply H; assumption.
Qed.

Lemma gr_seteq : forall F S T, seteq S T -> gr F S -> gr F T.
Proof.
  intros F S T E [Hc Hm]. split.
  - exact (co_seteq F S T E Hc).
  - intros S' HS'. apply (seteq_incl_l S T S' E). apply Hm. exact HS'.
Qed.

Lemma pr_seteq : forall F S T, seteq S T -> pr F S -> pr F T.
Proof.
  intros F S T E [Ha Hm]. split.
  - exact (adm_seteq F S T E Ha).
  - intros S' HS' Hi. apply (seteq_incl_r S T S' E). apply Hm; [exact HS'|].
    exact (seteq_incl_l T S S' (seteq_sym S T E) Hi).
Qed.

Lemma sst_seteq : forall F S T, seteq S T -> sst F S -> sst F T.
Proof.
  intros F S T E [Hc Hm]. split.
  - exact (co_seteq F S T E Hc).
  - intros S' HS' Hr. apply (range_incl_seteq_r F S T S' E). apply Hm; [exact HS'|].
    exact (range_incl_seteq_l F T S S' (seteq_sym S T E) Hr).
Qed.

Lemma stg_seteq : forall F S T, seteq S T -> stg F S -> stg F T.
Proof.
  intros F S T E [Hc Hm]. split.
  - exact (cfs_seteq F S T E Hc).
  - intros S' HS' Hr. apply (range_incl_seteq_r F S T S' E). apply Hm; [exact HS'|].
    exact (range_incl_seteq_l F T S S' (seteq_sym S T E) Hr).
Qed.

Lemma idl_seteq : forall F S T, seteq S T -> idl F S -> idl F T.
Proof.
  intros F S T E [Ha [Hp Hm]]. split; [|split].
  - exact (adm_seteq F S T E Ha).
  - intros P HP. apply (seteq_incl_l S T P E). apply Hp. exact HP.
  - intros S' HS' HP. apply (seteq_incl_r S T S' E). apply Hm; assumption.
Qed.

Lemma ext_seteq : forall s F S T, seteq S T -> ext s F S -> ext s F T.
Proof.
  intros s F S T E. destruct s; cbn [ext].
  - apply gr_seteq; exact E.
  - apply co_seteq; exact E.
  - apply pr_seteq; exact E.
  - apply st_seteq; exact E.
  - apply sst_seteq; exact E.
  - apply stg_seteq; exact E.
  - apply idl_seteq; exact E.
Qed.

Lemma basep_seteq : forall b F S T, seteq S T -> basep b F S -> basep b F T.
Proof.
  intros b F S T E. destruct b; cbn [basep].
  - apply cfs_seteq; exact E.
  - apply adm_seteq; exact E.
  - apply co_seteq; exact E.
  - apply st_seteq; exact E.
Qed.

(* ------------------------------------------------------------------ *)
(** * Every extension is a subset of the arguments *)

Lemma cfs_incl : forall F S, cfs F S -> incl S (args F).
Proof. intros F S [H _]. exact H. Qed.

Lemma adm_incl : forall F S, adm F S -> incl S (args F).
Proof. intros F S [H _]. exact H. Qed.

Lemma co_incl : forall F S, co F S -> incl S (args F).
Proof. intros F S [H _]. apply adm_incl. exact H. Qed.

Lemma st_incl : forall F S, st F S -> incl S (args F).
Proof. intros F S [H _]. exact H. Qed.

Lemma ext_incl : forall s F S, ext s F S -> incl S (args F).
Proof.
  intros s F S H. destruct s; cbn [ext] in H.
  - destruct H as [H _]. apply co_incl. exact H.
  - apply co_incl. exact H.
  - destruct H as [H _]. apply adm_incl. exact H.
  - apply st_incl. exact H.
  - destruct H as [H _]. apply co_incl. exact H.
  - destruct H as [H _]. apply cfs_incl. exact H.
  - destruct H as [H _]. apply adm_incl. exact H.
Qed.

Lemma basep_incl : forall b F S, basep b F S -> incl S (args F).
Proof.
  intros b F S H. destruct b; cbn [basep] in H.
  - apply cfs_incl. exact H.
  - apply adm_incl. exact H.
  - apply co_incl. exact H.
  - apply st_incl. exact H.
Qed.

(* ------------------------------------------------------------------ *)
(** * Brute-force quantification over the powerset *)

(* A boolean predicate checked on all of [powerset l] decides a set-equality-invariant
   property on all subsets of [l]. *)
Lemma forallb_powerset : forall (l : list nat) (pb : list nat -> bool) (P : list nat -> Prop),
  (forall S, pb S = true <-> P S) ->
  (forall S T, seteq S T -> P S -> P T) ->
  (forallb pb (powerset l) = true <-> forall S, incl S l -> P S).
Proof.
  intros l pb P Hrefl Hinv. rewrite forallb_forall. split.
  - intros H S HS. apply (Hinv (canon l S) S).
    + apply canon_seteq. exact HS.
    + apply (proj1 (Hrefl (canon l S))). apply H. apply canon_in_powerset.
  - intros H S HS. apply (proj2 (Hrefl S)). apply H. apply powerset_incl. exact HS.
Qed.

Lemma existsb_powerset : forall (l : list nat) (pb : list nat -> bool) (P : list nat -> Prop),
  (forall S, pb S = true <-> P S) ->
  (forall S T, seteq S T -> P S -> P T) ->
  (existsb pb (powerset l) = true <-> exists S, incl S l /\ P S).
Proof.
  intros l pb P Hrefl Hinv. rewrite existsb_exists. split.
  - intros [S [HS Hp]]. exists S. split; [apply powerset_incl; exact HS|].
    apply (proj1 (Hrefl S)). exact Hp.
  - intros [S [HS Hp]]. exists (canon l S). split; [apply canon_in_powerset|].
    apply (proj2 (Hrefl (canon l S))). apply (Hinv S (canon l S)); [|exact Hp].
    apply seteq_sym. apply canon_seteq. exact HS.
Qed.

(* ------------------------------------------------------------------ *)
(** * The quantified deciders *)

Lemma grb_gr : forall F S, grb F S = true <-> gr F S.
Proof.
  intros F S. unfold grb, gr. rewrite andb_true_iff, cob_co.
  rewrite (forallb_powerset (args F) _ (fun S' => co F S' -> incl S S')).
  - split; intros [Hc H]; (split; [exact Hc|]).
    + intros S' HS'. apply H; [apply co_incl; exact HS' | exact HS'].
    + intros S' _ HS'. apply H. exact HS'.
  - intros S'. rewrite implb_iff, cob_co, subsetb_incl. reflexivity.
  - intros S1 S2 E H Hc. apply (seteq_incl_r S1 S2 S E). apply H.
    exact (co_seteq F S2 S1 (seteq_sym S1 S2 E) Hc).
Qed.

Lemma prb_pr : forall F S, prb F S = true <-> pr F S.
Proof.
  intros F S. unfold prb, pr. rewrite andb_true_iff, admb_adm.
  rewrite (forallb_powerset (args F) _ (fun S' => adm F S' -> incl S S' -> incl S' S)).
  - split; intros [Ha H]; (split; [exact Ha|]).
    + intros S' HS' Hi. apply H; [apply adm_incl; exact HS' | exact HS' | exact Hi].
    + intros S' _ HS' Hi. apply H; [exact HS' | exact Hi].
  - intros S'. rewrite implb_iff, andb_true_iff, admb_adm, !subsetb_incl. tauto.
  - intros S1 S2 E H Ha Hi. apply (seteq_incl_l S1 S2 S E). apply H.
    + exact (adm_seteq F S2 S1 (seteq_sym S1 S2 E) Ha).
    + exact (seteq_incl_r S2 S1 S (seteq_sym S1 S2 E) Hi).
Qed.

Lemma sstb_sst : forall F S, sstb F S = true <-> sst F S.
Proof.
  intros F S. unfold sstb, sst. rewrite andb_true_iff, cob_co.
  rewrite (forallb_powerset (args F) _
             (fun S' => co F S' -> range_incl F S S' -> range_incl F S' S)).
  - split; intros [Hc H]; (split; [exact Hc|]).
    + intros S' HS' Hr. apply H; [apply co_incl; exact HS' | exact HS' | exact Hr].
    + intros S' _ HS' Hr. apply H; [exact HS' | exact Hr].
  - intros S'. rewrite implb_iff, andb_true_iff, cob_co, !range_inclb_spec. tauto.
  - intros S1 S2 E H Hc Hr. apply (range_incl_seteq_l F S1 S2 S E). apply H.
    + exact (co_seteq F S2 S1 (seteq_sym S1 S2 E) Hc).
    + exact (range_incl_seteq_r F S2 S1 S (seteq_sym S1 S2 E) Hr).
Qed.

Lemma stgb_stg : forall F S, stgb F S = true <-> stg F S.
Proof.
  intros F S. unfold stgb, stg. rewrite andb_true_iff, cfsb_cfs.
  rewrite (forallb_powerset (args F) _
             (fun S' => cfs F S' -> range_incl F S S' -> range_incl F S' S)).
  - split; intros [Hc H]; (split; [exact Hc|]).
    + intros S' HS' Hr. apply H; [apply cfs_incl; exact HS' | exact HS' | exact Hr].
    + intros S' _ HS' Hr. apply H; [exact HS' | exact Hr].
  - intros S'. rewrite implb_iff, andb_true_iff, cfsb_cfs, !range_inclb_spec. tauto.
  - intros S1 S2 E H Hc Hr. apply (range_incl_seteq_l F S1 S2 S E). apply H.
    + exact (cfs_seteq F S2 S1 (seteq_sym S1 S2 E) Hc).
    + exact (range_incl_seteq_r F S2 S1 S (seteq_sym S1 S2 E) Hr).
Qed.

(* "S0 is inside every preferred extension", checked against the filtered powerset *)
Lemma inside_spec : forall F S0,
  forallb (fun P => subsetb S0 P) (filter (prb F) (powerset (args F))) = true
  <-> forall P, pr F P -> incl S0 P.
Proof.
  intros F S0. rewrite forallb_filter.
  rewrite (forallb_powerset (args F) _ (fun P => pr F P -> incl S0 P)).
  - split.
    + intros H P HP. apply H; [|exact HP]. destruct HP as [HP _]. apply adm_incl. exact HP.
    + intros H P _ HP. apply H. exact HP.
  - intros P. rewrite implb_iff, prb_pr, subsetb_incl. reflexivity.
  - intros P1 P2 E H HP. apply (seteq_incl_r P1 P2 S0 E). apply H.
    exact (pr_seteq F P2 P1 (seteq_sym P1 P2 E) HP).
Qed.

Lemma idlb_idl : forall F S, idlb F S = true <-> idl F S.
Proof.
  intros F S. unfold idlb, idlb_with, idl. cbv beta zeta.
  rewrite !andb_true_iff, admb_adm, inside_spec.
  rewrite (forallb_powerset (args F) _
             (fun S' => adm F S' -> (forall P, pr F P -> incl S' P) -> incl S' S)).
  - split.
    + intros [[Ha Hp] H]. split; [exact Ha|]. split; [exact Hp|].
      intros S' HS' HP. apply H; [apply adm_incl; exact HS' | exact HS' | exact HP].
    + intros [Ha [Hp H]]. split; [split; [exact Ha | exact Hp]|].
      intros S' _ HS' HP. apply H; [exact HS' | exact HP].
  - intros S'. rewrite implb_iff, andb_true_iff, admb_adm, inside_spec, subsetb_incl. tauto.
  - intros S1 S2 E H Ha HP. apply (seteq_incl_l S1 S2 S E). apply H.
    + exact (adm_seteq F S2 S1 (seteq_sym S1 S2 E) Ha).
    + intros P HPr. apply (seteq_incl_l S2 S1 P (seteq_sym S1 S2 E)). apply HP. exact HPr.
Qed.

(* ------------------------------------------------------------------ *)
(** * The main reflection theorem *)

Theorem extb_ext : forall s F S, extb s F S = true <-> ext s F S.
Proof.
  intros s F S. destruct s; cbn [extb ext].
  - apply grb_gr.
  - apply cob_co.
  - apply prb_pr.
  - apply stb_st.
  - apply sstb_sst.
  - apply stgb_stg.
  - apply idlb_idl.
Qed.

Lemma extb_seteq : forall s F S T, seteq S T -> extb s F S = extb s F T.
Proof.
  intros s F S T E. apply bool_eq_iff. rewrite !extb_ext. split.
  - apply ext_seteq. exact E.
  - apply ext_seteq. apply seteq_sym. exact E.
Qed.

Theorem baseb_basep : forall b F S, baseb b F S = true <-> basep b F S.
Proof.
  intros b F S. destruct b; cbn [baseb basep].
  - apply cfsb_cfs.
  - apply admb_adm.
  - apply cob_co.
  - apply stb_st.
Qed.

Lemma baseb_seteq : forall b F S T, seteq S T -> baseb b F S = baseb b F T.
Proof.
  intros b F S T E. apply bool_eq_iff. rewrite !baseb_basep. split.
  - apply basep_seteq. exact E.
  - apply basep_seteq. apply seteq_sym. exact E.
Qed.

(* ------------------------------------------------------------------ *)
(** * Enumeration *)

Lemma all_exts_eq : forall s F, all_exts s F = filter (extb s F) (powerset (args F)).
Proof. intros s F. destruct s; reflexivity. Qed.

Lemma in_all_exts : forall s F S,
  In S (all_exts s F) <-> In S (powerset (args F)) /\ ext s F S.
Proof.
  intros s F S. rewrite all_exts_eq, filter_In, extb_ext. reflexivity.
Qed.

Theorem all_exts_sound : forall s F S, In S (all_exts s F) -> ext s F S.
Proof.
  intros s F S H. apply in_all_exts in H. destruct H as [_ H]. exact H.
Qed.

Theorem all_exts_complete : forall s F S,
  ext s F S -> exists S', In S' (all_exts s F) /\ seteq S S'.
Proof.
  intros s F S H. pose proof (ext_incl s F S H) as Hi.
  exists (canon (args F) S). split.
  - apply in_all_exts. split; [apply canon_in_powerset|].
    apply (ext_seteq s F S); [|exact H]. apply seteq_sym. apply canon_seteq. exact Hi.
  - apply seteq_sym. apply canon_seteq. exact Hi.
Qed.

Lemma all_exts_sublists : forall s F S, In S (all_exts s F) -> incl S (args F).
Proof.
  intros s F S H. apply in_all_exts in H. destruct H as [H _].
  apply powerset_incl. exact H.
Qed.

Lemma all_exts_NoDup : forall s F, NoDup (args F) -> NoDup (all_exts s F).
Proof.
  intros s F H. rewrite all_exts_eq. apply NoDup_filter. apply powerset_NoDup. exact H.
Qed.

Lemma meetsb_spec : forall A S, meetsb A S = true <-> exists a, In a A /\ In a S.
Proof.
  intros A S. unfold meetsb. rewrite existsb_exists. split.
  - intros [a [Ha Hm]]. exists a. split; [exact Ha | apply memb_In; exact Hm].
  - intros [a [Ha Hs]]. exists a. split; [exact Ha | apply memb_In; exact Hs].
Qed.

Theorem credb_cred : forall s F A, credb s F A = true <-> cred s F A.
Proof.
  intros s F A. unfold credb, cred. rewrite existsb_exists. split.
  - intros [S [HS Hm]]. exists S. split.
    + apply all_exts_sound. exact HS.
    + apply meetsb_spec. exact Hm.
  - intros [S [HS [a [HaA HaS]]]].
    destruct (all_exts_complete s F S HS) as [S' [HS' E]].
    exists S'. split; [exact HS'|]. apply meetsb_spec. exists a.
    split; [exact HaA | apply (proj1 (E a)); exact HaS].
Qed.

Theorem skepb_skep : forall s F A, skepb s F A = true <-> skep s F A.
Proof.
  intros s F A. unfold skepb, skep. rewrite forallb_forall. split.
  - intros H S HS. destruct (all_exts_complete s F S HS) as [S' [HS' E]].
    apply H in HS'. apply meetsb_spec in HS'. destruct HS' as [a [HaA HaS']].
    exists a. split; [exact HaA | apply (proj2 (E a)); exact HaS'].
  - intros H S HS. apply meetsb_spec. apply H. apply all_exts_sound. exact HS.
Qed.

Lemma in_all_base : forall b F S,
  In S (all_base b F) <-> In S (powerset (args F)) /\ basep b F S.
Proof.
  intros b F S. unfold all_base. rewrite filter_In, baseb_basep. reflexivity.
Qed.

Theorem all_base_sound : forall b F S, In S (all_base b F) -> basep b F S.
Proof.
  intros b F S H. apply in_all_base in H. destruct H as [_ H]. exact H.
Qed.

Theorem all_base_complete : forall b F S,
  basep b F S -> exists S', In S' (all_base b F) /\ seteq S S'.
Proof.
  intros b F S H. pose proof (basep_incl b F S H) as Hi.
  exists (canon (args F) S). split.
  - apply in_all_base. split; [apply canon_in_powerset|].
    apply (basep_seteq b F S); [|exact H]. apply seteq_sym. apply canon_seteq. exact Hi.
  - apply seteq_sym. apply canon_seteq. exact Hi.
Qed.

Lemma all_base_NoDup : forall b F, NoDup (args F) -> NoDup (all_base b F).
Proof.
  intros b F H. unfold all_base. apply NoDup_filter. apply powerset_NoDup. exact H.
Qed.

(* ------------------------------------------------------------------ *)
Print Assumptions extb_ext.
Print Assumptions extb_seteq.
Print Assumptions all_exts_sound.
Print Assumptions all_exts_complete.
Print Assumptions credb_cred.
Print Assumptions skepb_skep.
Print Assumptions baseb_basep.
Print Assumptions all_base_sound.
Print Assumptions all_base_complete.
Print Assumptions powerset_NoDup.
