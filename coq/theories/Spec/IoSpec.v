(* Vocabulary of the statements of C13 and C14: what a well-formed ICCMA'23 / Aspartix file is, as
   an abstract instance plus rendering choices, and how it is rendered to bytes.  Definitions only.

   Rendering choices covered: LF or CRLF per line, optional final newline, comment lines (ICCMA)
   before the preamble, between attack lines and after them, empty lines after the last attack
   (ICCMA), blank / whitespace-only lines anywhere (Aspartix), any run of blanks (any Unicode
   White_Space character except LF and CR) around and between the tokens, `+` signs and leading
   zeros on numbers, duplicate declarations and duplicate attack lines, arbitrary comment text
   (any Unicode scalar values except LF and CR). *)
From Crusta Require Export Model.Writers.
Local Open Scope N_scope.

(* Unicode scalar values: what a Rust [char] can be *)
Definition scalar (c : N) : Prop := c < 55296 \/ (57344 <= c /\ c < 1114112).
(* a character that can occur inside a rendered line *)
Definition inline (c : N) : Prop := scalar c /\ c <> 10 /\ c <> 13.
Definition clean (s : str) : Prop := Forall inline s.
(* a blank that can occur inside a rendered line *)
Definition blank (c : N) : Prop := is_ws c = true /\ c <> 10 /\ c <> 13.
Definition blanks (s : str) : Prop := Forall blank s.

(* ------------------------------------------------------------------ lines to bytes *)
Definition eol (crlf : bool) : list N := if crlf then [13; 10] else [10].

(* the i-th line is terminated by CRLF iff the i-th element of [eols] is true (LF when the list is
   too short); the last line is terminated iff [final_nl] *)
Fixpoint render_lines (ls : list str) (eols : list bool) (final_nl : bool) : list N :=
  match ls with
  | [] => []
  | s :: r =>
      match r with
      | [] => utf8_encode s ++ (if final_nl then eol (hd false eols) else [])
      | _ => utf8_encode s ++ eol (hd false eols) ++ render_lines r (tl eols) final_nl
      end
  end.
(* a missing final newline only makes sense after a non-empty last line *)
Definition final_ok (ls : list str) (final_nl : bool) : Prop :=
  final_nl = false -> last ls [35] <> [].

(* ------------------------------------------------------------------ numbers *)
Record numfmt := { nf_plus : bool; nf_zeros : nat }.
Definition render_num (f : numfmt) (n : nat) : str :=
  (if nf_plus f then [43] else []) ++ repeat 48 (nf_zeros f) ++ dec_nat n.

(* ------------------------------------------------------------------ ICCMA'23 files *)
Record att_line := {
  al_pre : str; al_fa : numfmt; al_a : nat; al_sep : str; al_fb : numfmt; al_b : nat; al_post : str }.
Definition render_att_line (l : att_line) : str :=
  al_pre l ++ render_num (al_fa l) (al_a l) ++ al_sep l ++ render_num (al_fb l) (al_b l) ++ al_post l.
Definition att_line_ok (n : nat) (l : att_line) : Prop :=
  blanks (al_pre l) /\ blanks (al_sep l) /\ al_sep l <> [] /\ blanks (al_post l) /\
  (1 <= al_a l <= n)%nat /\ (1 <= al_b l <= n)%nat.

Inductive body_item := BComment (t : str) | BAttack (l : att_line).
Inductive tail_item := TComment (t : str) | TEmpty.

Record iccma_file := {
  f_head : list str;                  (* comment texts before the preamble *)
  f_pre : str; f_sep1 : str; f_sep2 : str; f_nfmt : numfmt; f_n : nat; f_post : str;
  f_body : list body_item;            (* attack lines and comments *)
  f_tail : list tail_item }.          (* empty lines and comments after the last attack *)

Definition comment_line (t : str) : str := 35 :: t.
Definition header_line (f : iccma_file) : str :=
  f_pre f ++ [112] ++ f_sep1 f ++ [97; 102] ++ f_sep2 f ++ render_num (f_nfmt f) (f_n f) ++ f_post f.
Definition body_line (i : body_item) : str :=
  match i with BComment t => comment_line t | BAttack l => render_att_line l end.
Definition tail_line (i : tail_item) : str :=
  match i with TComment t => comment_line t | TEmpty => [] end.
Definition iccma_file_lines (f : iccma_file) : list str :=
  map comment_line (f_head f) ++ [header_line f] ++ map body_line (f_body f) ++ map tail_line (f_tail f).

Definition body_item_ok (n : nat) (i : body_item) : Prop :=
  match i with BComment t => clean t | BAttack l => att_line_ok n l end.
Definition tail_item_ok (i : tail_item) : Prop :=
  match i with TComment t => clean t | TEmpty => True end.
Definition iccma_file_ok (f : iccma_file) : Prop :=
  Forall clean (f_head f) /\
  blanks (f_pre f) /\ blanks (f_sep1 f) /\ f_sep1 f <> [] /\ blanks (f_sep2 f) /\ f_sep2 f <> [] /\
  blanks (f_post f) /\
  N.of_nat (f_n f) <= isize_max /\
  Forall (body_item_ok (f_n f)) (f_body f) /\ Forall tail_item_ok (f_tail f).

(* the declared attacks, as 0-based id pairs, in file order, duplicates kept *)
Definition file_attacks (f : iccma_file) : list (nat * nat) :=
  flat_map (fun i => match i with BAttack l => [(al_a l - 1, al_b l - 1)%nat] | BComment _ => [] end)
           (f_body f).

(* the framework with arguments 1..n (ids 0..n-1) and the given attacks inserted by id *)
Definition iccma_fw (n : nat) (atts : list (nat * nat)) : fw nat :=
  fold_left (fun f p => fst (new_attack_by_ids nat f (fst p) (snd p))) atts
            (fw_new_with_labels nat Nat.eqb (seq 1 n)).

(* ------------------------------------------------------------------ Aspartix files *)
(* [_[:alpha:]][_[:alpha:]\d]* *)
Definition is_ident (l : str) : bool :=
  match l with
  | c :: r => is_id_start c && forallb is_id_char r
  | [] => false
  end.

Record arg_line := { ar_pre : str; ar_b1 : str; ar_label : str; ar_b2 : str; ar_post : str }.
Definition render_arg_line (l : arg_line) : str :=
  ar_pre l ++ [97; 114; 103; 40] ++ ar_b1 l ++ ar_label l ++ ar_b2 l ++ [41; 46] ++ ar_post l.
Definition arg_line_ok (l : arg_line) : Prop :=
  blanks (ar_pre l) /\ blanks (ar_b1 l) /\ is_ident (ar_label l) = true /\ blanks (ar_b2 l) /\
  blanks (ar_post l).

Record att_aline := {
  at_pre : str; at_b1 : str; at_a : str; at_b2 : str; at_b3 : str; at_b : str; at_b4 : str;
  at_post : str }.
Definition render_att_aline (l : att_aline) : str :=
  at_pre l ++ [97; 116; 116; 40] ++ at_b1 l ++ at_a l ++ at_b2 l ++ [44] ++
  at_b3 l ++ at_b l ++ at_b4 l ++ [41; 46] ++ at_post l.
Definition att_aline_ok (l : att_aline) : Prop :=
  blanks (at_pre l) /\ blanks (at_b1 l) /\ is_ident (at_a l) = true /\ blanks (at_b2 l) /\
  blanks (at_b3 l) /\ is_ident (at_b l) = true /\ blanks (at_b4 l) /\ blanks (at_post l).

Inductive decl_item := DBlank (s : str) | DArg (l : arg_line).
Inductive atts_item := ABlank (s : str) | AAtt (l : att_aline).
Record apx_file := { a_decls : list decl_item; a_atts : list atts_item }.

Definition decl_line (i : decl_item) : str :=
  match i with DBlank s => s | DArg l => render_arg_line l end.
Definition atts_line (i : atts_item) : str :=
  match i with ABlank s => s | AAtt l => render_att_aline l end.
Definition apx_file_lines (f : apx_file) : list str :=
  map decl_line (a_decls f) ++ map atts_line (a_atts f).

(* declared labels in declaration order (duplicates kept) and declared attacks as label pairs *)
Definition decl_labels (f : apx_file) : list str :=
  flat_map (fun i => match i with DArg l => [ar_label l] | DBlank _ => [] end) (a_decls f).
Definition att_pairs (f : apx_file) : list (str * str) :=
  flat_map (fun i => match i with AAtt l => [(at_a l, at_b l)] | ABlank _ => [] end) (a_atts f).

Definition decl_item_ok (i : decl_item) : Prop :=
  match i with DBlank s => blanks s | DArg l => arg_line_ok l end.
Definition atts_item_ok (i : atts_item) : Prop :=
  match i with ABlank s => blanks s | AAtt l => att_aline_ok l end.
Definition apx_file_ok (f : apx_file) : Prop :=
  Forall decl_item_ok (a_decls f) /\ Forall atts_item_ok (a_atts f) /\
  (forall p, In p (att_pairs f) -> In (fst p) (decl_labels f) /\ In (snd p) (decl_labels f)).

(* the framework obtained from the declared labels by inserting the declared attacks *)
Definition apx_result (decls : list str) (atts : list (str * str)) : fw str :=
  run_ops str str_eqb (fw_new_with_labels str str_eqb decls)
          (map (fun p => OpNewAtt (fst p) (snd p)) atts).

(* first occurrences, in order *)
Fixpoint dedup {L} (leqb : L -> L -> bool) (seen l : list L) : list L :=
  match l with
  | [] => []
  | x :: r => if existsb (leqb x) seen then dedup leqb seen r else x :: dedup leqb (seen ++ [x]) r
  end.
(* [x1; x2; ...] numbered from [off] *)
Fixpoint numbered {L} (off : nat) (l : list L) : list (nat * L) :=
  match l with
  | [] => []
  | x :: r => (off, x) :: numbered (S off) r
  end.
