(* Spec layer: textbook theory of Dung frameworks over the definitions of Spec/AF.v.
   Characteristic function and grounded extension, existence of preferred / semi-stable /
   stage / ideal extensions, the inclusions between the semantics, and the acceptance facts
   the solver relies on.  Everything is finite and decidable (boolean deciders of AF.v,
   reflected in SemFacts.v): no classical reasoning, no extensionality.
   Sets are lists (duplicates allowed), compared with [seteq] / [incl].

   Most statements carry the hypothesis [wf F] because that is the interface the callers
   use; it is really needed only where an attacker must be known to be an argument
   (a stable set defends itself: [st_adm] and what depends on it). *)
From Coq Require Import List Arith Bool Lia.
From Crusta Require Import Spec.AF Spec.SemFacts.
Import ListNotations.

(* ------------------------------------------------------------------ *)
(** * Generic finite-set helpers *)

Lemma seteqb_seteq : forall S T, seteqb S T = true <-> seteq S T.
Proof.
  intros S T. unfold seteqb, seteq. rewrite andb_true_iff, !subsetb_incl. split.
  - intros [H1 H2] a. split; [apply H1 | apply H2].
  - intros H. split; intros a Ha; apply H; exact Ha.
Qed.

Lemma seteq_incl_both : forall S T, incl S T -> incl T S -> seteq S T.
Proof. intros S T H1 H2 a. split; [apply H1 | apply H2]. Qed.

Lemma seteq_incl1 : forall S T, seteq S T -> incl S T.
Proof. intros S T E a Ha. apply (proj1 (E a)). exact Ha. Qed.

Lemma seteq_incl2 : forall S T, seteq S T -> incl T S.
Proof. intros S T E a Ha. apply (proj2 (E a)). exact Ha. Qed.

(* counting: a pointwise smaller filter is shorter, and equal length means equal filters *)
Lemma filter_length_le : forall (f g : nat -> bool) (l : list nat),
  (forall x, In x l -> f x = true -> g x = true) ->
  length (filter f l) <= length (filter g l).
Proof.
  intros f g l. induction l as [|x r IH]; intros H; [apply le_n|].
  cbn [filter]. assert (Hr : length (filter f r) <= length (filter g r)).
  { apply IH. intros y Hy. apply H. right. exact Hy. }
  destruct (f x) eqn:Ef.
  - rewrite (H x (or_introl eq_refl) Ef). cbn [length]. lia.
  - destruct (g x); cbn [length]; lia.
Qed.

Lemma filter_length_eq : forall (f g : nat -> bool) (l : list nat),
  (forall x, In x l -> f x = true -> g x = true) ->
  length (filter f l) = length (filter g l) ->
  forall x, In x l -> g x = true -> f x = true.
Proof.
  intros f g l. induction l as [|x r IH]; intros H E y Hy Hg; [destruct Hy|].
  assert (Hr : forall z, In z r -> f z = true -> g z = true).
  { intros z Hz. apply H. right. exact Hz. }
  pose proof (filter_length_le f g r Hr) as Hle.
  cbn [filter] in E. destruct (f x) eqn:Ef.
  - rewrite (H x (or_introl eq_refl) Ef) in E. cbn [length] in E.
    destruct Hy as [Hy|Hy]; [subst y; exact Ef|].
    apply IH; [exact Hr | lia | exact Hy | exact Hg].
  - destruct (g x) eqn:Eg; cbn [length] in E.
    + exfalso. lia.
    + destruct Hy as [Hy|Hy]; [subst y; congruence|].
      apply IH; [exact Hr | exact E | exact Hy | exact Hg].
Qed.

Lemma forallb_false_ex : forall (A : Type) (f : A -> bool) (l : list A),
  forallb f l = false -> exists x, In x l /\ f x = false.
Proof.
  intros A f l. induction l as [|x r IH]; cbn [forallb]; intros H; [discriminate|].
  destruct (f x) eqn:E.
  - destruct (IH H) as [y [Hy Hf]]. exists y. split; [right; exact Hy | exact Hf].
  - exists x. split; [left; reflexivity | exact E].
Qed.

Lemma argmax_exists : forall (A : Type) (mu : A -> nat) (l : list A),
  l <> [] -> exists x, In x l /\ forall y, In y l -> mu y <= mu x.
Proof.
  intros A mu l. induction l as [|x r IH]; intros Hne; [congruence|].
  destruct r as [|x' r'].
  - exists x. split; [left; reflexivity|]. intros y [Hy|[]]. subst y. apply le_n.
  - destruct IH as [m [Hm Hmax]]; [discriminate|].
    destruct (le_lt_dec (mu x) (mu m)) as [Hle|Hlt].
    + exists m. split; [right; exact Hm|]. intros y [Hy|Hy]; [subst y; exact Hle | apply Hmax; exact Hy].
    + exists x. split; [left; reflexivity|]. intros y [Hy|Hy]; [subst y; apply le_n|].
      specialize (Hmax y Hy). lia.
Qed.

(* A non-empty decidable family of subsets of [l] has a member of maximal measure. *)
Lemma fin_max : forall (l : list nat) (qb : list nat -> bool) (Q : list nat -> Prop)
                       (mu : list nat -> nat),
  (forall S, qb S = true <-> Q S) ->
  (forall S T, seteq S T -> Q S -> Q T) ->
  (forall S T, seteq S T -> mu S = mu T) ->
  (exists S, incl S l /\ Q S) ->
  exists M, incl M l /\ Q M /\ forall S, incl S l -> Q S -> mu S <= mu M.
Proof.
  intros l qb Q mu Hrefl Hinv Hmu [S0 [Hi0 HQ0]].
  destruct (argmax_exists _ mu (filter qb (powerset l))) as [M [HM Hmax]].
  - intros E. assert (Hin : In (canon l S0) (filter qb (powerset l))).
    { apply filter_In. split; [apply canon_in_powerset|]. apply Hrefl.
      apply (Hinv S0); [|exact HQ0]. apply seteq_sym. apply canon_seteq. exact Hi0. }
    rewrite E in Hin. destruct Hin.
  - apply filter_In in HM. destruct HM as [HM1 HM2]. exists M. split; [|split].
    + apply powerset_incl. exact HM1.
    + apply Hrefl. exact HM2.
    + intros S Hi HQ. rewrite <- (Hmu (canon l S) S (canon_seteq l S Hi)). apply Hmax.
      apply filter_In. split; [apply canon_in_powerset|]. apply Hrefl.
      apply (Hinv S); [|exact HQ]. apply seteq_sym. apply canon_seteq. exact Hi.
Qed.

(* size of a set relative to the arguments of the framework *)
Definition msize (F : af) (S : list nat) : nat := length (canon (args F) S).

Lemma msize_le : forall F S T, incl S T -> msize F S <= msize F T.
Proof.
  intros F S T H. unfold msize, canon. apply filter_length_le.
  intros x _ Hx. apply memb_In. apply H. apply memb_In. exact Hx.
Qed.

Lemma msize_seteq : forall F S T, seteq S T -> msize F S = msize F T.
Proof.
  intros F S T E. apply Nat.le_antisymm; apply msize_le.
  - apply seteq_incl1. exact E.
  - apply seteq_incl2. exact E.
Qed.

Lemma msize_eq_incl : forall F S T,
  incl S T -> incl T (args F) -> msize F S = msize F T -> incl T S.
Proof.
  intros F S T H HT E a Ha. apply memb_In.
  apply (filter_length_eq (fun a => memb a S) (fun a => memb a T) (args F)).
  - intros x _ Hx. apply memb_In. apply H. apply memb_In. exact Hx.
  - exact E.
  - apply HT. exact Ha.
  - apply memb_In. exact Ha.
Qed.

(* ------------------------------------------------------------------ *)
(** * Basic facts on conflict-freeness, defence, admissibility *)

Lemma cf_incl : forall F S T, incl S T -> cf F T -> cf F S.
Proof. intros F S T H Hc a b Ha Hb. apply Hc; apply H; assumption. Qed.

Lemma cf_nil : forall F, cf F [].
Proof. intros F a b []. Qed.

Lemma defends_mono : forall F S T a, incl S T -> defends F S a -> defends F T a.
Proof.
  intros F S T a H Hd b Hb. destruct (Hd b Hb) as [c [Hc Hcb]].
  exists c. split; [apply H; exact Hc | exact Hcb].
Qed.

Lemma adm_nil : forall F, adm F [].
Proof.
  intros F. split; [|split].
  - intros a [].
  - apply cf_nil.
  - intros a [].
Qed.

Lemma adm_cf : forall F S, adm F S -> cf F S.
Proof. intros F S [_ [H _]]. exact H. Qed.

Lemma adm_defends : forall F S a, adm F S -> In a S -> defends F S a.
Proof. intros F S a [_ [_ H]]. apply H. Qed.

Lemma co_adm : forall F S, co F S -> adm F S.
Proof. intros F S [H _]. exact H. Qed.

Lemma pr_adm : forall F S, pr F S -> adm F S.
Proof. intros F S [H _]. exact H. Qed.

(* an admissible set cannot be attacked by something it defends, nor attack it *)
Lemma adm_defended_not_attacked : forall F S a b,
  adm F S -> defends F S a -> In b S -> ~ att F b a.
Proof.
  intros F S a b HS Hd Hb Hba. destruct (Hd b Hba) as [c [Hc Hcb]].
  exact (adm_cf F S HS c b Hc Hb Hcb).
Qed.

Lemma adm_defended_not_attacks : forall F S a b,
  adm F S -> defends F S a -> In b S -> ~ att F a b.
Proof.
  intros F S a b HS Hd Hb Hab.
  destruct (adm_defends F S b HS Hb a Hab) as [c [Hc Hca]].
  exact (adm_defended_not_attacked F S a c HS Hd Hc Hca).
Qed.

Lemma adm_defended_no_conflict : forall F S a a',
  adm F S -> defends F S a -> defends F S a' -> ~ att F a a'.
Proof.
  intros F S a a' HS Hd Hd' Haa'. destruct (Hd' a Haa') as [c [Hc Hca]].
  exact (adm_defended_not_attacked F S a c HS Hd Hc Hca).
Qed.

(** The fundamental lemma (Dung 1995, Lemma 10). *)
Lemma fundamental_cf : forall F S a a',
  adm F S -> defends F S a -> defends F S a' -> cf F (a :: a' :: S).
Proof.
  intros F S a a' HS Hd Hd' x y Hx Hy.
  assert (Hdx : defends F S x).
  { destruct Hx as [Hx|[Hx|Hx]]; [subst x; exact Hd | subst x; exact Hd' |].
    apply adm_defends; assumption. }
  assert (Hdy : defends F S y).
  { destruct Hy as [Hy|[Hy|Hy]]; [subst y; exact Hd | subst y; exact Hd' |].
    apply adm_defends; assumption. }
  exact (adm_defended_no_conflict F S x y HS Hdx Hdy).
Qed.

Lemma fundamental_adm : forall F S a,
  adm F S -> defends F S a -> In a (args F) -> adm F (a :: S).
Proof.
  intros F S a HS Hd Hin. split; [|split].
  - intros x [Hx|Hx]; [subst x; exact Hin | apply (adm_incl F S HS); exact Hx].
  - apply (cf_incl F (a :: S) (a :: a :: S)).
    + intros x [Hx|Hx]; [left; exact Hx | right; right; exact Hx].
    + apply fundamental_cf; assumption.
  - intros x Hx. apply (defends_mono F S (a :: S)); [apply incl_tl; apply incl_refl|].
    destruct Hx as [Hx|Hx]; [subst x; exact Hd | apply adm_defends; assumption].
Qed.

Lemma fundamental_adm2 : forall F S a a',
  adm F S -> defends F S a -> defends F S a' -> In a (args F) -> In a' (args F) ->
  adm F (a :: a' :: S).
Proof.
  intros F S a a' HS Hd Hd' Hin Hin'.
  apply fundamental_adm; [apply fundamental_adm; assumption | | exact Hin].
  apply (defends_mono F S (a' :: S)); [apply incl_tl; apply incl_refl | exact Hd].
Qed.

Lemma adm_union : forall F S T, adm F S -> adm F T -> cf F (S ++ T) -> adm F (S ++ T).
Proof.
  intros F S T HS HT Hc. split; [|split].
  - apply incl_app; apply adm_incl; assumption.
  - exact Hc.
  - intros a Ha. apply in_app_or in Ha. destruct Ha as [Ha|Ha].
    + apply (defends_mono F S); [apply incl_appl; apply incl_refl|].
      apply adm_defends; assumption.
    + apply (defends_mono F T); [apply incl_appr; apply incl_refl|].
      apply adm_defends; assumption.
Qed.

(* ------------------------------------------------------------------ *)
(** * 1. Characteristic function and grounded extension *)

Definition charf (F : af) (S : list nat) : list nat := filter (defendsb F S) (args F).

Fixpoint iter_charf (F : af) (k : nat) (X : list nat) : list nat :=
  match k with
  | O => X
  | Datatypes.S k' => iter_charf F k' (charf F X)
  end.

Definition lfp (F : af) : list nat := iter_charf F (length (args F)) [].

Definition grb_fast (F : af) (S : list nat) : bool := seteqb S (lfp F).

Lemma in_charf : forall F S a, In a (charf F S) <-> In a (args F) /\ defends F S a.
Proof. intros F S a. unfold charf. rewrite filter_In, defendsb_defends. reflexivity. Qed.

Lemma charf_incl_args : forall F S, incl (charf F S) (args F).
Proof. intros F S a Ha. apply in_charf in Ha. destruct Ha as [Ha _]. exact Ha. Qed.

Lemma charf_mono : forall F S T, incl S T -> incl (charf F S) (charf F T).
Proof.
  intros F S T H a Ha. apply in_charf in Ha. destruct Ha as [Ha Hd]. apply in_charf.
  split; [exact Ha | exact (defends_mono F S T a H Hd)].
Qed.

Lemma charf_seteq : forall F S T, seteq S T -> seteq (charf F S) (charf F T).
Proof.
  intros F S T E. apply seteq_incl_both; apply charf_mono.
  - apply seteq_incl1. exact E.
  - apply seteq_incl2. exact E.
Qed.

(* admissible = conflict-free post-fixpoint; complete = conflict-free fixpoint *)
Lemma adm_charf : forall F S, adm F S -> incl S (charf F S).
Proof.
  intros F S HS a Ha. apply in_charf. split.
  - apply (adm_incl F S HS). exact Ha.
  - apply adm_defends; assumption.
Qed.

Lemma adm_iff_charf : forall F S, adm F S <-> cf F S /\ incl S (charf F S).
Proof.
  intros F S. split.
  - intros HS. split; [apply adm_cf; exact HS | apply adm_charf; exact HS].
  - intros [Hc Hi]. split; [|split].
    + intros a Ha. apply (charf_incl_args F S). apply Hi. exact Ha.
    + exact Hc.
    + intros a Ha. apply Hi in Ha. apply in_charf in Ha. destruct Ha as [_ Ha]. exact Ha.
Qed.

Lemma co_charf : forall F S, co F S -> seteq S (charf F S).
Proof.
  intros F S [HS Hc]. apply seteq_incl_both; [apply adm_charf; exact HS|].
  intros a Ha. apply in_charf in Ha. destruct Ha as [Ha Hd]. apply Hc; assumption.
Qed.

Lemma co_iff_charf : forall F S, co F S <-> cf F S /\ seteq S (charf F S).
Proof.
  intros F S. split.
  - intros HS. split; [apply adm_cf; apply co_adm; exact HS | apply co_charf; exact HS].
  - intros [Hc E]. split.
    + apply adm_iff_charf. split; [exact Hc | apply seteq_incl1; exact E].
    + intros a Ha Hd. apply (proj2 (E a)). apply in_charf. split; assumption.
Qed.

Lemma charf_adm : forall F S, adm F S -> adm F (charf F S).
Proof.
  intros F S HS. split; [|split].
  - apply charf_incl_args.
  - intros a b Ha Hb. apply in_charf in Ha. apply in_charf in Hb.
    destruct Ha as [_ Ha]. destruct Hb as [_ Hb].
    exact (adm_defended_no_conflict F S a b HS Ha Hb).
  - intros a Ha. apply in_charf in Ha. destruct Ha as [_ Ha].
    exact (defends_mono F S (charf F S) a (adm_charf F S HS) Ha).
Qed.

Lemma iter_charf_succ_r : forall F k X,
  iter_charf F (Datatypes.S k) X = charf F (iter_charf F k X).
Proof.
  intros F k. induction k as [|k IH]; intros X; [reflexivity|].
  change (iter_charf F (Datatypes.S (Datatypes.S k)) X)
    with (iter_charf F (Datatypes.S k) (charf F X)).
  rewrite IH. reflexivity.
Qed.

Lemma iter_charf_chain : forall F k,
  incl (iter_charf F k []) (iter_charf F (Datatypes.S k) []).
Proof.
  intros F k. induction k as [|k IH].
  - intros a [].
  - pose proof (charf_mono F _ _ IH) as H. rewrite <- !iter_charf_succ_r in H. exact H.
Qed.

Lemma iter_charf_chain_le : forall F j k, j <= k ->
  incl (iter_charf F j []) (iter_charf F k []).
Proof.
  intros F j k H. induction H as [|k H IH]; [apply incl_refl|].
  apply (incl_tran IH). apply iter_charf_chain.
Qed.

Lemma iter_charf_adm : forall F k, adm F (iter_charf F k []).
Proof.
  intros F k. induction k as [|k IH]; [apply adm_nil|].
  rewrite iter_charf_succ_r. apply charf_adm. exact IH.
Qed.

Lemma iter_charf_below_co : forall F k S, co F S -> incl (iter_charf F k []) S.
Proof.
  intros F k S HS. induction k as [|k IH]; [intros a []|].
  rewrite iter_charf_succ_r. apply (incl_tran (charf_mono F _ S IH)).
  apply seteq_incl2. apply co_charf. exact HS.
Qed.

(* stabilisation *)
Definition stable_at (F : af) (k : nat) : Prop :=
  incl (iter_charf F (Datatypes.S k) []) (iter_charf F k []).

Lemma stable_at_succ : forall F k, stable_at F k -> stable_at F (Datatypes.S k).
Proof.
  intros F k H. unfold stable_at in *.
  pose proof (charf_mono F _ _ H) as H'. rewrite <- !iter_charf_succ_r in H'. exact H'.
Qed.

Lemma stable_at_le : forall F j k, j <= k -> stable_at F j -> stable_at F k.
Proof.
  intros F j k H Hj. induction H as [|k H IH]; [exact Hj|].
  apply stable_at_succ. exact IH.
Qed.

Lemma chain_step : forall F k,
  stable_at F k \/
  msize F (iter_charf F k []) < msize F (iter_charf F (Datatypes.S k) []).
Proof.
  intros F k. pose proof (msize_le F _ _ (iter_charf_chain F k)) as Hle.
  destruct (Nat.eq_dec (msize F (iter_charf F k [])) (msize F (iter_charf F (Datatypes.S k) [])))
    as [E|N].
  - left. unfold stable_at. apply (msize_eq_incl F); [apply iter_charf_chain | | exact E].
    apply adm_incl. apply iter_charf_adm.
  - right. lia.
Qed.

Lemma chain_progress : forall F k,
  (exists j, j < k /\ stable_at F j) \/ k <= msize F (iter_charf F k []).
Proof.
  intros F k. induction k as [|k IH]; [right; apply Nat.le_0_l|].
  destruct IH as [[j [Hj Hs]]|Hk].
  - left. exists j. split; [lia | exact Hs].
  - destruct (chain_step F k) as [Hs|Hlt].
    + left. exists k. split; [lia | exact Hs].
    + right. lia.
Qed.

Lemma msize_bound : forall F S, msize F S <= length (args F).
Proof.
  intros F S. unfold msize, canon. induction (args F) as [|x r IH]; [apply le_n|].
  cbn [filter]. destruct (memb x S); cbn [length]; lia.
Qed.

Lemma lfp_stable : forall F, stable_at F (length (args F)).
Proof.
  intros F. destruct (chain_progress F (Datatypes.S (length (args F)))) as [[j [Hj Hs]]|Hk].
  - apply (stable_at_le F j); [lia | exact Hs].
  - pose proof (msize_bound F (iter_charf F (Datatypes.S (length (args F))) [])). lia.
Qed.

Lemma lfp_fixpoint : forall F, seteq (lfp F) (charf F (lfp F)).
Proof.
  intros F. unfold lfp. rewrite <- iter_charf_succ_r. apply seteq_incl_both.
  - apply iter_charf_chain.
  - apply lfp_stable.
Qed.

(* the chain does not move after [length (args F)] steps *)
Lemma iter_charf_stationary : forall F k, length (args F) <= k ->
  seteq (iter_charf F k []) (lfp F).
Proof.
  intros F k H. apply seteq_incl_both; [|apply iter_charf_chain_le; exact H].
  induction H as [|k H IH]; [apply incl_refl|].
  apply (incl_tran (stable_at_le F _ k H (lfp_stable F))). exact IH.
Qed.

Lemma lfp_adm : forall F, adm F (lfp F).
Proof. intros F. apply iter_charf_adm. Qed.

Lemma lfp_co : forall F, co F (lfp F).
Proof.
  intros F. apply co_iff_charf. split; [apply adm_cf; apply lfp_adm | apply lfp_fixpoint].
Qed.

Lemma lfp_least_co : forall F S, co F S -> incl (lfp F) S.
Proof. intros F S H. apply iter_charf_below_co. exact H. Qed.

(* least among all sets closed under the characteristic function *)
Lemma lfp_least_prefix : forall F S, incl (charf F S) S -> incl (lfp F) S.
Proof.
  intros F S H. unfold lfp. generalize (length (args F)) as k.
  induction k as [|k IH]; [intros a []|].
  rewrite iter_charf_succ_r. apply (incl_tran (charf_mono F _ S IH)). exact H.
Qed.

Theorem gr_lfp : forall F, wf F -> gr F (lfp F).
Proof. intros F _. split; [apply lfp_co | apply lfp_least_co]. Qed.

Theorem gr_unique : forall F S, wf F -> gr F S -> seteq S (lfp F).
Proof.
  intros F S _ [Hc Hm]. apply seteq_incl_both.
  - apply Hm. apply lfp_co.
  - apply lfp_least_co. exact Hc.
Qed.

Theorem gr_unique2 : forall F S T, wf F -> gr F S -> gr F T -> seteq S T.
Proof.
  intros F S T Hw HS HT. apply (seteq_trans S (lfp F) T).
  - apply gr_unique; assumption.
  - apply seteq_sym. apply gr_unique; assumption.
Qed.

Theorem gr_exists : forall F, wf F -> exists S, gr F S.
Proof. intros F Hw. exists (lfp F). apply gr_lfp. exact Hw. Qed.

Theorem co_incl_lfp : forall F S, wf F -> co F S -> incl (lfp F) S.
Proof. intros F S _. apply lfp_least_co. Qed.

Theorem grb_fast_gr : forall F S, wf F -> (grb_fast F S = true <-> gr F S).
Proof.
  intros F S Hw. unfold grb_fast. rewrite seteqb_seteq. split.
  - intros E. apply (gr_seteq F (lfp F) S); [apply seteq_sym; exact E | apply gr_lfp; exact Hw].
  - apply gr_unique. exact Hw.
Qed.

Theorem grb_fast_grb : forall F S, wf F -> grb_fast F S = grb F S.
Proof.
  intros F S Hw. apply bool_eq_iff. rewrite grb_gr. apply grb_fast_gr. exact Hw.
Qed.

(* ------------------------------------------------------------------ *)
(** * 2. Every admissible set extends to a preferred extension *)

Theorem adm_extends_pr : forall F S, wf F -> adm F S -> exists P, pr F P /\ incl S P.
Proof.
  intros F S _ HS.
  destruct (fin_max (args F) (fun T => admb F T && subsetb S T)
                    (fun T => adm F T /\ incl S T) (msize F))
    as [M [HMi [[HMa HMS] Hmax]]].
  - intros T. rewrite andb_true_iff, admb_adm, subsetb_incl. reflexivity.
  - intros T U E [Ha Hi]. split; [exact (adm_seteq F T U E Ha) | exact (seteq_incl_r T U S E Hi)].
  - apply msize_seteq.
  - exists S. split; [apply adm_incl; exact HS|]. split; [exact HS | apply incl_refl].
  - exists M. split; [|exact HMS]. split; [exact HMa|].
    intros S' HS' Hi. apply (msize_eq_incl F M S' Hi (adm_incl F S' HS')).
    apply Nat.le_antisymm; [apply msize_le; exact Hi|].
    apply Hmax; [apply adm_incl; exact HS'|].
    split; [exact HS' | exact (incl_tran HMS Hi)].
Qed.

Theorem pr_exists : forall F, wf F -> exists P, pr F P.
Proof.
  intros F Hw. destruct (adm_extends_pr F [] Hw (adm_nil F)) as [P [HP _]].
  exists P. exact HP.
Qed.

(* ------------------------------------------------------------------ *)
(** * 3. Inclusions between the semantics *)

Lemma st_cfs : forall F S, st F S -> cfs F S.
Proof. intros F S [Hi [Hc _]]. split; assumption. Qed.

Lemma st_adm : forall F S, wf F -> st F S -> adm F S.
Proof.
  intros F S [_ Hw] [Hi [Hc Hs]]. split; [exact Hi|]. split; [exact Hc|].
  intros a Ha b Hba. apply Hs.
  - apply (Hw b a). exact Hba.
  - intros Hb. exact (Hc b a Hb Ha Hba).
Qed.

Theorem st_co : forall F S, wf F -> st F S -> co F S.
Proof.
  intros F S Hw HS. split; [apply st_adm; assumption|].
  intros a Hin Hd. destruct (memb a S) eqn:E; [apply memb_In; exact E|].
  apply memb_false in E. destruct HS as [Hi [Hc Hs]].
  destruct (Hs a Hin E) as [b [Hb Hba]]. destruct (Hd b Hba) as [c [Hc' Hcb]].
  exfalso. exact (Hc c b Hc' Hb Hcb).
Qed.

Theorem st_pr : forall F S, wf F -> st F S -> pr F S.
Proof.
  intros F S Hw HS. split; [apply st_adm; assumption|].
  intros S' HS' Hi a Ha. destruct (memb a S) eqn:E; [apply memb_In; exact E|].
  apply memb_false in E. destruct HS as [_ [_ Hs]].
  destruct (Hs a (adm_incl F S' HS' a Ha) E) as [b [Hb Hba]].
  exfalso. exact (adm_cf F S' HS' b a (Hi b Hb) Ha Hba).
Qed.

Theorem pr_co : forall F S, wf F -> pr F S -> co F S.
Proof.
  intros F S _ [HS Hm]. split; [exact HS|]. intros a Hin Hd.
  apply (Hm (a :: S)).
  - apply fundamental_adm; assumption.
  - apply incl_tl. apply incl_refl.
  - left. reflexivity.
Qed.

Theorem gr_co : forall F S, wf F -> gr F S -> co F S.
Proof. intros F S _ [H _]. exact H. Qed.

Theorem sst_co : forall F S, wf F -> sst F S -> co F S.
Proof. intros F S _ [H _]. exact H. Qed.

Lemma stg_cfs : forall F S, stg F S -> cfs F S.
Proof. intros F S [H _]. exact H. Qed.

(* ranges *)
Lemma range_incl_of_incl : forall F S T, incl S T -> range_incl F S T.
Proof.
  intros F S T H a _ [Ha|[b [Hb Hba]]].
  - left. apply H. exact Ha.
  - right. exists b. split; [apply H; exact Hb | exact Hba].
Qed.

Lemma range_incl_refl : forall F S, range_incl F S S.
Proof. intros F S a _ H. exact H. Qed.

Lemma range_incl_trans : forall F S T U,
  range_incl F S T -> range_incl F T U -> range_incl F S U.
Proof. intros F S T U H1 H2 a Hin H. apply H2; [exact Hin|]. apply H1; assumption. Qed.

Lemma st_range_full : forall F S, st F S -> forall a, In a (args F) -> in_range F S a.
Proof.
  intros F S [_ [_ Hs]] a Hin. destruct (memb a S) eqn:E.
  - left. apply memb_In. exact E.
  - right. apply Hs; [exact Hin | apply memb_false; exact E].
Qed.

Lemma range_full_st : forall F S,
  cfs F S -> (forall a, In a (args F) -> in_range F S a) -> st F S.
Proof.
  intros F S [Hi Hc] H. split; [exact Hi|]. split; [exact Hc|].
  intros a Hin Hn. destruct (H a Hin) as [Ha|Hex]; [contradiction | exact Hex].
Qed.

Lemma st_iff_range_full : forall F S,
  st F S <-> cfs F S /\ forall a, In a (args F) -> in_range F S a.
Proof.
  intros F S. split.
  - intros H. split; [apply st_cfs; exact H | apply st_range_full; exact H].
  - intros [H1 H2]. apply range_full_st; assumption.
Qed.

Theorem st_sst : forall F S, wf F -> st F S -> sst F S.
Proof.
  intros F S Hw HS. split; [apply st_co; assumption|].
  intros S' _ _ a Hin _. apply st_range_full; assumption.
Qed.

Theorem st_stg : forall F S, wf F -> st F S -> stg F S.
Proof.
  intros F S _ HS. split; [apply st_cfs; exact HS|].
  intros S' _ _ a Hin _. apply st_range_full; assumption.
Qed.

Theorem sst_pr : forall F S, wf F -> sst F S -> pr F S.
Proof.
  intros F S Hw [Hc Hm]. split; [apply co_adm; exact Hc|].
  intros S' HS' Hi a Ha.
  destruct (adm_extends_pr F S' Hw HS') as [P [HP HiP]].
  pose proof (pr_co F P Hw HP) as HPc.
  assert (Hr : range_incl F P S).
  { apply Hm; [exact HPc|]. apply range_incl_of_incl. exact (incl_tran Hi HiP). }
  destruct (Hr a) as [H|[b [Hb Hba]]].
  - apply (adm_incl F S' HS'). exact Ha.
  - left. apply HiP. exact Ha.
  - exact H.
  - exfalso. apply (adm_cf F P (pr_adm F P HP) b a).
    + apply HiP. apply Hi. exact Hb.
    + apply HiP. exact Ha.
    + exact Hba.
Qed.

(* existence *)
Theorem co_exists : forall F, wf F -> exists S, co F S.
Proof. intros F _. exists (lfp F). apply lfp_co. Qed.

Definition rsize (F : af) (S : list nat) : nat :=
  length (filter (in_rangeb F S) (args F)).

Lemma rsize_le : forall F S T, range_incl F S T -> rsize F S <= rsize F T.
Proof.
  intros F S T H. unfold rsize. apply filter_length_le. intros x Hx Hr.
  apply in_rangeb_spec. apply H; [exact Hx|]. apply in_rangeb_spec. exact Hr.
Qed.

Lemma rsize_seteq : forall F S T, seteq S T -> rsize F S = rsize F T.
Proof.
  intros F S T E. apply Nat.le_antisymm; apply rsize_le; apply range_incl_of_incl.
  - apply seteq_incl1. exact E.
  - apply seteq_incl2. exact E.
Qed.

Lemma rsize_eq_range_incl : forall F S T,
  range_incl F S T -> rsize F S = rsize F T -> range_incl F T S.
Proof.
  intros F S T H E a Hin Hr. apply in_rangeb_spec.
  apply (filter_length_eq (in_rangeb F S) (in_rangeb F T) (args F)).
  - intros x Hx Hx'. apply in_rangeb_spec. apply H; [exact Hx|]. apply in_rangeb_spec. exact Hx'.
  - exact E.
  - exact Hin.
  - apply in_rangeb_spec. exact Hr.
Qed.

(* a non-empty decidable family of sets of arguments has a range-maximal member *)
Lemma range_max_exists : forall F (qb : list nat -> bool) (Q : list nat -> Prop),
  (forall S, qb S = true <-> Q S) ->
  (forall S T, seteq S T -> Q S -> Q T) ->
  (forall S, Q S -> incl S (args F)) ->
  (exists S, Q S) ->
  exists M, Q M /\ forall S', Q S' -> range_incl F M S' -> range_incl F S' M.
Proof.
  intros F qb Q Hrefl Hinv Hincl [S0 HS0].
  destruct (fin_max (args F) qb Q (rsize F) Hrefl Hinv (rsize_seteq F))
    as [M [_ [HM Hmax]]].
  - exists S0. split; [apply Hincl; exact HS0 | exact HS0].
  - exists M. split; [exact HM|]. intros S' HS' Hr.
    apply rsize_eq_range_incl; [exact Hr|]. apply Nat.le_antisymm.
    + apply rsize_le. exact Hr.
    + apply Hmax; [apply Hincl; exact HS' | exact HS'].
Qed.

Theorem sst_exists : forall F, wf F -> exists S, sst F S.
Proof.
  intros F Hw.
  destruct (range_max_exists F (cob F) (co F) (cob_co F) (co_seteq F) (co_incl F)
              (co_exists F Hw)) as [M [HM Hmax]].
  exists M. split; assumption.
Qed.

Theorem stg_exists : forall F, wf F -> exists S, stg F S.
Proof.
  intros F _.
  destruct (range_max_exists F (cfsb F) (cfs F) (cfsb_cfs F) (cfs_seteq F) (cfs_incl F))
    as [M [HM Hmax]].
  - exists []. split; [intros a [] | apply cf_nil].
  - exists M. split; assumption.
Qed.

(* ------------------------------------------------------------------ *)
(** * 4. With a stable extension, semi-stable = stage = stable *)

Theorem sst_st_collapse : forall F S, wf F -> (exists T, st F T) -> (sst F S <-> st F S).
Proof.
  intros F S Hw [T HT]. split; [|apply st_sst; exact Hw].
  intros [Hc Hm]. apply range_full_st.
  - split; [apply co_incl; exact Hc | apply adm_cf; apply co_adm; exact Hc].
  - intros a Hin. apply (Hm T).
    + apply st_co; assumption.
    + intros x Hx _. apply st_range_full; assumption.
    + exact Hin.
    + apply st_range_full; assumption.
Qed.

Theorem stg_st_collapse : forall F S, wf F -> (exists T, st F T) -> (stg F S <-> st F S).
Proof.
  intros F S Hw [T HT]. split; [|apply st_stg; exact Hw].
  intros [Hc Hm]. apply range_full_st; [exact Hc|].
  intros a Hin. apply (Hm T).
  - apply st_cfs. exact HT.
  - intros x Hx _. apply st_range_full; assumption.
  - exact Hin.
  - apply st_range_full; assumption.
Qed.

(* ------------------------------------------------------------------ *)
(** * 6. Acceptance *)

Theorem adm_extends_co : forall F S, wf F -> adm F S -> exists C, co F C /\ incl S C.
Proof.
  intros F S Hw HS. destruct (adm_extends_pr F S Hw HS) as [P [HP Hi]].
  exists P. split; [apply pr_co; assumption | exact Hi].
Qed.

Theorem cred_co_adm : forall F A, wf F ->
  (cred CO F A <-> exists S, adm F S /\ exists a, In a A /\ In a S).
Proof.
  intros F A Hw. unfold cred. cbn [ext]. split.
  - intros [S [HS Hm]]. exists S. split; [apply co_adm; exact HS | exact Hm].
  - intros [S [HS [a [HaA HaS]]]]. destruct (adm_extends_co F S Hw HS) as [C [HC Hi]].
    exists C. split; [exact HC|]. exists a. split; [exact HaA | apply Hi; exact HaS].
Qed.

Theorem cred_co_pr : forall F A, wf F -> (cred CO F A <-> cred PR F A).
Proof.
  intros F A Hw. unfold cred. cbn [ext]. split.
  - intros [S [HS [a [HaA HaS]]]].
    destruct (adm_extends_pr F S Hw (co_adm F S HS)) as [P [HP Hi]].
    exists P. split; [exact HP|]. exists a. split; [exact HaA | apply Hi; exact HaS].
  - intros [S [HS Hm]]. exists S. split; [apply pr_co; assumption | exact Hm].
Qed.

Theorem cred_pr_adm : forall F A, wf F ->
  (cred PR F A <-> exists S, adm F S /\ exists a, In a A /\ In a S).
Proof.
  intros F A Hw. rewrite <- (cred_co_pr F A Hw). apply cred_co_adm. exact Hw.
Qed.

Theorem skep_co_gr : forall F G A, wf F -> gr F G ->
  (skep CO F A <-> exists a, In a A /\ In a G).
Proof.
  intros F G A _ [HG Hm]. unfold skep. cbn [ext]. split.
  - intros H. apply H. exact HG.
  - intros [a [HaA HaG]] S HS. exists a. split; [exact HaA | apply (Hm S HS); exact HaG].
Qed.

Theorem skep_gr_co : forall F A, wf F -> (skep GR F A <-> skep CO F A).
Proof.
  intros F A Hw. rewrite (skep_co_gr F (lfp F) A Hw (gr_lfp F Hw)). unfold skep. cbn [ext]. split.
  - intros H. apply H. apply gr_lfp. exact Hw.
  - intros [a [HaA HaG]] S HS. exists a. split; [exact HaA|].
    apply (proj2 (gr_unique F S Hw HS a)). exact HaG.
Qed.

Theorem skep_cred : forall s F A, (exists S, ext s F S) -> skep s F A -> cred s F A.
Proof. intros s F A [S HS] H. exists S. split; [exact HS | apply H; exact HS]. Qed.

Theorem st_none_skep : forall F A, (forall S, ~ st F S) -> skep ST F A.
Proof. intros F A H S HS. exfalso. exact (H S HS). Qed.

Theorem st_none_not_cred : forall F A, (forall S, ~ st F S) -> ~ cred ST F A.
Proof. intros F A H [S [HS _]]. exact (H S HS). Qed.

(* every semantics except stable has an extension in a well-formed framework
   (the ideal case is [idl_exists] below) *)

(* ------------------------------------------------------------------ *)
(** * 5. The ideal extension *)

Definition below_pr (F : af) (S : list nat) : Prop := forall P, pr F P -> incl S P.

Definition below_prb (F : af) (S : list nat) : bool :=
  forallb (fun P => subsetb S P) (filter (prb F) (powerset (args F))).

Lemma below_prb_spec : forall F S, below_prb F S = true <-> below_pr F S.
Proof. intros F S. apply inside_spec. Qed.

Lemma below_pr_seteq : forall F S T, seteq S T -> below_pr F S -> below_pr F T.
Proof. intros F S T E H P HP. apply (seteq_incl_l S T P E). apply H. exact HP. Qed.

Lemma idl_iff_below : forall F S,
  idl F S <-> adm F S /\ below_pr F S /\ forall S', adm F S' -> below_pr F S' -> incl S' S.
Proof. intros F S. reflexivity. Qed.

(* admissible sets below all preferred extensions are closed under union *)
Lemma below_pr_union : forall F S T, wf F ->
  adm F S -> below_pr F S -> adm F T -> below_pr F T ->
  adm F (S ++ T) /\ below_pr F (S ++ T).
Proof.
  intros F S T Hw HS HbS HT HbT.
  assert (Hb : below_pr F (S ++ T)).
  { intros P HP. apply incl_app; [apply HbS | apply HbT]; exact HP. }
  split; [|exact Hb]. destruct (pr_exists F Hw) as [P HP].
  apply adm_union; [exact HS | exact HT|].
  apply (cf_incl F (S ++ T) P (Hb P HP)). apply adm_cf. apply pr_adm. exact HP.
Qed.

Theorem idl_exists : forall F, wf F -> exists S, idl F S.
Proof.
  intros F Hw.
  destruct (fin_max (args F) (fun T => admb F T && below_prb F T)
                    (fun T => adm F T /\ below_pr F T) (msize F))
    as [M [_ [[HMa HMb] Hmax]]].
  - intros T. rewrite andb_true_iff, admb_adm, below_prb_spec. reflexivity.
  - intros T U E [Ha Hb]. split; [exact (adm_seteq F T U E Ha) | exact (below_pr_seteq F T U E Hb)].
  - apply msize_seteq.
  - exists []. split; [intros a []|]. split; [apply adm_nil | intros P _ a []].
  - exists M. split; [exact HMa|]. split; [exact HMb|].
    intros S' HS' Hb'.
    destruct (below_pr_union F M S' Hw HMa HMb HS' Hb') as [HUa HUb].
    assert (Hi : incl M (M ++ S')) by (apply incl_appl; apply incl_refl).
    apply (incl_tran (m := M ++ S')); [apply incl_appr; apply incl_refl|].
    apply (msize_eq_incl F M (M ++ S') Hi (adm_incl F _ HUa)).
    apply Nat.le_antisymm; [apply msize_le; exact Hi|].
    apply Hmax; [apply adm_incl; exact HUa | split; assumption].
Qed.

Theorem idl_unique : forall F S T, wf F -> idl F S -> idl F T -> seteq S T.
Proof.
  intros F S T _ [HSa [HSb HSm]] [HTa [HTb HTm]]. apply seteq_incl_both.
  - apply HTm; assumption.
  - apply HSm; assumption.
Qed.

Lemma gr_below_pr : forall F G, wf F -> gr F G -> below_pr F G.
Proof. intros F G Hw [_ Hm] P HP. apply Hm. apply pr_co; assumption. Qed.

Theorem gr_idl_pr : forall F G I P, wf F -> gr F G -> idl F I -> pr F P ->
  incl G I /\ incl I P.
Proof.
  intros F G I P Hw HG [HIa [HIb HIm]] HP. split.
  - apply HIm; [apply co_adm; apply gr_co; assumption | apply gr_below_pr; assumption].
  - apply HIb. exact HP.
Qed.

(* the ideal extension is complete *)
Theorem idl_co : forall F S, wf F -> idl F S -> co F S.
Proof.
  intros F S Hw [Ha [Hb Hm]]. split; [exact Ha|]. intros a Hin Hd.
  apply (Hm (a :: S)).
  - apply fundamental_adm; assumption.
  - intros P HP x [Hx|Hx]; [subst x | apply (Hb P HP); exact Hx].
    destruct (pr_co F P Hw HP) as [_ Hc]. apply Hc; [exact Hin|].
    exact (defends_mono F S P a (Hb P HP) Hd).
  - left. reflexivity.
Qed.

(* The characterisation used by the solver: with [A] the arguments that belong to every
   preferred extension, the ideal extension is the greatest admissible subset of [A]. *)
Definition pr_core_spec (F : af) (A : list nat) : Prop :=
  forall a, In a A <-> In a (args F) /\ forall P, pr F P -> In a P.

Definition pr_core (F : af) : list nat := filter (fun a => below_prb F [a]) (args F).

Lemma pr_core_ok : forall F, pr_core_spec F (pr_core F).
Proof.
  intros F a. unfold pr_core. rewrite filter_In, below_prb_spec. split.
  - intros [Hin H]. split; [exact Hin|]. intros P HP. apply (H P HP). left. reflexivity.
  - intros [Hin H]. split; [exact Hin|]. intros P HP x [Hx|[]]. subst x. apply H. exact HP.
Qed.

Lemma below_pr_iff_core : forall F A S, pr_core_spec F A -> incl S (args F) ->
  (below_pr F S <-> incl S A).
Proof.
  intros F A S HA Hi. split.
  - intros H a Ha. apply HA. split; [apply Hi; exact Ha|]. intros P HP. apply (H P HP). exact Ha.
  - intros H P HP a Ha. apply H in Ha. apply HA in Ha. destruct Ha as [_ Ha]. apply Ha. exact HP.
Qed.

Theorem idl_char : forall F A S, wf F -> pr_core_spec F A ->
  (idl F S <-> adm F S /\ incl S A /\ forall S', adm F S' -> incl S' A -> incl S' S).
Proof.
  intros F A S _ HA. split.
  - intros [Ha [Hb Hm]]. split; [exact Ha|]. split.
    + apply (proj1 (below_pr_iff_core F A S HA (adm_incl F S Ha))). exact Hb.
    + intros S' HS' Hi. apply Hm; [exact HS'|].
      apply (proj2 (below_pr_iff_core F A S' HA (adm_incl F S' HS'))). exact Hi.
  - intros [Ha [Hi Hm]]. split; [exact Ha|]. split.
    + apply (proj2 (below_pr_iff_core F A S HA (adm_incl F S Ha))). exact Hi.
    + intros S' HS' Hb. apply Hm; [exact HS'|].
      apply (proj1 (below_pr_iff_core F A S' HA (adm_incl F S' HS'))). exact Hb.
Qed.

(* every semantics but the stable one has an extension *)
Theorem ext_exists : forall s F, wf F -> s <> ST -> exists S, ext s F S.
Proof.
  intros s F Hw Hs. destruct s; cbn [ext].
  - apply gr_exists; exact Hw.
  - apply co_exists; exact Hw.
  - apply pr_exists; exact Hw.
  - congruence.
  - apply sst_exists; exact Hw.
  - apply stg_exists; exact Hw.
  - apply idl_exists; exact Hw.
Qed.

Theorem skep_cred_wf : forall s F A, wf F -> s <> ST -> skep s F A -> cred s F A.
Proof. intros s F A Hw Hs. apply skep_cred. apply ext_exists; assumption. Qed.

(* ------------------------------------------------------------------ *)
(** * Examples: the hypotheses are satisfiable and the functions compute *)

(* 0 -> 1 -> 2, 3 <-> 4, 4 -> 5 -> 5 *)
Definition ex_af : af :=
  {| args := [0; 1; 2; 3; 4; 5]; atts := [(0, 1); (1, 2); (3, 4); (4, 3); (4, 5); (5, 5)] |}.

Example ex_af_wf : wf ex_af.
Proof.
  split.
  - repeat constructor; cbn [In]; lia.
  - intros a b H. cbn [ex_af atts In] in H. cbn [ex_af args In].
    repeat (destruct H as [H|H]; [inversion H; subst; lia|]). destruct H.
Qed.

Example ex_af_lfp : lfp ex_af = [0; 2].
Proof. vm_compute. reflexivity. Qed.

Example ex_af_gr : gr ex_af [2; 0].
Proof. apply grb_fast_gr; [exact ex_af_wf | vm_compute; reflexivity]. Qed.

Example ex_af_st : exists T, st ex_af T.
Proof. exists [0; 2; 4]. apply stb_st. vm_compute. reflexivity. Qed.

Example ex_af_core : pr_core ex_af = [0; 2].
Proof. vm_compute. reflexivity. Qed.

(* no stable extension: a single self-attacking argument *)
Definition ex_loop : af := {| args := [0]; atts := [(0, 0)] |}.

Example ex_loop_wf : wf ex_loop.
Proof.
  split.
  - constructor; [intros [] | constructor].
  - intros a b [H|[]]. inversion H; subst. split; left; reflexivity.
Qed.

Example ex_loop_no_st : forall S, ~ st ex_loop S.
Proof.
  intros S HS. pose proof (ext_incl ST ex_loop S HS) as Hi.
  apply (st_seteq ex_loop S (canon (args ex_loop) S)) in HS;
    [|apply seteq_sym; apply canon_seteq; exact Hi].
  apply stb_st in HS. pose proof (canon_in_powerset (args ex_loop) S) as Hp.
  revert HS Hp. generalize (canon (args ex_loop) S). intros C HS Hp.
  cbn [ex_loop args powerset app map In] in Hp.
  destruct Hp as [Hp|[Hp|[]]]; subst C; vm_compute in HS; discriminate HS.
Qed.

(* ------------------------------------------------------------------ *)
Print Assumptions gr_lfp.
Print Assumptions gr_unique.
Print Assumptions grb_fast_gr.
Print Assumptions adm_extends_pr.
Print Assumptions st_co.
Print Assumptions st_pr.
Print Assumptions st_sst.
Print Assumptions st_stg.
Print Assumptions sst_pr.
Print Assumptions pr_co.
Print Assumptions gr_co.
Print Assumptions sst_co.
Print Assumptions sst_exists.
Print Assumptions stg_exists.
Print Assumptions sst_st_collapse.
Print Assumptions stg_st_collapse.
Print Assumptions idl_exists.
Print Assumptions idl_unique.
Print Assumptions gr_idl_pr.
Print Assumptions idl_co.
Print Assumptions idl_char.
Print Assumptions cred_co_pr.
Print Assumptions cred_co_adm.
Print Assumptions skep_co_gr.
Print Assumptions skep_cred.
Print Assumptions st_none_skep.
Print Assumptions st_none_not_cred.
Print Assumptions ext_exists.
Print Assumptions gr_exists.
Print Assumptions pr_exists.
Print Assumptions co_exists.
Print Assumptions fundamental_adm.
Print Assumptions fundamental_cf.
Print Assumptions co_incl_lfp.
Print Assumptions lfp_stable.
Print Assumptions iter_charf_stationary.
Print Assumptions adm_extends_co.
Print Assumptions skep_gr_co.
Print Assumptions grb_fast_grb.
