(* Spec layer: Dung abstract argumentation frameworks and the seven semantics.
   Definitions only (Prop level and boolean/executable level); the lemmas relating
   them are in Spec/SemFacts.v and Spec/Theory.v.  No proof lives here so that the
   executable part always extracts. *)
From Coq Require Export List Arith Bool Lia.
Export ListNotations.

Record af := { args : list nat; atts : list (nat * nat) }.

Definition wf (F : af) : Prop :=
  NoDup (args F) /\ forall a b, In (a, b) (atts F) -> In a (args F) /\ In b (args F).

Definition att (F : af) (a b : nat) : Prop := In (a, b) (atts F).

(* ---------- Prop level ---------- *)
Definition cf (F : af) (S : list nat) : Prop :=
  forall a b, In a S -> In b S -> ~ att F a b.
Definition defends (F : af) (S : list nat) (a : nat) : Prop :=
  forall b, att F b a -> exists c, In c S /\ att F c b.
Definition cfs (F : af) (S : list nat) : Prop := incl S (args F) /\ cf F S.
Definition adm (F : af) (S : list nat) : Prop :=
  incl S (args F) /\ cf F S /\ forall a, In a S -> defends F S a.
Definition co (F : af) (S : list nat) : Prop :=
  adm F S /\ forall a, In a (args F) -> defends F S a -> In a S.
Definition gr (F : af) (S : list nat) : Prop :=
  co F S /\ forall S', co F S' -> incl S S'.
Definition pr (F : af) (S : list nat) : Prop :=
  adm F S /\ forall S', adm F S' -> incl S S' -> incl S' S.
Definition st (F : af) (S : list nat) : Prop :=
  incl S (args F) /\ cf F S /\
  forall a, In a (args F) -> ~ In a S -> exists b, In b S /\ att F b a.
Definition in_range (F : af) (S : list nat) (a : nat) : Prop :=
  In a S \/ exists b, In b S /\ att F b a.
Definition range_incl (F : af) (S S' : list nat) : Prop :=
  forall a, In a (args F) -> in_range F S a -> in_range F S' a.
Definition sst (F : af) (S : list nat) : Prop :=
  co F S /\ forall S', co F S' -> range_incl F S S' -> range_incl F S' S.
Definition stg (F : af) (S : list nat) : Prop :=
  cfs F S /\ forall S', cfs F S' -> range_incl F S S' -> range_incl F S' S.
Definition idl (F : af) (S : list nat) : Prop :=
  adm F S /\ (forall P, pr F P -> incl S P) /\
  forall S', adm F S' -> (forall P, pr F P -> incl S' P) -> incl S' S.

Inductive sem := GR | CO | PR | ST | SST | STG | ID.

Definition ext (s : sem) : af -> list nat -> Prop :=
  match s with
  | GR => gr | CO => co | PR => pr | ST => st | SST => sst | STG => stg | ID => idl
  end.

Definition cred (s : sem) (F : af) (A : list nat) : Prop :=
  exists S, ext s F S /\ exists a, In a A /\ In a S.
Definition skep (s : sem) (F : af) (A : list nat) : Prop :=
  forall S, ext s F S -> exists a, In a A /\ In a S.

(* ---------- boolean / executable level ---------- *)
Definition memb (a : nat) (S : list nat) : bool := existsb (Nat.eqb a) S.
Definition subsetb (S T : list nat) : bool := forallb (fun a => memb a T) S.
Definition seteqb (S T : list nat) : bool := subsetb S T && subsetb T S.
Definition attb (F : af) (a b : nat) : bool :=
  existsb (fun p => Nat.eqb (fst p) a && Nat.eqb (snd p) b) (atts F).
Definition attackers (F : af) (a : nat) : list nat :=
  map fst (filter (fun p => Nat.eqb (snd p) a) (atts F)).
Definition attacked (F : af) (a : nat) : list nat :=
  map snd (filter (fun p => Nat.eqb (fst p) a) (atts F)).

Definition cfb (F : af) (S : list nat) : bool :=
  forallb (fun a => forallb (fun b => negb (attb F a b)) S) S.
Definition attacked_byb (F : af) (S : list nat) (a : nat) : bool :=
  existsb (fun b => memb b S) (attackers F a).
Definition defendsb (F : af) (S : list nat) (a : nat) : bool :=
  forallb (fun b => attacked_byb F S b) (attackers F a).
Definition cfsb (F : af) (S : list nat) : bool := subsetb S (args F) && cfb F S.
Definition admb (F : af) (S : list nat) : bool :=
  subsetb S (args F) && cfb F S && forallb (defendsb F S) S.
Definition cob (F : af) (S : list nat) : bool :=
  admb F S && forallb (fun a => implb (defendsb F S a) (memb a S)) (args F).
Definition stb (F : af) (S : list nat) : bool :=
  subsetb S (args F) && cfb F S &&
  forallb (fun a => memb a S || attacked_byb F S a) (args F).
Definition in_rangeb (F : af) (S : list nat) (a : nat) : bool :=
  memb a S || attacked_byb F S a.
Definition range_inclb (F : af) (S S' : list nat) : bool :=
  forallb (fun a => implb (in_rangeb F S a) (in_rangeb F S' a)) (args F).

Fixpoint powerset (l : list nat) : list (list nat) :=
  match l with
  | [] => [[]]
  | x :: r => let p := powerset r in p ++ map (cons x) p
  end.

Definition grb (F : af) (S : list nat) : bool :=
  cob F S && forallb (fun S' => implb (cob F S') (subsetb S S')) (powerset (args F)).
Definition prb (F : af) (S : list nat) : bool :=
  admb F S &&
  forallb (fun S' => implb (admb F S' && subsetb S S') (subsetb S' S)) (powerset (args F)).
Definition sstb (F : af) (S : list nat) : bool :=
  cob F S &&
  forallb (fun S' => implb (cob F S' && range_inclb F S S') (range_inclb F S' S))
          (powerset (args F)).
Definition stgb (F : af) (S : list nat) : bool :=
  cfsb F S &&
  forallb (fun S' => implb (cfsb F S' && range_inclb F S S') (range_inclb F S' S))
          (powerset (args F)).
Definition idlb_with (prs : list (list nat)) (F : af) (S : list nat) : bool :=
  let inside S0 := forallb (fun P => subsetb S0 P) prs in
  admb F S && inside S &&
  forallb (fun S' => implb (admb F S' && inside S') (subsetb S' S)) (powerset (args F)).
Definition idlb (F : af) (S : list nat) : bool :=
  idlb_with (filter (prb F) (powerset (args F))) F S.

Definition extb (s : sem) : af -> list nat -> bool :=
  match s with
  | GR => grb | CO => cob | PR => prb | ST => stb | SST => sstb | STG => stgb | ID => idlb
  end.

(* all extensions, as sublists of [args F] (canonical representatives) *)
Definition all_exts (s : sem) (F : af) : list (list nat) :=
  match s with
  | ID => let prs := filter (prb F) (powerset (args F)) in
          filter (idlb_with prs F) (powerset (args F))
  | _ => filter (extb s F) (powerset (args F))
  end.
Definition meetsb (A S : list nat) : bool := existsb (fun a => memb a S) A.
Definition credb (s : sem) (F : af) (A : list nat) : bool :=
  existsb (meetsb A) (all_exts s F).
Definition skepb (s : sem) (F : af) (A : list nat) : bool :=
  forallb (meetsb A) (all_exts s F).

(* the base "candidate" families used by the encoders *)
Inductive base := BCf | BAdm | BCo | BSt.
Definition baseb (b : base) : af -> list nat -> bool :=
  match b with BCf => cfsb | BAdm => admb | BCo => cob | BSt => stb end.
Definition basep (b : base) : af -> list nat -> Prop :=
  match b with BCf => cfs | BAdm => adm | BCo => co | BSt => st end.
Definition all_base (b : base) (F : af) : list (list nat) :=
  filter (baseb b F) (powerset (args F)).

(* compact frameworks: ids 0..n-1 *)
Definition compact (n : nat) (l : list (nat * nat)) : af := {| args := seq 0 n; atts := l |}.
Definition atts_ok (n : nat) (l : list (nat * nat)) : Prop :=
  forall a b, In (a, b) l -> a < n /\ b < n.
Definition atts_okb (n : nat) (l : list (nat * nat)) : bool :=
  forallb (fun p => Nat.ltb (fst p) n && Nat.ltb (snd p) n) l.
