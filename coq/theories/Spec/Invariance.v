(* Spec layer: invariance theorems for the seven semantics of Spec/AF.v.
     A. presentation invariance (same argument set, same attack relation);
     B. invariance under injective renaming of the arguments;
     C. decomposition over the disjoint union of two unrelated frameworks, and its n-ary form.
   Everything is stated for every [s : sem] and proved without any axiom: all sets are finite
   lists and the boolean deciders of Spec/AF.v are used where a case distinction is needed.
   Depends only on Spec/AF.v and Spec/SemFacts.v.  The component-level gluing theorem (D), which
   needs Model/Graph.v, is in Proofs/Decomp.v. *)
From Coq Require Import List Arith Bool Lia Setoid.
From Crusta Require Import Spec.AF Spec.SemFacts.
Import ListNotations.

(* ------------------------------------------------------------------ *)
(** * A. Presentation invariance *)

Definition af_equiv (F F' : af) : Prop :=
  (forall a, In a (args F) <-> In a (args F')) /\ (forall a b, att F a b <-> att F' a b).

Lemma af_equiv_refl : forall F, af_equiv F F.
Proof. intros F. split; intros; reflexivity. Qed.

Lemma af_equiv_sym : forall F F', af_equiv F F' -> af_equiv F' F.
Proof.
  intros F F' [Ha Ht]. split.
  - intros a. symmetry. apply Ha.
  - intros a b. symmetry. apply Ht.
Qed.

Lemma af_equiv_trans : forall F F' F'', af_equiv F F' -> af_equiv F' F'' -> af_equiv F F''.
Proof.
  intros F F' F'' [Ha Ht] [Ha' Ht']. split.
  - intros a. rewrite (Ha a). apply Ha'.
  - intros a b. rewrite (Ht a b). apply Ht'.
Qed.

Section EquivOneWay.
  Variables F F' : af.
  Hypothesis E : af_equiv F F'.

  Let Eargs : forall a, In a (args F) <-> In a (args F') := proj1 E.
  Let Eatt : forall a b, att F a b <-> att F' a b := proj2 E.

  Lemma incl_args_equiv1 : forall S, incl S (args F) -> incl S (args F').
  Proof. intros S H a Ha. apply Eargs. apply H. exact Ha. Qed.

  Lemma cf_equiv1 : forall S, cf F S -> cf F' S.
  Proof. intros S H a b Ha Hb Hab. apply (H a b Ha Hb). apply Eatt. exact Hab. Qed.

  Lemma defends_equiv1 : forall S a, defends F S a -> defends F' S a.
  Proof.
    intros S a H b Hb. apply Eatt in Hb. destruct (H b Hb) as [c [Hc Hcb]].
    exists c. split; [exact Hc | apply Eatt; exact Hcb].
  Qed.

  Lemma in_range_equiv1 : forall S a, in_range F S a -> in_range F' S a.
  Proof.
    intros S a [H|[b [Hb Hba]]]; [left; exact H|].
    right. exists b. split; [exact Hb | apply Eatt; exact Hba].
  Qed.
End EquivOneWay.

Lemma defends_af_equiv : forall F F' S a, af_equiv F F' -> (defends F S a <-> defends F' S a).
Proof.
  intros F F' S a E. split.
  - apply defends_equiv1. exact E.
  - apply defends_equiv1. apply af_equiv_sym. exact E.
Qed.

Lemma in_range_af_equiv : forall F F' S a, af_equiv F F' -> (in_range F S a <-> in_range F' S a).
Proof.
  intros F F' S a E. split.
  - apply in_range_equiv1. exact E.
  - apply in_range_equiv1. apply af_equiv_sym. exact E.
Qed.

Lemma range_incl_af_equiv : forall F F' S S',
  af_equiv F F' -> (range_incl F S S' <-> range_incl F' S S').
Proof.
  intros F F' S S' E. unfold range_incl. split; intros H a Hin Hr.
  - apply (in_range_af_equiv F F' S' a E). apply H.
    + apply (proj1 E). exact Hin.
    + apply (in_range_af_equiv F F' S a E). exact Hr.
  - apply (in_range_af_equiv F F' S' a E). apply H.
    + apply (proj1 E). exact Hin.
    + apply (in_range_af_equiv F F' S a E). exact Hr.
Qed.

(* one direction of each semantics; the equivalences follow by symmetry of [af_equiv] *)
Lemma cfs_equiv1 : forall F F' S, af_equiv F F' -> cfs F S -> cfs F' S.
Proof.
  intros F F' S E [Hi Hc]. split.
  - exact (incl_args_equiv1 F F' E S Hi).
  - exact (cf_equiv1 F F' E S Hc).
Qed.

Lemma adm_equiv1 : forall F F' S, af_equiv F F' -> adm F S -> adm F' S.
Proof.
  intros F F' S E [Hi [Hc Hd]]. split; [|split].
  - exact (incl_args_equiv1 F F' E S Hi).
  - exact (cf_equiv1 F F' E S Hc).
  - intros a Ha. apply (defends_equiv1 F F' E). apply Hd. exact Ha.
Qed.

Lemma co_equiv1 : forall F F' S, af_equiv F F' -> co F S -> co F' S.
Proof.
  intros F F' S E [Ha Hc]. split.
  - exact (adm_equiv1 F F' S E Ha).
  - intros a Hin Hd. apply Hc.
    + apply (proj1 E). exact Hin.
    + apply (defends_af_equiv F F' S a E). exact Hd.
Qed.

Lemma st_equiv1 : forall F F' S, af_equiv F F' -> st F S -> st F' S.
Proof.
  intros F F' S E [Hi [Hc Hs]]. split; [|split].
  - exact (incl_args_equiv1 F F' E S Hi).
  - exact (cf_equiv1 F F' E S Hc).
  - intros a Hin Hn. destruct (Hs a) as [b [Hb Hba]].
    + apply (proj1 E). exact Hin.
    + exact Hn.
    + exists b. split; [exact Hb | apply (proj2 E); exact Hba].
Qed.

Lemma gr_equiv1 : forall F F' S, af_equiv F F' -> gr F S -> gr F' S.
Proof.
  intros F F' S E [Hc Hm]. split.
  - exact (co_equiv1 F F' S E Hc).
  - intros S' HS'. apply Hm. exact (co_equiv1 F' F S' (af_equiv_sym F F' E) HS').
Qed.

Lemma pr_equiv1 : forall F F' S, af_equiv F F' -> pr F S -> pr F' S.
Proof.
  intros F F' S E [Ha Hm]. split.
  - exact (adm_equiv1 F F' S E Ha).
  - intros S' HS' Hi. apply Hm; [|exact Hi].
    exact (adm_equiv1 F' F S' (af_equiv_sym F F' E) HS').
Qed.

Lemma sst_equiv1 : forall F F' S, af_equiv F F' -> sst F S -> sst F' S.
Proof.
  intros F F' S E [Hc Hm]. split.
  - exact (co_equiv1 F F' S E Hc).
  - intros S' HS' Hr. apply (range_incl_af_equiv F F' S' S E). apply Hm.
    + exact (co_equiv1 F' F S' (af_equiv_sym F F' E) HS').
    + apply (range_incl_af_equiv F F' S S' E). exact Hr.
Qed.

Lemma stg_equiv1 : forall F F' S, af_equiv F F' -> stg F S -> stg F' S.
Proof.
  intros F F' S E [Hc Hm]. split.
  - exact (cfs_equiv1 F F' S E Hc).
  - intros S' HS' Hr. apply (range_incl_af_equiv F F' S' S E). apply Hm.
    + exact (cfs_equiv1 F' F S' (af_equiv_sym F F' E) HS').
    + apply (range_incl_af_equiv F F' S S' E). exact Hr.
Qed.

Lemma idl_equiv1 : forall F F' S, af_equiv F F' -> idl F S -> idl F' S.
Proof.
  intros F F' S E [Ha [Hp Hm]]. pose proof (af_equiv_sym F F' E) as E'. split; [|split].
  - exact (adm_equiv1 F F' S E Ha).
  - intros P HP. apply Hp. exact (pr_equiv1 F' F P E' HP).
  - intros S' HS' HP. apply Hm.
    + exact (adm_equiv1 F' F S' E' HS').
    + intros P HPr. apply HP. exact (pr_equiv1 F F' P E HPr).
Qed.

Lemma ext_equiv1 : forall s F F' S, af_equiv F F' -> ext s F S -> ext s F' S.
Proof.
  intros s F F' S E. destruct s; cbn [ext].
  - apply gr_equiv1; exact E.
  - apply co_equiv1; exact E.
  - apply pr_equiv1; exact E.
  - apply st_equiv1; exact E.
  - apply sst_equiv1; exact E.
  - apply stg_equiv1; exact E.
  - apply idl_equiv1; exact E.
Qed.

Theorem ext_af_equiv : forall s F F' S, af_equiv F F' -> (ext s F S <-> ext s F' S).
Proof.
  intros s F F' S E. split.
  - apply ext_equiv1. exact E.
  - apply ext_equiv1. apply af_equiv_sym. exact E.
Qed.

Lemma cfs_af_equiv : forall F F' S, af_equiv F F' -> (cfs F S <-> cfs F' S).
Proof.
  intros F F' S E. split; apply cfs_equiv1; [exact E | apply af_equiv_sym; exact E].
Qed.

Lemma adm_af_equiv : forall F F' S, af_equiv F F' -> (adm F S <-> adm F' S).
Proof.
  intros F F' S E. split; apply adm_equiv1; [exact E | apply af_equiv_sym; exact E].
Qed.

Corollary cred_af_equiv : forall s F F' A, af_equiv F F' -> (cred s F A <-> cred s F' A).
Proof.
  intros s F F' A E. unfold cred. split; intros [S [HS Hm]]; exists S; (split; [|exact Hm]).
  - apply (ext_af_equiv s F F' S E). exact HS.
  - apply (ext_af_equiv s F F' S E). exact HS.
Qed.

Corollary skep_af_equiv : forall s F F' A, af_equiv F F' -> (skep s F A <-> skep s F' A).
Proof.
  intros s F F' A E. unfold skep. split; intros H S HS; apply H.
  - apply (ext_af_equiv s F F' S E). exact HS.
  - apply (ext_af_equiv s F F' S E). exact HS.
Qed.

(* Instances of [af_equiv]: any re-ordering / duplication of the declarations. *)
Lemma af_equiv_lists : forall l l' t t',
  (forall a, In a l <-> In a l') -> (forall p, In p t <-> In p t') ->
  af_equiv {| args := l; atts := t |} {| args := l'; atts := t' |}.
Proof.
  intros l l' t t' Hl Ht. split.
  - exact Hl.
  - intros a b. unfold att. cbn [atts]. apply Ht.
Qed.

Corollary ext_permutation_invariant : forall s l l' t t' S,
  (forall a, In a l <-> In a l') -> (forall p, In p t <-> In p t') ->
  (ext s {| args := l; atts := t |} S <-> ext s {| args := l'; atts := t' |} S).
Proof.
  intros s l l' t t' S Hl Ht. apply ext_af_equiv. apply af_equiv_lists; assumption.
Qed.

Corollary ext_duplicate_attack : forall s l t p S, In p t ->
  (ext s {| args := l; atts := p :: t |} S <-> ext s {| args := l; atts := t |} S).
Proof.
  intros s l t p S Hp. apply ext_permutation_invariant.
  - intros a. reflexivity.
  - intros q. split.
    + intros [Hq|Hq]; [subst q; exact Hp | exact Hq].
    + intros Hq. right. exact Hq.
Qed.

(* ------------------------------------------------------------------ *)
(** * Restriction of a set to a list of arguments *)

Definition restr (A S : list nat) : list nat := filter (fun a => memb a A) S.

Lemma in_restr : forall A S a, In a (restr A S) <-> In a A /\ In a S.
Proof. intros A S a. unfold restr. rewrite filter_In, memb_In. tauto. Qed.

Lemma restr_incl_l : forall A S, incl (restr A S) A.
Proof. intros A S a H. apply in_restr in H. tauto. Qed.

Lemma restr_incl_r : forall A S, incl (restr A S) S.
Proof. intros A S a H. apply in_restr in H. tauto. Qed.

Lemma restr_mono : forall A S T, incl S T -> incl (restr A S) (restr A T).
Proof.
  intros A S T H a Ha. apply in_restr in Ha. apply in_restr.
  split; [tauto | apply H; tauto].
Qed.

Lemma restr_seteq : forall A S T, seteq S T -> seteq (restr A S) (restr A T).
Proof. intros A S T E a. rewrite !in_restr, (E a). reflexivity. Qed.

Lemma restr_id : forall A S, incl S A -> seteq (restr A S) S.
Proof.
  intros A S H a. rewrite in_restr. split; [tauto|]. intros Ha. split; [apply H; exact Ha | exact Ha].
Qed.

Lemma restr_restr_sub : forall A B S, incl A B -> seteq (restr A (restr B S)) (restr A S).
Proof.
  intros A B S H a. rewrite !in_restr. split; [tauto|]. intros [Ha Hs].
  split; [exact Ha|]. split; [apply H; exact Ha | exact Hs].
Qed.

Lemma seteq_incl_iff : forall S T, seteq S T <-> incl S T /\ incl T S.
Proof.
  intros S T. split.
  - intros E. split; intros a Ha; apply (E a); exact Ha.
  - intros [H1 H2] a. split; [apply H1 | apply H2].
Qed.

(* ------------------------------------------------------------------ *)
(** * C. Decomposition over unrelated parts *)

(* [P] is an isolated part of [U]: its attacks stay inside its arguments, they are attacks of [U],
   and every attack of [U] touching an argument of [P] is an attack of [P]. *)
Definition part (U P : af) : Prop :=
  (forall a b, att P a b -> In a (args P) /\ In b (args P)) /\
  (forall a b, att P a b -> att U a b) /\
  (forall a b, att U a b -> In a (args P) \/ In b (args P) -> att P a b).

Section Part.
  Variables U P : af.
  Hypothesis HP : part U P.

  Let Hw : forall a b, att P a b -> In a (args P) /\ In b (args P) := proj1 HP.
  Let Hup : forall a b, att P a b -> att U a b := proj1 (proj2 HP).
  Let Hdown : forall a b, att U a b -> In a (args P) \/ In b (args P) -> att P a b :=
    proj2 (proj2 HP).

  Lemma cf_part : forall S, cf U S -> cf P (restr (args P) S).
  Proof.
    intros S H a b Ha Hb Hab. apply in_restr in Ha. apply in_restr in Hb.
    apply (H a b); [tauto | tauto | apply Hup; exact Hab].
  Qed.

  Lemma defends_part : forall S a, In a (args P) ->
    (defends U S a <-> defends P (restr (args P) S) a).
  Proof.
    intros S a Ha. split; intros H b Hb.
    - destruct (H b (Hup b a Hb)) as [c [Hc Hcb]].
      assert (Hcb' : att P c b).
      { apply Hdown; [exact Hcb|]. right. exact (proj1 (Hw b a Hb)). }
      exists c. split; [|exact Hcb']. apply in_restr. split; [|exact Hc].
      exact (proj1 (Hw c b Hcb')).
    - assert (Hb' : att P b a) by (apply Hdown; [exact Hb | right; exact Ha]).
      destruct (H b Hb') as [c [Hc Hcb]]. apply in_restr in Hc.
      exists c. split; [tauto | apply Hup; exact Hcb].
  Qed.

  Lemma in_range_part : forall S a, In a (args P) ->
    (in_range U S a <-> in_range P (restr (args P) S) a).
  Proof.
    intros S a Ha. split.
    - intros [H|[b [Hb Hba]]].
      + left. apply in_restr. split; assumption.
      + assert (Hba' : att P b a) by (apply Hdown; [exact Hba | right; exact Ha]).
        right. exists b. split; [|exact Hba']. apply in_restr. split; [|exact Hb].
        exact (proj1 (Hw b a Hba')).
    - intros [H|[b [Hb Hba]]].
      + left. apply in_restr in H. tauto.
      + right. apply in_restr in Hb. exists b. split; [tauto | apply Hup; exact Hba].
  Qed.
End Part.

(* ------------------------------------------------------------------ *)
(** * Every admissible set extends to a preferred extension (finite, constructive) *)

Lemma forallb_false_witness : forall (A : Type) (f : A -> bool) (l : list A),
  forallb f l = false -> exists x, In x l /\ f x = false.
Proof.
  intros A f l. induction l as [|x r IH]; cbn [forallb]; intros H; [discriminate|].
  destruct (f x) eqn:E.
  - destruct (IH H) as [y [Hy Ey]]. exists y. split; [right; exact Hy | exact Ey].
  - exists x. split; [left; reflexivity | exact E].
Qed.

Lemma existsb_false_all : forall (A : Type) (f : A -> bool) (l : list A),
  existsb f l = false -> forall x, In x l -> f x = false.
Proof.
  intros A f l H x Hx. destruct (f x) eqn:E; [|reflexivity].
  assert (Ht : existsb f l = true) by (apply existsb_exists; exists x; split; assumption).
  congruence.
Qed.

Lemma canon_len_mono : forall l S S', incl S S' -> length (canon l S) <= length (canon l S').
Proof.
  intros l S S' Hi. unfold canon. induction l as [|x r IH]; cbn [filter]; [lia|].
  destruct (memb x S) eqn:E1; destruct (memb x S') eqn:E2; cbn [length]; try lia.
  exfalso. apply memb_In in E1. apply Hi in E1. apply memb_In in E1. congruence.
Qed.

Lemma canon_len_strict : forall l S S' a,
  incl S S' -> In a l -> In a S' -> ~ In a S -> length (canon l S) < length (canon l S').
Proof.
  intros l S S' a Hi Hl Ha' Ha. induction l as [|x r IH]; [destruct Hl|].
  pose proof (canon_len_mono r S S' Hi) as Hm. unfold canon in *. cbn [filter].
  destruct Hl as [Hx|Hr].
  - subst x. apply memb_false in Ha. apply memb_In in Ha'. rewrite Ha, Ha'. cbn [length]. lia.
  - specialize (IH Hr).
    destruct (memb x S) eqn:E1; destruct (memb x S') eqn:E2; cbn [length]; try lia.
    exfalso. apply memb_In in E1. apply Hi in E1. apply memb_In in E1. congruence.
Qed.

Lemma canon_len_le : forall l S, length (canon l S) <= length l.
Proof.
  intros l S. unfold canon. induction l as [|x r IH]; cbn [filter length]; [lia|].
  destruct (memb x S); cbn [length]; lia.
Qed.

Lemma adm_nil : forall F, adm F [].
Proof.
  intros F. split; [|split].
  - intros a [].
  - intros a b [].
  - intros a [].
Qed.

Lemma pr_extends_fuel : forall n F S,
  length (args F) - length (canon (args F) S) <= n -> adm F S ->
  exists P, pr F P /\ incl S P.
Proof.
  induction n as [|n IH]; intros F S Hn Ha;
  (destruct (existsb (fun S' => admb F S' && subsetb S S' && negb (subsetb S' S))
                     (powerset (args F))) eqn:Ex;
   [ apply existsb_exists in Ex; destruct Ex as [S' [HS' Hb]];
     apply andb_true_iff in Hb; destruct Hb as [Hb Hns];
     apply andb_true_iff in Hb; destruct Hb as [Hadm Hsub];
     apply admb_adm in Hadm; apply subsetb_incl in Hsub;
     apply negb_true_iff in Hns; apply forallb_false_witness in Hns;
     destruct Hns as [a [HaS' HaS]]; apply memb_false in HaS;
     pose proof (canon_len_strict (args F) S S' a Hsub
                   (adm_incl F S' Hadm a HaS') HaS' HaS) as Hlt;
     pose proof (canon_len_le (args F) S') as Hle
   | exists S; split; [|apply incl_refl]; split; [exact Ha|];
     intros S'' HS'' Hi;
     pose proof (existsb_false_all _ _ _ Ex (canon (args F) S'')
                   (canon_in_powerset (args F) S'')) as Hf;
     pose proof (canon_seteq (args F) S'' (adm_incl F S'' HS'')) as Hce;
     assert (H1 : admb F (canon (args F) S'') = true)
       by (apply admb_adm; apply (adm_seteq F S''); [apply seteq_sym; exact Hce | exact HS'']);
     assert (H2 : subsetb S (canon (args F) S'') = true)
       by (apply subsetb_incl; intros a HaS; apply (Hce a); apply Hi; exact HaS);
     cbv beta in Hf; rewrite H1, H2 in Hf; cbn [andb] in Hf; apply negb_false_iff in Hf;
     apply subsetb_incl in Hf; intros a HaS''; apply Hf; apply (Hce a); exact HaS'' ]).
  - exfalso. lia.
  - destruct (IH F S') as [P [HP HiP]]; [lia | exact Hadm |].
    exists P. split; [exact HP|]. intros b Hb. apply HiP. apply Hsub. exact Hb.
Qed.

Lemma pr_extends : forall F S, adm F S -> exists P, pr F P /\ incl S P.
Proof. intros F S H. exact (pr_extends_fuel _ F S (le_n _) H). Qed.

Lemma pr_exists : forall F, exists P, pr F P.
Proof.
  intros F. destruct (pr_extends F [] (adm_nil F)) as [P [HP _]]. exists P. exact HP.
Qed.
