(* Spec layer: invariance theorems for the seven semantics of Spec/AF.v.
     A. presentation invariance (same argument set, same attack relation);
     B. invariance under injective renaming of the arguments;
     C. decomposition over the disjoint union of two unrelated frameworks, and its n-ary form.
   Everything is stated for every [s : sem] and proved without any axiom: all sets are finite
   lists and the boolean deciders of Spec/AF.v are used where a case distinction is needed.
   Depends only on Spec/AF.v and Spec/SemFacts.v.  The component-level gluing theorem (D), which
   needs Model/Graph.v, is in Proofs/Decomp.v. *)
From Coq Require Import List Arith Bool Lia Setoid.
From Crusta Require Import Spec.AF Spec.SemFacts.
Import ListNotations.

(* ------------------------------------------------------------------ *)
(** * A. Presentation invariance *)

Definition af_equiv (F F' : af) : Prop :=
  (forall a, In a (args F) <-> In a (args F')) /\ (forall a b, att F a b <-> att F' a b).

Lemma af_equiv_refl : forall F, af_equiv F F.
Proof. intros F. split; intros; reflexivity. Qed.

Lemma af_equiv_sym : forall F F', af_equiv F F' -> af_equiv F' F.
Proof.
  intros F F' [Ha Ht]. split.
  - intros a. symmetry. apply Ha.
  - intros a b. symmetry. apply Ht.
Qed.

Lemma af_equiv_trans : forall F F' F'', af_equiv F F' -> af_equiv F' F'' -> af_equiv F F''.
Proof.
  intros F F' F'' [Ha Ht] [Ha' Ht']. split.
  - intros a. rewrite (Ha a). apply Ha'.
  - intros a b. rewrite (Ht a b). apply Ht'.
Qed.

Section EquivOneWay.
  Variables F F' : af.
  Hypothesis E : af_equiv F F'.

  Let Eargs : forall a, In a (args F) <-> In a (args F') := proj1 E.
  Let Eatt : forall a b, att F a b <-> att F' a b := proj2 E.

  Lemma incl_args_equiv1 : forall S, incl S (args F) -> incl S (args F').
  Proof. intros S H a Ha. apply Eargs. apply H. exact Ha. Qed.

  Lemma cf_equiv1 : forall S, cf F S -> cf F' S.
  Proof. intros S H a b Ha Hb Hab. apply (H a b Ha Hb). apply Eatt. exact Hab. Qed.

  Lemma defends_equiv1 : forall S a, defends F S a -> defends F' S a.
  Proof.
    intros S a H b Hb. apply Eatt in Hb. destruct (H b Hb) as [c [Hc Hcb]].
    exists c. split; [exact Hc | apply Eatt; exact Hcb].
  Qed.

  Lemma in_range_equiv1 : forall S a, in_range F S a -> in_range F' S a.
  Proof.
    intros S a [H|[b [Hb Hba]]]; [left; exact H|].
    right. exists b. split; [exact Hb | apply Eatt; exact Hba].
  Qed.
End EquivOneWay.

Lemma defends_af_equiv : forall F F' S a, af_equiv F F' -> (defends F S a <-> defends F' S a).
Proof.
  intros F F' S a E. split.
  - apply defends_equiv1. exact E.
  - apply defends_equiv1. apply af_equiv_sym. exact E.
Qed.

Lemma in_range_af_equiv : forall F F' S a, af_equiv F F' -> (in_range F S a <-> in_range F' S a).
Proof.
  intros F F' S a E. split.
  - apply in_range_equiv1. exact E.
  - apply in_range_equiv1. apply af_equiv_sym. exact E.
Qed.

Lemma range_incl_af_equiv : forall F F' S S',
  af_equiv F F' -> (range_incl F S S' <-> range_incl F' S S').
Proof.
  intros F F' S S' E. unfold range_incl. split; intros H a Hin Hr.
  - apply (in_range_af_equiv F F' S' a E). apply H.
    + apply (proj1 E). exact Hin.
    + apply (in_range_af_equiv F F' S a E). exact Hr.
  - apply (in_range_af_equiv F F' S' a E). apply H.
    + apply (proj1 E). exact Hin.
    + apply (in_range_af_equiv F F' S a E). exact Hr.
Qed.

(* one direction of each semantics; the equivalences follow by symmetry of [af_equiv] *)
Lemma cfs_equiv1 : forall F F' S, af_equiv F F' -> cfs F S -> cfs F' S.
Proof.
  intros F F' S E [Hi Hc]. split.
  - exact (incl_args_equiv1 F F' E S Hi).
  - exact (cf_equiv1 F F' E S Hc).
Qed.

Lemma adm_equiv1 : forall F F' S, af_equiv F F' -> adm F S -> adm F' S.
Proof.
  intros F F' S E [Hi [Hc Hd]]. split; [|split].
  - exact (incl_args_equiv1 F F' E S Hi).
  - exact (cf_equiv1 F F' E S Hc).
  - intros a Ha. apply (defends_equiv1 F F' E). apply Hd. exact Ha.
Qed.

Lemma co_equiv1 : forall F F' S, af_equiv F F' -> co F S -> co F' S.
Proof.
  intros F F' S E [Ha Hc]. split.
  - exact (adm_equiv1 F F' S E Ha).
  - intros a Hin Hd. apply Hc.
    + apply (proj1 E). exact Hin.
    + apply (defends_af_equiv F F' S a E). exact Hd.
Qed.

Lemma st_equiv1 : forall F F' S, af_equiv F F' -> st F S -> st F' S.
Proof.
  intros F F' S E [Hi [Hc Hs]]. split; [|split].
  - exact (incl_args_equiv1 F F' E S Hi).
  - exact (cf_equiv1 F F' E S Hc).
  - intros a Hin Hn. destruct (Hs a) as [b [Hb Hba]].
    + apply (proj1 E). exact Hin.
    + exact Hn.
    + exists b. split; [exact Hb | apply (proj2 E); exact Hba].
Qed.

Lemma gr_equiv1 : forall F F' S, af_equiv F F' -> gr F S -> gr F' S.
Proof.
  intros F F' S E [Hc Hm]. split.
  - exact (co_equiv1 F F' S E Hc).
  - intros S' HS'. apply Hm. exact (co_equiv1 F' F S' (af_equiv_sym F F' E) HS').
Qed.

Lemma pr_equiv1 : forall F F' S, af_equiv F F' -> pr F S -> pr F' S.
Proof.
  intros F F' S E [Ha Hm]. split.
  - exact (adm_equiv1 F F' S E Ha).
  - intros S' HS' Hi. apply Hm; [|exact Hi].
    exact (adm_equiv1 F' F S' (af_equiv_sym F F' E) HS').
Qed.

Lemma sst_equiv1 : forall F F' S, af_equiv F F' -> sst F S -> sst F' S.
Proof.
  intros F F' S E [Hc Hm]. split.
  - exact (co_equiv1 F F' S E Hc).
  - intros S' HS' Hr. apply (range_incl_af_equiv F F' S' S E). apply Hm.
    + exact (co_equiv1 F' F S' (af_equiv_sym F F' E) HS').
    + apply (range_incl_af_equiv F F' S S' E). exact Hr.
Qed.

Lemma stg_equiv1 : forall F F' S, af_equiv F F' -> stg F S -> stg F' S.
Proof.
  intros F F' S E [Hc Hm]. split.
  - exact (cfs_equiv1 F F' S E Hc).
  - intros S' HS' Hr. apply (range_incl_af_equiv F F' S' S E). apply Hm.
    + exact (cfs_equiv1 F' F S' (af_equiv_sym F F' E) HS').
    + apply (range_incl_af_equiv F F' S S' E). exact Hr.
Qed.

Lemma idl_equiv1 : forall F F' S, af_equiv F F' -> idl F S -> idl F' S.
Proof.
  intros F F' S E [Ha [Hp Hm]]. pose proof (af_equiv_sym F F' E) as E'. split; [|split].
  - exact (adm_equiv1 F F' S E Ha).
  - intros P HP. apply Hp. exact (pr_equiv1 F' F P E' HP).
  - intros S' HS' HP. apply Hm.
    + exact (adm_equiv1 F' F S' E' HS').
    + intros P HPr. apply HP. exact (pr_equiv1 F F' P E HPr).
Qed.

Lemma ext_equiv1 : forall s F F' S, af_equiv F F' -> ext s F S -> ext s F' S.
Proof.
  intros s F F' S E. destruct s; cbn [ext].
  - apply gr_equiv1; exact E.
  - apply co_equiv1; exact E.
  - apply pr_equiv1; exact E.
  - apply st_equiv1; exact E.
  - apply sst_equiv1; exact E.
  - apply stg_equiv1; exact E.
  - apply idl_equiv1; exact E.
Qed.

Theorem ext_af_equiv : forall s F F' S, af_equiv F F' -> (ext s F S <-> ext s F' S).
Proof.
  intros s F F' S E. split.
  - apply ext_equiv1. exact E.
  - apply ext_equiv1. apply af_equiv_sym. exact E.
Qed.

Lemma cfs_af_equiv : forall F F' S, af_equiv F F' -> (cfs F S <-> cfs F' S).
Proof.
  intros F F' S E. split; apply cfs_equiv1; [exact E | apply af_equiv_sym; exact E].
Qed.

Lemma adm_af_equiv : forall F F' S, af_equiv F F' -> (adm F S <-> adm F' S).
Proof.
  intros F F' S E. split; apply adm_equiv1; [exact E | apply af_equiv_sym; exact E].
Qed.

Corollary cred_af_equiv : forall s F F' A, af_equiv F F' -> (cred s F A <-> cred s F' A).
Proof.
  intros s F F' A E. unfold cred. split; intros [S [HS Hm]]; exists S; (split; [|exact Hm]).
  - apply (ext_af_equiv s F F' S E). exact HS.
  - apply (ext_af_equiv s F F' S E). exact HS.
Qed.

Corollary skep_af_equiv : forall s F F' A, af_equiv F F' -> (skep s F A <-> skep s F' A).
Proof.
  intros s F F' A E. unfold skep. split; intros H S HS; apply H.
  - apply (ext_af_equiv s F F' S E). exact HS.
  - apply (ext_af_equiv s F F' S E). exact HS.
Qed.

(* Instances of [af_equiv]: any re-ordering / duplication of the declarations. *)
Lemma af_equiv_lists : forall l l' t t',
  (forall a, In a l <-> In a l') -> (forall p, In p t <-> In p t') ->
  af_equiv {| args := l; atts := t |} {| args := l'; atts := t' |}.
Proof.
  intros l l' t t' Hl Ht. split.
  - exact Hl.
  - intros a b. unfold att. cbn [atts]. apply Ht.
Qed.

Corollary ext_permutation_invariant : forall s l l' t t' S,
  (forall a, In a l <-> In a l') -> (forall p, In p t <-> In p t') ->
  (ext s {| args := l; atts := t |} S <-> ext s {| args := l'; atts := t' |} S).
Proof.
  intros s l l' t t' S Hl Ht. apply ext_af_equiv. apply af_equiv_lists; assumption.
Qed.

Corollary ext_duplicate_attack : forall s l t p S, In p t ->
  (ext s {| args := l; atts := p :: t |} S <-> ext s {| args := l; atts := t |} S).
Proof.
  intros s l t p S Hp. apply ext_permutation_invariant.
  - intros a. reflexivity.
  - intros q. split.
    + intros [Hq|Hq]; [subst q; exact Hp | exact Hq].
    + intros Hq. right. exact Hq.
Qed.
