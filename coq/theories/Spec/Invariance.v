(* Spec layer: invariance theorems for the seven semantics of Spec/AF.v.
     A. presentation invariance (same argument set, same attack relation);
     B. invariance under injective renaming of the arguments;
     C. decomposition over the disjoint union of two unrelated frameworks, and its n-ary form.
   Everything is stated for every [s : sem] and proved without any axiom: all sets are finite
   lists and the boolean deciders of Spec/AF.v are used where a case distinction is needed.
   Depends only on Spec/AF.v and Spec/SemFacts.v.  The component-level gluing theorem (D), which
   needs Model/Graph.v, is in Proofs/Decomp.v. *)
From Coq Require Import List Arith Bool Lia Setoid.
From Crusta Require Import Spec.AF Spec.SemFacts.
Import ListNotations.

(* ------------------------------------------------------------------ *)
(** * A. Presentation invariance *)

Definition af_equiv (F F' : af) : Prop :=
  (forall a, In a (args F) <-> In a (args F')) /\ (forall a b, att F a b <-> att F' a b).

Lemma af_equiv_refl : forall F, af_equiv F F.
Proof. intros F. split; intros; reflexivity. Qed.

Lemma af_equiv_sym : forall F F', af_equiv F F' -> af_equiv F' F.
Proof.
  intros F F' [Ha Ht]. split.
  - intros a. symmetry. apply Ha.
  - intros a b. symmetry. apply Ht.
Qed.

Lemma af_equiv_trans : forall F F' F'', af_equiv F F' -> af_equiv F' F'' -> af_equiv F F''.
Proof.
  intros F F' F'' [Ha Ht] [Ha' Ht']. split.
  - intros a. rewrite (Ha a). apply Ha'.
  - intros a b. rewrite (Ht a b). apply Ht'.
Qed.

Section EquivOneWay.
  Variables F F' : af.
  Hypothesis E : af_equiv F F'.

  Let Eargs : forall a, In a (args F) <-> In a (args F') := proj1 E.
  Let Eatt : forall a b, att F a b <-> att F' a b := proj2 E.

  Lemma incl_args_equiv1 : forall S, incl S (args F) -> incl S (args F').
  Proof. intros S H a Ha. apply Eargs. apply H. exact Ha. Qed.

  Lemma cf_equiv1 : forall S, cf F S -> cf F' S.
  Proof. intros S H a b Ha Hb Hab. apply (H a b Ha Hb). apply Eatt. exact Hab. Qed.

  Lemma defends_equiv1 : forall S a, defends F S a -> defends F' S a.
  Proof.
    intros S a H b Hb. apply Eatt in Hb. destruct (H b Hb) as [c [Hc Hcb]].
    exists c. split; [exact Hc | apply Eatt; exact Hcb].
  Qed.

  Lemma in_range_equiv1 : forall S a, in_range F S a -> in_range F' S a.
  Proof.
    intros S a [H|[b [Hb Hba]]]; [left; exact H|].
    right. exists b. split; [exact Hb | apply Eatt; exact Hba].
  Qed.
End EquivOneWay.

Lemma defends_af_equiv : forall F F' S a, af_equiv F F' -> (defends F S a <-> defends F' S a).
Proof.
  intros F F' S a E. split.
  - apply defends_equiv1. exact E.
  - apply defends_equiv1. apply af_equiv_sym. exact E.
Qed.

Lemma in_range_af_equiv : forall F F' S a, af_equiv F F' -> (in_range F S a <-> in_range F' S a).
Proof.
  intros F F' S a E. split.
  - apply in_range_equiv1. exact E.
  - apply in_range_equiv1. apply af_equiv_sym. exact E.
Qed.

Lemma range_incl_af_equiv : forall F F' S S',
  af_equiv F F' -> (range_incl F S S' <-> range_incl F' S S').
Proof.
  intros F F' S S' E. unfold range_incl. split; intros H a Hin Hr.
  - apply (in_range_af_equiv F F' S' a E). apply H.
    + apply (proj1 E). exact Hin.
    + apply (in_range_af_equiv F F' S a E). exact Hr.
  - apply (in_range_af_equiv F F' S' a E). apply H.
    + apply (proj1 E). exact Hin.
    + apply (in_range_af_equiv F F' S a E). exact Hr.
Qed.

(* one direction of each semantics; the equivalences follow by symmetry of [af_equiv] *)
Lemma cfs_equiv1 : forall F F' S, af_equiv F F' -> cfs F S -> cfs F' S.
Proof.
  intros F F' S E [Hi Hc]. split.
  - exact (incl_args_equiv1 F F' E S Hi).
  - exact (cf_equiv1 F F' E S Hc).
Qed.

Lemma adm_equiv1 : forall F F' S, af_equiv F F' -> adm F S -> adm F' S.
Proof.
  intros F F' S E [Hi [Hc Hd]]. split; [|split].
  - exact (incl_args_equiv1 F F' E S Hi).
  - exact (cf_equiv1 F F' E S Hc).
  - intros a Ha. apply (defends_equiv1 F F' E). apply Hd. exact Ha.
Qed.

Lemma co_equiv1 : forall F F' S, af_equiv F F' -> co F S -> co F' S.
Proof.
  intros F F' S E [Ha Hc]. split.
  - exact (adm_equiv1 F F' S E Ha).
  - intros a Hin Hd. apply Hc.
    + apply (proj1 E). exact Hin.
    + apply (defends_af_equiv F F' S a E). exact Hd.
Qed.

Lemma st_equiv1 : forall F F' S, af_equiv F F' -> st F S -> st F' S.
Proof.
  intros F F' S E [Hi [Hc Hs]]. split; [|split].
  - exact (incl_args_equiv1 F F' E S Hi).
  - exact (cf_equiv1 F F' E S Hc).
  - intros a Hin Hn. destruct (Hs a) as [b [Hb Hba]].
    + apply (proj1 E). exact Hin.
    + exact Hn.
    + exists b. split; [exact Hb | apply (proj2 E); exact Hba].
Qed.

Lemma gr_equiv1 : forall F F' S, af_equiv F F' -> gr F S -> gr F' S.
Proof.
  intros F F' S E [Hc Hm]. split.
  - exact (co_equiv1 F F' S E Hc).
  - intros S' HS'. apply Hm. exact (co_equiv1 F' F S' (af_equiv_sym F F' E) HS').
Qed.

Lemma pr_equiv1 : forall F F' S, af_equiv F F' -> pr F S -> pr F' S.
Proof.
  intros F F' S E [Ha Hm]. split.
  - exact (adm_equiv1 F F' S E Ha).
  - intros S' HS' Hi. apply Hm; [|exact Hi].
    exact (adm_equiv1 F' F S' (af_equiv_sym F F' E) HS').
Qed.

Lemma sst_equiv1 : forall F F' S, af_equiv F F' -> sst F S -> sst F' S.
Proof.
  intros F F' S E [Hc Hm]. split.
  - exact (co_equiv1 F F' S E Hc).
  - intros S' HS' Hr. apply (range_incl_af_equiv F F' S' S E). apply Hm.
    + exact (co_equiv1 F' F S' (af_equiv_sym F F' E) HS').
    + apply (range_incl_af_equiv F F' S S' E). exact Hr.
Qed.

Lemma stg_equiv1 : forall F F' S, af_equiv F F' -> stg F S -> stg F' S.
Proof.
  intros F F' S E [Hc Hm]. split.
  - exact (cfs_equiv1 F F' S E Hc).
  - intros S' HS' Hr. apply (range_incl_af_equiv F F' S' S E). apply Hm.
    + exact (cfs_equiv1 F' F S' (af_equiv_sym F F' E) HS').
    + apply (range_incl_af_equiv F F' S S' E). exact Hr.
Qed.

Lemma idl_equiv1 : forall F F' S, af_equiv F F' -> idl F S -> idl F' S.
Proof.
  intros F F' S E [Ha [Hp Hm]]. pose proof (af_equiv_sym F F' E) as E'. split; [|split].
  - exact (adm_equiv1 F F' S E Ha).
  - intros P HP. apply Hp. exact (pr_equiv1 F' F P E' HP).
  - intros S' HS' HP. apply Hm.
    + exact (adm_equiv1 F' F S' E' HS').
    + intros P HPr. apply HP. exact (pr_equiv1 F F' P E HPr).
Qed.

Lemma ext_equiv1 : forall s F F' S, af_equiv F F' -> ext s F S -> ext s F' S.
Proof.
  intros s F F' S E. destruct s; cbn [ext].
  - apply gr_equiv1; exact E.
  - apply co_equiv1; exact E.
  - apply pr_equiv1; exact E.
  - apply st_equiv1; exact E.
  - apply sst_equiv1; exact E.
  - apply stg_equiv1; exact E.
  - apply idl_equiv1; exact E.
Qed.

Theorem ext_af_equiv : forall s F F' S, af_equiv F F' -> (ext s F S <-> ext s F' S).
Proof.
  intros s F F' S E. split.
  - apply ext_equiv1. exact E.
  - apply ext_equiv1. apply af_equiv_sym. exact E.
Qed.

Lemma cfs_af_equiv : forall F F' S, af_equiv F F' -> (cfs F S <-> cfs F' S).
Proof.
  intros F F' S E. split; apply cfs_equiv1; [exact E | apply af_equiv_sym; exact E].
Qed.

Lemma adm_af_equiv : forall F F' S, af_equiv F F' -> (adm F S <-> adm F' S).
Proof.
  intros F F' S E. split; apply adm_equiv1; [exact E | apply af_equiv_sym; exact E].
Qed.

Corollary cred_af_equiv : forall s F F' A, af_equiv F F' -> (cred s F A <-> cred s F' A).
Proof.
  intros s F F' A E. unfold cred. split; intros [S [HS Hm]]; exists S; (split; [|exact Hm]).
  - apply (ext_af_equiv s F F' S E). exact HS.
  - apply (ext_af_equiv s F F' S E). exact HS.
Qed.

Corollary skep_af_equiv : forall s F F' A, af_equiv F F' -> (skep s F A <-> skep s F' A).
Proof.
  intros s F F' A E. unfold skep. split; intros H S HS; apply H.
  - apply (ext_af_equiv s F F' S E). exact HS.
  - apply (ext_af_equiv s F F' S E). exact HS.
Qed.

(* Instances of [af_equiv]: any re-ordering / duplication of the declarations. *)
Lemma af_equiv_lists : forall l l' t t',
  (forall a, In a l <-> In a l') -> (forall p, In p t <-> In p t') ->
  af_equiv {| args := l; atts := t |} {| args := l'; atts := t' |}.
Proof.
  intros l l' t t' Hl Ht. split.
  - exact Hl.
  - intros a b. unfold att. cbn [atts]. apply Ht.
Qed.

Corollary ext_permutation_invariant : forall s l l' t t' S,
  (forall a, In a l <-> In a l') -> (forall p, In p t <-> In p t') ->
  (ext s {| args := l; atts := t |} S <-> ext s {| args := l'; atts := t' |} S).
Proof.
  intros s l l' t t' S Hl Ht. apply ext_af_equiv. apply af_equiv_lists; assumption.
Qed.

Corollary ext_duplicate_attack : forall s l t p S, In p t ->
  (ext s {| args := l; atts := p :: t |} S <-> ext s {| args := l; atts := t |} S).
Proof.
  intros s l t p S Hp. apply ext_permutation_invariant.
  - intros a. reflexivity.
  - intros q. split.
    + intros [Hq|Hq]; [subst q; exact Hp | exact Hq].
    + intros Hq. right. exact Hq.
Qed.

(* ------------------------------------------------------------------ *)
(** * Restriction of a set to a list of arguments *)

Definition restr (A S : list nat) : list nat := filter (fun a => memb a A) S.

Lemma in_restr : forall A S a, In a (restr A S) <-> In a A /\ In a S.
Proof. intros A S a. unfold restr. rewrite filter_In, memb_In. tauto. Qed.

Lemma restr_incl_l : forall A S, incl (restr A S) A.
Proof. intros A S a H. apply in_restr in H. tauto. Qed.

Lemma restr_incl_r : forall A S, incl (restr A S) S.
Proof. intros A S a H. apply in_restr in H. tauto. Qed.

Lemma restr_mono : forall A S T, incl S T -> incl (restr A S) (restr A T).
Proof.
  intros A S T H a Ha. apply in_restr in Ha. apply in_restr.
  split; [tauto | apply H; tauto].
Qed.

Lemma restr_seteq : forall A S T, seteq S T -> seteq (restr A S) (restr A T).
Proof. intros A S T E a. rewrite !in_restr, (E a). reflexivity. Qed.

Lemma restr_id : forall A S, incl S A -> seteq (restr A S) S.
Proof.
  intros A S H a. rewrite in_restr. split; [tauto|]. intros Ha. split; [apply H; exact Ha | exact Ha].
Qed.

Lemma restr_restr_sub : forall A B S, incl A B -> seteq (restr A (restr B S)) (restr A S).
Proof.
  intros A B S H a. rewrite !in_restr. split; [tauto|]. intros [Ha Hs].
  split; [exact Ha|]. split; [apply H; exact Ha | exact Hs].
Qed.

Lemma seteq_incl_iff : forall S T, seteq S T <-> incl S T /\ incl T S.
Proof.
  intros S T. split.
  - intros E. split; intros a Ha; apply (E a); exact Ha.
  - intros [H1 H2] a. split; [apply H1 | apply H2].
Qed.

(* ------------------------------------------------------------------ *)
(** * C. Decomposition over unrelated parts *)

(* [P] is an isolated part of [U]: its attacks stay inside its arguments, they are attacks of [U],
   and every attack of [U] touching an argument of [P] is an attack of [P]. *)
Definition part (U P : af) : Prop :=
  (forall a b, att P a b -> In a (args P) /\ In b (args P)) /\
  (forall a b, att P a b -> att U a b) /\
  (forall a b, att U a b -> In a (args P) \/ In b (args P) -> att P a b).

Section Part.
  Variables U P : af.
  Hypothesis HP : part U P.

  Let Hw : forall a b, att P a b -> In a (args P) /\ In b (args P) := proj1 HP.
  Let Hup : forall a b, att P a b -> att U a b := proj1 (proj2 HP).
  Let Hdown : forall a b, att U a b -> In a (args P) \/ In b (args P) -> att P a b :=
    proj2 (proj2 HP).

  Lemma cf_part : forall S, cf U S -> cf P (restr (args P) S).
  Proof.
    intros S H a b Ha Hb Hab. apply in_restr in Ha. apply in_restr in Hb.
    apply (H a b); [tauto | tauto | apply Hup; exact Hab].
  Qed.

  Lemma defends_part : forall S a, In a (args P) ->
    (defends U S a <-> defends P (restr (args P) S) a).
  Proof.
    intros S a Ha. split; intros H b Hb.
    - destruct (H b (Hup b a Hb)) as [c [Hc Hcb]].
      assert (Hcb' : att P c b).
      { apply Hdown; [exact Hcb|]. right. exact (proj1 (Hw b a Hb)). }
      exists c. split; [|exact Hcb']. apply in_restr. split; [|exact Hc].
      exact (proj1 (Hw c b Hcb')).
    - assert (Hb' : att P b a) by (apply Hdown; [exact Hb | right; exact Ha]).
      destruct (H b Hb') as [c [Hc Hcb]]. apply in_restr in Hc.
      exists c. split; [tauto | apply Hup; exact Hcb].
  Qed.

  Lemma in_range_part : forall S a, In a (args P) ->
    (in_range U S a <-> in_range P (restr (args P) S) a).
  Proof.
    intros S a Ha. split.
    - intros [H|[b [Hb Hba]]].
      + left. apply in_restr. split; assumption.
      + assert (Hba' : att P b a) by (apply Hdown; [exact Hba | right; exact Ha]).
        right. exists b. split; [|exact Hba']. apply in_restr. split; [|exact Hb].
        exact (proj1 (Hw b a Hba')).
    - intros [H|[b [Hb Hba]]].
      + left. apply in_restr in H. tauto.
      + right. apply in_restr in Hb. exists b. split; [tauto | apply Hup; exact Hba].
  Qed.
End Part.

(* ------------------------------------------------------------------ *)
(** * Every admissible set extends to a preferred extension (finite, constructive) *)

Lemma forallb_false_witness : forall (A : Type) (f : A -> bool) (l : list A),
  forallb f l = false -> exists x, In x l /\ f x = false.
Proof.
  intros A f l. induction l as [|x r IH]; cbn [forallb]; intros H; [discriminate|].
  destruct (f x) eqn:E.
  - destruct (IH H) as [y [Hy Ey]]. exists y. split; [right; exact Hy | exact Ey].
  - exists x. split; [left; reflexivity | exact E].
Qed.

Lemma existsb_false_all : forall (A : Type) (f : A -> bool) (l : list A),
  existsb f l = false -> forall x, In x l -> f x = false.
Proof.
  intros A f l H x Hx. destruct (f x) eqn:E; [|reflexivity].
  assert (Ht : existsb f l = true) by (apply existsb_exists; exists x; split; assumption).
  congruence.
Qed.

Lemma canon_len_mono : forall l S S', incl S S' -> length (canon l S) <= length (canon l S').
Proof.
  intros l S S' Hi. unfold canon. induction l as [|x r IH]; cbn [filter]; [lia|].
  destruct (memb x S) eqn:E1; destruct (memb x S') eqn:E2; cbn [length]; try lia.
  exfalso. apply memb_In in E1. apply Hi in E1. apply memb_In in E1. congruence.
Qed.

Lemma canon_len_strict : forall l S S' a,
  incl S S' -> In a l -> In a S' -> ~ In a S -> length (canon l S) < length (canon l S').
Proof.
  intros l S S' a Hi Hl Ha' Ha. induction l as [|x r IH]; [destruct Hl|].
  pose proof (canon_len_mono r S S' Hi) as Hm. unfold canon in *. cbn [filter].
  destruct Hl as [Hx|Hr].
  - subst x. apply memb_false in Ha. apply memb_In in Ha'. rewrite Ha, Ha'. cbn [length]. lia.
  - specialize (IH Hr).
    destruct (memb x S) eqn:E1; destruct (memb x S') eqn:E2; cbn [length]; try lia.
    exfalso. apply memb_In in E1. apply Hi in E1. apply memb_In in E1. congruence.
Qed.

Lemma canon_len_le : forall l S, length (canon l S) <= length l.
Proof.
  intros l S. unfold canon. induction l as [|x r IH]; cbn [filter length]; [lia|].
  destruct (memb x S); cbn [length]; lia.
Qed.

Lemma adm_nil : forall F, adm F [].
Proof.
  intros F. split; [|split].
  - intros a [].
  - intros a b [].
  - intros a [].
Qed.

Lemma pr_extends_fuel : forall n F S,
  length (args F) - length (canon (args F) S) <= n -> adm F S ->
  exists P, pr F P /\ incl S P.
Proof.
  induction n as [|n IH]; intros F S Hn Ha;
  (destruct (existsb (fun S' => admb F S' && subsetb S S' && negb (subsetb S' S))
                     (powerset (args F))) eqn:Ex;
   [ apply existsb_exists in Ex; destruct Ex as [S' [HS' Hb]];
     apply andb_true_iff in Hb; destruct Hb as [Hb Hns];
     apply andb_true_iff in Hb; destruct Hb as [Hadm Hsub];
     apply admb_adm in Hadm; apply subsetb_incl in Hsub;
     apply negb_true_iff in Hns; apply forallb_false_witness in Hns;
     destruct Hns as [a [HaS' HaS]]; apply memb_false in HaS;
     pose proof (canon_len_strict (args F) S S' a Hsub
                   (adm_incl F S' Hadm a HaS') HaS' HaS) as Hlt;
     pose proof (canon_len_le (args F) S') as Hle
   | exists S; split; [|apply incl_refl]; split; [exact Ha|];
     intros S'' HS'' Hi;
     pose proof (existsb_false_all _ _ _ Ex (canon (args F) S'')
                   (canon_in_powerset (args F) S'')) as Hf;
     pose proof (canon_seteq (args F) S'' (adm_incl F S'' HS'')) as Hce;
     assert (H1 : admb F (canon (args F) S'') = true)
       by (apply admb_adm; apply (adm_seteq F S''); [apply seteq_sym; exact Hce | exact HS'']);
     assert (H2 : subsetb S (canon (args F) S'') = true)
       by (apply subsetb_incl; intros a HaS; apply (Hce a); apply Hi; exact HaS);
     cbv beta in Hf; rewrite H1, H2 in Hf; cbn [andb] in Hf; apply negb_false_iff in Hf;
     apply subsetb_incl in Hf; intros a HaS''; apply Hf; apply (Hce a); exact HaS'' ]).
  - exfalso. lia.
  - destruct (IH F S') as [P [HP HiP]]; [lia | exact Hadm |].
    exists P. split; [exact HP|]. intros b Hb. apply HiP. apply Hsub. exact Hb.
Qed.

Lemma pr_extends : forall F S, adm F S -> exists P, pr F P /\ incl S P.
Proof. intros F S H. exact (pr_extends_fuel _ F S (le_n _) H). Qed.

Lemma pr_exists : forall F, exists P, pr F P.
Proof.
  intros F. destruct (pr_extends F [] (adm_nil F)) as [P [HP _]]. exists P. exact HP.
Qed.

(* generic shape of pr / sst / stg: a [B]-set that is maximal for the preorder [le] *)
Definition maxi (B : af -> list nat -> Prop) (le : af -> list nat -> list nat -> Prop)
  (F : af) (S : list nat) : Prop :=
  B F S /\ forall S', B F S' -> le F S S' -> le F S' S.

Section Split.
  Variables U P1 P2 : af.
  Hypothesis Hp1 : part U P1.
  Hypothesis Hp2 : part U P2.
  Hypothesis Hargs : forall a, In a (args U) <-> In a (args P1) \/ In a (args P2).
  Hypothesis Hdis : forall a, In a (args P1) -> In a (args P2) -> False.
  Hypothesis Hatt : forall a b, att U a b -> att P1 a b \/ att P2 a b.

  Local Notation r1 := (restr (args P1)).
  Local Notation r2 := (restr (args P2)).

  Lemma split_cases : forall S a, incl S (args U) -> In a S -> In a (r1 S) \/ In a (r2 S).
  Proof.
    intros S a Hi Ha. destruct (proj1 (Hargs a) (Hi a Ha)) as [H|H]; [left|right];
      apply in_restr; split; assumption.
  Qed.

  Lemma incl_split : forall S T, incl S (args U) ->
    (incl S T <-> incl (r1 S) (r1 T) /\ incl (r2 S) (r2 T)).
  Proof.
    intros S T Hi. split.
    - intros H. split; apply restr_mono; exact H.
    - intros [H1 H2] a Ha. destruct (split_cases S a Hi Ha) as [H|H].
      + apply H1 in H. apply in_restr in H. tauto.
      + apply H2 in H. apply in_restr in H. tauto.
  Qed.

  Lemma app_incl_split : forall S1 S2,
    incl S1 (args P1) -> incl S2 (args P2) -> incl (S1 ++ S2) (args U).
  Proof.
    intros S1 S2 H1 H2 a Ha. apply Hargs. apply in_app_or in Ha.
    destruct Ha as [Ha|Ha]; [left; apply H1 | right; apply H2]; exact Ha.
  Qed.

  Lemma r1_app : forall S1 S2, incl S1 (args P1) -> incl S2 (args P2) -> seteq (r1 (S1 ++ S2)) S1.
  Proof.
    intros S1 S2 H1 H2 a. rewrite in_restr, in_app_iff. split.
    - intros [Ha [H|H]]; [exact H|]. exfalso. exact (Hdis a Ha (H2 a H)).
    - intros H. split; [apply H1; exact H | left; exact H].
  Qed.

  Lemma r2_app : forall S1 S2, incl S1 (args P1) -> incl S2 (args P2) -> seteq (r2 (S1 ++ S2)) S2.
  Proof.
    intros S1 S2 H1 H2 a. rewrite in_restr, in_app_iff. split.
    - intros [Ha [H|H]]; [|exact H]. exfalso. exact (Hdis a (H1 a H) Ha).
    - intros H. split; [apply H2; exact H | right; exact H].
  Qed.

  Lemma cf_split : forall S, cf U S <-> cf P1 (r1 S) /\ cf P2 (r2 S).
  Proof.
    intros S. split.
    - intros H. split; [apply (cf_part U P1 Hp1) | apply (cf_part U P2 Hp2)]; exact H.
    - intros [H1 H2] a b Ha Hb Hab. destruct (Hatt a b Hab) as [H|H].
      + destruct (proj1 Hp1 a b H) as [Ia Ib].
        apply (H1 a b); [apply in_restr; split; assumption | apply in_restr; split; assumption | exact H].
      + destruct (proj1 Hp2 a b H) as [Ia Ib].
        apply (H2 a b); [apply in_restr; split; assumption | apply in_restr; split; assumption | exact H].
  Qed.

  Lemma cfs_split : forall S, cfs U S <-> incl S (args U) /\ cfs P1 (r1 S) /\ cfs P2 (r2 S).
  Proof.
    intros S. unfold cfs. rewrite (cf_split S). split.
    - intros [Hi [H1 H2]]. split; [exact Hi|]. split; (split; [apply restr_incl_l | assumption]).
    - intros [Hi [[_ H1] [_ H2]]]. split; [exact Hi|]. split; assumption.
  Qed.

  Lemma adm_split : forall S, adm U S <-> incl S (args U) /\ adm P1 (r1 S) /\ adm P2 (r2 S).
  Proof.
    intros S. unfold adm. split.
    - intros [Hi [Hc Hd]]. apply cf_split in Hc. destruct Hc as [Hc1 Hc2].
      split; [exact Hi|]. split.
      + split; [apply restr_incl_l|]. split; [exact Hc1|]. intros a Ha.
        apply in_restr in Ha. destruct Ha as [Ha1 Ha2].
        apply (defends_part U P1 Hp1 S a Ha1). apply Hd. exact Ha2.
      + split; [apply restr_incl_l|]. split; [exact Hc2|]. intros a Ha.
        apply in_restr in Ha. destruct Ha as [Ha1 Ha2].
        apply (defends_part U P2 Hp2 S a Ha1). apply Hd. exact Ha2.
    - intros [Hi [[_ [Hc1 Hd1]] [_ [Hc2 Hd2]]]]. split; [exact Hi|].
      split; [apply cf_split; split; assumption|].
      intros a Ha. destruct (proj1 (Hargs a) (Hi a Ha)) as [H|H].
      + apply (defends_part U P1 Hp1 S a H). apply Hd1. apply in_restr. split; assumption.
      + apply (defends_part U P2 Hp2 S a H). apply Hd2. apply in_restr. split; assumption.
  Qed.

  Lemma co_split : forall S, co U S <-> incl S (args U) /\ co P1 (r1 S) /\ co P2 (r2 S).
  Proof.
    intros S. unfold co. rewrite (adm_split S). split.
    - intros [[Hi [Ha1 Ha2]] Hc]. split; [exact Hi|]. split.
      + split; [exact Ha1|]. intros a Ha Hd. apply in_restr. split; [exact Ha|].
        apply Hc; [apply Hargs; left; exact Ha|].
        apply (defends_part U P1 Hp1 S a Ha). exact Hd.
      + split; [exact Ha2|]. intros a Ha Hd. apply in_restr. split; [exact Ha|].
        apply Hc; [apply Hargs; right; exact Ha|].
        apply (defends_part U P2 Hp2 S a Ha). exact Hd.
    - intros [Hi [[Ha1 Hc1] [Ha2 Hc2]]]. split; [split; [exact Hi | split; assumption]|].
      intros a Ha Hd. destruct (proj1 (Hargs a) Ha) as [H|H].
      + apply (restr_incl_r (args P1) S). apply Hc1; [exact H|].
        apply (defends_part U P1 Hp1 S a H). exact Hd.
      + apply (restr_incl_r (args P2) S). apply Hc2; [exact H|].
        apply (defends_part U P2 Hp2 S a H). exact Hd.
  Qed.

  Lemma st_split : forall S, st U S <-> incl S (args U) /\ st P1 (r1 S) /\ st P2 (r2 S).
  Proof.
    intros S. unfold st. split.
    - intros [Hi [Hc Hs]]. apply cf_split in Hc. destruct Hc as [Hc1 Hc2].
      split; [exact Hi|]. split.
      + split; [apply restr_incl_l|]. split; [exact Hc1|]. intros a Ha Hn.
        destruct (Hs a) as [b [Hb Hba]].
        * apply Hargs. left. exact Ha.
        * intros HaS. apply Hn. apply in_restr. split; assumption.
        * assert (Hba' : att P1 b a) by (apply (proj2 (proj2 Hp1)); [exact Hba | right; exact Ha]).
          exists b. split; [|exact Hba']. apply in_restr. split; [|exact Hb].
          exact (proj1 (proj1 Hp1 b a Hba')).
      + split; [apply restr_incl_l|]. split; [exact Hc2|]. intros a Ha Hn.
        destruct (Hs a) as [b [Hb Hba]].
        * apply Hargs. right. exact Ha.
        * intros HaS. apply Hn. apply in_restr. split; assumption.
        * assert (Hba' : att P2 b a) by (apply (proj2 (proj2 Hp2)); [exact Hba | right; exact Ha]).
          exists b. split; [|exact Hba']. apply in_restr. split; [|exact Hb].
          exact (proj1 (proj1 Hp2 b a Hba')).
    - intros [Hi [[_ [Hc1 Hs1]] [_ [Hc2 Hs2]]]]. split; [exact Hi|].
      split; [apply cf_split; split; assumption|].
      intros a Ha Hn. destruct (proj1 (Hargs a) Ha) as [H|H].
      + destruct (Hs1 a H) as [b [Hb Hba]].
        * intros Hr. apply Hn. apply (restr_incl_r _ _ _ Hr).
        * exists b. split; [apply (restr_incl_r _ _ _ Hb) | apply (proj1 (proj2 Hp1)); exact Hba].
      + destruct (Hs2 a H) as [b [Hb Hba]].
        * intros Hr. apply Hn. apply (restr_incl_r _ _ _ Hr).
        * exists b. split; [apply (restr_incl_r _ _ _ Hb) | apply (proj1 (proj2 Hp2)); exact Hba].
  Qed.

  Lemma range_incl_split : forall S S',
    range_incl U S S' <-> range_incl P1 (r1 S) (r1 S') /\ range_incl P2 (r2 S) (r2 S').
  Proof.
    intros S S'. unfold range_incl. split.
    - intros H. split; intros a Ha Hr.
      + apply (in_range_part U P1 Hp1 S' a Ha). apply H; [apply Hargs; left; exact Ha|].
        apply (in_range_part U P1 Hp1 S a Ha). exact Hr.
      + apply (in_range_part U P2 Hp2 S' a Ha). apply H; [apply Hargs; right; exact Ha|].
        apply (in_range_part U P2 Hp2 S a Ha). exact Hr.
    - intros [H1 H2] a Ha Hr. destruct (proj1 (Hargs a) Ha) as [H|H].
      + apply (in_range_part U P1 Hp1 S' a H). apply H1; [exact H|].
        apply (in_range_part U P1 Hp1 S a H). exact Hr.
      + apply (in_range_part U P2 Hp2 S' a H). apply H2; [exact H|].
        apply (in_range_part U P2 Hp2 S a H). exact Hr.
  Qed.

  (* gluing for any base family that splits *)
  Lemma glue_split : forall (B : af -> list nat -> Prop),
    (forall F S, B F S -> incl S (args F)) ->
    (forall F S T, seteq S T -> B F S -> B F T) ->
    (forall S, B U S <-> incl S (args U) /\ B P1 (r1 S) /\ B P2 (r2 S)) ->
    forall S1 S2, B P1 S1 -> B P2 S2 -> B U (S1 ++ S2).
  Proof.
    intros B Bincl Bseteq Bsplit S1 S2 H1 H2.
    pose proof (Bincl _ _ H1) as I1. pose proof (Bincl _ _ H2) as I2.
    apply Bsplit. split; [apply app_incl_split; assumption|]. split.
    - apply (Bseteq P1 S1); [apply seteq_sym; apply r1_app; assumption | exact H1].
    - apply (Bseteq P2 S2); [apply seteq_sym; apply r2_app; assumption | exact H2].
  Qed.

  Lemma maxi_split : forall (B : af -> list nat -> Prop) (le : af -> list nat -> list nat -> Prop),
    (forall F S, B F S -> incl S (args F)) ->
    (forall F S T, seteq S T -> B F S -> B F T) ->
    (forall S, B U S <-> incl S (args U) /\ B P1 (r1 S) /\ B P2 (r2 S)) ->
    (forall F S T X, seteq S T -> le F S X -> le F T X) ->
    (forall F S T X, seteq S T -> le F X S -> le F X T) ->
    (forall F S, le F S S) ->
    (forall S S', incl S (args U) -> incl S' (args U) ->
       (le U S S' <-> le P1 (r1 S) (r1 S') /\ le P2 (r2 S) (r2 S'))) ->
    forall S, maxi B le U S <-> incl S (args U) /\ maxi B le P1 (r1 S) /\ maxi B le P2 (r2 S).
  Proof.
    intros B le Bincl Bseteq Bsplit le_l le_r le_refl le_split S. unfold maxi. split.
    - intros [HB Hm]. pose proof (proj1 (Bsplit S) HB) as [Hi [HB1 HB2]].
      split; [exact Hi|]. split.
      + split; [exact HB1|]. intros S1' HS1' Hle.
        pose proof (Bincl _ _ HS1') as I1. pose proof (restr_incl_l (args P2) S) as I2.
        pose proof (glue_split B Bincl Bseteq Bsplit S1' (r2 S) HS1' HB2) as HT.
        pose proof (app_incl_split S1' (r2 S) I1 I2) as HTi.
        pose proof (r1_app S1' (r2 S) I1 I2) as E1. pose proof (r2_app S1' (r2 S) I1 I2) as E2.
        assert (Hle' : le U S (S1' ++ r2 S)).
        { apply (le_split S _ Hi HTi). split.
          - apply (le_r P1 S1'); [apply seteq_sym; exact E1 | exact Hle].
          - apply (le_r P2 (r2 S)); [apply seteq_sym; exact E2 | apply le_refl]. }
        pose proof (proj1 (le_split _ S HTi Hi) (Hm _ HT Hle')) as [Hr _].
        apply (le_l P1 (r1 (S1' ++ r2 S))); [exact E1 | exact Hr].
      + split; [exact HB2|]. intros S2' HS2' Hle.
        pose proof (Bincl _ _ HS2') as I2. pose proof (restr_incl_l (args P1) S) as I1.
        pose proof (glue_split B Bincl Bseteq Bsplit (r1 S) S2' HB1 HS2') as HT.
        pose proof (app_incl_split (r1 S) S2' I1 I2) as HTi.
        pose proof (r1_app (r1 S) S2' I1 I2) as E1. pose proof (r2_app (r1 S) S2' I1 I2) as E2.
        assert (Hle' : le U S (r1 S ++ S2')).
        { apply (le_split S _ Hi HTi). split.
          - apply (le_r P1 (r1 S)); [apply seteq_sym; exact E1 | apply le_refl].
          - apply (le_r P2 S2'); [apply seteq_sym; exact E2 | exact Hle]. }
        pose proof (proj1 (le_split _ S HTi Hi) (Hm _ HT Hle')) as [_ Hr].
        apply (le_l P2 (r2 (r1 S ++ S2'))); [exact E2 | exact Hr].
    - intros [Hi [[HB1 Hm1] [HB2 Hm2]]]. split.
      + apply Bsplit. split; [exact Hi|]. split; assumption.
      + intros S' HS' Hle. pose proof (proj1 (Bsplit S') HS') as [Hi' [HB1' HB2']].
        pose proof (proj1 (le_split S S' Hi Hi') Hle) as [Hl1 Hl2].
        apply (le_split S' S Hi' Hi). split; [apply Hm1 | apply Hm2]; assumption.
  Qed.

  Lemma pr_split : forall S, pr U S <-> incl S (args U) /\ pr P1 (r1 S) /\ pr P2 (r2 S).
  Proof.
    intros S.
    apply (maxi_split adm (fun _ S T => incl S T) adm_incl adm_seteq adm_split).
    - intros _ S0 T X E H. exact (seteq_incl_l S0 T X E H).
    - intros _ S0 T X E H. exact (seteq_incl_r S0 T X E H).
    - intros _ S0. apply incl_refl.
    - intros S0 S' Hi _. apply incl_split. exact Hi.
  Qed.

  Lemma sst_split : forall S, sst U S <-> incl S (args U) /\ sst P1 (r1 S) /\ sst P2 (r2 S).
  Proof.
    intros S.
    apply (maxi_split co range_incl co_incl co_seteq co_split).
    - intros F S0 T X E H. exact (range_incl_seteq_l F S0 T X E H).
    - intros F S0 T X E H. exact (range_incl_seteq_r F S0 T X E H).
    - intros F S0 a _ H. exact H.
    - intros S0 S' _ _. apply range_incl_split.
  Qed.

  Lemma stg_split : forall S, stg U S <-> incl S (args U) /\ stg P1 (r1 S) /\ stg P2 (r2 S).
  Proof.
    intros S.
    apply (maxi_split cfs range_incl cfs_incl cfs_seteq cfs_split).
    - intros F S0 T X E H. exact (range_incl_seteq_l F S0 T X E H).
    - intros F S0 T X E H. exact (range_incl_seteq_r F S0 T X E H).
    - intros F S0 a _ H. exact H.
    - intros S0 S' _ _. apply range_incl_split.
  Qed.

  Lemma gr_split : forall S, gr U S <-> incl S (args U) /\ gr P1 (r1 S) /\ gr P2 (r2 S).
  Proof.
    intros S. unfold gr. split.
    - intros [Hc Hm]. pose proof (proj1 (co_split S) Hc) as [Hi [Hc1 Hc2]].
      split; [exact Hi|]. split.
      + split; [exact Hc1|]. intros S1' HS1'.
        pose proof (Hm _ (glue_split co co_incl co_seteq co_split S1' (r2 S) HS1' Hc2)) as Hsub.
        intros a Ha. apply in_restr in Ha. destruct Ha as [Ha1 HaS].
        apply Hsub in HaS. apply in_app_or in HaS. destruct HaS as [H|H]; [exact H|].
        exfalso. apply in_restr in H. exact (Hdis a Ha1 (proj1 H)).
      + split; [exact Hc2|]. intros S2' HS2'.
        pose proof (Hm _ (glue_split co co_incl co_seteq co_split (r1 S) S2' Hc1 HS2')) as Hsub.
        intros a Ha. apply in_restr in Ha. destruct Ha as [Ha2 HaS].
        apply Hsub in HaS. apply in_app_or in HaS. destruct HaS as [H|H]; [|exact H].
        exfalso. apply in_restr in H. exact (Hdis a (proj1 H) Ha2).
    - intros [Hi [[Hc1 Hm1] [Hc2 Hm2]]]. split.
      + apply co_split. split; [exact Hi|]. split; assumption.
      + intros S' HS'. pose proof (proj1 (co_split S') HS') as [_ [Hc1' Hc2']].
        apply (incl_split S S' Hi). split; [apply Hm1 | apply Hm2]; assumption.
  Qed.

  Lemma idl_split : forall S, idl U S <-> incl S (args U) /\ idl P1 (r1 S) /\ idl P2 (r2 S).
  Proof.
    intros S. unfold idl. split.
    - intros [Ha [Hp Hm]]. pose proof (proj1 (adm_split S) Ha) as [Hi [Ha1 Ha2]].
      split; [exact Hi|]. split.
      + split; [exact Ha1|]. split.
        * intros Q1 HQ1. destruct (pr_exists P2) as [Q2 HQ2].
          pose proof (glue_split pr (fun F S0 H => adm_incl F S0 (proj1 H)) pr_seteq pr_split
                        Q1 Q2 HQ1 HQ2) as HQ.
          intros a Har. apply in_restr in Har. destruct Har as [Ha1' HaS].
          apply (Hp _ HQ) in HaS. apply in_app_or in HaS. destruct HaS as [H|H]; [exact H|].
          exfalso. exact (Hdis a Ha1' (adm_incl P2 Q2 (proj1 HQ2) a H)).
        * intros S1' HS1' Hall.
          pose proof (glue_split adm adm_incl adm_seteq adm_split S1' (r2 S) HS1' Ha2) as HT.
          assert (HTp : forall Q, pr U Q -> incl (S1' ++ r2 S) Q).
          { intros Q HQ. pose proof (proj1 (pr_split Q) HQ) as [_ [HQ1 _]].
            intros a Hin. apply in_app_or in Hin. destruct Hin as [H|H].
            - apply (restr_incl_r (args P1) Q). apply (Hall _ HQ1). exact H.
            - apply (Hp Q HQ). apply (restr_incl_r _ _ _ H). }
          pose proof (Hm _ HT HTp) as Hsub. intros a HaS1. apply in_restr.
          split; [apply (adm_incl P1 S1' HS1'); exact HaS1|].
          apply Hsub. apply in_or_app. left. exact HaS1.
      + split; [exact Ha2|]. split.
        * intros Q2 HQ2. destruct (pr_exists P1) as [Q1 HQ1].
          pose proof (glue_split pr (fun F S0 H => adm_incl F S0 (proj1 H)) pr_seteq pr_split
                        Q1 Q2 HQ1 HQ2) as HQ.
          intros a Har. apply in_restr in Har. destruct Har as [Ha2' HaS].
          apply (Hp _ HQ) in HaS. apply in_app_or in HaS. destruct HaS as [H|H]; [|exact H].
          exfalso. exact (Hdis a (adm_incl P1 Q1 (proj1 HQ1) a H) Ha2').
        * intros S2' HS2' Hall.
          pose proof (glue_split adm adm_incl adm_seteq adm_split (r1 S) S2' Ha1 HS2') as HT.
          assert (HTp : forall Q, pr U Q -> incl (r1 S ++ S2') Q).
          { intros Q HQ. pose proof (proj1 (pr_split Q) HQ) as [_ [_ HQ2]].
            intros a Hin. apply in_app_or in Hin. destruct Hin as [H|H].
            - apply (Hp Q HQ). apply (restr_incl_r _ _ _ H).
            - apply (restr_incl_r (args P2) Q). apply (Hall _ HQ2). exact H. }
          pose proof (Hm _ HT HTp) as Hsub. intros a HaS2. apply in_restr.
          split; [apply (adm_incl P2 S2' HS2'); exact HaS2|].
          apply Hsub. apply in_or_app. right. exact HaS2.
    - intros [Hi [[Ha1 [Hp1' Hm1]] [Ha2 [Hp2' Hm2]]]]. split; [|split].
      + apply adm_split. split; [exact Hi|]. split; assumption.
      + intros Q HQ. pose proof (proj1 (pr_split Q) HQ) as [_ [HQ1 HQ2]].
        apply (incl_split S Q Hi). split.
        * intros a Ha. apply in_restr. split; [apply (restr_incl_l _ _ _ Ha)|].
          apply (restr_incl_r (args P1) Q). apply (Hp1' _ HQ1). exact Ha.
        * intros a Ha. apply in_restr. split; [apply (restr_incl_l _ _ _ Ha)|].
          apply (restr_incl_r (args P2) Q). apply (Hp2' _ HQ2). exact Ha.
      + intros S' HS' Hall. pose proof (proj1 (adm_split S') HS') as [Hi' [Ha1' Ha2']].
        apply (incl_split S' S Hi'). split.
        * intros a Ha. apply in_restr. split; [apply (restr_incl_l _ _ _ Ha)|].
          apply (restr_incl_r (args P1) S). apply (Hm1 _ Ha1'); [|exact Ha].
          intros Q1 HQ1. destruct (pr_exists P2) as [Q2 HQ2].
          pose proof (glue_split pr (fun F S0 H => adm_incl F S0 (proj1 H)) pr_seteq pr_split
                        Q1 Q2 HQ1 HQ2) as HQ.
          intros b Hb. apply in_restr in Hb. destruct Hb as [Hb1 HbS].
          apply (Hall _ HQ) in HbS. apply in_app_or in HbS. destruct HbS as [H|H]; [exact H|].
          exfalso. exact (Hdis b Hb1 (adm_incl P2 Q2 (proj1 HQ2) b H)).
        * intros a Ha. apply in_restr. split; [apply (restr_incl_l _ _ _ Ha)|].
          apply (restr_incl_r (args P2) S). apply (Hm2 _ Ha2'); [|exact Ha].
          intros Q2 HQ2. destruct (pr_exists P1) as [Q1 HQ1].
          pose proof (glue_split pr (fun F S0 H => adm_incl F S0 (proj1 H)) pr_seteq pr_split
                        Q1 Q2 HQ1 HQ2) as HQ.
          intros b Hb. apply in_restr in Hb. destruct Hb as [Hb2 HbS].
          apply (Hall _ HQ) in HbS. apply in_app_or in HbS. destruct HbS as [H|H]; [|exact H].
          exfalso. exact (Hdis b (adm_incl P1 Q1 (proj1 HQ1) b H) Hb2).
  Qed.

  Theorem ext_split : forall s S,
    ext s U S <-> incl S (args U) /\ ext s P1 (r1 S) /\ ext s P2 (r2 S).
  Proof.
    intros s S. destruct s; cbn [ext].
    - apply gr_split.
    - apply co_split.
    - apply pr_split.
    - apply st_split.
    - apply sst_split.
    - apply stg_split.
    - apply idl_split.
  Qed.
End Split.

(* ------------------------------------------------------------------ *)
(** * C (concrete form): disjoint union of two frameworks *)

Definition disjoint_union (F1 F2 : af) : af :=
  {| args := args F1 ++ args F2; atts := atts F1 ++ atts F2 |}.

Lemma NoDup_app_inv : forall (A : Type) (l1 l2 : list A),
  NoDup (l1 ++ l2) -> NoDup l1 /\ NoDup l2 /\ forall x, In x l1 -> In x l2 -> False.
Proof.
  intros A l1 l2. induction l1 as [|x r IH]; cbn [app]; intros H.
  - split; [constructor|]. split; [exact H|]. intros x [].
  - inversion H as [|? ? Hx Hr]; subst. destruct (IH Hr) as [H1 [H2 H3]].
    split; [|split].
    + constructor; [|exact H1]. intros Hin. apply Hx. apply in_or_app. left. exact Hin.
    + exact H2.
    + intros y [Hy|Hy] Hy2.
      * subst y. apply Hx. apply in_or_app. right. exact Hy2.
      * exact (H3 y Hy Hy2).
Qed.

Section Union.
  Variables F1 F2 : af.
  Hypothesis Hwf1 : wf F1.
  Hypothesis Hwf2 : wf F2.
  Hypothesis Hdisj : forall a, In a (args F1) -> ~ In a (args F2).

  Local Notation U := (disjoint_union F1 F2).

  Lemma att_union : forall a b, att U a b <-> att F1 a b \/ att F2 a b.
  Proof. intros a b. unfold att, disjoint_union. cbn [atts]. apply in_app_iff. Qed.

  Lemma args_union : forall a, In a (args U) <-> In a (args F1) \/ In a (args F2).
  Proof. intros a. unfold disjoint_union. cbn [args]. apply in_app_iff. Qed.

  Lemma part_union_l : part U F1.
  Proof.
    split; [exact (proj2 Hwf1)|]. split.
    - intros a b H. apply att_union. left. exact H.
    - intros a b H Hin. apply att_union in H. destruct H as [H|H]; [exact H|].
      exfalso. destruct (proj2 Hwf2 a b H) as [Ia Ib].
      destruct Hin as [Hin|Hin]; [exact (Hdisj a Hin Ia) | exact (Hdisj b Hin Ib)].
  Qed.

  Lemma part_union_r : part U F2.
  Proof.
    split; [exact (proj2 Hwf2)|]. split.
    - intros a b H. apply att_union. right. exact H.
    - intros a b H Hin. apply att_union in H. destruct H as [H|H]; [|exact H].
      exfalso. destruct (proj2 Hwf1 a b H) as [Ia Ib].
      destruct Hin as [Hin|Hin]; [exact (Hdisj a Ia Hin) | exact (Hdisj b Ib Hin)].
  Qed.

  Lemma wf_union : wf U.
  Proof.
    split.
    - unfold disjoint_union. cbn [args]. apply NoDup_app_intro.
      + exact (proj1 Hwf1).
      + exact (proj1 Hwf2).
      + intros x H1 H2. exact (Hdisj x H1 H2).
    - intros a b H. apply att_union in H. rewrite !args_union. destruct H as [H|H].
      + destruct (proj2 Hwf1 a b H). split; left; assumption.
      + destruct (proj2 Hwf2 a b H). split; right; assumption.
  Qed.

  Theorem ext_union : forall s S,
    ext s U S <->
    incl S (args F1 ++ args F2) /\ ext s F1 (restr (args F1) S) /\ ext s F2 (restr (args F2) S).
  Proof.
    intros s S.
    apply (ext_split U F1 F2 part_union_l part_union_r args_union).
    - intros a H1 H2. exact (Hdisj a H1 H2).
    - intros a b H. apply att_union. exact H.
  Qed.

  Lemma restr_app_l : forall S1 S2, incl S1 (args F1) -> incl S2 (args F2) ->
    seteq (restr (args F1) (S1 ++ S2)) S1.
  Proof.
    intros S1 S2 H1 H2 a. rewrite in_restr, in_app_iff. split.
    - intros [Ha [H|H]]; [exact H|]. exfalso. exact (Hdisj a Ha (H2 a H)).
    - intros H. split; [apply H1; exact H | left; exact H].
  Qed.

  Lemma restr_app_r : forall S1 S2, incl S1 (args F1) -> incl S2 (args F2) ->
    seteq (restr (args F2) (S1 ++ S2)) S2.
  Proof.
    intros S1 S2 H1 H2 a. rewrite in_restr, in_app_iff. split.
    - intros [Ha [H|H]]; [|exact H]. exfalso. exact (Hdisj a (H1 a H) Ha).
    - intros H. split; [apply H2; exact H | right; exact H].
  Qed.

  Theorem ext_union_app : forall s S1 S2,
    ext s F1 S1 -> ext s F2 S2 -> ext s U (S1 ++ S2).
  Proof.
    intros s S1 S2 H1 H2.
    pose proof (ext_incl s F1 S1 H1) as I1. pose proof (ext_incl s F2 S2 H2) as I2.
    apply ext_union. split; [|split].
    - apply incl_app; [apply incl_appl | apply incl_appr]; assumption.
    - apply (ext_seteq s F1 S1); [apply seteq_sym; apply restr_app_l; assumption | exact H1].
    - apply (ext_seteq s F2 S2); [apply seteq_sym; apply restr_app_r; assumption | exact H2].
  Qed.

  Corollary cred_union_left : forall s A,
    (exists S2, ext s F2 S2) -> incl A (args F1) -> (cred s U A <-> cred s F1 A).
  Proof.
    intros s A [S2 HS2] HA. unfold cred. split.
    - intros [S [HS [a [HaA HaS]]]]. apply ext_union in HS. destruct HS as [_ [HS1 _]].
      exists (restr (args F1) S). split; [exact HS1|]. exists a. split; [exact HaA|].
      apply in_restr. split; [apply HA; exact HaA | exact HaS].
    - intros [S1 [HS1 [a [HaA HaS]]]]. exists (S1 ++ S2).
      split; [apply ext_union_app; assumption|]. exists a. split; [exact HaA|].
      apply in_or_app. left. exact HaS.
  Qed.

  Corollary skep_union_left : forall s A,
    (exists S2, ext s F2 S2) -> incl A (args F1) -> (skep s U A <-> skep s F1 A).
  Proof.
    intros s A [S2 HS2] HA. unfold skep. split.
    - intros H S1 HS1. destruct (H _ (ext_union_app s S1 S2 HS1 HS2)) as [a [HaA HaS]].
      exists a. split; [exact HaA|]. apply in_app_or in HaS. destruct HaS as [Hs|Hs]; [exact Hs|].
      exfalso. exact (Hdisj a (HA a HaA) (ext_incl s F2 S2 HS2 a Hs)).
    - intros H S HS. apply ext_union in HS. destruct HS as [_ [HS1 _]].
      destruct (H _ HS1) as [a [HaA HaS]]. exists a. split; [exact HaA|].
      apply (restr_incl_r _ _ _ HaS).
  Qed.

  (* the stable corner: a part without stable extension kills every stable extension *)
  Corollary st_union_corner : forall A,
    (forall S2, ~ st F2 S2) ->
    skep ST U A /\ ~ cred ST U A.
  Proof.
    intros A Hno. split.
    - intros S HS. exfalso. apply ext_union in HS. destruct HS as [_ [_ HS2]].
      exact (Hno _ HS2).
    - intros [S [HS _]]. apply ext_union in HS. destruct HS as [_ [_ HS2]].
      exact (Hno _ HS2).
  Qed.
End Union.

Lemma disjoint_union_comm_equiv : forall F1 F2,
  af_equiv (disjoint_union F1 F2) (disjoint_union F2 F1).
Proof.
  intros F1 F2. split.
  - intros a. unfold disjoint_union. cbn [args]. rewrite !in_app_iff. tauto.
  - intros a b. unfold att, disjoint_union. cbn [atts]. rewrite !in_app_iff. tauto.
Qed.

(* ------------------------------------------------------------------ *)
(** * C (n-ary form): disjoint union of a list of frameworks *)

Definition empty_af : af := {| args := []; atts := [] |}.
Definition big_union (Fs : list af) : af := fold_right disjoint_union empty_af Fs.

Lemma args_big_union : forall Fs, args (big_union Fs) = concat (map args Fs).
Proof.
  induction Fs as [|F r IH]; [reflexivity|].
  cbn [big_union fold_right map concat]. unfold disjoint_union at 1. cbn [args].
  f_equal. exact IH.
Qed.

Lemma att_big_union : forall Fs a b,
  att (big_union Fs) a b <-> exists F, In F Fs /\ att F a b.
Proof.
  induction Fs as [|F r IH]; intros a b.
  - split; [intros [] | intros [F [[] _]]].
  - cbn [big_union fold_right]. fold (big_union r).
    unfold att at 1. unfold disjoint_union at 1. cbn [atts]. rewrite in_app_iff.
    change (In (a, b) (atts (big_union r))) with (att (big_union r) a b). rewrite IH. split.
    + intros [H|[G [HG H]]].
      * exists F. split; [left; reflexivity | exact H].
      * exists G. split; [right; exact HG | exact H].
    + intros [G [[HG|HG] H]].
      * subst G. left. exact H.
      * right. exists G. split; assumption.
Qed.

Lemma in_concat_map_args : forall (Fs : list af) F a, In F Fs -> In a (args F) ->
  In a (concat (map args Fs)).
Proof.
  intros Fs F a HF Ha. apply in_concat. exists (args F). split; [apply in_map; exact HF | exact Ha].
Qed.

Lemma wf_big_union : forall Fs,
  (forall F, In F Fs -> wf F) -> NoDup (concat (map args Fs)) -> wf (big_union Fs).
Proof.
  intros Fs Hwf Hnd. split.
  - rewrite args_big_union. exact Hnd.
  - intros a b H. apply att_big_union in H. destruct H as [F [HF H]].
    rewrite args_big_union. destruct (proj2 (Hwf F HF) a b H) as [Ia Ib].
    split; apply (in_concat_map_args Fs F); assumption.
Qed.

Lemma ext_empty_nil : forall s, ext s empty_af [].
Proof. intros s. apply extb_ext. destruct s; reflexivity. Qed.

Theorem ext_big_union : forall s Fs S,
  (forall F, In F Fs -> wf F) -> NoDup (concat (map args Fs)) ->
  (ext s (big_union Fs) S <->
   incl S (concat (map args Fs)) /\ forall F, In F Fs -> ext s F (restr (args F) S)).
Proof.
  intros s Fs. induction Fs as [|F1 r IH]; intros S Hwf Hnd.
  - cbn [big_union fold_right map concat]. split.
    + intros H. split; [exact (ext_incl s empty_af S H) | intros F []].
    + intros [Hi _]. apply (ext_seteq s empty_af []); [|apply ext_empty_nil].
      intros a. split; [intros [] | intros Ha; exact (Hi a Ha)].
  - cbn [big_union fold_right]. fold (big_union r). cbn [map concat] in *.
    destruct (NoDup_app_inv _ _ _ Hnd) as [_ [Hnd' Hdis]].
    assert (Hwf1 : wf F1) by (apply Hwf; left; reflexivity).
    assert (Hwfr : forall F, In F r -> wf F) by (intros F HF; apply Hwf; right; exact HF).
    assert (Hwf2 : wf (big_union r)) by (apply wf_big_union; assumption).
    assert (Hd : forall a, In a (args F1) -> ~ In a (args (big_union r))).
    { intros a H1 H2. rewrite args_big_union in H2. exact (Hdis a H1 H2). }
    rewrite (ext_union F1 (big_union r) Hwf1 Hwf2 Hd s S).
    rewrite (IH (restr (args (big_union r)) S) Hwfr Hnd'). rewrite args_big_union. split.
    + intros [Hi [H1 [_ Hr]]]. split; [exact Hi|]. intros F [HF|HF].
      * subst F. exact H1.
      * apply (ext_seteq s F (restr (args F) (restr (concat (map args r)) S))); [|apply Hr; exact HF].
        apply restr_restr_sub. intros a Ha. exact (in_concat_map_args r F a HF Ha).
    + intros [Hi Hall]. split; [exact Hi|]. split; [apply Hall; left; reflexivity|].
      split; [apply restr_incl_l|]. intros F HF.
      apply (ext_seteq s F (restr (args F) S)); [|apply Hall; right; exact HF].
      apply seteq_sym. apply restr_restr_sub. intros a Ha. exact (in_concat_map_args r F a HF Ha).
Qed.

(* ------------------------------------------------------------------ *)
(** * B. Renaming *)

Definition rename (f : nat -> nat) (F : af) : af :=
  {| args := map f (args F); atts := map (fun p => (f (fst p), f (snd p))) (atts F) |}.

Definition inj_on (f : nat -> nat) (l : list nat) : Prop :=
  forall a b, In a l -> In b l -> f a = f b -> a = b.

Lemma NoDup_map_inj_on : forall f l, NoDup l -> inj_on f l -> NoDup (map f l).
Proof.
  intros f l H. induction H as [|x r Hx Hr IH]; intros Hinj; cbn [map]; constructor.
  - intros Hin. apply in_map_iff in Hin. destruct Hin as [y [E Hy]].
    assert (y = x).
    { apply Hinj; [right; exact Hy | left; reflexivity | exact E]. }
    subst y. exact (Hx Hy).
  - apply IH. intros a b Ha Hb. apply Hinj; right; assumption.
Qed.

Section Rename.
  Variable f : nat -> nat.
  Variable F : af.
  Hypothesis Hwf : wf F.
  Hypothesis Hinj : inj_on f (args F).

  Local Notation R := (rename f F).

  Lemma in_args_rename : forall x, In x (args R) <-> exists a, In a (args F) /\ x = f a.
  Proof.
    intros x. unfold rename. cbn [args]. rewrite in_map_iff. split.
    - intros [a [E Ha]]. exists a. split; [exact Ha | symmetry; exact E].
    - intros [a [Ha E]]. exists a. split; [symmetry; exact E | exact Ha].
  Qed.

  Lemma att_rename_inv : forall x y,
    att R x y -> exists a b, x = f a /\ y = f b /\ att F a b.
  Proof.
    intros x y H. unfold att, rename in H. cbn [atts] in H. apply in_map_iff in H.
    destruct H as [[a b] [E H]]. cbn [fst snd] in E. inversion E; subst.
    exists a, b. split; [reflexivity|]. split; [reflexivity | exact H].
  Qed.

  Lemma att_rename : forall a b, att F a b -> att R (f a) (f b).
  Proof.
    intros a b H. unfold att, rename. cbn [atts]. apply in_map_iff.
    exists (a, b). split; [reflexivity | exact H].
  Qed.

  Lemma att_rename_iff : forall a b, In a (args F) -> In b (args F) ->
    (att R (f a) (f b) <-> att F a b).
  Proof.
    intros a b Ha Hb. split; [|apply att_rename].
    intros H. apply att_rename_inv in H. destruct H as [a' [b' [Ea [Eb H]]]].
    destruct (proj2 Hwf a' b' H) as [Ia Ib].
    apply (Hinj a a' Ha Ia) in Ea. apply (Hinj b b' Hb Ib) in Eb. subst a' b'. exact H.
  Qed.

  Lemma in_map_inj : forall S a, incl S (args F) -> In a (args F) ->
    (In (f a) (map f S) <-> In a S).
  Proof.
    intros S a HS Ha. split; [|apply in_map].
    intros H. apply in_map_iff in H. destruct H as [a' [E Ha']].
    apply (Hinj a' a (HS a' Ha') Ha) in E. subst a'. exact Ha'.
  Qed.

  Lemma incl_map_inj : forall S T, incl S (args F) -> incl T (args F) ->
    (incl (map f S) (map f T) <-> incl S T).
  Proof.
    intros S T HS HT. split.
    - intros H a Ha. apply (in_map_inj T a HT (HS a Ha)). apply H. apply in_map. exact Ha.
    - intros H. apply incl_map. exact H.
  Qed.

  Lemma incl_map_args : forall S, incl S (args F) -> incl (map f S) (args R).
  Proof. intros S H. unfold rename. cbn [args]. apply incl_map. exact H. Qed.

  Lemma wf_rename : wf R.
  Proof.
    split.
    - unfold rename. cbn [args]. apply NoDup_map_inj_on; [exact (proj1 Hwf) | exact Hinj].
    - intros x y H. apply att_rename_inv in H. destruct H as [a [b [Ea [Eb H]]]]. subst x y.
      destruct (proj2 Hwf a b H) as [Ia Ib].
      split; apply in_args_rename; [exists a | exists b]; split; auto.
  Qed.

  (* preimage of a set of renamed arguments *)
  Definition pre (T : list nat) : list nat := filter (fun a => memb (f a) T) (args F).

  Lemma in_pre : forall T a, In a (pre T) <-> In a (args F) /\ In (f a) T.
  Proof. intros T a. unfold pre. rewrite filter_In, memb_In. reflexivity. Qed.

  Lemma pre_incl : forall T, incl (pre T) (args F).
  Proof. intros T a H. apply in_pre in H. tauto. Qed.

  Lemma pre_seteq : forall T, incl T (args R) -> seteq T (map f (pre T)).
  Proof.
    intros T HT x. split.
    - intros Hx. destruct (proj1 (in_args_rename x) (HT x Hx)) as [a [Ha E]]. subst x.
      apply in_map. apply in_pre. split; assumption.
    - intros Hx. apply in_map_iff in Hx. destruct Hx as [a [E Ha]]. subst x.
      apply in_pre in Ha. tauto.
  Qed.

  Lemma pre_map : forall S, incl S (args F) -> seteq (pre (map f S)) S.
  Proof.
    intros S HS a. rewrite in_pre. split.
    - intros [Ha H]. apply (in_map_inj S a HS Ha). exact H.
    - intros H. split; [apply HS; exact H | apply in_map; exact H].
  Qed.

  Lemma cf_rename : forall S, incl S (args F) -> (cf R (map f S) <-> cf F S).
  Proof.
    intros S HS. split.
    - intros H a b Ha Hb Hab. apply (H (f a) (f b)); [apply in_map; exact Ha | apply in_map; exact Hb|].
      apply att_rename. exact Hab.
    - intros H x y Hx Hy Hxy. apply in_map_iff in Hx. apply in_map_iff in Hy.
      destruct Hx as [a [Ea Ha]]. destruct Hy as [b [Eb Hb]]. subst x y.
      apply (H a b Ha Hb). apply (att_rename_iff a b (HS a Ha) (HS b Hb)). exact Hxy.
  Qed.

  Lemma defends_rename : forall S a, incl S (args F) -> In a (args F) ->
    (defends R (map f S) (f a) <-> defends F S a).
  Proof.
    intros S a HS Ha. split.
    - intros H b Hb. destruct (H (f b) (att_rename b a Hb)) as [z [Hz Hzb]].
      apply in_map_iff in Hz. destruct Hz as [c [E Hc]]. subst z.
      exists c. split; [exact Hc|].
      apply (att_rename_iff c b (HS c Hc) (proj1 (proj2 Hwf b a Hb))). exact Hzb.
    - intros H y Hy. destruct (att_rename_inv y (f a) Hy) as [b' [a' [Ey [Ea Hba]]]].
      destruct (proj2 Hwf b' a' Hba) as [Ib Ia].
      apply (Hinj a a' Ha Ia) in Ea. subst a' y.
      destruct (H b' Hba) as [c [Hc Hcb]].
      exists (f c). split; [apply in_map; exact Hc | apply att_rename; exact Hcb].
  Qed.

  Lemma in_range_rename : forall S a, incl S (args F) -> In a (args F) ->
    (in_range R (map f S) (f a) <-> in_range F S a).
  Proof.
    intros S a HS Ha. unfold in_range. split.
    - intros [H|[z [Hz Hza]]].
      + left. apply (in_map_inj S a HS Ha). exact H.
      + right. apply in_map_iff in Hz. destruct Hz as [b [E Hb]]. subst z.
        exists b. split; [exact Hb|]. apply (att_rename_iff b a (HS b Hb) Ha). exact Hza.
    - intros [H|[b [Hb Hba]]].
      + left. apply in_map. exact H.
      + right. exists (f b). split; [apply in_map; exact Hb | apply att_rename; exact Hba].
  Qed.

  Lemma cfs_rename : forall S, incl S (args F) -> (cfs R (map f S) <-> cfs F S).
  Proof.
    intros S HS. unfold cfs. rewrite (cf_rename S HS). split.
    - intros [_ H]. split; assumption.
    - intros [_ H]. split; [apply incl_map_args; exact HS | exact H].
  Qed.

  Lemma adm_rename : forall S, incl S (args F) -> (adm R (map f S) <-> adm F S).
  Proof.
    intros S HS. unfold adm. rewrite (cf_rename S HS). split.
    - intros [_ [Hc Hd]]. split; [exact HS|]. split; [exact Hc|]. intros a Ha.
      apply (defends_rename S a HS (HS a Ha)). apply Hd. apply in_map. exact Ha.
    - intros [_ [Hc Hd]]. split; [apply incl_map_args; exact HS|]. split; [exact Hc|].
      intros x Hx. apply in_map_iff in Hx. destruct Hx as [a [E Ha]]. subst x.
      apply (defends_rename S a HS (HS a Ha)). apply Hd. exact Ha.
  Qed.

  Lemma co_rename : forall S, incl S (args F) -> (co R (map f S) <-> co F S).
  Proof.
    intros S HS. unfold co. rewrite (adm_rename S HS). split.
    - intros [Ha Hc]. split; [exact Ha|]. intros a Hin Hd.
      apply (in_map_inj S a HS Hin). apply Hc.
      + apply in_args_rename. exists a. split; [exact Hin | reflexivity].
      + apply (defends_rename S a HS Hin). exact Hd.
    - intros [Ha Hc]. split; [exact Ha|]. intros x Hin Hd.
      apply in_args_rename in Hin. destruct Hin as [a [Hin E]]. subst x.
      apply in_map. apply Hc; [exact Hin|]. apply (defends_rename S a HS Hin). exact Hd.
  Qed.

  Lemma st_rename : forall S, incl S (args F) -> (st R (map f S) <-> st F S).
  Proof.
    intros S HS. unfold st. rewrite (cf_rename S HS). split.
    - intros [_ [Hc Hs]]. split; [exact HS|]. split; [exact Hc|]. intros a Hin Hn.
      destruct (Hs (f a)) as [z [Hz Hza]].
      + apply in_args_rename. exists a. split; [exact Hin | reflexivity].
      + intros H. apply Hn. apply (in_map_inj S a HS Hin). exact H.
      + apply in_map_iff in Hz. destruct Hz as [b [E Hb]]. subst z.
        exists b. split; [exact Hb|]. apply (att_rename_iff b a (HS b Hb) Hin). exact Hza.
    - intros [_ [Hc Hs]]. split; [apply incl_map_args; exact HS|]. split; [exact Hc|].
      intros x Hin Hn. apply in_args_rename in Hin. destruct Hin as [a [Hin E]]. subst x.
      destruct (Hs a Hin) as [b [Hb Hba]].
      + intros H. apply Hn. apply in_map. exact H.
      + exists (f b). split; [apply in_map; exact Hb | apply att_rename; exact Hba].
  Qed.

  Lemma range_incl_rename : forall S S', incl S (args F) -> incl S' (args F) ->
    (range_incl R (map f S) (map f S') <-> range_incl F S S').
  Proof.
    intros S S' HS HS'. unfold range_incl. split.
    - intros H a Hin Hr. apply (in_range_rename S' a HS' Hin). apply H.
      + apply in_args_rename. exists a. split; [exact Hin | reflexivity].
      + apply (in_range_rename S a HS Hin). exact Hr.
    - intros H x Hin Hr. apply in_args_rename in Hin. destruct Hin as [a [Hin E]]. subst x.
      apply (in_range_rename S' a HS' Hin). apply H; [exact Hin|].
      apply (in_range_rename S a HS Hin). exact Hr.
  Qed.

  Lemma maxi_rename : forall (B : af -> list nat -> Prop) (le : af -> list nat -> list nat -> Prop),
    (forall G S, B G S -> incl S (args G)) ->
    (forall G S T, seteq S T -> B G S -> B G T) ->
    (forall S, incl S (args F) -> (B R (map f S) <-> B F S)) ->
    (forall G S T X, seteq S T -> le G S X -> le G T X) ->
    (forall G S T X, seteq S T -> le G X S -> le G X T) ->
    (forall S S', incl S (args F) -> incl S' (args F) ->
       (le R (map f S) (map f S') <-> le F S S')) ->
    forall S, incl S (args F) -> (maxi B le R (map f S) <-> maxi B le F S).
  Proof.
    intros B le Bincl Bseteq Bren le_l le_r le_ren S HS. unfold maxi. split.
    - intros [HB Hm]. split; [apply (Bren S HS); exact HB|]. intros S' HS' Hle.
      pose proof (Bincl _ _ HS') as I'.
      apply (le_ren S' S I' HS). apply Hm.
      + apply (Bren S' I'). exact HS'.
      + apply (le_ren S S' HS I'). exact Hle.
    - intros [HB Hm]. split; [apply (Bren S HS); exact HB|]. intros T HT Hle.
      pose proof (pre_seteq T (Bincl _ _ HT)) as E. pose proof (pre_incl T) as I'.
      apply (le_l R (map f (pre T)) T); [apply seteq_sym; exact E|].
      apply (le_ren (pre T) S I' HS). apply Hm.
      + apply (Bren (pre T) I'). apply (Bseteq R T); assumption.
      + apply (le_ren S (pre T) HS I'). apply (le_r R T); assumption.
  Qed.

  Lemma pr_rename : forall S, incl S (args F) -> (pr R (map f S) <-> pr F S).
  Proof.
    apply (maxi_rename adm (fun _ S T => incl S T) adm_incl adm_seteq adm_rename).
    - intros _ S0 T X E H. exact (seteq_incl_l S0 T X E H).
    - intros _ S0 T X E H. exact (seteq_incl_r S0 T X E H).
    - intros S0 S' H0 H'. apply incl_map_inj; assumption.
  Qed.

  Lemma sst_rename : forall S, incl S (args F) -> (sst R (map f S) <-> sst F S).
  Proof.
    apply (maxi_rename co range_incl co_incl co_seteq co_rename).
    - intros G S0 T X E H. exact (range_incl_seteq_l G S0 T X E H).
    - intros G S0 T X E H. exact (range_incl_seteq_r G S0 T X E H).
    - exact range_incl_rename.
  Qed.

  Lemma stg_rename : forall S, incl S (args F) -> (stg R (map f S) <-> stg F S).
  Proof.
    apply (maxi_rename cfs range_incl cfs_incl cfs_seteq cfs_rename).
    - intros G S0 T X E H. exact (range_incl_seteq_l G S0 T X E H).
    - intros G S0 T X E H. exact (range_incl_seteq_r G S0 T X E H).
    - exact range_incl_rename.
  Qed.

  Lemma gr_rename : forall S, incl S (args F) -> (gr R (map f S) <-> gr F S).
  Proof.
    intros S HS. unfold gr. rewrite (co_rename S HS). split.
    - intros [Hc Hm]. split; [exact Hc|]. intros S' HS'. pose proof (co_incl F S' HS') as I'.
      apply (incl_map_inj S S' HS I'). apply Hm. apply (co_rename S' I'). exact HS'.
    - intros [Hc Hm]. split; [exact Hc|]. intros T HT.
      pose proof (pre_seteq T (co_incl R T HT)) as E. pose proof (pre_incl T) as I'.
      apply (seteq_incl_r (map f (pre T)) T _ (seteq_sym _ _ E)).
      apply incl_map. apply Hm. apply (co_rename (pre T) I'). apply (co_seteq R T); assumption.
  Qed.

  Lemma idl_rename : forall S, incl S (args F) -> (idl R (map f S) <-> idl F S).
  Proof.
    intros S HS. unfold idl. rewrite (adm_rename S HS). split.
    - intros [Ha [Hp Hm]]. split; [exact Ha|]. split.
      + intros P HP. pose proof (adm_incl F P (proj1 HP)) as IP.
        apply (incl_map_inj S P HS IP). apply Hp. apply (pr_rename P IP). exact HP.
      + intros S' HS' Hall. pose proof (adm_incl F S' HS') as I'.
        apply (incl_map_inj S' S I' HS). apply Hm; [apply (adm_rename S' I'); exact HS'|].
        intros Q HQ. pose proof (pre_seteq Q (adm_incl R Q (proj1 HQ))) as E.
        apply (seteq_incl_r (map f (pre Q)) Q _ (seteq_sym _ _ E)). apply incl_map.
        apply Hall. apply (pr_rename (pre Q) (pre_incl Q)). apply (pr_seteq R Q); assumption.
    - intros [Ha [Hp Hm]]. split; [exact Ha|]. split.
      + intros Q HQ. pose proof (pre_seteq Q (adm_incl R Q (proj1 HQ))) as E.
        apply (seteq_incl_r (map f (pre Q)) Q _ (seteq_sym _ _ E)). apply incl_map.
        apply Hp. apply (pr_rename (pre Q) (pre_incl Q)). apply (pr_seteq R Q); assumption.
      + intros T HT Hall. pose proof (pre_seteq T (adm_incl R T HT)) as E.
        apply (seteq_incl_l (map f (pre T)) T _ (seteq_sym _ _ E)). apply incl_map.
        apply Hm; [apply (adm_rename (pre T) (pre_incl T)); apply (adm_seteq R T); assumption|].
        intros P HP. pose proof (adm_incl F P (proj1 HP)) as IP.
        intros a Ha'. apply in_pre in Ha'. destruct Ha' as [Hin HfT].
        apply (in_map_inj P a IP Hin). apply (Hall (map f P)); [|exact HfT].
        apply (pr_rename P IP). exact HP.
  Qed.

  Theorem ext_rename : forall s S, incl S (args F) -> (ext s R (map f S) <-> ext s F S).
  Proof.
    intros s S HS. destruct s; cbn [ext].
    - apply gr_rename; exact HS.
    - apply co_rename; exact HS.
    - apply pr_rename; exact HS.
    - apply st_rename; exact HS.
    - apply sst_rename; exact HS.
    - apply stg_rename; exact HS.
    - apply idl_rename; exact HS.
  Qed.

  Theorem ext_rename_inv : forall s T,
    ext s R T -> exists S, ext s F S /\ seteq T (map f S).
  Proof.
    intros s T HT. pose proof (pre_seteq T (ext_incl s R T HT)) as E.
    exists (pre T). split; [|exact E].
    apply (ext_rename s (pre T) (pre_incl T)). apply (ext_seteq s R T); assumption.
  Qed.

  Corollary cred_rename : forall s A, incl A (args F) ->
    (cred s R (map f A) <-> cred s F A).
  Proof.
    intros s A HA. unfold cred. split.
    - intros [T [HT [x [HxA HxT]]]]. destruct (ext_rename_inv s T HT) as [S [HS E]].
      exists S. split; [exact HS|]. apply in_map_iff in HxA. destruct HxA as [a [Ea Ha]]. subst x.
      exists a. split; [exact Ha|].
      apply (in_map_inj S a (ext_incl s F S HS) (HA a Ha)). apply (E (f a)). exact HxT.
    - intros [S [HS [a [HaA HaS]]]]. exists (map f S).
      split; [apply (ext_rename s S (ext_incl s F S HS)); exact HS|].
      exists (f a). split; apply in_map; assumption.
  Qed.

  Corollary skep_rename : forall s A, incl A (args F) ->
    (skep s R (map f A) <-> skep s F A).
  Proof.
    intros s A HA. unfold skep. split.
    - intros H S HS. pose proof (ext_incl s F S HS) as IS.
      destruct (H (map f S) (proj2 (ext_rename s S IS) HS)) as [x [HxA HxS]].
      apply in_map_iff in HxA. destruct HxA as [a [Ea Ha]]. subst x.
      exists a. split; [exact Ha|]. apply (in_map_inj S a IS (HA a Ha)). exact HxS.
    - intros H T HT. destruct (ext_rename_inv s T HT) as [S [HS E]].
      destruct (H S HS) as [a [HaA HaS]]. exists (f a).
      split; [apply in_map; exact HaA | apply (E (f a)); apply in_map; exact HaS].
  Qed.
End Rename.

(* ------------------------------------------------------------------ *)
(** * The hypotheses are satisfiable *)

Example inv_example_F1 : af := {| args := [1; 2]; atts := [(1, 2)] |}.
Example inv_example_F2 : af := {| args := [3; 4]; atts := [(3, 4); (4, 3)] |}.

Example inv_example_wf1 : wf inv_example_F1.
Proof.
  split.
  - repeat constructor; cbn [In]; lia.
  - intros a b [H|[]]. inversion H; subst. cbn [args inv_example_F1 In]. auto.
Qed.

Example inv_example_wf2 : wf inv_example_F2.
Proof.
  split.
  - repeat constructor; cbn [In]; lia.
  - intros a b [H|[H|[]]]; inversion H; subst; cbn [args inv_example_F2 In]; auto.
Qed.

Example inv_example_disjoint :
  forall a, In a (args inv_example_F1) -> ~ In a (args inv_example_F2).
Proof. intros a H1 H2. cbn [args inv_example_F1 inv_example_F2 In] in *. lia. Qed.

Example inv_example_equiv :
  af_equiv inv_example_F2 {| args := [4; 3]; atts := [(4, 3); (3, 4); (4, 3)] |}.
Proof.
  apply af_equiv_lists.
  - intros a. cbn [In]. tauto.
  - intros p. cbn [In]. tauto.
Qed.

Example inv_example_inj : inj_on (fun a => a + 10) (args inv_example_F1).
Proof. intros a b _ _ H. lia. Qed.

Example inv_example_union_st :
  ext ST (disjoint_union inv_example_F1 inv_example_F2) ([1] ++ [4]).
Proof.
  apply (ext_union_app _ _ inv_example_wf1 inv_example_wf2 inv_example_disjoint ST);
    apply extb_ext; reflexivity.
Qed.

Example inv_example_rename_st :
  ext ST (rename (fun a => a + 10) inv_example_F1) (map (fun a => a + 10) [1]).
Proof.
  apply (ext_rename _ _ inv_example_wf1 inv_example_inj ST [1]).
  - intros a [H|[]]. subst a. left. reflexivity.
  - apply extb_ext. reflexivity.
Qed.

(* ------------------------------------------------------------------ *)
Print Assumptions ext_af_equiv.
Print Assumptions cred_af_equiv.
Print Assumptions skep_af_equiv.
Print Assumptions pr_exists.
Print Assumptions ext_split.
Print Assumptions ext_union.
Print Assumptions ext_union_app.
Print Assumptions cred_union_left.
Print Assumptions skep_union_left.
Print Assumptions st_union_corner.
Print Assumptions ext_big_union.
Print Assumptions ext_rename.
Print Assumptions ext_rename_inv.
Print Assumptions cred_rename.
Print Assumptions skep_rename.
