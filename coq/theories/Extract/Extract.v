(* Extraction of the executable model and of the reference (spec) oracle to OCaml.
   Only ExtrOcamlBasic is used: bool, option, unit, list, prod, sumbool, sumor are mapped to the
   OCaml types; nat, positive, N, Z stay Coq datatypes.  No Extract Constant of our own.
   Run with the current directory set to the output directory (driver/extracted). *)
From Coq Require Import Extraction ExtrOcamlBasic.
From Crusta Require Import Spec.AF Sat.Cnf Sat.Prog Model.Store Model.Encoders Model.Graph Model.Solvers.
From Crusta Require Import Model.Equiv.
From Crusta Require Import Model.Readers Model.Writers.
From Crusta Require Import Sat.Dpll Sat.Dimacs Model.SatObjects Model.Pipe.
From Crusta Require Import Model.Cli.
From Crusta Require Import Spec.AF Sat.Cnf Sat.Prog Model.Store Model.Encoders Model.Graph Model.Solvers Model.Dynamic.
(* the label route of the solvers (definitions only; imports Model.Store and Model.Graph only) *)
From Crusta Require Import Proofs.LabelRouteDefs.
Extraction Language OCaml.
Separate Extraction
  (* spec oracle *)
  AF.extb AF.all_exts AF.credb AF.skepb AF.all_base AF.baseb AF.in_rangeb AF.compact
  (* cnf *)
  Cnf.all_models Cnf.models Cnf.valid_sat Cnf.cnf_max Cnf.val_of
  (* store *)
  Store.step Store.run_ops Store.fw_new_with_labels Store.new_attack_by_ids
  Store.n_arguments Store.n_attacks Store.max_argument_id Store.iter_args Store.iter_attacks
  Store.iter_attacks_from Store.iter_attacks_to Store.get_argument Store.has_argument_with_id
  (* encoders *)
  Encoders.encode Encoders.assignment_to_extension Encoders.arg_to_lit Encoders.first_range_var
  Encoders.range_var Encoders.enc_base
  (* SAT programs, graph algorithms, static solvers *)
  Prog.init_st Prog.log_of Prog.script_oracle Prog.run Prog.bind
  Graph.view_of_fw Graph.view_of_af Graph.grounded Graph.all_ccs Graph.merged_cc_of Graph.cc_new
  Solvers.run_query
  (* equivalence reduction (C19) *)
  Equiv.equivalency_new Equiv.init_to_reduced_arg Equiv.reduced_arg_to_init_args Equiv.propagate
  Equiv.n_attacks_to Equiv.compute_classes
  (* readers and writers (C13, C14) *)
  Readers.read_iccma Readers.read_apx Readers.iccma_read_arg Readers.apx_read_arg Readers.observe
  Readers.utf8_decode Readers.lines
  Writers.write_apx Writers.write_w Writers.write_bracket Writers.write_no Writers.write_status
  Writers.utf8_encode Writers.dec Writers.dec_nat Writers.parse_w Writers.parse_bracket
  (* reference SAT solver, DIMACS text, SAT solver objects, pipe LTS (C15/C16, vdpll) *)
  Dpll.solve Dpll.solve_n Dpll.solve_answer
  Dimacs.parse_instance Dimacs.print_instance Dimacs.reply_parse Dimacs.print_reply Dimacs.render_sat
  Dimacs.render_unsat
  SatObjects.cad_step SatObjects.buf_step SatObjects.cad_new SatObjects.buf_new SatObjects.run_obj
  SatObjects.vdpll_fn SatObjects.dpll_backend SatObjects.buf_instance SatObjects.verdict_of
  SatObjects.obs_of_reply SatObjects.clauses_of
  Pipe.run_config Pipe.steps Pipe.init Pipe.stuck
  (* command-line tools (C05) *)
  Cli.parse_main Cli.parse_wrapper Cli.exec Cli.iccma_instance Cli.apx_instance Cli.problems_21
  Cli.read_problem_string Cli.wrapper_argv Cli.run_script Cli.parse_answer Cli.beqb Store.new_attack
  (* dynamic solvers *)
  Dynamic.dyn_new Dynamic.dyn_update Dynamic.dyn_query
  (* label route (C04labels): component stores and the two translations through labels *)
  Graph.remaining_ccs Graph.next_cc
  LabelRouteDefs.arg_of LabelRouteDefs.label_of LabelRouteDefs.labels_of LabelRouteDefs.get_argument_ref
  LabelRouteDefs.comp_store LabelRouteDefs.comp_stores LabelRouteDefs.to_local_lab LabelRouteDefs.to_global_lab
  LabelRouteDefs.locals_lab LabelRouteDefs.lift_lab LabelRouteDefs.with_labels LabelRouteDefs.glue_lab
  (* (new roots go above this line; the terminating period stays alone on the next line) *)
.
