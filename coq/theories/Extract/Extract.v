(* Extraction of the executable model and of the reference (spec) oracle to OCaml.
   Only ExtrOcamlBasic is used: bool, option, unit, list, prod, sumbool, sumor are mapped to the
   OCaml types; nat, positive, N, Z stay Coq datatypes.  No Extract Constant of our own.
   Run with the current directory set to the output directory (driver/extracted). *)
From Coq Require Import Extraction ExtrOcamlBasic.
From Crusta Require Import Spec.AF Sat.Cnf Sat.Prog Model.Store Model.Encoders Model.Graph Model.Solvers Model.Dynamic.
Extraction Language OCaml.
Separate Extraction
  (* spec oracle *)
  AF.extb AF.all_exts AF.credb AF.skepb AF.all_base AF.baseb AF.in_rangeb AF.compact
  (* cnf *)
  Cnf.all_models Cnf.models Cnf.valid_sat Cnf.cnf_max Cnf.val_of
  (* store *)
  Store.step Store.run_ops Store.fw_new_with_labels Store.new_attack_by_ids
  Store.n_arguments Store.n_attacks Store.max_argument_id Store.iter_args Store.iter_attacks
  Store.iter_attacks_from Store.iter_attacks_to Store.get_argument Store.has_argument_with_id
  (* encoders *)
  Encoders.encode Encoders.assignment_to_extension Encoders.arg_to_lit Encoders.first_range_var
  Encoders.range_var Encoders.enc_base
  (* SAT programs, graph algorithms, static solvers *)
  Prog.init_st Prog.log_of Prog.script_oracle Prog.run
  Graph.view_of_fw Graph.view_of_af Graph.grounded Graph.all_ccs Graph.merged_cc_of Graph.cc_new
  Solvers.run_query
  (* dynamic solvers *)
  Dynamic.dyn_new Dynamic.dyn_update Dynamic.dyn_query.
