(* C18 for the dynamic PREFERRED query - "every query terminates, and the number of SAT-oracle calls it
   makes ... is bounded by the number of candidate sets of the underlying base semantics ...: for PR and
   ID no candidate set is ever examined twice".  Statements only; proofs are [exact] of
   Proofs/DynPrefCalls.v (loop-level facts in Proofs/DynPref.v).

   The dynamic preferred solver (kind KPr, query DS) does not decompose the framework: its
   MaximalExtensionComputer runs on the one incremental session; the candidate sets of the base
   semantics are the COMPLETE extensions of the current framework (the models of the session under the
   live selectors, Properties/C08.v (5)).  Vocabulary:
     vreach oracle thr KPr s ps os   s, with SAT program state ps, is reachable from a fresh preferred
                          solver by any history of updates os and queries that returned, all answered by
                          the one oracle (Proofs/DynFunDefs.v, see Properties/C08.v);
     calls ps             the number of SAT answers consumed so far; rlog ps the SAT log, most recent
                          event first (ESolve a r: a solve call with assumptions a and answer r);
     all_exts CO F        the complete extensions of F, as sublists of its argument list (AF.v);
     sats e lg            the sets decoded - by the encoder's variable table, dyn_a2e (e_vars e) - from
                          the Sat answers of the solve events of the stretch lg of the log;
     sepl l               the sets of the list l are pairwise different AS SETS (MaxExtCore.v:
                          sepl (X :: r) = (forall T in r, ~ seteq X T) /\ sepl r). *)
From Crusta Require Import Spec.AF Spec.SemFacts Sat.Cnf Sat.Prog Model.Store Model.Graph Model.Solvers Model.Dynamic.
From Crusta Require Import Proofs.SolverBasics Proofs.MaxExtCore Proofs.DynDefs Proofs.DynFunDefs Proofs.DynPref
  Proofs.DynPrefCalls Proofs.CompProofs Proofs.SolverWholeEx.
Import ListNotations.

Section C18pr.
Variable L : Type.
Variable leqb : L -> L -> bool.
Hypothesis leqb_spec : forall x y, leqb x y = true <-> x = y.

(* (1) the call bound, however the query ends.  For any valid oracle and any history, a DS query of the
   preferred solver on a label of the specification store makes AT MOST ONE SAT CALL PER COMPLETE
   EXTENSION of the abstract framework F of that store - whether it returns, aborts on an Unknown answer
   or exhausts the model's fuel; it never panics; and it can exhaust the fuel (one unit per step of the
   search) only when the fuel is at most that number: with more fuel the query terminates.
   This is tighter than the static bound |complete| + |preferred| + 1 (also true: C08_preferred_answers):
   the dynamic loop discards a current set as soon as it contains the argument, so it only ever tries to
   GROW sets without the argument; a set then proved maximal is a counter-example and the loop returns.
   Hence no preferred extension costs a call of its own beyond the complete sets visited: every set
   that has been current costs one call, except the grounded start (none), and the final Unsat answer
   costs one.  (A maximal set containing the argument would be blocked twice - no call - but that
   branch of the loop is unreachable.) *)
Theorem C18_dyn_preferred_call_bound :
  forall oracle, valid_oracle oracle ->
  forall thr s ps os fuel cert l id,
  vreach L leqb oracle thr KPr s ps os ->
  get_argument L leqb (run_ops L leqb (fresh_fw L leqb) os) l = Some id ->
  match dyn_query oracle L leqb thr fuel s QDS cert l ps with
  | Done _ ps' | Abort ps' =>
      calls ps' <= calls ps + length (all_exts CO (af_of (run_ops L leqb (fresh_fw L leqb) os)))
  | OutOfFuel ps' =>
      calls ps' <= calls ps + length (all_exts CO (af_of (run_ops L leqb (fresh_fw L leqb) os))) /\
      fuel <= length (all_exts CO (af_of (run_ops L leqb (fresh_fw L leqb) os)))
  | Panic _ => False
  end.
Proof. exact (DynPrefCalls.pr_query_calls L leqb leqb_spec). Qed.

(* (1') no call at all when the cache answers: the query returns the cached status (and certificate, if
   asked for) on the SAME program state and leaves the solver untouched - for every solver state of kind
   KPr, every oracle *)
Theorem C18_dyn_preferred_cached : forall oracle thr fuel (s : dsolver L) cert l b X ps,
  s_kind L s = KPr -> is_skep L leqb (s_buf L s) l = (Some b, Some X) ->
  dyn_query oracle L leqb thr fuel s QDS cert l ps = Done (s, (b, if cert then Some X else None)) ps.
Proof. exact (DynPrefCalls.pr_query_cached L leqb). Qed.

(* (2) no candidate set is examined twice - on the SAT log.  When a query returns, the solve events it
   appended to the log ([new], most recent first) decode - by the encoder e the solver then holds - to
   sets that, followed by the grounded start set of the search, are PAIRWISE DIFFERENT as sets, and each
   of them is a complete extension of F *)
Theorem C18_dyn_preferred_no_candidate_twice :
  forall oracle, valid_oracle oracle ->
  forall thr s ps os fuel cert l id s' a ps' e,
  vreach L leqb oracle thr KPr s ps os ->
  get_argument L leqb (run_ops L leqb (fresh_fw L leqb) os) l = Some id ->
  dyn_query oracle L leqb thr fuel s QDS cert l ps = Done (s', a) ps' ->
  b_enc L (s_buf L s') = XStd e ->
  exists new, rlog ps' = new ++ rlog ps /\
    sepl (sats e new ++ [grounded (view_of_fw (run_ops L leqb (fresh_fw L leqb) os))]) /\
    forall S, In S (sats e new ++ [grounded (view_of_fw (run_ops L leqb (fresh_fw L leqb) os))]) ->
              co (af_of (run_ops L leqb (fresh_fw L leqb) os)) S.
Proof. exact (DynPrefCalls.pr_query_no_candidate_twice L leqb leqb_spec). Qed.

End C18pr.

(* the hypotheses are satisfiable and the bound of (1) is ATTAINED: preferred solver, brute-force
   reference oracle, framework a <-> b (complete extensions {}, {a}, {b}); DS b makes exactly 3 calls:
   grow {} (Sat {b}); {b} contains b, discarded; search elsewhere (Sat {a}); grow {a} (Unsat): NO with {a} *)
Example C18_dyn_preferred_example :
  exists s ps s' a ps',
    valid_oracle bf_oracle /\
    vreach nat Nat.eqb bf_oracle 1 KPr s ps
      (((([] ++ [OpNewArg 1]) ++ [OpNewArg 2]) ++ [OpNewAtt 1 2]) ++ [OpNewAtt 2 1]) /\
    dyn_query bf_oracle nat Nat.eqb 1 40 s QDS true 2 ps = Done (s', a) ps' /\
    a = (false, Some [0]) /\
    calls ps' = calls ps + 3 /\
    length (all_exts CO (af_of (run_ops nat Nat.eqb (fresh_fw nat Nat.eqb)
                                  [OpNewArg 1; OpNewArg 2; OpNewAtt 1 2; OpNewAtt 2 1]))) = 3.
Proof.
  do 5 eexists. split; [exact bf_oracle_valid|]. split.
  - do 4 eapply vreach_update. eapply vreach_new with (ps0 := init_st CadicalLike). reflexivity.
  - split; [vm_compute; reflexivity|]. split; [reflexivity|]. split; vm_compute; reflexivity.
Qed.

Print Assumptions C18_dyn_preferred_call_bound.
Print Assumptions C18_dyn_preferred_cached.
Print Assumptions C18_dyn_preferred_no_candidate_twice.
