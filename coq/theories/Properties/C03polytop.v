(* C03polytop - the polynomial oracle of the checks and the model of the static solvers never
   disagree.  Statements only; proofs are [exact] (Proofs/PolyOracleTop.v).

   For every valid SAT oracle, threshold >= 1, good view g of a framework F of any size, solver type
   with the entry point, admissible encoder, list of arguments, fuel, certificate flag and start state:
   if the run of [run_query] completes with a status b and the polynomial rule decides the query
   ([poly_status_full F s q al = Some w]; by C03_poly_status_le_full this covers the python rule
   [poly_status]), then b = w.  So a verdict `bad poly-status-...` of checks/solvers_common.py
   poly_judge on an outcome of the real solver cannot be blamed on the semantics: it is a difference
   between the real solver and the model, or a defect the model shares - and the second is excluded
   by C02 / C03.
   Vocabulary: as in Properties/C03.v (valid_oracle, view_good, supported, enc_ok, al_ok) and
   Properties/C03poly.v (poly_status_full, Cred / Skep). *)
From Crusta Require Import Spec.AF Sat.Cnf Sat.Prog Model.Encoders Model.Graph Model.Solvers.
From Crusta Require Import Proofs.EncSpec Proofs.SolverBasics Proofs.SolverThms.
From Crusta Require Import Proofs.TopBase Proofs.TopMax Proofs.SolverTop.
From Crusta Require Import Proofs.PolyOracleDefs.
From Crusta Require Proofs.PolyOracleTop Proofs.SolverWholeEx.
From Coq Require Import Lia.
Import ListNotations.

Theorem C03_poly_model_credulous : forall oracle thr g F,
  valid_oracle oracle -> 1 <= thr -> view_good g F ->
  forall s e al fuel cert st0 b c t w, supported s QDC -> enc_ok s e -> al_ok s QDC F al ->
  run_query oracle thr fuel s QDC cert e g al st0 = Done (OAcc b c) t ->
  poly_status_full F s Cred al = Some w -> b = w.
Proof. exact PolyOracleTop.model_agrees_cred. Qed.

Theorem C03_poly_model_skeptical : forall oracle thr g F,
  valid_oracle oracle -> 1 <= thr -> view_good g F ->
  forall s e al fuel cert st0 b c t w, supported s QDS -> enc_ok s e -> al_ok s QDS F al ->
  run_query oracle thr fuel s QDS cert e g al st0 = Done (OAcc b c) t ->
  poly_status_full F s Skep al = Some w -> b = w.
Proof. exact PolyOracleTop.model_agrees_skep. Qed.

(* the premises are satisfiable: 0 -> 1, 2 <-> 3 (G = {0}, not stable), brute-force (valid) oracle;
   a skeptical preferred run on the list [1; 0] and a credulous stable run on [1] complete, the
   rule decides both (R1, R2) and they agree; it is silent on the credulous stable status of 2 *)
Example C03_poly_model_example :
  let F := compact 4 [(0, 1); (2, 3); (3, 2)] in
  view_good (view_of_af F) F /\
  (exists t, run_query SolverWholeEx.bf_oracle 1 10 PR QDS false AuxCo (view_of_af F) [1; 0]
               (init_st CadicalLike) = Done (OAcc true None) t) /\
  poly_status_full F PR Skep [1; 0] = Some true /\
  (exists t, run_query SolverWholeEx.bf_oracle 1 10 ST QDC false AuxCo (view_of_af F) [1]
               (init_st CadicalLike) = Done (OAcc false None) t) /\
  poly_status_full F ST Cred [1] = Some false /\
  poly_status_full F ST Cred [2] = None.
Proof.
  cbv zeta. split.
  { apply (view_good_compact _ 4). split; [reflexivity|].
    intros a b H. cbn [compact atts In] in H.
    repeat (destruct H as [H|H]; [injection H as <- <-; lia|]). destruct H. }
  split; [eexists; vm_compute; reflexivity|].
  split; [vm_compute; reflexivity|].
  split; [eexists; vm_compute; reflexivity|].
  split; vm_compute; reflexivity.
Qed.

Print Assumptions C03_poly_model_credulous.
Print Assumptions C03_poly_model_skeptical.
