(* C04 - certificates are valid witnesses and appear exactly when promised.
   Statements only; proofs are [exact].
   PROVED so far (every valid SAT oracle, every compact component, every encoder): the model a
   component query returns denotes an extension of the component that contains the argument
   (credulous YES: complete extension for CO/PR, stable for ST) resp. omits it (skeptical NO, ST),
   and no model is returned in the other cases.
   NOT YET PROVED in Coq (tied by trace replay + brute-force oracle on every run): completion of
   the certificate on the other components, GR, and the PR / SST / STG / ID loops. *)
From Crusta Require Import Spec.AF Sat.Cnf Sat.Prog Model.Encoders Model.Graph Model.Solvers.
From Crusta Require Import Proofs.EncSpec Proofs.SolverBasics Proofs.SolverCc Proofs.SolverThms.
Open Scope prog_scope.

Theorem C04_complete_witness_component_partial : forall oracle thr, 1 <= thr -> valid_oracle oracle ->
  forall e F n la close s,
  compact_af F n -> (forall a, In a la -> a < n) -> cls s = [] -> sess_bounded s ->
  match (encode_m thr e false F ;;; guarded_disj oracle e (ret la) close) s with
  | Done (Some m) _ =>
      basep (enc_base e) F (assignment_to_extension n e m) /\
      meets la (assignment_to_extension n e m) = true
  | Done None _ => forall S, basep (enc_base e) F S -> meets la S = false
  | _ => True
  end.
Proof. exact SolverThms.cred_query. Qed.

Theorem C04_stable_witness_component_partial : forall oracle thr, 1 <= thr -> valid_oracle oracle ->
  forall c n la pol, compact_af (c_af c) n -> (forall a, In a la -> a < n) ->
  on_done (st_cc oracle thr c la pol) (st_cc_post c n la pol).
Proof. exact SolverThms.stable_component. Qed.

Print Assumptions C04_complete_witness_component_partial.
Print Assumptions C04_stable_witness_component_partial.
