(* C04 - certificates are valid witnesses and appear exactly when promised.
   Statements only; proofs are [exact].
   PROVED (every valid SAT oracle, every threshold >= 1, every admissible encoder, every good view
   of a framework of any size, every fuel, every list of arguments):
     - C04_certificates: for EVERY acceptance entry point of [run_query] (q = QDC or QDS; [qpol q]
       is true for QDC) a completed run returns a certificate only when the certificate flag is
       set and the status is the witnessed one (credulous YES, skeptical NO), and then always
       ([None] with the flag set forces the other status); the certificate is a duplicate-free
       list of arguments of F, an extension of the WHOLE framework under the semantics, which
       contains a listed argument (credulous) resp. none of them (skeptical).  This includes the
       completion of the certificate on the remaining components.
     - C04_*_witness_component_partial (kept): the per-component steps.
   NOT proved in Coq (by design): that the Rust code behaves like Model.Solvers (the tie), and
   the translation of ids to labels.  Termination and fuel: see C18.
   Vocabulary of the whole-framework theorems (Proofs/TopBase.v, TopMax.v, SolverTop.v):
     view_good g F   the view g (iteration orders of an AAFramework) presents the framework F;
                     instances: view_of_af of any compact framework, view_of_fw of any store
                     reachable from new_with_labels by any update history (C01_good_view_compact, C01_good_view_store);
     supported s q   the trait implementation exists (all but CO-SE, CO-DS, PR-DC, for which the
                     library delegates to another solver type and the model has no entry point);
     enc_ok s e      the encoder may be used with the solver type (CO, SST: complete-based; STG:
                     conflict-free based; PR, ID: complete- or admissible-based; GR, ST: any);
     al_ok s q F al  nothing for SE queries and for GR / ST; otherwise the listed ids are arguments
                     of F (the list may be empty and may contain repetitions).
*)
From Crusta Require Import Spec.AF Sat.Cnf Sat.Prog Model.Encoders Model.Graph Model.Solvers.
From Crusta Require Import Proofs.EncSpec Proofs.SolverBasics Proofs.SolverCc Proofs.SolverThms.
From Crusta Require Import Proofs.TopBase Proofs.TopMax Proofs.SolverTop.
From Crusta Require Import Spec.Theory.
From Crusta Require Proofs.Clauses.
Open Scope prog_scope.

Theorem C04_complete_witness_component_partial : forall oracle thr, 1 <= thr -> valid_oracle oracle ->
  forall e F n la close s,
  compact_af F n -> (forall a, In a la -> a < n) -> cls s = [] -> sess_bounded s ->
  match (encode_m thr e false F ;;; guarded_disj oracle e (ret la) close) s with
  | Done (Some m) _ =>
      basep (enc_base e) F (assignment_to_extension n e m) /\
      meets la (assignment_to_extension n e m) = true
  | Done None _ => forall S, basep (enc_base e) F S -> meets la S = false
  | _ => True
  end.
Proof. exact SolverThms.cred_query. Qed.

Theorem C04_stable_witness_component_partial : forall oracle thr, 1 <= thr -> valid_oracle oracle ->
  forall c n la pol, compact_af (c_af c) n -> (forall a, In a la -> a < n) ->
  on_done (st_cc oracle thr c la pol) (st_cc_post c n la pol).
Proof. exact SolverThms.stable_component. Qed.

Theorem C04_certificates : forall oracle thr g F,
  valid_oracle oracle -> 1 <= thr -> view_good g F ->
  forall s q e al fuel cert st0,
  q <> QSE -> supported s q -> enc_ok s e -> al_ok s q F al ->
  match run_query oracle thr fuel s q cert e g al st0 with
  | Done (OAcc b (Some L)) _ =>
      cert = true /\ b = qpol q /\ ext s F L /\ NoDup L /\ incl L (args F) /\
      (if qpol q then exists a, In a al /\ In a L else forall a, In a al -> ~ In a L)
  | Done (OAcc b None) _ => cert = true -> b = negb (qpol q)
  | Done (OExt _) _ => False
  | Panic _ => False
  | _ => True
  end.
Proof. exact SolverTop.top_certificates. Qed.

(* ---- the sentences of the property text, one by one (Proofs/Clauses.v) ---- *)

(* "When a certificate is requested, a YES to a credulous query comes with a set that contains the
   queried argument and is an extension under the queried semantics" + "the members of a certificate
   are arguments of the queried framework, each listed once" *)
Theorem C04_credulous_yes_has_certificate : forall oracle thr g F,
  valid_oracle oracle -> 1 <= thr -> view_good g F ->
  forall s e al fuel st0 c t, supported s QDC -> enc_ok s e -> al_ok s QDC F al ->
  run_query oracle thr fuel s QDC true e g al st0 = Done (OAcc true c) t ->
  exists L, c = Some L /\ ext s F L /\ (exists a, In a al /\ In a L) /\ NoDup L /\ incl L (args F).
Proof. exact Clauses.cert_credulous_yes. Qed.

(* "a NO to a skeptical query comes with an extension under the queried semantics that omits the
   argument" *)
Theorem C04_skeptical_no_has_certificate : forall oracle thr g F,
  valid_oracle oracle -> 1 <= thr -> view_good g F ->
  forall s e al fuel st0 c t, supported s QDS -> enc_ok s e -> al_ok s QDS F al ->
  run_query oracle thr fuel s QDS true e g al st0 = Done (OAcc false c) t ->
  exists L, c = Some L /\ ext s F L /\ (forall a, In a al -> ~ In a L) /\ NoDup L /\ incl L (args F).
Proof. exact Clauses.cert_skeptical_no. Qed.

(* "a NO credulous or YES skeptical answer carries no certificate" (nor does any answer when no
   certificate was requested) *)
Theorem C04_no_certificate_otherwise : forall oracle thr g F,
  valid_oracle oracle -> 1 <= thr -> view_good g F ->
  forall s q e al fuel cert st0 b c t, q <> QSE -> supported s q -> enc_ok s e -> al_ok s q F al ->
  run_query oracle thr fuel s q cert e g al st0 = Done (OAcc b c) t ->
  (q = QDC /\ b = false) \/ (q = QDS /\ b = true) \/ cert = false ->
  c = None.
Proof. exact Clauses.cert_absent. Qed.

(* "(for DC-PR a complete extension, which is a sufficient witness)": DC-PR is answered by the
   complete solver; its certificate L is a complete extension containing a listed argument, and L
   is contained in a preferred extension P, which therefore contains that argument: L witnesses
   credulous acceptance under PR *)
Theorem C04_preferred_witness : forall oracle thr g F,
  valid_oracle oracle -> 1 <= thr -> view_good g F ->
  forall e al fuel cert st0 b L t, enc_ok CO e -> al_ok CO QDC F al ->
  run_query oracle thr fuel CO QDC cert e g al st0 = Done (OAcc b (Some L)) t ->
  b = true /\ co F L /\ (exists a, In a al /\ In a L) /\
  exists P, pr F P /\ incl L P /\ exists a, In a al /\ In a P.
Proof. exact Clauses.cert_preferred_witness. Qed.

Print Assumptions C04_complete_witness_component_partial.
Print Assumptions C04_stable_witness_component_partial.
Print Assumptions C04_certificates.
Print Assumptions C04_credulous_yes_has_certificate.
Print Assumptions C04_skeptical_no_has_certificate.
Print Assumptions C04_no_certificate_otherwise.
Print Assumptions C04_preferred_witness.
