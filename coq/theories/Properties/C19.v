(* C19 - arguments merged by the equivalence reduction are indistinguishable.
   Statements only; every proof is [exact] of a lemma of Proofs/EquivBase.v / Proofs/EquivProofs.v.
   The model is Model/Equiv.v (src/utils/equivalency_computer.rs); [compact_af F n] says that F has
   the arguments 0..n-1 and that every attack joins two of them (duplicates and self-attacks
   allowed), which is what the readers produce. *)
From Coq Require Import List Permutation.
From Crusta Require Import Spec.AF Model.Equiv Proofs.EncSpec Proofs.EquivBase Proofs.EquivProofs.
Import ListNotations.

(* (a) soundness of the propagation, for ANY seed list *)
Theorem C19_propagate_sound : forall F n seeds P D, compact_af F n ->
  propagate F (n_attacks_to F) seeds = Done (Some (P, D)) ->
  forall S, co F S -> incl seeds S -> incl P S /\ forall d, In d D -> ~ In d S.
Proof. exact EquivBase.propagate_sound. Qed.

Theorem C19_propagate_conflict : forall F n seeds, compact_af F n ->
  propagate F (n_attacks_to F) seeds = Done None ->
  ~ exists S, co F S /\ incl seeds S.
Proof. exact EquivBase.propagate_conflict. Qed.

(* the propagation neither panics (no counter underflows) nor runs out of fuel *)
Theorem C19_propagate_total : forall F n seeds, compact_af F n ->
  exists r, propagate F (n_attacks_to F) seeds = Done r.
Proof. exact EquivBase.propagate_total. Qed.

(* the class computation always returns (no panic, fuel sufficient) *)
Theorem C19_classes_total : forall F n, compact_af F n ->
  exists cls, compute_classes F = Done cls.
Proof. exact EquivProofs.compute_classes_total. Qed.

(* (b) the classes partition 0..n-1: listing the members of all classes gives every argument
   exactly once; no class is empty *)
Theorem C19_classes_partition : forall F n cls, compact_af F n -> compute_classes F = Done cls ->
  Permutation (concat (map members cls)) (seq 0 n) /\ forall c, In c cls -> members c <> [].
Proof. exact EquivProofs.classes_partition. Qed.

(* (c) two members of one class belong to exactly the same complete extensions *)
Theorem C19_same_complete_extensions : forall F n cls, compact_af F n ->
  compute_classes F = Done cls ->
  forall c a b, In c cls -> In a (members c) -> In b (members c) ->
  forall S, co F S -> (In a S <-> In b S).
Proof. exact EquivProofs.classes_same. Qed.

(* the Grounded class is inside every complete extension, the GroundedDefeated class is disjoint
   from every complete extension *)
Theorem C19_grounded_classes : forall F n cls, compact_af F n -> compute_classes F = Done cls ->
  (forall v, In (Grounded v) cls -> forall S, co F S -> incl v S) /\
  (forall v, In (GroundedDefeated v) cls -> forall S d, co F S -> In d v -> ~ In d S).
Proof. exact EquivProofs.classes_grounded. Qed.

(* the "in particular" clause: for the grounded extension G (gr F G), every Grounded class is exactly
   G, every GroundedDefeated class is exactly the set of arguments attacked by G, and no other class
   contains an argument of G or an argument attacked by G.  Together with the partition: all
   arguments of G sit in one class, all arguments it defeats sit in one class. *)
Theorem C19_grounded_exact : forall F n cls, compact_af F n -> compute_classes F = Done cls ->
  forall G, gr F G ->
  forall c, In c cls ->
    match c with
    | Grounded v => forall x, In x v <-> In x G
    | GroundedDefeated v => forall d, In d v <-> exists g, In g G /\ att F g d
    | NotGrounded v => forall x, In x v -> ~ In x G /\ ~ exists g, In g G /\ att F g x
    end.
Proof. exact EquivProofs.grounded_exact_classes. Qed.

(* (d) the two maps: init_to_reduced is total on 0..n-1 and lands on the class of its argument,
   reduced_to_init r is the r-th class, and every member of the r-th class is mapped to r
   (hence the class of an argument is unique) *)
Theorem C19_maps : forall F n cls, compact_af F n -> compute_classes F = Done cls ->
  (forall a, a < n -> init_to_reduced F cls a < length cls /\
                      In a (reduced_to_init cls (init_to_reduced F cls a))) /\
  (forall r c, nth_error cls r = Some c -> reduced_to_init cls r = members c) /\
  (forall r b, r < length cls -> In b (reduced_to_init cls r) -> init_to_reduced F cls b = r).
Proof. exact EquivProofs.maps_spec. Qed.

(* the structure built by EquivalencyComputer::new holds exactly these classes and this id map *)
Theorem C19_computer_fields : forall lab F e, equivalency_new lab F = Done e ->
  compute_classes F = Done (e_classes e) /\
  e_i2r e = init_to_reduced_ids (length (args F)) (e_classes e) /\
  forall r, reduced_arg_to_init_args e r = option_map members (nth_error (e_classes e) r).
Proof. exact EquivProofs.computer_fields. Qed.

(* the hypotheses are satisfiable and the classes are not trivial: the 4-ring of the unit tests *)
Example C19_example :
  compact_af (compact 4 [(0,1);(1,2);(2,3);(3,0)]) 4 /\
  compute_classes (compact 4 [(0,1);(1,2);(2,3);(3,0)]) = Done [NotGrounded [0;2]; NotGrounded [1;3]].
Proof.
  split; [split; [reflexivity|]|vm_compute; reflexivity].
  intros a b H. cbn in H. repeat (destruct H as [H|H]; [inversion H; subst; split; repeat constructor|]).
  destruct H.
Qed.

Print Assumptions C19_propagate_sound.
Print Assumptions C19_propagate_conflict.
Print Assumptions C19_propagate_total.
Print Assumptions C19_classes_total.
Print Assumptions C19_classes_partition.
Print Assumptions C19_same_complete_extensions.
Print Assumptions C19_grounded_classes.
Print Assumptions C19_grounded_exact.
Print Assumptions C19_maps.
Print Assumptions C19_computer_fields.
