(* C19 - arguments merged by the equivalence reduction are indistinguishable, and the content of
   the reduced framework.
   Statements only; every proof is [exact] of a lemma of Proofs/EquivBase.v / Proofs/EquivProofs.v /
   Proofs/EquivReduce.v.
   The model is Model/Equiv.v (src/utils/equivalency_computer.rs); [compact_af F n] says that F has
   the arguments 0..n-1 and that every attack joins two of them (duplicates and self-attacks
   allowed), which is what the readers produce.
   The theorems C19_reduced_* are about [reduce_af] / [EquivalencyComputer::new] /
   [init_to_reduced_arg]: the reduced framework is a store of Model/Store.v (the model of
   AAFramework of C12); [lab i] is the label of the initial argument with id i, any function that
   is injective on 0..n-1 (labels of a framework are distinct; the driver uses [S], the ICCMA
   numbering).  What the Rust code builds, and what is stated:
   - one reduced argument per class, in class order, id = class index, label = label of the FIRST
     member of the class ([EqClass::first] is [v[0]]);
   - for every attack (a, b) of the initial framework, in iteration order, whose attacker a is NOT
     in the GroundedDefeated class: the attack (class of a, class of b), added through [new_attack]
     (which ignores an attack that is already there); attacks FROM the GroundedDefeated class are
     dropped, attacks TO it are kept;
   - no [unwrap] / [v[0]] / index of [reduce_af] and [init_to_reduced_arg] panics. *)
From Coq Require Import List Permutation.
From Crusta Require Import Spec.AF Model.Store Model.Equiv Proofs.EncSpec Proofs.EquivBase
  Proofs.EquivProofs Proofs.EquivReduce.
From Crusta Require Proofs.Clauses2.
Import ListNotations.

(* (a) soundness of the propagation, for ANY seed list *)
Theorem C19_propagate_sound : forall F n seeds P D, compact_af F n ->
  propagate F (n_attacks_to F) seeds = Done (Some (P, D)) ->
  forall S, co F S -> incl seeds S -> incl P S /\ forall d, In d D -> ~ In d S.
Proof. exact EquivBase.propagate_sound. Qed.

Theorem C19_propagate_conflict : forall F n seeds, compact_af F n ->
  propagate F (n_attacks_to F) seeds = Done None ->
  ~ exists S, co F S /\ incl seeds S.
Proof. exact EquivBase.propagate_conflict. Qed.

(* the propagation neither panics (no counter underflows) nor runs out of fuel *)
Theorem C19_propagate_total : forall F n seeds, compact_af F n ->
  exists r, propagate F (n_attacks_to F) seeds = Done r.
Proof. exact EquivBase.propagate_total. Qed.

(* the class computation always returns (no panic, fuel sufficient) *)
Theorem C19_classes_total : forall F n, compact_af F n ->
  exists cls, compute_classes F = Done cls.
Proof. exact EquivProofs.compute_classes_total. Qed.

(* (b) the classes partition 0..n-1: listing the members of all classes gives every argument
   exactly once; no class is empty *)
Theorem C19_classes_partition : forall F n cls, compact_af F n -> compute_classes F = Done cls ->
  Permutation (concat (map members cls)) (seq 0 n) /\ forall c, In c cls -> members c <> [].
Proof. exact EquivProofs.classes_partition. Qed.

(* (c) two members of one class belong to exactly the same complete extensions *)
Theorem C19_same_complete_extensions : forall F n cls, compact_af F n ->
  compute_classes F = Done cls ->
  forall c a b, In c cls -> In a (members c) -> In b (members c) ->
  forall S, co F S -> (In a S <-> In b S).
Proof. exact EquivProofs.classes_same. Qed.

(* the Grounded class is inside every complete extension, the GroundedDefeated class is disjoint
   from every complete extension *)
Theorem C19_grounded_classes : forall F n cls, compact_af F n -> compute_classes F = Done cls ->
  (forall v, In (Grounded v) cls -> forall S, co F S -> incl v S) /\
  (forall v, In (GroundedDefeated v) cls -> forall S d, co F S -> In d v -> ~ In d S).
Proof. exact EquivProofs.classes_grounded. Qed.

(* the "in particular" clause: for the grounded extension G (gr F G), every Grounded class is exactly
   G, every GroundedDefeated class is exactly the set of arguments attacked by G, and no other class
   contains an argument of G or an argument attacked by G.  Together with the partition: all
   arguments of G sit in one class, all arguments it defeats sit in one class. *)
Theorem C19_grounded_exact : forall F n cls, compact_af F n -> compute_classes F = Done cls ->
  forall G, gr F G ->
  forall c, In c cls ->
    match c with
    | Grounded v => forall x, In x v <-> In x G
    | GroundedDefeated v => forall d, In d v <-> exists g, In g G /\ att F g d
    | NotGrounded v => forall x, In x v -> ~ In x G /\ ~ exists g, In g G /\ att F g x
    end.
Proof. exact EquivProofs.grounded_exact_classes. Qed.

(* (d) the two maps: init_to_reduced is total on 0..n-1 and lands on the class of its argument,
   reduced_to_init r is the r-th class, and every member of the r-th class is mapped to r
   (hence the class of an argument is unique) *)
Theorem C19_maps : forall F n cls, compact_af F n -> compute_classes F = Done cls ->
  (forall a, a < n -> init_to_reduced F cls a < length cls /\
                      In a (reduced_to_init cls (init_to_reduced F cls a))) /\
  (forall r c, nth_error cls r = Some c -> reduced_to_init cls r = members c) /\
  (forall r b, r < length cls -> In b (reduced_to_init cls r) -> init_to_reduced F cls b = r).
Proof. exact EquivProofs.maps_spec. Qed.

(* the structure built by EquivalencyComputer::new holds exactly these classes and this id map *)
Theorem C19_computer_fields : forall lab F e, equivalency_new lab F = Done e ->
  compute_classes F = Done (e_classes e) /\
  e_i2r e = init_to_reduced_ids (length (args F)) (e_classes e) /\
  forall r, reduced_arg_to_init_args e r = option_map members (nth_error (e_classes e) r).
Proof. exact EquivProofs.computer_fields. Qed.

(* reduce_af never panics on the classes of a compact framework (no class is empty, so [v[0]] is
   safe; the labels given to [new_attack] are labels of the reduced framework, so its [unwrap] is
   safe), and the id map it returns is the one characterised by C19_maps *)
Theorem C19_reduced_total : forall lab F n cls, compact_af F n ->
  (forall a b, a < n -> b < n -> lab a = lab b -> a = b) ->
  compute_classes F = Done cls ->
  exists f, reduce_af lab F cls = Done (f, init_to_reduced_ids (length (args F)) cls).
Proof. exact EquivReduce.reduce_total. Qed.

(* hence EquivalencyComputer::new never panics on a compact framework *)
Theorem C19_reduced_new_total : forall lab F n, compact_af F n ->
  (forall a b, a < n -> b < n -> lab a = lab b -> a = b) ->
  exists e, equivalency_new lab F = Done e.
Proof. exact EquivReduce.equivalency_new_total. Qed.

(* the arguments of the reduced framework: [fs] lists the first member of every class, in class
   order; the reduced arguments are, in id order, (0, lab fs_0), (1, lab fs_1), ...: one per class,
   id = class index.  The reduced store is moreover reachable from [new_with_labels] by update
   operations, so that every theorem of C12 applies to it. *)
Theorem C19_reduced_args : forall lab F n cls f i2r, compact_af F n ->
  (forall a b, a < n -> b < n -> lab a = lab b -> a = b) ->
  compute_classes F = Done cls -> reduce_af lab F cls = Done (f, i2r) ->
  exists fs, Forall2 (fun c a => hd_error (members c) = Some a) cls fs /\
    iter_args nat f = combine (seq 0 (length cls)) (map lab fs) /\
    n_arguments nat f = length cls /\
    exists os, f = run_ops nat Nat.eqb (fw_new_with_labels nat Nat.eqb (map lab fs)) os.
Proof. exact EquivReduce.reduced_args. Qed.

(* the attacks of the reduced framework, exactly (with their order): [reduced_atts F cls] folds
   [red_step] over the attacks of F in iteration order; [red_step] maps an attack (a, b) to
   (class index of a, class index of b), drops it when the class of a is GroundedDefeated or when
   the pair is already in the list, and appends it otherwise *)
Theorem C19_reduced_attacks_exact : forall lab F n cls f i2r, compact_af F n ->
  (forall a b, a < n -> b < n -> lab a = lab b -> a = b) ->
  compute_classes F = Done cls -> reduce_af lab F cls = Done (f, i2r) ->
  iter_attacks nat f = reduced_atts F cls.
Proof. exact EquivReduce.reduced_attacks_exact. Qed.

(* ... and as a set: no attack is listed twice, and (r1, r2) is an attack of the reduced framework
   iff class r1 is not the GroundedDefeated class and some member of class r1 attacks some member
   of class r2 in F *)
Theorem C19_reduced_attacks : forall lab F n cls f i2r, compact_af F n ->
  (forall a b, a < n -> b < n -> lab a = lab b -> a = b) ->
  compute_classes F = Done cls -> reduce_af lab F cls = Done (f, i2r) ->
  NoDup (iter_attacks nat f) /\
  forall r1 r2, In (r1, r2) (iter_attacks nat f) <->
    exists c1 c2 a b, nth_error cls r1 = Some c1 /\ nth_error cls r2 = Some c2 /\
      is_defeated_class c1 = false /\ In a (members c1) /\ In b (members c2) /\ att F a b.
Proof. exact EquivReduce.reduced_attacks. Qed.

(* init_to_reduced_arg never panics on an argument of F and agrees with the id-level map of
   C19_maps: for the argument with id a it returns the reduced argument whose id is the index of the
   class c of a and whose label is the label of the first member of c *)
Theorem C19_reduced_init_to_reduced_arg : forall lab F n e, compact_af F n ->
  (forall a b, a < n -> b < n -> lab a = lab b -> a = b) ->
  equivalency_new lab F = Done e ->
  forall a, a < n ->
    exists c a0, nth_error (e_classes e) (init_to_reduced F (e_classes e) a) = Some c /\
      In a (members c) /\ hd_error (members c) = Some a0 /\
      init_to_reduced_arg F e a = Some (init_to_reduced F (e_classes e) a, lab a0).
Proof. exact EquivReduce.init_to_reduced_arg_spec. Qed.

(* the hypotheses are satisfiable and the classes are not trivial: the 4-ring of the unit tests *)
Example C19_example :
  compact_af (compact 4 [(0,1);(1,2);(2,3);(3,0)]) 4 /\
  compute_classes (compact 4 [(0,1);(1,2);(2,3);(3,0)]) = Done [NotGrounded [0;2]; NotGrounded [1;3]].
Proof.
  split; [split; [reflexivity|]|vm_compute; reflexivity].
  intros a b H. cbn in H. repeat (destruct H as [H|H]; [inversion H; subst; split; repeat constructor|]).
  destruct H.
Qed.

(* the reduced framework of the 4-ring (labels 1..4): two arguments 0 and 1 labelled 1 and 2 (the
   labels of the initial arguments 0 and 1), attacking each other *)
Example C19_reduced_example :
  match equivalency_new S (compact 4 [(0,1);(1,2);(2,3);(3,0)]) with
  | Done e =>
      iter_args nat (e_reduced e) = [(0,1);(1,2)] /\
      iter_attacks nat (e_reduced e) = [(0,1);(1,0)] /\
      e_i2r e = [0;1;0;1] /\
      map (init_to_reduced_arg (compact 4 [(0,1);(1,2);(2,3);(3,0)]) e) [0;1;2;3] =
        [Some (0,1); Some (1,2); Some (0,1); Some (1,2)]
  | _ => False
  end.
Proof. vm_compute. repeat split. Qed.

(* a grounded part: 0 -> 1 -> 2 plus the ring 2 -> 3 -> 4 -> 2: the attack from the
   GroundedDefeated class {1} to 2 is dropped, the attack to it is kept *)
Example C19_reduced_example_grounded :
  match equivalency_new S (compact 5 [(0,1);(1,2);(2,3);(3,4);(4,2)]) with
  | Done e =>
      e_classes e = [Grounded [0]; GroundedDefeated [1]; NotGrounded [2]; NotGrounded [3]; NotGrounded [4]] /\
      iter_attacks nat (e_reduced e) = [(0,1);(2,3);(3,4);(4,2)]
  | _ => False
  end.
Proof. vm_compute. repeat split. Qed.

(* "in particular all arguments of the grounded extension together, and all arguments it defeats
   together", as a statement about the map: any two arguments of the grounded extension G are sent to
   the same reduced argument, and so are any two arguments attacked by G *)
Theorem C19_grounded_merged_together : forall F n cls G, compact_af F n -> compute_classes F = Done cls ->
  gr F G ->
  (forall x y, In x G -> In y G -> init_to_reduced F cls x = init_to_reduced F cls y) /\
  (forall x y, (exists g, In g G /\ att F g x) -> (exists g, In g G /\ att F g y) ->
               init_to_reduced F cls x = init_to_reduced F cls y).
Proof. exact Clauses2.grounded_merged. Qed.

(* "its two mappings are total and inverse to each other at the level of classes": init_to_reduced is
   total on the arguments 0..n-1 (it lands on a reduced argument), reduced_to_init is total on the
   reduced arguments (a non-empty set of arguments), and a is sent to r iff a belongs to the set of r *)
Theorem C19_maps_total_and_inverse : forall F n cls, compact_af F n -> compute_classes F = Done cls ->
  (forall a, a < n -> init_to_reduced F cls a < length cls) /\
  (forall r, r < length cls -> reduced_to_init cls r <> [] /\ forall b, In b (reduced_to_init cls r) -> b < n) /\
  (forall a r, a < n -> r < length cls -> (init_to_reduced F cls a = r <-> In a (reduced_to_init cls r))).
Proof. exact Clauses2.maps_inverse. Qed.

Print Assumptions C19_propagate_sound.
Print Assumptions C19_propagate_conflict.
Print Assumptions C19_propagate_total.
Print Assumptions C19_classes_total.
Print Assumptions C19_classes_partition.
Print Assumptions C19_same_complete_extensions.
Print Assumptions C19_grounded_classes.
Print Assumptions C19_grounded_exact.
Print Assumptions C19_maps.
Print Assumptions C19_computer_fields.
Print Assumptions C19_reduced_total.
Print Assumptions C19_reduced_new_total.
Print Assumptions C19_reduced_args.
Print Assumptions C19_reduced_attacks_exact.
Print Assumptions C19_reduced_attacks.
Print Assumptions C19_reduced_init_to_reduced_arg.
Print Assumptions C19_grounded_merged_together.
Print Assumptions C19_maps_total_and_inverse.
