(* C15 glue - from "the SAT solver objects honour the incremental solving contract" (C15) to the
   hypothesis [valid_oracle] of every solver theorem (C01-C09, C17, C18), and what follows when the
   backend is the VERIFIED reference solver (Sat/Dpll.v; the driver/vdpll binary of the checks is its
   extraction).  Statements only; every proof is [exact] of a lemma of Proofs/OracleGlue.v.

   Vocabulary.
   [valid_oracle oracle] (Proofs/SolverBasics.v): for every call number i, clause list C and assumption
     list a, the answer [oracle i C a] is Sat m with m a (possibly PARTIAL) assignment making a literal of
     every clause of C and every literal of a true, or Unsat and no total valuation does, or Unknown.
   [dpll_oracle i C a]: Unknown when C or a mentions the literal 0 ([cnf_ok] / [clause_ok]: every literal
     is non-zero - crustabri's Literal is a NonZeroIsize), otherwise Sat m / Unsat as [Dpll.solve C a] says.
   Solver objects (Model/SatObjects.v): histories [ops] of OAdd c / OReserve n / OSolve a / ONVars on
     BufferedSatSolver ([buf_step fn], fn = the solving function bytes -> bytes) or on CadicalSolver's
     wrapper ([cad_step bk], bk = CaDiCaL seen as a function: clauses, assumptions, max_variable ->
     BSat value | BUnsat | BUnknown); [clauses_of pre] = the clauses added by the history pre;
     [hist_ok ops]: no literal 0; [contract_ok] / [all_ok]: the contract of C15 (Model/SatSpec.v).
   [obs_valid C a ob]: the observation ob of a solve call is what valid_oracle allows for (C, a).
   [honours step s0 g]: the object (step, s0) satisfies the contract on every well-formed history
     accepted by the guard g.  [obj_oracle step s0 g i C a]: add the clauses of C to a new object, solve
     under a, return the answer (Unknown on ill-formed or rejected input).
   [backend_correct bk]: THE hypothesis on CaDiCaL - validated on every run by checks/C15.py, proved
     for the reference solver (C15_glue_dpll_backend_correct).
   Results.
   (1) dpll_oracle is valid and decided exactly on the queries without literal 0; NO valid oracle is
       decided on all queries (so "valid and never Unknown" cannot be asked of any oracle).
   (2) contract => valid oracle, for every history: per call, and as an induced oracle; both objects.
   (3) every query the model ever puts to the SAT solver is well formed, so with dpll_oracle no run
       aborts; hence the UNCONDITIONAL end-to-end statements: static solvers (every entry point),
       command line (from the bytes of an ICCMA'23 file), the six dynamic solver kinds. *)
From Crusta Require Import Spec.AF Sat.Cnf Sat.Prog Sat.Dpll Model.Store Model.Encoders Model.Graph Model.Solvers
  Model.Dynamic Model.SatObjects Model.SatSpec.
From Crusta Require Import Spec.IoSpec Model.Cli.
From Crusta Require Import Proofs.SolverBasics Proofs.TopBase Proofs.TopMax Proofs.SolverTop Proofs.DynDefs Proofs.DynFunDefs
  Proofs.DynAttDefs Proofs.CliProofs Proofs.CliE2E Proofs.CliE2EFiles Proofs.SolverWholeEx Proofs.OracleGlue.
From Crusta Require Proofs.GroundedProofs Proofs.CompProofs Proofs.DynFun Proofs.DynPref Proofs.DynProofs.
Import ListNotations.

(* ------------------------------------------------------------------ (1) the reference solver as oracle *)
Theorem C15_glue_dpll_oracle_valid : valid_oracle dpll_oracle.
Proof. exact OracleGlue.dpll_oracle_valid. Qed.

Theorem C15_glue_dpll_oracle_decided_iff : forall i C a,
  dpll_oracle i C a = Unknown <-> cnf_ok C && clause_ok a = false.
Proof. exact OracleGlue.dpll_oracle_unknown_iff. Qed.

(* on the clauses [0], [1] every valid oracle must answer Unknown: a valuation reads the literal 0 as
   "not variable 0" (satisfiable together with variable 1), an assignment reads it through slot 0, which
   is variable 1's (unsatisfiable together with 1); neither Sat nor Unsat is valid *)
Theorem C15_glue_no_total_valid_oracle : forall oracle, valid_oracle oracle ->
  forall i, oracle i [[0%Z]; [1%Z]] [] = Unknown.
Proof. exact OracleGlue.no_valid_oracle_is_total. Qed.

(* ------------------------------------------------------------------ (2) contract => valid oracle *)
(* one solve call: the contract of C15 for the call gives what valid_oracle demands, for the clauses
   added so far in the session and the assumptions of the call.  The model may be partial and padded
   with None for reserved-only variables: nothing about totality is needed *)
Theorem C15_glue_contract_gives_valid_answer : forall done a ob,
  hist_ok done = true -> clause_ok a = true -> contract_ok done (OSolve a) ob ->
  match ob with
  | ObsAns (Sat m) => models m (clauses_of done) = true /\ forallb (lit_true m) a = true
  | ObsAns Unsat => forall v : val, vmodels v (clauses_of done) = true -> forallb (vtrue v) a = true -> False
  | ObsAns Unknown => True
  | _ => False
  end.
Proof. exact OracleGlue.contract_obs_valid. Qed.

(* every solve call of every history of an object that honours the contract *)
Theorem C15_glue_each_call_valid : forall St (step : St -> sop -> St * sobs) s0 g,
  honours St step s0 g -> forall pre a post,
  hist_ok (pre ++ OSolve a :: post) = true -> g (pre ++ OSolve a :: post) = true ->
  exists ob, nth_error (snd (run_obj step s0 (pre ++ OSolve a :: post))) (length pre) = Some ob /\
             obs_valid (clauses_of pre) a ob.
Proof. exact OracleGlue.honours_each_call. Qed.

(* ... and the oracle it induces is a valid oracle *)
Theorem C15_glue_induced_oracle_valid : forall St (step : St -> sop -> St * sobs) s0 g,
  honours St step s0 g -> valid_oracle (obj_oracle St step s0 g).
Proof. exact OracleGlue.honours_valid_oracle. Qed.

(* (a) BufferedSatSolver / ExternalSatSolver over ANY correct solving function (guard: the variable
   count fits an isize), in particular over vdpll *)
Theorem C15_glue_buffered : forall fn, solver_correct fn ->
  honours _ (buf_step fn) buf_new small_b /\ valid_oracle (buffered_oracle fn).
Proof. exact (fun fn H => conj (OracleGlue.buffered_honours fn H) (OracleGlue.buffered_oracle_valid fn H)). Qed.
Theorem C15_glue_vdpll : valid_oracle (buffered_oracle vdpll_fn).
Proof. exact OracleGlue.vdpll_oracle_valid. Qed.

(* (b) CadicalSolver's wrapper over a correct backend.  [backend_correct bk]: asked about well-formed
   clauses f and assumptions a with max_variable() = mv >= every variable occurring, a SAT verdict comes
   with values value(1..mv) that, read as a partial assignment, satisfy f and a; an UNSAT verdict only
   if no assignment does.  (Were value(i) "unassigned" for a variable a clause depends on, this
   would fail: that corner is inside the hypothesis; the padding of the wrapper is harmless.) *)
Theorem C15_glue_backend_correct_spelled : forall bk,
  backend_correct bk <->
  forall f a mv, cnf_ok (f ++ units a) = true -> cnf_max (f ++ units a) <= mv ->
  match bk f a mv with
  | BSat value => models (map value (seq 1 mv)) (f ++ units a) = true
  | BUnsat => forall m, models m (f ++ units a) = false
  | BUnknown => True
  end.
Proof. exact (fun bk => conj (fun H => H) (fun H => H)). Qed.
Theorem C15_glue_cadical : forall bk, backend_correct bk ->
  honours _ (cad_step bk) cad_new (fun _ => true) /\ valid_oracle (cadical_oracle bk).
Proof. exact (fun bk H => conj (OracleGlue.cadical_honours bk H) (OracleGlue.cadical_oracle_valid bk H)). Qed.
Theorem C15_glue_dpll_backend_correct : backend_correct dpll_backend.
Proof. exact OracleGlue.dpll_backend_correct. Qed.

(* ------------------------------------------------------------------ (3) nothing aborts; end to end *)
(* every query of the model is well formed: from a program state whose session holds no literal 0,
   a run with dpll_oracle never ends in Abort and leaves such a state - static solvers on a good view
   ([allgood], [mgood]: the components are compact, which a good view provides), every dynamic solver
   state whose tables hold positive variables ([spos]; holds in every reachable state) *)
Theorem C15_glue_static_never_aborts : forall thr g fuel s q cert e al ps,
  1 <= thr -> allgood g -> (uses_merged s q cert = true -> mgood g al) ->
  cnf_ok (rclauses (sess ps)) = true ->
  match run_query dpll_oracle thr fuel s q cert e g al ps with
  | Done _ ps' => cnf_ok (rclauses (sess ps')) = true
  | Abort _ => False
  | _ => True
  end.
Proof.
  exact (fun thr g fuel s q cert e al ps Ht Ha Hm H0 =>
           match run_query dpll_oracle thr fuel s q cert e g al ps as r
                 return (match r with Done a s' => Iok s' /\ True | Abort _ => False | _ => True end) ->
                        match r with Done _ ps' => cnf_ok (rclauses (sess ps')) = true | Abort _ => False | _ => True end
           with Done _ _ => fun H => proj1 H | _ => fun H => H end
           (OracleGlue.nab_run_query thr Ht g fuel s q cert e al Ha Hm ps H0)).
Qed.

(* (a) static: on a good view of F, any supported entry point, admissible encoder, listed arguments of
   F, fuel covering the proved per-component bound: the run RETURNS an outcome that is right
   ([outcome_spec]: C01-C04, C07) within the call bound of C18 - no oracle hypothesis left *)
Theorem C15_glue_static_correct : forall thr d g F fuel s q cert e al,
  1 <= thr -> view_good g F -> supported s q -> enc_ok s e -> al_ok s q F al ->
  fuel_ok s e (query_comps s q cert g al) fuel ->
  exists o st', Prog.run d (run_query dpll_oracle thr fuel s q cert e g al) = Done o st' /\
                outcome_spec s q cert F al o /\ calls st' <= total_bound s e (query_comps s q cert g al).
Proof. exact OracleGlue.static_unconditional_run. Qed.

(* (b) command line: a validated invocation exits 0 with the rendering of a right answer ([answer_ok]:
   spelled out in C05_answer_ok_spelled), and no SAT answer was Unknown ... *)
Theorem C15_glue_command_line_correct : forall thr d fuel o inst i q s al F,
  1 <= thr -> view_good (i_g i) F -> (forall a, In a al -> In a (args F)) ->
  validate o inst = inr (i, q, s, al) ->
  fuel_ok (solver_for q s) (encoder_for (o_problem o) s (o_encoding o))
          (query_comps (solver_for q s) q (o_cert o) (i_g i) al) fuel ->
  exists out log, run_traced dpll_oracle thr d fuel o inst = (Exit0 out, log) /\
    (exists oc, out = render (writer_of (o_reader o)) (i_label i) oc /\ answer_ok q s (o_cert o) F al oc) /\
    (forall k a, ~ In (k, ESolve a Unknown) log).
Proof. exact OracleGlue.cli_unconditional. Qed.

(* ... in particular from the BYTES of any well-formed ICCMA'23 file (C13 / C05 vocabulary) *)
Theorem C15_glue_iccma_file_correct : forall thr d fuel o f eols fnl i q s al,
  1 <= thr -> iccma_file_ok f -> final_ok (iccma_file_lines f) fnl -> o_reader o = RIccma23 ->
  let bytes := render_lines (iccma_file_lines f) eols fnl in
  let F := compact (f_n f) (file_attacks f) in
  validate o (iccma_input bytes) = inr (i, q, s, al) ->
  fuel_ok (solver_for q s) (encoder_for (o_problem o) s (o_encoding o))
          (query_comps (solver_for q s) q (o_cert o) (i_g i) al) fuel ->
  exists out log, run_traced dpll_oracle thr d fuel o (iccma_input bytes) = (Exit0 out, log) /\
    (exists oc, out = render WIccma (i_label i) oc /\ answer_ok q s (o_cert o) F al oc) /\
    (forall k a, ~ In (k, ESolve a Unknown) log).
Proof. exact OracleGlue.cli_iccma_file_unconditional. Qed.

(* (c) the dynamic solvers, after ANY history (redundant and invalid updates, earlier queries, cache). *)
Section Dynamic.
Variable L : Type.
Variable leqb : L -> L -> bool.
Hypothesis leqb_spec : forall x y, leqb x y = true <-> x = y.
Notation fresh := (fresh_fw L leqb).
Notation run_ops := (run_ops L leqb).

(* every state of a dynamic solver whose tables hold positive variables (every reachable one does) *)
Theorem C15_glue_dynamic_never_aborts : forall thr fuel (s : dsolver L) q cert l ps,
  spos L s ->
  (forall sm, s_kind L s = KDummy sm ->
     1 <= thr /\ allgood (view_of_fw (s_af L s)) /\
     forall id, get_argument L leqb (s_af L s) l = Some id -> mgood (view_of_fw (s_af L s)) [id]) ->
  cnf_ok (rclauses (sess ps)) = true ->
  match dyn_query dpll_oracle L leqb thr fuel s q cert l ps with
  | Done (s', _) ps' => cnf_ok (rclauses (sess ps')) = true /\ spos L s'
  | Abort _ => False
  | _ => True
  end.
Proof.
  exact (fun thr fuel s q cert l ps Hs Hd H0 =>
           match dyn_query dpll_oracle L leqb thr fuel s q cert l ps as r
                 return (match r with Done a s' => Iok s' /\ spos L (fst a) | Abort _ => False | _ => True end) ->
                        match r with Done (s', _) ps' => cnf_ok (rclauses (sess ps')) = true /\ spos L s' | Abort _ => False | _ => True end
           with Done (_, _) _ => fun H => H | _ => fun H => H end
           (OracleGlue.nab_dyn_query L leqb thr fuel s q cert l Hs Hd ps H0)).
Qed.

(* complete (DC) and stable (DC, DS) solver, standard encoder ([vreach]: Proofs/DynFunDefs.v, C08.v) *)
Theorem C15_glue_dynamic_complete_stable : forall thr k s ps os fuel q cert l id,
  vreach L leqb dpll_oracle thr k s ps os ->
  (k = KCo /\ q = QDC) \/ (k = KSt /\ (q = QDC \/ q = QDS)) ->
  get_argument L leqb (run_ops fresh os) l = Some id ->
  exists s' b c ps', dyn_query dpll_oracle L leqb thr fuel s q cert l ps = Done (s', (b, c)) ps' /\
    let F := CompProofs.af_of (run_ops fresh os) in
    let sm := match k with KSt => ST | _ => CO end in
    let pol := match q with QDC => true | _ => false end in
    (b = true <-> if pol then cred sm F [id] else skep sm F [id]) /\
    match c with
    | Some X => cert = true /\ b = pol /\ ext sm F X /\ NoDup X /\ incl X (args F) /\
                (if pol then In id X else ~ In id X)
    | None => cert = true -> b = negb pol
    end.
Proof. exact (OracleGlue.std_unconditional L leqb leqb_spec). Qed.

(* preferred solver (DS), fuel at least (complete extensions) + (preferred extensions) + 1 *)
Theorem C15_glue_dynamic_preferred : forall thr s ps os fuel cert l id,
  vreach L leqb dpll_oracle thr KPr s ps os ->
  get_argument L leqb (run_ops fresh os) l = Some id ->
  length (all_exts CO (CompProofs.af_of (run_ops fresh os))) +
  length (all_exts PR (CompProofs.af_of (run_ops fresh os))) + 1 <= fuel ->
  exists s' b c ps', dyn_query dpll_oracle L leqb thr fuel s QDS cert l ps = Done (s', (b, c)) ps' /\
    let F := CompProofs.af_of (run_ops fresh os) in
    (b = true <-> skep PR F [id]) /\
    match c with
    | Some X => cert = true /\ b = false /\ pr F X /\ NoDup X /\ incl X (args F) /\ ~ In id X
    | None => cert = true -> b = true
    end.
Proof. exact (OracleGlue.pr_unconditional L leqb leqb_spec). Qed.

(* the two solvers with assumptions on attacks ([areach], [factor_ok], ...: Properties/C08att.v) *)
Theorem C15_glue_dynamic_attacks : forall k s ps os thr fuel q cert l id,
  areach L leqb dpll_oracle k s ps os -> att_kind k -> factor_ok k -> att_supported k q ->
  get_argument L leqb (run_ops fresh os) l = Some id ->
  exists s' b c ps', dyn_query dpll_oracle L leqb thr fuel s q cert l ps = Done (s', (b, c)) ps' /\
    let F := GroundedProofs.af_of L (run_ops fresh os) in
    let sm := kind_spec_sem k in
    ((b = true <-> if query_pol q then cred sm F [id] else skep sm F [id]) /\
     match c with
     | Some X => cert = true /\ b = query_pol q /\ ext sm F X /\ NoDup X /\ incl X (args F) /\
                 (if query_pol q then exists a, In a [id] /\ In a X else forall a, In a [id] -> ~ In a X)
     | None => cert = true -> b = negb (query_pol q)
     end) /\
    areach L leqb dpll_oracle k s' ps' os.
Proof.
  exact (fun k s ps os thr fuel q cert l id Hr Hk Hf Hs Hl =>
           match OracleGlue.att_unconditional L leqb leqb_spec k s ps os thr fuel q cert l id Hr Hk Hf Hs Hl with
           | ex_intro _ s' (ex_intro _ (b, c) (ex_intro _ ps' H)) =>
               ex_intro _ s' (ex_intro _ b (ex_intro _ c (ex_intro _ ps' H)))
           end).
Qed.

(* the recompute wrapper, from any program state whose session holds no literal 0 *)
Theorem C15_glue_dynamic_wrapper : forall sm s os thr fuel q cert l id ps,
  reach L leqb (KDummy sm) s os -> 1 <= thr ->
  q <> QSE -> supported sm q -> enc_ok sm AuxCo ->
  get_argument L leqb (run_ops fresh os) l = Some id ->
  fuel_ok sm AuxCo (query_comps sm q cert (view_of_fw (run_ops fresh os)) [id]) fuel ->
  cnf_ok (rclauses (sess ps)) = true ->
  exists b c ps', dyn_query dpll_oracle L leqb thr fuel s q cert l ps = Done (s, (b, c)) ps' /\
    let F := GroundedProofs.af_of L (run_ops fresh os) in
    ((b = true <-> if qpol q then cred sm F [id] else skep sm F [id]) /\
     match c with
     | Some X => cert = true /\ b = qpol q /\ ext sm F X /\ NoDup X /\ incl X (args F) /\
                 (if qpol q then exists a, In a [id] /\ In a X else forall a, In a [id] -> ~ In a X)
     | None => cert = true -> b = negb (qpol q)
     end) /\
    calls ps' <= calls ps + total_bound sm AuxCo (query_comps sm q cert (view_of_fw (run_ops fresh os)) [id]) /\
    cnf_ok (rclauses (sess ps')) = true.
Proof.
  exact (fun sm s os thr fuel q cert l id ps Hr Ht Hq Hs He Hl Hf H0 =>
           match OracleGlue.dummy_unconditional L leqb leqb_spec sm s os thr fuel q cert l id ps Hr Ht Hq Hs He Hl Hf H0 with
           | ex_intro _ (b, c) (ex_intro _ ps' H) => ex_intro _ b (ex_intro _ c (ex_intro _ ps' H))
           end).
Qed.

End Dynamic.

(* ------------------------------------------------------------------ examples (vm_compute) *)
(* the oracle on three small queries: a model, a refutation, an ill-formed query *)
Example C15_glue_oracle_example :
  dpll_oracle 0 [[1; 2]; [-1]]%Z [2%Z] = Sat [Some false; Some true] /\
  dpll_oracle 7 [[1]; [-1]]%Z [] = Unsat /\
  dpll_oracle 0 [[0]]%Z [] = Unknown.
Proof. vm_compute. repeat split. Qed.

(* the static theorem instantiated and its run: 0 <-> 1, 2 isolated (SolverWholeEx.F3); skeptical
   acceptance of 1 under preferred semantics with certificate: NO, counter-example {0, 2}, 3 calls;
   THROUGH the theorem: the outcome of the run satisfies outcome_spec *)
Example C15_glue_static_example :
  Prog.run CadicalLike (run_query dpll_oracle 1 100 PR QDS true AuxCo g3 [1]) <> Abort (init_st CadicalLike) /\
  exists st', Prog.run CadicalLike (run_query dpll_oracle 1 100 PR QDS true AuxCo g3 [1])
              = Done (OAcc false (Some [0; 2])) st' /\ calls st' = 3.
Proof. split; [vm_compute; discriminate|]. eexists. vm_compute. split; reflexivity. Qed.

(* a dynamic run: the complete solver with assumptions on attacks, factor 2, after +7 +8 7->8 and a
   redundant and an invalid update: DC 7 returns YES with the certificate [0] (ids), DC 8 returns NO *)
Example C15_glue_dynamic_example :
  exists s ps, areach nat Nat.eqb dpll_oracle (KCoAtt 2 1) s ps
                 ((((([] ++ [OpNewArg 7]) ++ [OpNewArg 8]) ++ [OpNewAtt 7 8]) ++ [OpNewArg 7]) ++ [OpRemArg 9]) /\
    (exists s' ps', dyn_query dpll_oracle nat Nat.eqb 1 0 s QDC true 7 ps = Done (s', (true, Some [0])) ps') /\
    (exists s' ps', dyn_query dpll_oracle nat Nat.eqb 1 0 s QDC true 8 ps = Done (s', (false, None)) ps').
Proof.
  eexists. eexists. split.
  - eapply areach_update. eapply areach_update. eapply areach_update. eapply areach_update. eapply areach_update.
    eapply areach_new with (ps0 := init_st CadicalLike). reflexivity.
  - split; eexists; eexists; vm_compute; reflexivity.
Qed.

Print Assumptions C15_glue_dpll_oracle_valid.
Print Assumptions C15_glue_dpll_oracle_decided_iff.
Print Assumptions C15_glue_no_total_valid_oracle.
Print Assumptions C15_glue_contract_gives_valid_answer.
Print Assumptions C15_glue_each_call_valid.
Print Assumptions C15_glue_induced_oracle_valid.
Print Assumptions C15_glue_buffered.
Print Assumptions C15_glue_vdpll.
Print Assumptions C15_glue_backend_correct_spelled.
Print Assumptions C15_glue_cadical.
Print Assumptions C15_glue_dpll_backend_correct.
Print Assumptions C15_glue_static_never_aborts.
Print Assumptions C15_glue_static_correct.
Print Assumptions C15_glue_command_line_correct.
Print Assumptions C15_glue_iccma_file_correct.
Print Assumptions C15_glue_dynamic_never_aborts.
Print Assumptions C15_glue_dynamic_complete_stable.
Print Assumptions C15_glue_dynamic_preferred.
Print Assumptions C15_glue_dynamic_attacks.
Print Assumptions C15_glue_dynamic_wrapper.
