From Crusta Require Import Spec.AF.
