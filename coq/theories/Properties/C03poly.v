(* C03poly - the rules of the POLYNOMIAL ORACLE of the checks, as theorems of Dung's theory.
   Statements only; proofs are [exact] (Proofs/PolyOracle.v; definitions Proofs/PolyOracleDefs.v).

   The checks judge the outcomes of the real solvers on frameworks that are too large for the
   brute-force reference with a polynomial oracle (checks/solvers_common.py [poly_judge], static
   solvers, C01-C07; checks/dyn_common.py [dyn_poly_verdict], dynamic solvers, C08 / C09).  Its
   rules are the classical facts below.  They are proved here for EVERY well-formed framework of
   any size, over the specification layer only (Spec/AF.v, Spec/Theory.v): nothing in this file
   depends on the model of the solvers.

   Vocabulary
     wf F            the arguments of F are listed once and every attack is between arguments of F
                     (holds for every compact framework - [C03_poly_wf_compact] - and for every framework
                     presented by a good view, Proofs/TopBase.v [vg_wf])
     lfp F           the grounded extension G, computed by iterating the characteristic function
                     from the empty set (Spec/Theory.v: [gr_lfp], [gr_unique]: it IS the grounded
                     extension, the only one up to the order of the members)
     att F b a       b attacks a;  "a is defeated by G": exists b, In b (lfp F) /\ att F b a
     co, st, ...     the Prop definitions of the semantics (Spec/AF.v); [ext s] for s : sem
     cred s F A      some extension under s contains a member of the list A   (DC, lists as in the
     skep s F A      every extension under s contains a member of the list A   (DS  multi-argument queries)
     status s q F A  [cred] for q = Cred, [skep] for q = Skep; [statusb]: the brute-force decider
                     ([credb] / [skepb] of Spec/AF.v, correct by SemFacts.credb_cred / skepb_skep)
     some_in_g F A   boolean: some member of A is in G          (python `some_in_g`)
     all_in_d F A    boolean: every member of A is defeated by G (python `all_in_d`)
     g_stableb F     boolean: every argument of F is in G or defeated by G  (python `g_stable`)
     poly_status     the status rule of poly_judge, literally     ([None]: the rule is silent)
     dyn_poly_status the status rule of dyn_poly_verdict, literally
     poly_status_full  both, plus empty lists and DS-CO for lists
     hit F S         the arguments attacked by a member of S  (python `hit`)
     t_membersb, t_cfb, t_admb, t_cob, t_stb, t_grb   the tests of poly_judge on a returned set
     poly_cert_test s  the conjunction of the tests applied to a set returned for semantics s
     prop_ground F   the python computation of (G, D) by unit propagation

   PROVED
     C03_poly_grounded_member_accepted   R1
     C03_poly_defeated_rejected          R2
     C03_poly_grounded_stable_unique     R3
     C03_poly_lists                      R4 (the list forms of R1, R2)
     C03_poly_complete_reading, C03_poly_stable_reading, C03_poly_certificate_tests,
     C03_poly_certificate_sem            R5
     C03_poly_status_sound               the three executable rules agree with the semantics wherever
                                         they decide
     C03_poly_propagation                the unit propagation computes G and D
   The stage semantics is excluded from R1 / R2 / R4 and ST from the credulous half of R1 and the
   skeptical half of R2: the examples at the end show that the statements are FALSE there (and
   the python rules do not use them there).
   NOT proved here: that the python functions are [poly_status] / [dyn_poly_status] /
   [poly_cert_test] (to be compared by running both; the Coq functions are executable). *)
From Crusta Require Import Spec.AF Spec.SemFacts Spec.Theory.
From Crusta Require Import Proofs.PolyOracleDefs Proofs.PolyOracle.
From Coq Require Import List Bool.
Import ListNotations.

(* R1: an argument of the grounded extension belongs to every complete extension, hence to every
   extension of every semantics but the stage one; it is skeptically accepted under all of them
   (for ST: it is in every stable extension, also when there is none) and credulously accepted
   under those that always have an extension *)
Theorem C03_poly_grounded_member_accepted : forall F a, wf F -> In a (lfp F) ->
  (forall S, co F S -> In a S) /\
  (forall s S, s <> STG -> ext s F S -> In a S) /\
  (forall s, s <> STG -> skep s F [a]) /\
  (forall s, s <> STG -> s <> ST -> cred s F [a]).
Proof. exact PolyOracle.poly_grounded_member_accepted. Qed.

(* R2: an argument attacked by a member of the grounded extension belongs to no complete
   extension; it is not credulously accepted under GR, CO, PR, ST, SST, ID and not skeptically
   accepted under those of them that always have an extension *)
Theorem C03_poly_defeated_rejected : forall F a b, wf F -> In b (lfp F) -> att F b a ->
  (forall S, co F S -> ~ In a S) /\
  (forall s S, s <> STG -> ext s F S -> ~ In a S) /\
  (forall s, s <> STG -> ~ cred s F [a]) /\
  (forall s, s <> STG -> s <> ST -> ~ skep s F [a]).
Proof. exact PolyOracle.poly_defeated_rejected. Qed.

(* R3: when every argument is in the grounded extension G or attacked by a member of it, G is the
   only extension (as a set) of EVERY one of the seven semantics; both statuses of every list are
   "some listed argument is in G" *)
Theorem C03_poly_grounded_stable_unique : forall F, wf F ->
  (forall a, In a (args F) -> In a (lfp F) \/ exists b, In b (lfp F) /\ att F b a) ->
  forall s,
  (forall S, ext s F S <-> (forall a, In a S <-> In a (lfp F))) /\
  (forall A, cred s F A <-> exists a, In a A /\ In a (lfp F)) /\
  (forall A, skep s F A <-> exists a, In a A /\ In a (lfp F)).
Proof. exact PolyOracle.poly_grounded_stable_unique. Qed.

(* R4: the list forms *)
Theorem C03_poly_lists : forall F s A, wf F -> s <> STG ->
  ((exists a, In a A /\ In a (lfp F)) -> skep s F A /\ (s <> ST -> cred s F A)) /\
  ((forall a, In a A -> exists b, In b (lfp F) /\ att F b a) ->
   ~ cred s F A /\ (s <> ST -> ~ skep s F A)).
Proof. exact PolyOracle.poly_lists. Qed.

(* R5: the oracle's reading of "complete": members are arguments, no member attacks a member,
   every attacker of a member is attacked by a member, every other argument has an attacker that
   no member attacks *)
Theorem C03_poly_complete_reading : forall F S,
  co F S <->
  incl S (args F) /\
  (forall a b, In a S -> In b S -> ~ att F a b) /\
  (forall a b, In a S -> att F b a -> exists c, In c S /\ att F c b) /\
  (forall a, In a (args F) -> ~ In a S ->
     exists b, att F b a /\ forall c, In c S -> ~ att F c b).
Proof. exact PolyOracle.co_reading. Qed.

(* ... and of "stable": no member attacks a member, every other argument is attacked by a member *)
Theorem C03_poly_stable_reading : forall F S,
  st F S <->
  incl S (args F) /\
  (forall a b, In a S -> In b S -> ~ att F a b) /\
  (forall a, In a (args F) -> ~ In a S -> exists b, In b S /\ att F b a).
Proof. exact PolyOracle.st_reading. Qed.

(* the boolean tests of poly_judge, computed from [hit F S] as the python code does:
     t_cfb   no member of S is in hit              t_admb  the attackers of every member are in hit
     t_cob   no argument outside S has all its attackers in hit
     t_stb   every argument outside S is in hit *)
Theorem C03_poly_certificate_tests : forall F S,
  (t_membersb F S && t_cfb F S = true <-> cfs F S) /\
  (t_membersb F S && t_cfb F S && t_admb F S = true <-> adm F S) /\
  (t_membersb F S && t_cfb F S && t_admb F S && t_cob F S = true <-> co F S) /\
  (t_membersb F S && t_cfb F S && t_stb F S = true <-> st F S).
Proof. exact PolyOracle.poly_certificate_tests. Qed.

(* the tests applied to a set returned for semantics s (conflict-free; admissible unless STG;
   complete for GR, CO, PR, SST, ID; stable for ST; equal to G for GR) are passed by every
   extension under s - a set that fails them is not one - and are exact for CO, ST, GR *)
Theorem C03_poly_certificate_sem : forall s F S, wf F ->
  (ext s F S -> poly_cert_test s F S = true) /\
  (s = CO \/ s = ST \/ s = GR -> poly_cert_test s F S = true -> ext s F S).
Proof. exact PolyOracle.poly_certificate_sem. Qed.

(* the executable rules: whenever one of them decides, the decided status is the status by the
   semantics (brute-force decider, and Prop definition) *)
Theorem C03_poly_status_sound : forall F s q A b, wf F ->
  (poly_status F s q A = Some b -> statusb s q F A = b /\ (b = true <-> status s q F A)) /\
  (poly_status_full F s q A = Some b -> statusb s q F A = b /\ (b = true <-> status s q F A)) /\
  (forall a, dyn_poly_status F s q a = Some b ->
     statusb s q F [a] = b /\ (b = true <-> status s q F [a])).
Proof. exact PolyOracle.poly_status_all_sound. Qed.

(* the two python rules never decide more than the full rule *)
Theorem C03_poly_status_le_full : forall F s q A b,
  poly_status F s q A = Some b -> poly_status_full F s q A = Some b.
Proof. exact PolyOracle.poly_status_le_full. Qed.

(* the unit propagation of the python code (an argument whose attackers are all in D enters G, its
   targets enter D, until nothing changes) computes the grounded extension and what it defeats:
   after length (args F) + 1 sweeps, and at any state reached by sweeps that a further sweep does
   not change *)
Theorem C03_poly_propagation : forall F,
  (forall G D, prop_ground F = (G, D) ->
     (forall a, In a G <-> In a (lfp F)) /\
     (forall a, In a D <-> exists b, In b (lfp F) /\ att F b a)) /\
  (forall k G D, prop_iter F k ([], []) = (G, D) ->
     (forall a, In a (fst (prop_sweep F (G, D))) <-> In a G) ->
     (forall a, In a G <-> In a (lfp F)) /\
     (forall a, In a D <-> exists b, In b (lfp F) /\ att F b a)).
Proof. exact PolyOracle.poly_propagation. Qed.

Theorem C03_poly_wf_compact : forall n l, atts_ok n l -> wf (compact n l).
Proof. exact PolyOracle.wf_compact. Qed.

(* ------------------------------------------------------------------ *)
(* Examples *)

(* the grounded extension is stable: 0 -> 1 -> 2 -> 3 -> 4 <-> 5, 0 -> 5.  G = {0, 2, 4}; the
   premises of R1 (argument 2), R2 (argument 3, attacked by 2) and R3 hold; G is the only extension
   of the seven semantics; the python rule decides every non-empty list and agrees with the
   brute-force reference; the propagation computes G and D *)
Definition ex_gstable : af := compact 6 [(0,1); (1,2); (2,3); (3,4); (0,5); (5,4); (4,5)].

Example C03_poly_example_stable :
  wf ex_gstable /\ lfp ex_gstable = [0; 2; 4] /\ g_stableb ex_gstable = true /\
  (forall a, In a (args ex_gstable) ->
     In a (lfp ex_gstable) \/ exists b, In b (lfp ex_gstable) /\ att ex_gstable b a) /\
  (In 2 (lfp ex_gstable) /\ att ex_gstable 2 3) /\
  map (fun s => all_exts s ex_gstable) [GR; CO; PR; ST; SST; STG; ID] =
    [[[0; 2; 4]]; [[0; 2; 4]]; [[0; 2; 4]]; [[0; 2; 4]]; [[0; 2; 4]]; [[0; 2; 4]]; [[0; 2; 4]]] /\
  forallb (fun s => forallb (fun q => forallb (fun A =>
      match poly_status ex_gstable s q A with
      | Some b => Bool.eqb b (statusb s q ex_gstable A)
      | None => false
      end) [[1]; [4]; [1; 3]; [3; 2]; [5; 0]]) [Cred; Skep]) [GR; CO; PR; ST; SST; STG; ID] = true /\
  prop_ground ex_gstable = ([4; 2; 0], [5; 3; 1; 5]).
Proof.
  split; [apply PolyOracle.wf_compactb; vm_compute; reflexivity|].
  split; [vm_compute; reflexivity|].
  split; [vm_compute; reflexivity|].
  split; [apply PolyOracle.g_stableb_prop; vm_compute; reflexivity|].
  split; [split; [vm_compute; tauto | apply attb_att; vm_compute; reflexivity]|].
  split; [vm_compute; reflexivity|].
  split; vm_compute; reflexivity.
Qed.

(* the rules are silent where they must be: 0 -> 1 -> 2, 3 <-> 4, 4 -> 5 -> 5 (Spec/Theory.v ex_af).
   G = {0, 2} is not stable; 0 is in G (R1), 1 is defeated by G (R2); 3, 4, 5 are neither and the
   rule answers None for them - rightly: under PR, 3 is credulously accepted and 5 is not; a
   list with a member in G is decided whatever its other members; the tests on returned sets *)
Example C03_poly_example_silent :
  wf ex_af /\ lfp ex_af = [0; 2] /\ g_stableb ex_af = false /\
  In 0 (lfp ex_af) /\ (In 0 (lfp ex_af) /\ att ex_af 0 1) /\
  map (fun a => (some_in_g ex_af [a], all_in_d ex_af [a])) [3; 4; 5] =
    [(false, false); (false, false); (false, false)] /\
  map (fun a => (poly_status ex_af PR Cred [a], statusb PR Cred ex_af [a])) [0; 1; 3; 5] =
    [(Some true, true); (Some false, false); (None, true); (None, false)] /\
  map (fun a => (poly_status ex_af ST Cred [a], poly_status ex_af ST Skep [a])) [0; 1; 3] =
    [(None, Some true); (Some false, None); (None, None)] /\
  poly_status ex_af SST Skep [3; 2] = Some true /\ poly_status ex_af ID Cred [1; 3] = None /\
  poly_status ex_af STG Skep [0] = None /\
  map (fun S => (poly_cert_test CO ex_af S, poly_cert_test ST ex_af S, poly_cert_test STG ex_af S))
      [[0; 2]; [0; 2; 4]; [0]; [0; 1]] =
    [(true, false, true); (true, true, true); (false, false, true); (false, false, false)] /\
  prop_ground ex_af = ([2; 0], [1]).
Proof.
  split; [exact ex_af_wf|].
  split; [vm_compute; reflexivity|].
  split; [vm_compute; reflexivity|].
  split; [vm_compute; tauto|].
  split; [split; [vm_compute; tauto | apply attb_att; vm_compute; reflexivity]|].
  do 7 (split; [vm_compute; reflexivity|]). vm_compute; reflexivity.
Qed.

(* the exclusions are necessary: 0 -> 1 -> 2 -> 2.  G = {0}, 1 is defeated by G, there is no stable
   extension.  {1} is a stage extension: it omits the member 0 of G and contains the defeated 1
   (R1, R2 are false of STG); 0 is not credulously accepted under ST and 1 is skeptically accepted
   under ST (no stable extension: the credulous half of R1 and the skeptical half of R2 are false
   of ST).  The rules are silent exactly there. *)
Definition ex_stage : af := compact 3 [(0,1); (1,2); (2,2)].

Example C03_poly_example_exclusions :
  wf ex_stage /\ lfp ex_stage = [0] /\ att ex_stage 0 1 /\
  stg ex_stage [1] /\ (forall S, ~ st ex_stage S) /\
  ~ cred ST ex_stage [0] /\ skep ST ex_stage [1] /\
  poly_status_full ex_stage STG Cred [0] = None /\ poly_status_full ex_stage STG Skep [1] = None /\
  poly_status_full ex_stage ST Cred [0] = None /\ poly_status_full ex_stage ST Skep [1] = None /\
  poly_status_full ex_stage ST Skep [0] = Some true /\ poly_status_full ex_stage ST Cred [1] = Some false.
Proof.
  assert (Hn : forall S, ~ st ex_stage S).
  { intros S H. assert (E : all_exts ST ex_stage = []) by (vm_compute; reflexivity).
    destruct (all_exts_complete ST _ S H) as [T [HT _]]. rewrite E in HT. exact HT. }
  split; [apply PolyOracle.wf_compactb; vm_compute; reflexivity|].
  split; [vm_compute; reflexivity|].
  split; [apply attb_att; vm_compute; reflexivity|].
  split; [apply stgb_stg; vm_compute; reflexivity|].
  split; [exact Hn|].
  split; [apply st_none_not_cred; exact Hn|].
  split; [apply st_none_skep; exact Hn|].
  do 5 (split; [vm_compute; reflexivity|]). vm_compute; reflexivity.
Qed.

Print Assumptions C03_poly_grounded_member_accepted.
Print Assumptions C03_poly_defeated_rejected.
Print Assumptions C03_poly_grounded_stable_unique.
Print Assumptions C03_poly_lists.
Print Assumptions C03_poly_complete_reading.
Print Assumptions C03_poly_stable_reading.
Print Assumptions C03_poly_certificate_tests.
Print Assumptions C03_poly_certificate_sem.
Print Assumptions C03_poly_status_sound.
Print Assumptions C03_poly_status_le_full.
Print Assumptions C03_poly_propagation.
Print Assumptions C03_poly_wf_compact.
