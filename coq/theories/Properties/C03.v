(* C03 - skeptical acceptance answers match the semantics.
   Statements only; proofs are [exact].
   PROVED so far (every valid SAT oracle, every compact component of any size):
     - ST: the per-component skeptical step of StableSemanticsSolver: unsatisfiable iff every
       stable extension of the component contains the argument (in particular when there is none).
   NOT YET PROVED in Coq (tied by trace replay + brute-force oracle on every run): component
   gluing, GR / DS-CO (grounded fix-point), the preferred counter-example loop and the SST / STG /
   ID loops. *)
From Crusta Require Import Spec.AF Sat.Cnf Sat.Prog Model.Encoders Model.Graph Model.Solvers.
From Crusta Require Import Proofs.EncSpec Proofs.SolverBasics Proofs.SolverThms.

Theorem C03_stable_component_partial : forall oracle thr, 1 <= thr -> valid_oracle oracle ->
  forall c n a, compact_af (c_af c) n -> a < n ->
  on_done (st_cc oracle thr c [a] false)
    (fun r => match r with
              | Some (m, _) => ~ skep ST (c_af c) [a] /\
                               st (c_af c) (assignment_to_extension n StDefault m) /\
                               ~ In a (assignment_to_extension n StDefault m)
              | None => skep ST (c_af c) [a]
              end).
Proof. exact SolverThms.stable_component_skep_single. Qed.

Print Assumptions C03_stable_component_partial.
