(* C03 - skeptical acceptance answers match the semantics.
   Statements only; proofs are [exact].
   PROVED (every valid SAT oracle, every threshold >= 1, every admissible encoder, every good view
   of a framework of any size, every fuel, both certificate flags, every list of arguments):
     - C03_skeptical: for EVERY solver type with a skeptical entry point (GR - which also serves
       DS-CO in the library -, ST, PR, SST, STG, ID) the status of a completed run of
       [run_query .. QDS ..] is true iff every extension of the WHOLE framework under the
       semantics contains a listed argument (in particular when there is no stable extension);
       the run never panics.  This includes the preferred counter-example loop with its
       shortcut, and the SST / STG / ID loops.
     - C03_stable_component_partial (kept): the per-component step of the stable solver.
   NOT proved in Coq (by design): that the Rust code behaves like Model.Solvers (the tie: trace
   replay on every run).  Termination and fuel: see C18.
   Vocabulary of the whole-framework theorems (Proofs/TopBase.v, TopMax.v, SolverTop.v):
     view_good g F   the view g (iteration orders of an AAFramework) presents the framework F;
                     instances: view_of_af of any compact framework, view_of_fw of any store
                     reachable from new_with_labels by any update history (C01_good_view_compact, C01_good_view_store);
     supported s q   the trait implementation exists (all but CO-SE, CO-DS, PR-DC, for which the
                     library delegates to another solver type and the model has no entry point);
     enc_ok s e      the encoder may be used with the solver type (CO, SST: complete-based; STG:
                     conflict-free based; PR, ID: complete- or admissible-based; GR, ST: any);
     al_ok s q F al  nothing for SE queries and for GR / ST; otherwise the listed ids are arguments
                     of F (the list may be empty and may contain repetitions).
*)
From Crusta Require Import Spec.AF Sat.Cnf Sat.Prog Model.Encoders Model.Graph Model.Solvers.
From Crusta Require Import Proofs.EncSpec Proofs.SolverBasics Proofs.SolverThms.
From Crusta Require Import Proofs.TopBase Proofs.TopMax Proofs.SolverTop.
From Crusta Require Proofs.Clauses.
From Crusta Require Proofs.SolverWholeEx Spec.SemFacts.
From Coq Require Import Lia.
Import ListNotations.

Theorem C03_stable_component_partial : forall oracle thr, 1 <= thr -> valid_oracle oracle ->
  forall c n a, compact_af (c_af c) n -> a < n ->
  on_done (st_cc oracle thr c [a] false)
    (fun r => match r with
              | Some (m, _) => ~ skep ST (c_af c) [a] /\
                               st (c_af c) (assignment_to_extension n StDefault m) /\
                               ~ In a (assignment_to_extension n StDefault m)
              | None => skep ST (c_af c) [a]
              end).
Proof. exact SolverThms.stable_component_skep_single. Qed.

Theorem C03_skeptical : forall oracle thr g F,
  valid_oracle oracle -> 1 <= thr -> view_good g F ->
  forall s e al fuel cert st0, supported s QDS -> enc_ok s e -> al_ok s QDS F al ->
  match run_query oracle thr fuel s QDS cert e g al st0 with
  | Done (OAcc b _) _ => b = true <-> skep s F al
  | Done (OExt _) _ => False
  | Panic _ => False
  | _ => True
  end.
Proof. exact SolverTop.top_skeptical. Qed.

(* ---- the remaining sentences of the property text, one by one (Proofs/Clauses.v) ---- *)

(* "YES exactly when every extension of the framework under that semantics contains the argument,
   and NO otherwise": the one-argument form *)
Theorem C03_skeptical_single : forall oracle thr g F,
  valid_oracle oracle -> 1 <= thr -> view_good g F ->
  forall s e a fuel cert st0 b c t, supported s QDS -> enc_ok s e -> al_ok s QDS F [a] ->
  run_query oracle thr fuel s QDS cert e g [a] st0 = Done (OAcc b c) t ->
  (b = true <-> forall S, ext s F S -> In a S).
Proof. exact Clauses.ds_single. Qed.

(* "when the framework has no stable extension every argument is skeptically accepted under ST" *)
Theorem C03_skeptical_stable_none : forall oracle thr g F,
  valid_oracle oracle -> 1 <= thr -> view_good g F ->
  forall e al fuel cert st0 b c t, (forall S, ~ st F S) ->
  run_query oracle thr fuel ST QDS cert e g al st0 = Done (OAcc b c) t ->
  b = true.
Proof. exact Clauses.ds_stable_none. Qed.

(* "DS-CO coincides with membership in the grounded extension": DS-CO has no solver of its own
   (supported excludes (CO, QDS)): the library answers it with the grounded solver.  The status of a
   completed DS-GR run IS skeptical acceptance under CO, and is membership of a listed argument in
   the grounded extension G *)
Theorem C03_skeptical_complete_via_grounded : forall oracle thr g F,
  valid_oracle oracle -> 1 <= thr -> view_good g F ->
  forall e al fuel cert st0 b c t G, gr F G ->
  run_query oracle thr fuel GR QDS cert e g al st0 = Done (OAcc b c) t ->
  (b = true <-> skep CO F al) /\ (b = true <-> exists a, In a al /\ In a G).
Proof. exact Clauses.ds_complete_via_grounded. Qed.

(* the hypothesis "no stable extension" is satisfiable and the run completes: one self-attacking
   argument, brute-force (valid) oracle *)
Example C03_skeptical_stable_none_example :
  let F := compact 1 [(0, 0)] in
  view_good (view_of_af F) F /\ (forall S, ~ st F S) /\
  exists t, run_query SolverWholeEx.bf_oracle 1 10 ST QDS false AuxCo (view_of_af F) [0]
              (init_st CadicalLike) = Done (OAcc true None) t.
Proof.
  cbv zeta. split.
  { apply (view_good_compact _ 1). split; [reflexivity|]. intros a b [E|[]]. injection E as <- <-. lia. }
  split.
  { intros S H. assert (E : all_exts ST (compact 1 [(0, 0)]) = []) by reflexivity.
    destruct (SemFacts.all_exts_complete ST _ S H) as [T [HT _]]. rewrite E in HT. exact HT. }
  eexists. vm_compute. reflexivity.
Qed.

Print Assumptions C03_stable_component_partial.
Print Assumptions C03_skeptical.
Print Assumptions C03_skeptical_single.
Print Assumptions C03_skeptical_stable_none.
Print Assumptions C03_skeptical_complete_via_grounded.
