(* C09 - redundant or invalid updates never corrupt a dynamic solver.
   Statements only; every proof is [exact] of a lemma of Proofs/DynProofs.v.  The model is
   Model/Dynamic.v (tied to /repo's src/dynamics on every run by checks/C09.py); [reach] (states
   reachable by ANY interleaving of valid, redundant and invalid updates with queries that returned,
   under ANY answers of the SAT solver), [classify] (valid / redundant / invalid on the set-level
   specification of C12) and [spec_fw] are defined in Proofs/DynDefs.v.

   PROVED here, for every history and all six solver kinds: the update call's own result, and the
   framework the solver keeps for its caller (results 1-2); a rejected update leaves the solver
   state EQUAL, a redundant one changes nothing but the event buffer (3); a redundant new_argument
   is a no-op for both encoders: same tables, no SAT event - what defect D6 violated (4); no later
   query of the complete / stable / preferred solver panics - what D7 violated (5).
   (6)-(7) below (Proofs/DynFun.v; NOTES-agent-dynfun.md): for the dynamic COMPLETE and STABLE solvers with
   the standard encoder every later ANSWER is the one the semantics dictate for the framework built by
   the VALID updates alone: redundant and rejected updates are invisible in all later answers.
   NOT YET PROVED (see NOTES-dyn.md): the same for the preferred solver and the assumptions-on-attacks
   variants (the checks compare them on every run against the brute-force oracle); (5) for the
   assumptions-on-attacks variants and the wrapper. *)
From Crusta Require Import Model.Dynamic Proofs.SolverBasics Proofs.DynDefs Proofs.DynProofs Proofs.DynSafe
  Proofs.DynFunDefs Proofs.DynFun Proofs.CompProofs Proofs.SolverWholeEx.
From Crusta Require Proofs.DynAttDefs Proofs.TopMax Proofs.Clauses2.

Section C09.
Variable L : Type.
Variable leqb : L -> L -> bool.
Hypothesis leqb_spec : forall x y, leqb x y = true <-> x = y.

Notation reach := (reach L leqb).
Notation fresh := (fresh_fw L leqb).
Notation run_ops := (run_ops L leqb).

(* (0) what the specification does with the three classes of updates *)
Theorem C09_spec_classes : forall (S : sstore L) (o : op L),
  match classify L leqb S o with
  | UValid => snd (s_step L leqb S o) = ROk
  | URedundant => s_step L leqb S o = (S, ROk)
  | UInvalid => s_step L leqb S o = (S, RErr)
  end.
Proof. exact (DynProofs.s_step_classes L leqb). Qed.

(* (1)+(2) after ANY history [os] (valid, redundant, invalid updates, queries in between), for each of
   the six solver kinds: the next update reports Ok iff it is valid or redundant and Err iff it is
   invalid (never a panic), exactly as the set-level specification; and the framework the solver
   keeps for its caller is the specification store after the same history, i.e. the framework
   WITHOUT the rejected or redundant operations *)
Theorem C09_update_results : forall k s os o, reach k s os ->
  let S := abs L (run_ops fresh os) in
  snd (dyn_update L leqb s o) = snd (s_step L leqb S o) /\
  snd (dyn_update L leqb s o) = (match classify L leqb S o with UInvalid => RErr | _ => ROk end) /\
  spec_fw L (fst (dyn_update L leqb s o)) = run_ops fresh (os ++ [o]) /\
  abs L (spec_fw L (fst (dyn_update L leqb s o))) =
    (match classify L leqb S o with UValid => fst (s_step L leqb S o) | _ => S end).
Proof. exact (DynProofs.update_refines_spec L leqb leqb_spec). Qed.

(* (3) no update call touches the encoder, the solver's own framework or the replay cursor; an update
   that is not reported Ok leaves the whole solver state EQUAL *)
Theorem C09_rejected_update_leaves_state : forall s o,
  DynProofs.not_dummy (s_kind L s) ->
  s_af L (fst (dyn_update L leqb s o)) = s_af L s /\
  b_enc L (s_buf L (fst (dyn_update L leqb s o))) = b_enc L (s_buf L s) /\
  b_next L (s_buf L (fst (dyn_update L leqb s o))) = b_next L (s_buf L s) /\
  (snd (dyn_update L leqb s o) <> ROk -> fst (dyn_update L leqb s o) = s).
Proof. exact (DynProofs.update_touches_no_encoder L leqb). Qed.

(* (4) adding an argument that exists is a no-op for the encoders: same framework, same tables, not a
   single SAT event (the Prog state, which holds the event log, is returned unchanged) *)
Theorem C09_redundant_argument_std : forall af e l id ps,
  get_argument L leqb af l = Some id -> enc_new_argument L leqb af e l ps = Done (af, e) ps.
Proof. exact (DynProofs.enc_new_argument_redundant L leqb). Qed.
Theorem C09_redundant_argument_attacks : forall af e l id ps,
  get_argument L leqb af l = Some id -> att_new_argument L leqb af e l ps = Done (af, e) ps.
Proof. exact (DynProofs.att_new_argument_redundant L leqb). Qed.
Theorem C09_redundant_argument_replay : forall af e upd l id ps,
  get_argument L leqb af l = Some id ->
  std_replay L leqb (af, e, upd) (DNewArg L l) ps = Done (af, e, must_update upd id) ps.
Proof. exact (DynProofs.std_replay_redundant L leqb). Qed.

(* (5) "the solver stays usable": after ANY history (redundant and invalid updates included), a
   supported query of the complete, stable or preferred dynamic solver on an argument of the current
   framework never panics - no unwrap on None, no index out of bounds, no "no more extensions" - whatever
   the SAT solver answers.  It returns, or aborts on an Unknown answer (C17), or exhausts the model's
   fuel.  This is what D7 violated (the error of a rejected update surfaced as a panic in every later
   query).  Partial: the assumptions-on-attacks variants and the recompute wrapper are not covered. *)
Theorem C09_query_never_panics_partial : forall k s os oracle thr fuel q cert l id ps,
  reach k s os -> get_argument L leqb (run_ops fresh os) l = Some id ->
  (k = KCo /\ q = QDC) \/ (k = KSt /\ (q = QDC \/ q = QDS)) \/ (k = KPr /\ q = QDS) ->
  match dyn_query oracle L leqb thr fuel s q cert l ps with Panic _ => False | _ => True end.
Proof. exact (DynSafe.std_query_never_panics L leqb leqb_spec). Qed.

(* (6) a redundant or rejected update anywhere in a history leaves every later store EQUAL to the one of
   the history without it ([classify] on the set-level specification state at that moment) ... *)
Theorem C09_noop_update_invisible : forall os o os',
  classify L leqb (abs L (run_ops fresh os)) o <> UValid ->
  run_ops fresh (os ++ o :: os') = run_ops fresh (os ++ os').
Proof. exact (DynFun.noop_update_invisible L leqb leqb_spec). Qed.

(* (7) ... and all later answers of the complete (DC) and stable (DC, DS) dynamic solver are those of the
   framework WITHOUT the redundant and rejected updates: [effective fresh os] keeps exactly the updates
   of the history that were valid at their moment; [vreach] = reachable with the SAT program state
   threaded and one oracle (Proofs/DynFunDefs.v, see Properties/C08.v); the answer is the status of the
   argument in the framework built by the valid updates alone, with a certificate exactly when promised
   (an extension, duplicate-free, of live arguments, containing resp. omitting the argument) - for any
   valid oracle, computed or served from the cache. *)
Theorem C09_later_answers_ignore_noop_updates :
  forall oracle thr k s ps os fuel q cert l s' b c ps',
  valid_oracle oracle -> vreach L leqb oracle thr k s ps os ->
  (k = KCo /\ q = QDC) \/ (k = KSt /\ (q = QDC \/ q = QDS)) ->
  let f := run_ops fresh (effective L leqb fresh os) in
  forall id, get_argument L leqb f l = Some id ->
  dyn_query oracle L leqb thr fuel s q cert l ps = Done (s', (b, c)) ps' ->
  let F := af_of f in
  let sm := match k with KSt => ST | _ => CO end in
  let pol := match q with QDC => true | _ => false end in       (* true: credulous, false: skeptical *)
  (b = true <-> if pol then cred sm F [id] else skep sm F [id]) /\
  match c with
  | Some X => cert = true /\ b = pol /\ ext sm F X /\ NoDup X /\ incl X (args F) /\
              (if pol then In id X else ~ In id X)
  | None => cert = true -> b = negb pol
  end.
Proof. exact (DynFun.dyn_functional_effective L leqb leqb_spec). Qed.

(* ---- the first two sentences of the property text, clause by clause, in terms of the framework the
   caller has built ([run_ops fresh os]) rather than of [classify] (Proofs/Clauses2.v); all six kinds *)
(* (8) "Adding an argument or an attack that is already present is a no-op": the call reports Ok and the
   framework the solver keeps for its caller is EQUAL (the solver's own framework, the encoder and
   the replay cursor are untouched by any update: C09_rejected_update_leaves_state) *)
Theorem C09_adding_present_is_noop : forall k s os, reach k s os ->
  (forall l id, get_argument L leqb (run_ops fresh os) l = Some id ->
     snd (dyn_update L leqb s (OpNewArg l)) = ROk /\
     spec_fw L (fst (dyn_update L leqb s (OpNewArg l))) = spec_fw L s) /\
  (forall a b x y, get_argument L leqb (run_ops fresh os) a = Some x ->
     get_argument L leqb (run_ops fresh os) b = Some y -> In (x, y) (iter_attacks L (run_ops fresh os)) ->
     snd (dyn_update L leqb s (OpNewAtt a b)) = ROk /\
     spec_fw L (fst (dyn_update L leqb s (OpNewAtt a b))) = spec_fw L s).
Proof. exact (Clauses2.redundant_update_noop L leqb leqb_spec). Qed.

(* (9) "removing an unknown argument or attack, or adding an attack to or from an unknown argument, is
   reported as an error by the update call itself" - and the framework kept for the caller is EQUAL
   (for the five buffered kinds the whole solver state is: C09_rejected_update_leaves_state) *)
Theorem C09_invalid_update_is_error : forall k s os, reach k s os ->
  (forall l, get_argument L leqb (run_ops fresh os) l = None ->
     snd (dyn_update L leqb s (OpRemArg l)) = RErr /\
     spec_fw L (fst (dyn_update L leqb s (OpRemArg l))) = spec_fw L s) /\
  (forall a b, get_argument L leqb (run_ops fresh os) a = None \/ get_argument L leqb (run_ops fresh os) b = None ->
     (snd (dyn_update L leqb s (OpNewAtt a b)) = RErr /\
      spec_fw L (fst (dyn_update L leqb s (OpNewAtt a b))) = spec_fw L s) /\
     (snd (dyn_update L leqb s (OpRemAtt a b)) = RErr /\
      spec_fw L (fst (dyn_update L leqb s (OpRemAtt a b))) = spec_fw L s)) /\
  (forall a b x y, get_argument L leqb (run_ops fresh os) a = Some x ->
     get_argument L leqb (run_ops fresh os) b = Some y -> ~ In (x, y) (iter_attacks L (run_ops fresh os)) ->
     snd (dyn_update L leqb s (OpRemAtt a b)) = RErr /\
     spec_fw L (fst (dyn_update L leqb s (OpRemAtt a b))) = spec_fw L s).
Proof. exact (Clauses2.invalid_update_error L leqb leqb_spec). Qed.

(* (10) (7) for the assumptions-on-attacks variants (KCoAtt, KStAtt; [areach]: Proofs/DynAttDefs.v, see
   Properties/C08att.v): all later answers - computed or cached - are those of the framework built by
   the valid updates alone.  [acc_spec sm pol cert F [id] (b, c)] (Proofs/TopMax.v) is the condition
   spelled out in (7): status iff credulous (pol = true) / skeptical acceptance; certificate exactly
   when promised, a duplicate-free extension of live arguments containing / omitting id.
   That no such query panics: C09_att_query_never_panics; the wrapper: C08_dummy_functional *)
Theorem C09_att_later_answers_ignore_noop_updates :
  forall oracle k s ps os thr fuel q cert l s' b c ps',
  valid_oracle oracle -> DynAttDefs.areach L leqb oracle k s ps os -> DynAttDefs.att_kind k ->
  let f := run_ops fresh (effective L leqb fresh os) in
  forall id, get_argument L leqb f l = Some id ->
  dyn_query oracle L leqb thr fuel s q cert l ps = Done (s', (b, c)) ps' ->
  TopMax.acc_spec (DynAttDefs.kind_spec_sem k) (DynAttDefs.query_pol q) cert (af_of f) [id] (b, c).
Proof. exact (Clauses2.att_answers_ignore_noop_updates L leqb leqb_spec). Qed.

End C09.

(* the hypotheses are satisfiable: a reachable state with a redundant and an invalid update *)
Example C09_reach_inhabited :
  exists s, reach nat Nat.eqb KSt s ((([] ++ [OpNewArg 1]) ++ [OpNewArg 1]) ++ [OpRemArg 7]).
Proof.
  eexists. eapply reach_update. eapply reach_update. eapply reach_update.
  eapply reach_new with (ps := init_st CadicalLike). reflexivity.
Qed.

(* the hypotheses of (7) are satisfiable and the query returns: complete solver, brute-force reference
   oracle, a history with a redundant (+1 again, 1->2 again) and two rejected updates (-7, 2->9): only
   +1 +2 1->2 are effective, and DC 2 answers NO *)
Example C09_functional_inhabited :
  exists s ps s' b c ps',
    valid_oracle bf_oracle /\
    vreach nat Nat.eqb bf_oracle 1 KCo s ps
      ((((((([] ++ [OpNewArg 1]) ++ [OpNewArg 1]) ++ [OpRemArg 7]) ++ [OpNewArg 2]) ++ [OpNewAtt 1 2])
         ++ [OpNewAtt 1 2]) ++ [OpNewAtt 2 9]) /\
    effective nat Nat.eqb (fresh_fw nat Nat.eqb)
      [OpNewArg 1; OpNewArg 1; OpRemArg 7; OpNewArg 2; OpNewAtt 1 2; OpNewAtt 1 2; OpNewAtt 2 9]
      = [OpNewArg 1; OpNewArg 2; OpNewAtt 1 2] /\
    dyn_query bf_oracle nat Nat.eqb 1 10 s QDC true 2 ps = Done (s', (b, c)) ps' /\
    b = false /\ c = None.
Proof.
  do 6 eexists. split; [exact bf_oracle_valid|]. split.
  - do 7 eapply vreach_update. eapply vreach_new with (ps0 := init_st BufferedLike). reflexivity.
  - split; [vm_compute; reflexivity|]. split; [vm_compute; reflexivity|]. split; reflexivity.
Qed.

Print Assumptions C09_spec_classes.
Print Assumptions C09_update_results.
Print Assumptions C09_rejected_update_leaves_state.
Print Assumptions C09_redundant_argument_std.
Print Assumptions C09_redundant_argument_attacks.
Print Assumptions C09_redundant_argument_replay.
Print Assumptions C09_query_never_panics_partial.
Print Assumptions C09_noop_update_invisible.
Print Assumptions C09_later_answers_ignore_noop_updates.
Print Assumptions C09_adding_present_is_noop.
Print Assumptions C09_invalid_update_is_error.
Print Assumptions C09_att_later_answers_ignore_noop_updates.
