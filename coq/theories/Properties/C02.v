(* C02 - credulous acceptance answers match the semantics.
   Statements only; proofs are [exact].
   PROVED so far (every valid SAT oracle, every compact component of any size, every encoder):
     - the selector-guarded query of CompleteSemanticsSolver (to which DC-PR is delegated): a model
       is returned iff some complete extension of the component contains the argument;
     - ST: the per-component credulous step of StableSemanticsSolver.
   NOT YET PROVED in Coq (tied by trace replay + brute-force oracle on every run): component
   gluing, GR (grounded fix-point), the SST / STG / ID loops. *)
From Crusta Require Import Spec.AF Sat.Cnf Sat.Prog Model.Encoders Model.Graph Model.Solvers.
From Crusta Require Import Proofs.EncSpec Proofs.SolverBasics Proofs.SolverThms.
Open Scope prog_scope.

Theorem C02_complete_component_partial : forall oracle thr, 1 <= thr -> valid_oracle oracle ->
  forall e F n a close s,
  enc_base e = BCo -> compact_af F n -> a < n -> cls s = [] -> sess_bounded s ->
  match (encode_m thr e false F ;;; guarded_disj oracle e (ret [a]) close) s with
  | Done (Some m) _ => (cred CO F [a]) /\ (co F (assignment_to_extension n e m)) /\
                       (In a (assignment_to_extension n e m))
  | Done None _ => ~ cred CO F [a]
  | _ => True
  end.
Proof. exact SolverThms.complete_component_single. Qed.

Theorem C02_stable_component_partial : forall oracle thr, 1 <= thr -> valid_oracle oracle ->
  forall c n a, compact_af (c_af c) n -> a < n ->
  on_done (st_cc oracle thr c [a] true)
    (fun r => match r with
              | Some (m, true) => cred ST (c_af c) [a] /\
                                  st (c_af c) (assignment_to_extension n StDefault m) /\
                                  In a (assignment_to_extension n StDefault m)
              | Some (m, false) => ~ cred ST (c_af c) [a] /\
                                   st (c_af c) (assignment_to_extension n StDefault m)
              | None => forall S, ~ st (c_af c) S
              end).
Proof. exact SolverThms.stable_component_cred_single. Qed.

Print Assumptions C02_complete_component_partial.
Print Assumptions C02_stable_component_partial.
