(* C02 - credulous acceptance answers match the semantics.
   Statements only; proofs are [exact].
   PROVED (every valid SAT oracle, every threshold >= 1, every admissible encoder, every good view
   of a framework of any size, every fuel, both certificate flags, every list of arguments):
     - C02_credulous: for EVERY solver type with a credulous entry point (GR, CO, ST, SST, STG, ID)
       the status of a completed run of [run_query .. QDC ..] is true iff some extension of the
       WHOLE framework under the semantics contains a listed argument; the run never panics.
     - C02_credulous_preferred: DC-PR, which the library delegates to the complete solver: the
       status of the CO run is credulous acceptance under PR.
     - C02_complete_component_partial, C02_stable_component_partial (kept): per-component steps.
   NOT proved in Coq (by design): that the Rust code behaves like Model.Solvers (the tie: trace
   replay on every run).  Termination and fuel: see C18.
   Vocabulary of the whole-framework theorems (Proofs/TopBase.v, TopMax.v, SolverTop.v):
     view_good g F   the view g (iteration orders of an AAFramework) presents the framework F;
                     instances: view_of_af of any compact framework, view_of_fw of any store
                     reachable from new_with_labels by any update history (C01_good_view_compact, C01_good_view_store);
     supported s q   the trait implementation exists (all but CO-SE, CO-DS, PR-DC, for which the
                     library delegates to another solver type and the model has no entry point);
     enc_ok s e      the encoder may be used with the solver type (CO, SST: complete-based; STG:
                     conflict-free based; PR, ID: complete- or admissible-based; GR, ST: any);
     al_ok s q F al  nothing for SE queries and for GR / ST; otherwise the listed ids are arguments
                     of F (the list may be empty and may contain repetitions).
*)
From Crusta Require Import Spec.AF Sat.Cnf Sat.Prog Model.Encoders Model.Graph Model.Solvers.
From Crusta Require Import Proofs.EncSpec Proofs.SolverBasics Proofs.SolverThms.
From Crusta Require Import Proofs.TopBase Proofs.TopMax Proofs.SolverTop.
From Crusta Require Proofs.Clauses.
From Crusta Require Proofs.SolverWholeEx Spec.SemFacts.
From Coq Require Import Lia.
Import ListNotations.
Open Scope prog_scope.

Theorem C02_complete_component_partial : forall oracle thr, 1 <= thr -> valid_oracle oracle ->
  forall e F n a close s,
  enc_base e = BCo -> compact_af F n -> a < n -> cls s = [] -> sess_bounded s ->
  match (encode_m thr e false F ;;; guarded_disj oracle e (ret [a]) close) s with
  | Done (Some m) _ => (cred CO F [a]) /\ (co F (assignment_to_extension n e m)) /\
                       (In a (assignment_to_extension n e m))
  | Done None _ => ~ cred CO F [a]
  | _ => True
  end.
Proof. exact SolverThms.complete_component_single. Qed.

Theorem C02_stable_component_partial : forall oracle thr, 1 <= thr -> valid_oracle oracle ->
  forall c n a, compact_af (c_af c) n -> a < n ->
  on_done (st_cc oracle thr c [a] true)
    (fun r => match r with
              | Some (m, true) => cred ST (c_af c) [a] /\
                                  st (c_af c) (assignment_to_extension n StDefault m) /\
                                  In a (assignment_to_extension n StDefault m)
              | Some (m, false) => ~ cred ST (c_af c) [a] /\
                                   st (c_af c) (assignment_to_extension n StDefault m)
              | None => forall S, ~ st (c_af c) S
              end).
Proof. exact SolverThms.stable_component_cred_single. Qed.

Theorem C02_credulous : forall oracle thr g F,
  valid_oracle oracle -> 1 <= thr -> view_good g F ->
  forall s e al fuel cert st0, supported s QDC -> enc_ok s e -> al_ok s QDC F al ->
  match run_query oracle thr fuel s QDC cert e g al st0 with
  | Done (OAcc b _) _ => b = true <-> cred s F al
  | Done (OExt _) _ => False
  | Panic _ => False
  | _ => True
  end.
Proof. exact SolverTop.top_credulous. Qed.

Theorem C02_credulous_preferred : forall oracle thr g F,
  valid_oracle oracle -> 1 <= thr -> view_good g F ->
  forall e al fuel cert st0, enc_ok CO e -> al_ok CO QDC F al ->
  match run_query oracle thr fuel CO QDC cert e g al st0 with
  | Done (OAcc b _) _ => b = true <-> cred PR F al
  | Done (OExt _) _ => False
  | Panic _ => False
  | _ => True
  end.
Proof. exact SolverTop.top_credulous_preferred. Qed.

(* ---- the remaining sentences of the property text, one by one (Proofs/Clauses.v) ---- *)

(* "for every framework, argument and semantics ... YES exactly when at least one extension of the
   framework under that semantics contains the argument, and NO otherwise": the one-argument form *)
Theorem C02_credulous_single : forall oracle thr g F,
  valid_oracle oracle -> 1 <= thr -> view_good g F ->
  forall s e a fuel cert st0 b c t, supported s QDC -> enc_ok s e -> al_ok s QDC F [a] ->
  run_query oracle thr fuel s QDC cert e g [a] st0 = Done (OAcc b c) t ->
  (b = true <-> exists S, ext s F S /\ In a S).
Proof. exact Clauses.dc_single. Qed.

(* "(membership in the grounded / ideal extension for GR / ID)": G being THE grounded / ideal
   extension, YES exactly when a listed argument is a member of G *)
Theorem C02_credulous_unique_membership : forall oracle thr g F,
  valid_oracle oracle -> 1 <= thr -> view_good g F ->
  forall s e al fuel cert st0 b c t G, s = GR \/ s = ID -> enc_ok s e ->
  al_ok s QDC F al -> ext s F G ->
  run_query oracle thr fuel s QDC cert e g al st0 = Done (OAcc b c) t ->
  (b = true <-> exists a, In a al /\ In a G).
Proof. exact Clauses.dc_unique_membership. Qed.

(* "in particular NO for every argument when no stable extension exists" *)
Theorem C02_credulous_stable_none : forall oracle thr g F,
  valid_oracle oracle -> 1 <= thr -> view_good g F ->
  forall e al fuel cert st0 b c t, (forall S, ~ st F S) ->
  run_query oracle thr fuel ST QDC cert e g al st0 = Done (OAcc b c) t ->
  b = false.
Proof. exact Clauses.dc_stable_none. Qed.

(* the hypothesis "no stable extension" is satisfiable and the run completes: one self-attacking
   argument, brute-force (valid) oracle *)
Example C02_credulous_stable_none_example :
  let F := compact 1 [(0, 0)] in
  view_good (view_of_af F) F /\ (forall S, ~ st F S) /\
  exists t, run_query SolverWholeEx.bf_oracle 1 10 ST QDC false AuxCo (view_of_af F) [0]
              (init_st CadicalLike) = Done (OAcc false None) t.
Proof.
  cbv zeta. split.
  { apply (view_good_compact _ 1). split; [reflexivity|]. intros a b [E|[]]. injection E as <- <-. lia. }
  split.
  { intros S H. assert (E : all_exts ST (compact 1 [(0, 0)]) = []) by reflexivity.
    destruct (SemFacts.all_exts_complete ST _ S H) as [T [HT _]]. rewrite E in HT. exact HT. }
  eexists. vm_compute. reflexivity.
Qed.

Print Assumptions C02_complete_component_partial.
Print Assumptions C02_stable_component_partial.
Print Assumptions C02_credulous.
Print Assumptions C02_credulous_preferred.
Print Assumptions C02_credulous_single.
Print Assumptions C02_credulous_unique_membership.
Print Assumptions C02_credulous_stable_none.
