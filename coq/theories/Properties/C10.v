(* C10 - CNF encodings characterise exactly the intended argument sets.
   Statements only (vocabulary: Proofs/EncSpec.v); proofs are [exact]. *)
From Crusta Require Import Proofs.EncSpec Proofs.EncAll.

(* models, projected on the argument variables, are exactly the base sets: no more ... *)
Theorem C10_sound : forall e thr F n, 1 <= thr -> compact_af F n -> enc_sound e thr F n.
Proof. exact EncAll.all_sound. Qed.
(* ... and no fewer *)
Theorem C10_complete : forall e thr F n, 1 <= thr -> compact_af F n -> enc_complete e thr F n.
Proof. exact EncAll.all_complete. Qed.

(* with the range extension: a range variable can be true only for an argument in the range of
   the model's set, and every base set has a model whose range variables equal its range *)
Theorem C10_range_sound : forall e thr F n, 1 <= thr -> compact_af F n -> enc_range_sound e thr F n.
Proof. exact EncAll.all_range_sound. Qed.
Theorem C10_range_complete : forall e thr F n, 1 <= thr -> compact_af F n -> enc_range_complete e thr F n.
Proof. exact EncAll.all_range_complete. Qed.

(* distinct arguments get distinct literals that never collide with auxiliary or range variables *)
Theorem C10_layout : forall e thr range F n, 1 <= thr -> compact_af F n -> enc_layout e thr range F n.
Proof. exact EncAll.all_layout. Qed.

(* translating a model back yields exactly the true argument variables, each once, in id order *)
Theorem C10_assignment_to_extension : forall e n, a2e_ok e n.
Proof. exact EncAll.all_a2e. Qed.

(* non-vacuity: the encoders are defined for every (encoder, range) pair except stable+range,
   which is unimplemented!() in the code as well *)
Theorem C10_defined : forall e thr range F,
  enc_clauses e thr range F = None <-> (e = StDefault /\ range = true).
Proof. exact EncAll.all_defined. Qed.

Print Assumptions C10_sound.
Print Assumptions C10_complete.
Print Assumptions C10_range_sound.
Print Assumptions C10_range_complete.
Print Assumptions C10_layout.
Print Assumptions C10_assignment_to_extension.
Print Assumptions C10_defined.
