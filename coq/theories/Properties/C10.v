(* C10 - CNF encodings characterise exactly the intended argument sets.
   Statements only (vocabulary: Proofs/EncSpec.v); proofs are [exact]. *)
From Crusta Require Import Proofs.EncSpec Proofs.EncAll.
From Crusta Require Proofs.Clauses2.

(* models, projected on the argument variables, are exactly the base sets: no more ... *)
Theorem C10_sound : forall e thr F n, 1 <= thr -> compact_af F n -> enc_sound e thr F n.
Proof. exact EncAll.all_sound. Qed.
(* ... and no fewer *)
Theorem C10_complete : forall e thr F n, 1 <= thr -> compact_af F n -> enc_complete e thr F n.
Proof. exact EncAll.all_complete. Qed.

(* with the range extension: a range variable can be true only for an argument in the range of
   the model's set, and every base set has a model whose range variables equal its range *)
Theorem C10_range_sound : forall e thr F n, 1 <= thr -> compact_af F n -> enc_range_sound e thr F n.
Proof. exact EncAll.all_range_sound. Qed.
Theorem C10_range_complete : forall e thr F n, 1 <= thr -> compact_af F n -> enc_range_complete e thr F n.
Proof. exact EncAll.all_range_complete. Qed.

(* distinct arguments get distinct literals that never collide with auxiliary or range variables *)
Theorem C10_layout : forall e thr range F n, 1 <= thr -> compact_af F n -> enc_layout e thr range F n.
Proof. exact EncAll.all_layout. Qed.

(* translating a model back yields exactly the true argument variables, each once, in id order *)
Theorem C10_assignment_to_extension : forall e n, a2e_ok e n.
Proof. exact EncAll.all_a2e. Qed.

(* non-vacuity: the encoders are defined for every (encoder, range) pair except stable+range,
   which is unimplemented!() in the code as well *)
Theorem C10_defined : forall e thr range F,
  enc_clauses e thr range F = None <-> (e = StDefault /\ range = true).
Proof. exact EncAll.all_defined. Qed.

(* ---- the clauses of the property text spelled out (the definitions enc_sound, ... unfolded;
   Proofs/Clauses2.v).  [enc_clauses e thr range F] = the CNF encoder e generates for F (threshold thr
   of the hybrid encoder, with / without range variables); arguments are 0..n-1; a valuation m denotes
   the set of the arguments whose variable [arg_var e a] is true. *)
(* "translating back the models (restricted to the argument variables) yields exactly the conflict-free,
   admissible, complete or stable sets the encoder is meant to capture, no more and no fewer" *)
Theorem C10_models_are_exactly_the_intended_sets : forall e thr F n C,
  1 <= thr -> compact_af F n -> enc_clauses e thr false F = Some C ->
  let intended := match e with
                  | AuxCf | ExpCf => cfs | AuxAdm => adm | AuxCo | ExpCo | HybCo => co | StDefault => st
                  end in
  (forall m : val, vmodels m C = true -> intended F (filter (fun a => m (arg_var e a)) (seq 0 n))) /\
  (forall S, intended F S ->
     exists m : val, vmodels m C = true /\ forall a, a < n -> (m (arg_var e a) = true <-> In a S)).
Proof. exact Clauses2.models_exactly_target. Qed.

(* "with the range extension, a range variable can be true only for an argument in the range of the
   model's set, and every such set has a model whose range variables equal its range" *)
Theorem C10_range_variables_are_the_range : forall e thr F n C,
  1 <= thr -> compact_af F n -> enc_clauses e thr true F = Some C ->
  let intended := match e with
                  | AuxCf | ExpCf => cfs | AuxAdm => adm | AuxCo | ExpCo | HybCo => co | StDefault => st
                  end in
  (forall m : val, vmodels m C = true ->
     intended F (filter (fun a => m (arg_var e a)) (seq 0 n)) /\
     forall i, i < n -> m (range_var e n i) = true ->
               in_range F (filter (fun a => m (arg_var e a)) (seq 0 n)) i) /\
  (forall S, intended F S ->
     exists m : val, vmodels m C = true /\
       (forall a, a < n -> (m (arg_var e a) = true <-> In a S)) /\
       (forall i, i < n -> (m (range_var e n i) = true <-> in_range F S i))).
Proof. exact Clauses2.range_variables_exact. Qed.

(* "distinct arguments are mapped to distinct literals that never collide with auxiliary or range
   variables", every encoder, with and without range: [arg_to_lit] is injective and positive; its variable
   is no range variable and lies outside the auxiliary zone of the encoder ([aux_zone]: the attacker-
   disjunction variables of the aux_var encoders, the fresh variables above the argument / range block
   of the hybrid encoder); range variables are distinct and outside that zone too; and every literal
   of the generated CNF is a non-zero literal over one of these three classes of variables *)
Theorem C10_literals_never_collide : forall e thr range F n,
  1 <= thr -> compact_af F n ->
  (forall a b, arg_to_lit e a = arg_to_lit e b -> a = b) /\
  (forall a, (0 < arg_to_lit e a)%Z /\ lit_var (arg_to_lit e a) = arg_var e a) /\
  (forall a b, a < n -> b < n -> arg_var e a <> range_var e n b) /\
  (forall a, a < n -> ~ aux_zone e n range (arg_var e a)) /\
  (forall a b, range_var e n a = range_var e n b -> a = b) /\
  (forall a, a < n -> range = true -> ~ aux_zone e n range (range_var e n a)) /\
  (forall C, enc_clauses e thr range F = Some C -> forall c l, In c C -> In l c ->
     l <> 0%Z /\
     ((exists a, a < n /\ lit_var l = arg_var e a) \/
      (range = true /\ exists a, a < n /\ lit_var l = range_var e n a) \/
      aux_zone e n range (lit_var l))).
Proof. exact Clauses2.literals_never_collide. Qed.

Print Assumptions C10_sound.
Print Assumptions C10_complete.
Print Assumptions C10_range_sound.
Print Assumptions C10_range_complete.
Print Assumptions C10_layout.
Print Assumptions C10_assignment_to_extension.
Print Assumptions C10_defined.
Print Assumptions C10_models_are_exactly_the_intended_sets.
Print Assumptions C10_range_variables_are_the_range.
Print Assumptions C10_literals_never_collide.
