(* C18 for the DYNAMIC solvers - "every query terminates within a bounded number of SAT calls ... CO and
   ST need at most two calls per component".  Statements only; proofs are [exact] of Proofs/DynCalls.v.

   The dynamic complete and stable solvers (kinds KCo, KSt: standard encoder; KCoAtt num den,
   KStAtt num den: assumptions on attacks) do not decompose the framework: one query is one solve
   call on the incremental session, or none when the result cache answers.  Vocabulary:
     calls ps             the number of SAT answers consumed so far (one per solve call, whatever
                          the answer - Sat, Unsat or Unknown) in program state ps;
     Done / Abort / Panic / OutOfFuel   the four ways a program of the model ends: it returns; it
                          unwraps an Unknown answer (C17); it reaches a Rust panic; it exhausts the
                          fuel that bounds the loops of the model (the only way the model could fail
                          to terminate);
     is_cred / is_skep    the scan of the result cache (trailing computation events of the buffer).
   The theorems hold for EVERY solver state s of these kinds (reachable or not), every oracle,
   program state, fuel, threshold, query, certificate flag and label - also unknown labels and
   unsupported queries (which panic without a call).
   The preferred solver (KPr) is treated elsewhere.  For the recompute wrapper (KDummy sm) the bound
   is the one of the static solver of C18 on the store of the whole history. *)
From Crusta Require Import Spec.AF Sat.Cnf Sat.Prog Model.Store Model.Encoders Model.Graph Model.Solvers Model.Dynamic.
From Crusta Require Import Proofs.DynDefs Proofs.SolverBasics Proofs.TopBase Proofs.TopMax Proofs.SolverTop Proofs.DynCalls.
Import ListNotations.

Section C18dyn.
Variable L : Type.
Variable leqb : L -> L -> bool.

(* (1) at most ONE SAT call however the query ends, and it never ends for lack of fuel: these solvers
   use no fuel (the parameter is ignored), every loop being a fold over a finite list - the query
   terminates *)
Theorem C18_dyn_one_call : forall oracle thr fuel (s : dsolver L) q cert l ps,
  match s_kind L s with KCo | KSt | KCoAtt _ _ | KStAtt _ _ => True | _ => False end ->
  match dyn_query oracle L leqb thr fuel s q cert l ps with
  | OutOfFuel _ => False
  | Done _ ps' | Abort ps' | Panic ps' => calls ps' <= calls ps + 1
  end.
Proof. exact (fun oracle thr fuel s q cert l ps => DynCalls.dyn_query_calls L leqb oracle thr fuel s q cert l ps). Qed.

(* (2) no call at all when the cache answers: the query returns the cached status (and certificate, if
   asked for) on the SAME program state and leaves the solver untouched *)
Theorem C18_dyn_cached_credulous : forall oracle thr fuel (s : dsolver L) cert l b e ps,
  match s_kind L s with KCo | KSt | KCoAtt _ _ | KStAtt _ _ => True | _ => False end ->
  is_cred L leqb (s_buf L s) l = (Some b, Some e) ->
  dyn_query oracle L leqb thr fuel s QDC cert l ps = Done (s, (b, if cert then Some e else None)) ps.
Proof. exact (fun oracle thr fuel s cert l b e ps => DynCalls.dyn_query_cached_dc L leqb oracle thr fuel s cert l b e ps). Qed.

Theorem C18_dyn_cached_skeptical : forall oracle thr fuel (s : dsolver L) cert l b e ps,
  (s_kind L s = KSt \/ exists num den, s_kind L s = KStAtt num den) ->
  is_skep L leqb (s_buf L s) l = (Some b, Some e) ->
  dyn_query oracle L leqb thr fuel s QDS cert l ps = Done (s, (b, if cert then Some e else None)) ps.
Proof. exact (fun oracle thr fuel s cert l b e ps => DynCalls.dyn_query_cached_ds L leqb oracle thr fuel s cert l b e ps). Qed.

(* (3) the recompute wrapper: after ANY history, a supported query on a known argument runs the static
   solver on the store of the history; its calls are bounded by K = the sum of the per-component
   bounds of C18 (2 for CO / ST, the candidate-set bounds for PR, ID, SST) however it ends, it never
   panics, and it runs out of fuel only if the fuel is below the need of one of the components *)
Hypothesis leqb_spec : forall x y, leqb x y = true <-> x = y.

Theorem C18_dyn_wrapper_calls : forall sm s os, reach L leqb (KDummy sm) s os ->
  forall oracle thr fuel q cert l id ps,
  valid_oracle oracle -> 1 <= thr ->
  q <> QSE -> supported sm q -> enc_ok sm AuxCo ->
  get_argument L leqb (run_ops L leqb (fresh_fw L leqb) os) l = Some id ->
  let comps := query_comps sm q cert (view_of_fw (run_ops L leqb (fresh_fw L leqb) os)) [id] in
  let K := total_bound sm AuxCo comps in
  match dyn_query oracle L leqb thr fuel s q cert l ps with
  | Done _ ps' | Abort ps' => calls ps' <= calls ps + K
  | Panic _ => False
  | OutOfFuel ps' =>
      calls ps' <= calls ps + K /\ ~ (forall c, In c comps -> 2 * comp_bound sm AuxCo c + 4 <= fuel)
  end.
Proof. exact (DynCalls.dummy_query_calls L leqb leqb_spec). Qed.

End C18dyn.

(* the hypotheses are satisfiable, and the bound is attained: a stable solver after two arguments and
   an attack (brute-force oracle, fuel 0) makes exactly one call for its first query, a YES with the
   certificate [0]; the same query again is served from the cache without a call *)
Example C18_dyn_example :
  let s0 := fst (dyn_update nat Nat.eqb (fst (dyn_update nat Nat.eqb (fst (dyn_update nat Nat.eqb
              {| s_kind := KSt; s_af := empty_fw nat Nat.eqb;
                 s_buf := {| b_buffer := []; b_next := 0; b_enc := XStd (enc_enable (enc_new DST) false);
                             b_shadow := empty_fw nat Nat.eqb |} |} (OpNewArg 7))) (OpNewArg 8))) (OpNewAtt 7 8)) in
  exists s1 ps1, dyn_query SolverWholeEx.bf_oracle nat Nat.eqb 1 0 s0 QDC true 7 (init_st CadicalLike)
                 = Done (s1, (true, Some [0])) ps1 /\ calls ps1 = 1 /\
    (* the YES with its certificate is now cached: no further call *)
    dyn_query SolverWholeEx.bf_oracle nat Nat.eqb 1 0 s1 QDC true 7 ps1 = Done (s1, (true, Some [0])) ps1.
Proof. cbv zeta. eexists. eexists. split; [vm_compute; reflexivity|]. split; vm_compute; reflexivity. Qed.

Print Assumptions C18_dyn_one_call.
Print Assumptions C18_dyn_cached_credulous.
Print Assumptions C18_dyn_cached_skeptical.
Print Assumptions C18_dyn_wrapper_calls.
