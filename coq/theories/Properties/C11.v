(* C11 - statuses are invariant under presentation and local to components.
   Statements only; proofs are [exact].  These are theorems about the semantics themselves (the
   reference the solvers are held to by C01-C04), for frameworks of ANY size: the status
   predicates [cred] / [skep] and the extension predicate [ext] of all seven semantics are
   invariant under every presentation change named in the property, local to unrelated
   components (with the stated ST corner), and mutually consistent.  What ties them to the code:
   C02 / C03 (status computed = cred / skep) and, on every run, the metamorphic comparison of the
   real solvers on transformed instances (checks/C11.py). *)
From Crusta Require Import Spec.AF Spec.SemFacts Spec.Theory Spec.Invariance.

(* reordering / repeating attack declarations, reordering arguments *)
Theorem C11_presentation_ext : forall s F F' S, af_equiv F F' -> (ext s F S <-> ext s F' S).
Proof. exact Invariance.ext_af_equiv. Qed.
Theorem C11_presentation_cred : forall s F F' A, af_equiv F F' -> (cred s F A <-> cred s F' A).
Proof. exact Invariance.cred_af_equiv. Qed.
Theorem C11_presentation_skep : forall s F F' A, af_equiv F F' -> (skep s F A <-> skep s F' A).
Proof. exact Invariance.skep_af_equiv. Qed.

(* renaming arguments (any injective relabelling) *)
Theorem C11_renaming_cred : forall f F, wf F -> inj_on f (args F) ->
  forall s A, incl A (args F) -> (cred s (rename f F) (map f A) <-> cred s F A).
Proof. exact Invariance.cred_rename. Qed.
Theorem C11_renaming_skep : forall f F, wf F -> inj_on f (args F) ->
  forall s A, incl A (args F) -> (skep s (rename f F) (map f A) <-> skep s F A).
Proof. exact Invariance.skep_rename. Qed.

(* adding / removing an unrelated component *)
Theorem C11_locality_ext : forall F1 F2, wf F1 -> wf F2 ->
  (forall a, In a (args F1) -> ~ In a (args F2)) ->
  forall s S, ext s (disjoint_union F1 F2) S <->
    incl S (args F1 ++ args F2) /\ ext s F1 (restr (args F1) S) /\ ext s F2 (restr (args F2) S).
Proof. exact Invariance.ext_union. Qed.
Theorem C11_locality_cred : forall F1 F2, wf F1 -> wf F2 ->
  (forall a, In a (args F1) -> ~ In a (args F2)) ->
  forall s A, (exists S2, ext s F2 S2) -> incl A (args F1) ->
    (cred s (disjoint_union F1 F2) A <-> cred s F1 A).
Proof. exact Invariance.cred_union_left. Qed.
Theorem C11_locality_skep : forall F1 F2, wf F1 -> wf F2 ->
  (forall a, In a (args F1) -> ~ In a (args F2)) ->
  forall s A, (exists S2, ext s F2 S2) -> incl A (args F1) ->
    (skep s (disjoint_union F1 F2) A <-> skep s F1 A).
Proof. exact Invariance.skep_union_left. Qed.
(* the ST corner: an unrelated component without stable extension *)
Theorem C11_locality_stable_corner : forall F1 F2, wf F1 -> wf F2 ->
  (forall a, In a (args F1) -> ~ In a (args F2)) ->
  forall A, (forall S2, ~ st F2 S2) ->
    skep ST (disjoint_union F1 F2) A /\ ~ cred ST (disjoint_union F1 F2) A.
Proof. exact Invariance.st_union_corner. Qed.

(* cross-semantics consistency *)
Theorem C11_gr_in_id_in_pr : forall F G I P, wf F -> gr F G -> idl F I -> pr F P -> incl G I /\ incl I P.
Proof. exact Theory.gr_idl_pr. Qed.
Theorem C11_dc_co_eq_dc_pr : forall F A, wf F -> (cred CO F A <-> cred PR F A).
Proof. exact Theory.cred_co_pr. Qed.
Theorem C11_skep_implies_cred : forall s F A, (exists S, ext s F S) -> skep s F A -> cred s F A.
Proof. exact Theory.skep_cred. Qed.
Theorem C11_sst_is_st : forall F S, wf F -> (exists T, st F T) -> (sst F S <-> st F S).
Proof. exact Theory.sst_st_collapse. Qed.
Theorem C11_stg_is_st : forall F S, wf F -> (exists T, st F T) -> (stg F S <-> st F S).
Proof. exact Theory.stg_st_collapse. Qed.

Print Assumptions C11_presentation_ext.
Print Assumptions C11_presentation_cred.
Print Assumptions C11_presentation_skep.
Print Assumptions C11_renaming_cred.
Print Assumptions C11_renaming_skep.
Print Assumptions C11_locality_ext.
Print Assumptions C11_locality_cred.
Print Assumptions C11_locality_skep.
Print Assumptions C11_locality_stable_corner.
Print Assumptions C11_gr_in_id_in_pr.
Print Assumptions C11_dc_co_eq_dc_pr.
Print Assumptions C11_skep_implies_cred.
Print Assumptions C11_sst_is_st.
Print Assumptions C11_stg_is_st.
