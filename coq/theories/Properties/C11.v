(* C11 - statuses are invariant under presentation and local to components.
   Statements only; proofs are [exact].  These are theorems about the semantics themselves (the
   reference the solvers are held to by C01-C04), for frameworks of ANY size: the status
   predicates [cred] / [skep] and the extension predicate [ext] of all seven semantics are
   invariant under every presentation change named in the property, local to unrelated
   components (with the stated ST corner), and mutually consistent.  What ties them to the code:
   C02 / C03 (status computed = cred / skep) and, on every run, the metamorphic comparison of the
   real solvers on transformed instances (checks/C11.py).
   Second block (theorems named C11_solver_...): the transfer to the solver MODEL: the statuses computed by
   Model.Solvers.run_query on a presentation and on a transformed presentation are equal. *)
From Crusta Require Import Spec.AF Spec.SemFacts Spec.Theory Spec.Invariance.
From Crusta Require Import Sat.Cnf Sat.Prog Model.Encoders Model.Graph Model.Solvers.
From Crusta Require Import Proofs.EncSpec Proofs.SolverBasics Proofs.TopBase Proofs.TopMax Proofs.SolverTop Proofs.Corollaries.
From Crusta Require Proofs.SolverWholeEx.
From Crusta Require Proofs.Clauses.
Import ListNotations.

(* reordering / repeating attack declarations, reordering arguments *)
Theorem C11_presentation_ext : forall s F F' S, af_equiv F F' -> (ext s F S <-> ext s F' S).
Proof. exact Invariance.ext_af_equiv. Qed.
Theorem C11_presentation_cred : forall s F F' A, af_equiv F F' -> (cred s F A <-> cred s F' A).
Proof. exact Invariance.cred_af_equiv. Qed.
Theorem C11_presentation_skep : forall s F F' A, af_equiv F F' -> (skep s F A <-> skep s F' A).
Proof. exact Invariance.skep_af_equiv. Qed.

(* renaming arguments (any injective relabelling) *)
Theorem C11_renaming_cred : forall f F, wf F -> inj_on f (args F) ->
  forall s A, incl A (args F) -> (cred s (rename f F) (map f A) <-> cred s F A).
Proof. exact Invariance.cred_rename. Qed.
Theorem C11_renaming_skep : forall f F, wf F -> inj_on f (args F) ->
  forall s A, incl A (args F) -> (skep s (rename f F) (map f A) <-> skep s F A).
Proof. exact Invariance.skep_rename. Qed.

(* adding / removing an unrelated component *)
Theorem C11_locality_ext : forall F1 F2, wf F1 -> wf F2 ->
  (forall a, In a (args F1) -> ~ In a (args F2)) ->
  forall s S, ext s (disjoint_union F1 F2) S <->
    incl S (args F1 ++ args F2) /\ ext s F1 (restr (args F1) S) /\ ext s F2 (restr (args F2) S).
Proof. exact Invariance.ext_union. Qed.
Theorem C11_locality_cred : forall F1 F2, wf F1 -> wf F2 ->
  (forall a, In a (args F1) -> ~ In a (args F2)) ->
  forall s A, (exists S2, ext s F2 S2) -> incl A (args F1) ->
    (cred s (disjoint_union F1 F2) A <-> cred s F1 A).
Proof. exact Invariance.cred_union_left. Qed.
Theorem C11_locality_skep : forall F1 F2, wf F1 -> wf F2 ->
  (forall a, In a (args F1) -> ~ In a (args F2)) ->
  forall s A, (exists S2, ext s F2 S2) -> incl A (args F1) ->
    (skep s (disjoint_union F1 F2) A <-> skep s F1 A).
Proof. exact Invariance.skep_union_left. Qed.
(* the ST corner: an unrelated component without stable extension *)
Theorem C11_locality_stable_corner : forall F1 F2, wf F1 -> wf F2 ->
  (forall a, In a (args F1) -> ~ In a (args F2)) ->
  forall A, (forall S2, ~ st F2 S2) ->
    skep ST (disjoint_union F1 F2) A /\ ~ cred ST (disjoint_union F1 F2) A.
Proof. exact Invariance.st_union_corner. Qed.

(* cross-semantics consistency *)
Theorem C11_gr_in_id_in_pr : forall F G I P, wf F -> gr F G -> idl F I -> pr F P -> incl G I /\ incl I P.
Proof. exact Theory.gr_idl_pr. Qed.
Theorem C11_dc_co_eq_dc_pr : forall F A, wf F -> (cred CO F A <-> cred PR F A).
Proof. exact Theory.cred_co_pr. Qed.
Theorem C11_skep_implies_cred : forall s F A, (exists S, ext s F S) -> skep s F A -> cred s F A.
Proof. exact Theory.skep_cred. Qed.
Theorem C11_sst_is_st : forall F S, wf F -> (exists T, st F T) -> (sst F S <-> st F S).
Proof. exact Theory.sst_st_collapse. Qed.
Theorem C11_stg_is_st : forall F S, wf F -> (exists T, st F T) -> (stg F S <-> st F S).
Proof. exact Theory.stg_st_collapse. Qed.

(* ---- transfer to the SOLVER MODEL (Model.Solvers.run_query) ---------------------------------
   The same facts for the statuses the modelled solvers COMPUTE: whenever two runs of the same
   acceptance query complete (Done (OAcc b _): a status b, possibly a certificate), one on a
   presentation of a framework and one on a transformed presentation, the two statuses are equal -
   whatever the two SAT backends (any two valid oracles), thresholds >= 1, admissible encoders,
   fuels, certificate flags and start states (i.e. whatever was asked before).  Each is
   SolverTop.run_query_correct twice plus the semantic fact above.  Vocabulary as in C06:
     view_good g F    the view g (iteration orders of an AAFramework) presents the framework F
                      (it constrains membership only: C11_good_view_presentation);
     supported s q    run_query has an entry point for (s, q): all but CO-SE, CO-DS, PR-DC;
     enc_ok s e       the encoder may be used with the solver type;
     al_ok s q F al   for GR / ST nothing, otherwise the listed ids are arguments of F.
   Runs that do not complete (Abort on Unknown, OutOfFuel) carry no status; Panic is excluded by
   C01-C04. *)

(* a good view of F is a good view of every other presentation of F *)
Theorem C11_good_view_presentation : forall g F F',
  view_good g F -> af_equiv F F' -> wf F' -> view_good g F'.
Proof. exact Corollaries.view_good_equiv. Qed.

(* reordering / repeating attack declarations, reordering arguments (F and F' have the same
   arguments and the same attacks, in any order and multiplicity; g and g' are ANY two good views,
   so any two iteration orders), and reordering / repeating the queried arguments *)
Theorem C11_solver_presentation_invariant :
  forall o1 o2 thr1 thr2 g g' F F' s q e1 e2 al al' fuel1 fuel2 cert1 cert2 st1 st2 b1 c1 t1 b2 c2 t2,
  valid_oracle o1 -> valid_oracle o2 -> 1 <= thr1 -> 1 <= thr2 ->
  view_good g F -> view_good g' F' ->
  af_equiv F F' -> (forall a, In a al <-> In a al') ->
  q <> QSE -> supported s q -> enc_ok s e1 -> enc_ok s e2 -> al_ok s q F al ->
  run_query o1 thr1 fuel1 s q cert1 e1 g al st1 = Done (OAcc b1 c1) t1 ->
  run_query o2 thr2 fuel2 s q cert2 e2 g' al' st2 = Done (OAcc b2 c2) t2 ->
  b1 = b2.
Proof. exact Corollaries.solver_presentation_invariant. Qed.

(* renaming: F' = rename f F for a relabelling f injective on the arguments of F, the queried
   arguments mapped by f *)
Theorem C11_solver_renaming_invariant :
  forall o1 o2 thr1 thr2 g g' F f s q e1 e2 al fuel1 fuel2 cert1 cert2 st1 st2 b1 c1 t1 b2 c2 t2,
  valid_oracle o1 -> valid_oracle o2 -> 1 <= thr1 -> 1 <= thr2 ->
  view_good g F -> view_good g' (rename f F) ->
  inj_on f (args F) -> incl al (args F) ->
  q <> QSE -> supported s q -> enc_ok s e1 -> enc_ok s e2 ->
  run_query o1 thr1 fuel1 s q cert1 e1 g al st1 = Done (OAcc b1 c1) t1 ->
  run_query o2 thr2 fuel2 s q cert2 e2 g' (map f al) st2 = Done (OAcc b2 c2) t2 ->
  b1 = b2.
Proof. exact Corollaries.solver_renaming_invariant. Qed.

(* adding / removing an unrelated part G (no common argument, hence no attack between F and G;
   G may consist of several components); for ST provided G has a stable extension *)
Theorem C11_solver_locality :
  forall o1 o2 thr1 thr2 g g' F G s q e1 e2 al fuel1 fuel2 cert1 cert2 st1 st2 b1 c1 t1 b2 c2 t2,
  valid_oracle o1 -> valid_oracle o2 -> 1 <= thr1 -> 1 <= thr2 ->
  view_good g F -> view_good g' (disjoint_union F G) ->
  wf G -> (forall a, In a (args F) -> ~ In a (args G)) ->
  (s = ST -> exists S2, st G S2) ->
  incl al (args F) ->
  q <> QSE -> supported s q -> enc_ok s e1 -> enc_ok s e2 ->
  run_query o1 thr1 fuel1 s q cert1 e1 g al st1 = Done (OAcc b1 c1) t1 ->
  run_query o2 thr2 fuel2 s q cert2 e2 g' al st2 = Done (OAcc b2 c2) t2 ->
  b1 = b2.
Proof. exact Corollaries.solver_locality. Qed.

(* the ST corner: if the unrelated part has no stable extension, every completed stable query on
   the union says NO (credulous) / YES (skeptical), whatever the arguments *)
Theorem C11_solver_locality_stable_corner :
  forall o thr g' F G q e al fuel cert st0 b c t,
  valid_oracle o -> 1 <= thr ->
  view_good g' (disjoint_union F G) ->
  wf F -> wf G -> (forall a, In a (args F) -> ~ In a (args G)) ->
  (forall S2, ~ st G S2) ->
  q <> QSE ->
  run_query o thr fuel ST q cert e g' al st0 = Done (OAcc b c) t ->
  b = negb (qpol q).
Proof. exact Corollaries.solver_locality_stable_corner. Qed.

(* The hypotheses are satisfiable and the runs complete: F = 0 -> 1 -> 2; F2 lists the attacks in
   another order, one of them twice; the renaming a |-> 2 - a; the unrelated part G = 3 <-> 4 (it
   has stable extensions); Gbad = 3 -> 3 (it has none).  Brute-force (valid) oracle. *)
Definition c11_F := compact 3 [(0, 1); (1, 2)].
Definition c11_F2 := compact 3 [(1, 2); (0, 1); (0, 1)].
Definition c11_f (a : nat) := 2 - a.
Definition c11_G : af := {| args := [3; 4]; atts := [(3, 4); (4, 3)] |}.
Definition c11_Gbad : af := {| args := [3]; atts := [(3, 3)] |}.
Definition c11_run s q F al :=
  run_query SolverWholeEx.bf_oracle 1 100 s q true AuxCo (view_of_af F) al (init_st CadicalLike).
Definition c11_status (r : res outcome) : option bool :=
  match r with Done (OAcc b _) _ => Some b | _ => None end.

Example C11_solver_example :
  view_good (view_of_af c11_F) c11_F /\ view_good (view_of_af c11_F2) c11_F2 /\ af_equiv c11_F c11_F2 /\
  view_good (view_of_af (compact 3 [(2, 1); (1, 0)])) (rename c11_f c11_F) /\ inj_on c11_f (args c11_F) /\
  view_good (view_of_af (compact 5 [(0, 1); (1, 2); (3, 4); (4, 3)])) (disjoint_union c11_F c11_G) /\
  wf c11_G /\ (forall a, In a (args c11_F) -> ~ In a (args c11_G)) /\ (exists S2, st c11_G S2) /\
  view_good (view_of_af (compact 4 [(0, 1); (1, 2); (3, 3)])) (disjoint_union c11_F c11_Gbad) /\
  (forall S2, ~ st c11_Gbad S2) /\
  c11_status (c11_run ST QDC c11_F [2]) = Some true /\
  c11_status (c11_run ST QDC c11_F2 [2; 2]) = Some true /\
  c11_status (c11_run ST QDC (compact 3 [(2, 1); (1, 0)]) (map c11_f [2])) = Some true /\
  c11_status (c11_run ST QDC (compact 5 [(0, 1); (1, 2); (3, 4); (4, 3)]) [2]) = Some true /\
  c11_status (c11_run ST QDC (compact 4 [(0, 1); (1, 2); (3, 3)]) [2]) = Some false /\
  c11_status (c11_run ST QDS (compact 4 [(0, 1); (1, 2); (3, 3)]) [1]) = Some true.
Proof.
  assert (Hc : forall n l, atts_okb n l = true -> view_good (view_of_af (compact n l)) (compact n l)).
  { intros n l H. apply (view_good_compact _ n). split; [reflexivity|].
    intros a b Hin. unfold atts_okb in H. rewrite forallb_forall in H. specialize (H _ Hin).
    cbn [fst snd] in H. apply andb_prop in H. destruct H as [H1 H2].
    apply Nat.ltb_lt in H1. apply Nat.ltb_lt in H2. split; assumption. }
  assert (Hw1 : wf (rename c11_f c11_F)).
  { split; [repeat constructor; cbn; intuition discriminate|].
    intros a b H; cbn in H. destruct H as [H|[H|[]]]; injection H as <- <-; cbn; tauto. }
  assert (Hw2 : wf c11_G).
  { split; [repeat constructor; cbn; intuition discriminate|].
    intros a b H; cbn in H. destruct H as [H|[H|[]]]; injection H as <- <-; cbn; tauto. }
  split; [apply Hc; reflexivity|]. split; [apply Hc; reflexivity|].
  split.
  { split; [intros a; reflexivity|]. intros a b. unfold att, c11_F, c11_F2, compact. cbn [atts In]. tauto. }
  split.
  { apply (view_good_equiv _ (compact 3 [(2, 1); (1, 0)])); [apply Hc; reflexivity| |exact Hw1].
    split; [intros a; cbn; tauto|]. intros a b. unfold att. cbn. tauto. }
  split.
  { intros a b Ha Hb. cbn in Ha, Hb. unfold c11_f.
    destruct Ha as [<-|[<-|[<-|[]]]]; destruct Hb as [<-|[<-|[<-|[]]]]; cbn; congruence. }
  split; [exact (Hc 5 [(0, 1); (1, 2); (3, 4); (4, 3)] eq_refl)|]. split; [exact Hw2|].
  split. { intros a Ha Hb. cbn in Ha, Hb. destruct Hb as [<-|[<-|[]]]; destruct Ha as [E|[E|[E|[]]]]; discriminate. }
  split. { exists [3]. apply stb_st. reflexivity. }
  split; [exact (Hc 4 [(0, 1); (1, 2); (3, 3)] eq_refl)|].
  split. { intros S2 H. assert (E : all_exts ST c11_Gbad = []) by reflexivity.
           destruct (all_exts_complete ST c11_Gbad S2 H) as [T [HT _]]. rewrite E in HT. exact HT. }
  repeat split; vm_compute; reflexivity.
Qed.

(* ---- "The answers for different semantics on one framework are mutually consistent", at the level
   of the SOLVER MODEL: completed runs of run_query on views of the same framework F, whatever the
   oracles, thresholds, encoders, fuels, flags and start states (Proofs/Clauses.v) ---- *)

(* "GR within ID within every PR extension": the three single-extension answers *)
Theorem C11_solver_gr_in_id_in_pr : forall g F, view_good g F ->
  forall o1 o2 o3 thr1 thr2 thr3, valid_oracle o1 -> valid_oracle o2 -> valid_oracle o3 ->
  1 <= thr1 -> 1 <= thr2 -> 1 <= thr3 ->
  forall e1 e2 e3 al1 al2 al3 fuel1 fuel2 fuel3 cert1 cert2 cert3 st1 st2 st3 r1 r2 r3 t1 t2 t3,
  enc_ok ID e2 -> enc_ok PR e3 ->
  run_query o1 thr1 fuel1 GR QSE cert1 e1 g al1 st1 = Done (OExt r1) t1 ->
  run_query o2 thr2 fuel2 ID QSE cert2 e2 g al2 st2 = Done (OExt r2) t2 ->
  run_query o3 thr3 fuel3 PR QSE cert3 e3 g al3 st3 = Done (OExt r3) t3 ->
  exists G I P, r1 = Some G /\ r2 = Some I /\ r3 = Some P /\ incl G I /\ incl I P.
Proof. exact Clauses.se_gr_in_id_in_pr. Qed.

(* "DC-CO equals DC-PR": there is no DC-PR solver; the library answers DC-PR by the complete solver,
   and the status of that one run is credulous acceptance under CO and under PR alike *)
Theorem C11_solver_dc_co_is_dc_pr : forall g F, view_good g F ->
  forall oracle thr, valid_oracle oracle -> 1 <= thr ->
  forall e al fuel cert st0 b c t, enc_ok CO e -> al_ok CO QDC F al ->
  run_query oracle thr fuel CO QDC cert e g al st0 = Done (OAcc b c) t ->
  (b = true <-> cred CO F al) /\ (b = true <-> cred PR F al).
Proof. exact Clauses.dc_co_is_dc_pr. Qed.

(* "skeptical acceptance implies credulous acceptance when an extension exists": a skeptical YES and
   a completed credulous run of the same solver type on the same arguments *)
Theorem C11_solver_skeptical_yes_implies_credulous_yes : forall g F, view_good g F ->
  forall o1 o2 thr1 thr2, valid_oracle o1 -> valid_oracle o2 -> 1 <= thr1 -> 1 <= thr2 ->
  forall s e1 e2 al fuel1 fuel2 cert1 cert2 st1 st2 c1 t1 b2 c2 t2,
  supported s QDS -> supported s QDC -> enc_ok s e1 -> enc_ok s e2 -> al_ok s QDS F al ->
  (exists S, ext s F S) ->
  run_query o1 thr1 fuel1 s QDS cert1 e1 g al st1 = Done (OAcc true c1) t1 ->
  run_query o2 thr2 fuel2 s QDC cert2 e2 g al st2 = Done (OAcc b2 c2) t2 ->
  b2 = true.
Proof. exact Clauses.ds_yes_implies_dc_yes. Qed.

(* the same for PR (a preferred extension always exists), whose credulous question goes to the
   complete solver *)
Theorem C11_solver_skeptical_pr_yes_implies_credulous_yes : forall g F, view_good g F ->
  forall o1 o2 thr1 thr2, valid_oracle o1 -> valid_oracle o2 -> 1 <= thr1 -> 1 <= thr2 ->
  forall e1 e2 al fuel1 fuel2 cert1 cert2 st1 st2 c1 t1 b2 c2 t2,
  enc_ok PR e1 -> enc_ok CO e2 -> al_ok PR QDS F al ->
  run_query o1 thr1 fuel1 PR QDS cert1 e1 g al st1 = Done (OAcc true c1) t1 ->
  run_query o2 thr2 fuel2 CO QDC cert2 e2 g al st2 = Done (OAcc b2 c2) t2 ->
  b2 = true.
Proof. exact Clauses.ds_pr_yes_implies_dc_yes. Qed.

(* "ST, SST and STG coincide whenever a stable extension exists": the statuses of the same
   acceptance query under any two of the three solver types ... *)
Theorem C11_solver_stable_family_statuses : forall g F, view_good g F ->
  forall o1 o2 thr1 thr2, valid_oracle o1 -> valid_oracle o2 -> 1 <= thr1 -> 1 <= thr2 ->
  forall s1 s2 q e1 e2 al fuel1 fuel2 cert1 cert2 st1 st2 b1 c1 t1 b2 c2 t2,
  s1 = ST \/ s1 = SST \/ s1 = STG -> s2 = ST \/ s2 = SST \/ s2 = STG ->
  q <> QSE -> enc_ok s1 e1 -> enc_ok s2 e2 -> incl al (args F) ->
  (exists T, st F T) ->
  run_query o1 thr1 fuel1 s1 q cert1 e1 g al st1 = Done (OAcc b1 c1) t1 ->
  run_query o2 thr2 fuel2 s2 q cert2 e2 g al st2 = Done (OAcc b2 c2) t2 ->
  b1 = b2.
Proof. exact Clauses.stable_family_statuses_coincide. Qed.

(* ... and the single-extension answers of the SST / STG solvers are then stable extensions *)
Theorem C11_solver_stable_family_extension : forall g F, view_good g F ->
  forall oracle thr, valid_oracle oracle -> 1 <= thr ->
  forall s e al fuel cert st0 r t, s = SST \/ s = STG -> enc_ok s e -> (exists T, st F T) ->
  run_query oracle thr fuel s QSE cert e g al st0 = Done (OExt r) t ->
  exists L, r = Some L /\ st F L.
Proof. exact Clauses.stable_family_se. Qed.

Print Assumptions C11_presentation_ext.
Print Assumptions C11_presentation_cred.
Print Assumptions C11_presentation_skep.
Print Assumptions C11_renaming_cred.
Print Assumptions C11_renaming_skep.
Print Assumptions C11_locality_ext.
Print Assumptions C11_locality_cred.
Print Assumptions C11_locality_skep.
Print Assumptions C11_locality_stable_corner.
Print Assumptions C11_gr_in_id_in_pr.
Print Assumptions C11_dc_co_eq_dc_pr.
Print Assumptions C11_skep_implies_cred.
Print Assumptions C11_sst_is_st.
Print Assumptions C11_stg_is_st.
Print Assumptions C11_good_view_presentation.
Print Assumptions C11_solver_presentation_invariant.
Print Assumptions C11_solver_renaming_invariant.
Print Assumptions C11_solver_locality.
Print Assumptions C11_solver_locality_stable_corner.
Print Assumptions C11_solver_gr_in_id_in_pr.
Print Assumptions C11_solver_dc_co_is_dc_pr.
Print Assumptions C11_solver_skeptical_yes_implies_credulous_yes.
Print Assumptions C11_solver_skeptical_pr_yes_implies_credulous_yes.
Print Assumptions C11_solver_stable_family_statuses.
Print Assumptions C11_solver_stable_family_extension.
