(* C13 - instance readers are total and faithful.
   Statements only; every proof is [exact] of a lemma of Proofs/ReadersProofs.v, Proofs/ApxProofs.v
   (C13_apx_framework_attacks: Proofs/WritersProofs.v, which also defines [has_att_lab]).
   Vocabulary (abstract instances, rendering choices, [render_lines]): Spec/IoSpec.v.
   The readers are the total functions [read_iccma], [read_apx] : bytes -> RdOk fw | RdErr | RdPanic
   of Model/Readers.v ([lines] = BufRead::lines() + UTF-8 validation). *)
From Crusta Require Import Spec.IoSpec Proofs.IoBase Proofs.ReadersProofs Proofs.ApxProofs Proofs.WritersProofs.

(* ------------------------------------------------------------------ ICCMA'23 *)

(* totality: the reader returns a framework or an error on every byte string *)
Theorem C13_iccma_total : forall bytes, read_iccma bytes <> RdPanic.
Proof. exact ReadersProofs.read_iccma_total. Qed.

(* (a) faithfulness: every rendering (LF/CRLF per line, optional final newline, comment lines
   anywhere, empty lines after the last attack, any blanks around and between tokens, + signs,
   leading zeros, duplicate attack lines) of every abstract instance is read as that instance *)
Theorem C13_iccma_faithful : forall f eols final_nl,
  iccma_file_ok f -> final_ok (iccma_file_lines f) final_nl ->
  read_iccma (render_lines (iccma_file_lines f) eols final_nl) =
  RdOk (iccma_fw (f_n f) (file_attacks f)).
Proof. exact ReadersProofs.iccma_faithful. Qed.

(* ... and that framework has exactly the declared arguments 1..n, in order, with ids 0..n-1, and
   exactly the declared attacks, in file order *)
Theorem C13_iccma_framework_shape : forall n atts, (forall p, In p atts -> fst p < n /\ snd p < n) ->
  iter_args nat (iccma_fw n atts) = numbered 0 (seq 1 n) /\
  iter_attacks nat (iccma_fw n atts) = atts /\
  observe (iccma_fw n atts) = (seq 1 n, atts).
Proof. exact ReadersProofs.iccma_fw_shape. Qed.

(* (c) rejection, stated on the decoded lines [lines bytes] of an arbitrary file *)
(* invalid UTF-8 anywhere *)
Theorem C13_iccma_rejects_invalid_utf8 : forall bytes,
  In None (lines bytes) -> read_iccma bytes = RdErr.
Proof. exact (fun bytes => ReadersProofs.iccma_rejects_invalid_utf8 (lines bytes) None false). Qed.

(* missing preamble: nothing but comments and empty lines *)
Theorem C13_iccma_rejects_missing_header : forall bytes,
  Forall (fun l => is_comment l \/ l = Some []) (lines bytes) -> read_iccma bytes = RdErr.
Proof. exact (fun bytes => ReadersProofs.iccma_rejects_missing_header (lines bytes) false). Qed.

(* ill-formed preamble: the first content line is not `p af <n>` with 0 <= n <= isize::MAX *)
Theorem C13_iccma_rejects_bad_header : forall bytes cs h rest,
  lines bytes = cs ++ Some h :: rest -> Forall is_comment cs -> is_content h ->
  read_preamble (split_ws h) = None -> read_iccma bytes = RdErr.
Proof.
  exact (fun bytes cs h rest E Hc Hh Hp =>
           eq_trans (f_equal (fun ls => iccma_lines ls None false) E)
                    (ReadersProofs.iccma_rejects_bad_header cs h rest false Hc Hh Hp)).
Qed.

(* after a preamble declaring n arguments, a content line that is not exactly two integers in 1..n:
   wrong arity, index 0, index > n, not an integer, beyond isize *)
Theorem C13_iccma_rejects_bad_attack_line : forall bytes cs h n body l,
  lines bytes = cs ++ Some h :: body -> Forall is_comment cs -> is_content h ->
  read_preamble (split_ws h) = Some n -> In (Some l) body -> is_content l -> bad_attack_line n l ->
  read_iccma bytes = RdErr.
Proof.
  exact (fun bytes cs h n body l E Hc Hh Hp Hin Hl Hb =>
           eq_trans (f_equal (fun ls => iccma_lines ls None false) E)
                    (ReadersProofs.iccma_rejects_bad_attack_line cs h n body l Hc Hh Hp Hin Hl Hb)).
Qed.

(* content (anything but a comment or an empty line) after an empty line *)
Theorem C13_iccma_rejects_content_after_blank : forall bytes pre post l,
  lines bytes = pre ++ Some [] :: post -> In (Some l) post -> is_content l ->
  read_iccma bytes = RdErr.
Proof.
  exact (fun bytes pre post l E Hin Hl =>
           eq_trans (f_equal (fun ls => iccma_lines ls None false) E)
                    (ReadersProofs.iccma_rejects_content_after_blank pre post l None false Hin Hl)).
Qed.

(* (d) read_arg_from_str on the framework the reader returned: Ok exactly for the decimal usize
   k with 1 <= k <= n, and then the argument with id k-1 and label k; never a panic *)
Theorem C13_iccma_read_arg_exact : forall n atts s, (forall p, In p atts -> fst p < n /\ snd p < n) ->
  iccma_read_arg (iccma_fw n atts) s =
  match parse_usize s with
  | Some k => if (0 <? k)%N && (k <=? N.of_nat n)%N then RdOk (N.to_nat k - 1, N.to_nat k) else RdErr
  | None => RdErr
  end.
Proof. exact ReadersProofs.iccma_read_arg_exact. Qed.

(* ------------------------------------------------------------------ Aspartix *)

Theorem C13_apx_total : forall bytes, read_apx bytes <> RdPanic.
Proof. exact ApxProofs.read_apx_total. Qed.

(* (b) faithfulness: every rendering (LF/CRLF per line, optional final newline, blank or
   whitespace-only lines anywhere, any blanks before `arg`/`att`, around the names and after the
   final dot, duplicate declarations and attacks, identifiers = a letter or underscore followed by letters,
   underscores and Unicode decimal digits) of every abstract instance whose attacks only use declared arguments is read as
   the framework built from the declared labels (duplicates collapse: [fw_new_with_labels]) by
   inserting the declared attacks (duplicates collapse: [new_attack]) *)
Theorem C13_apx_faithful : forall f eols final_nl,
  apx_file_ok f -> final_ok (apx_file_lines f) final_nl ->
  read_apx (render_lines (apx_file_lines f) eols final_nl) =
  RdOk (apx_result (decl_labels f) (att_pairs f)).
Proof. exact ApxProofs.apx_faithful. Qed.

(* the arguments of that framework are the declared labels, first occurrences, in declaration
   order, with ids 0,1,2,... *)
Theorem C13_apx_framework_labels : forall decls,
  iter_args str (fw_new_with_labels str str_eqb decls) = numbered 0 (dedup str_eqb [] decls).
Proof. exact (ReadersProofs.init_iter_args str str_eqb). Qed.

(* ... and its attacks, as a set of label pairs, are exactly the declared attacks ([has_att_lab f a b]:
   some attack of [iter_attacks f] joins the arguments that [iter_args f] labels a and b); no attack
   is stored twice, however often it is declared *)
Theorem C13_apx_framework_attacks : forall decls atts,
  (forall p, In p atts -> In (fst p) decls /\ In (snd p) decls) ->
  NoDup (iter_attacks str (apx_result decls atts)) /\
  forall a b, has_att_lab (apx_result decls atts) a b <-> In (a, b) atts.
Proof. exact WritersProofs.apx_result_attacks. Qed.

(* (c) rejection, on the decoded lines of an arbitrary file *)
Theorem C13_apx_rejects_invalid_utf8 : forall bytes, In None (lines bytes) -> read_apx bytes = RdErr.
Proof. exact (fun bytes => ApxProofs.apx_rejects_invalid_utf8 (lines bytes) [] None). Qed.

(* a non-blank line that is neither `arg(..).` nor `att(..,..).`: bad keyword, missing parenthesis
   or terminator, `att` with a single name, junk *)
Theorem C13_apx_rejects_syntax_error : forall bytes l, In (Some l) (lines bytes) ->
  all_ws l = false -> match_arg_line l = None -> match_att_line l = None -> read_apx bytes = RdErr.
Proof. exact (fun bytes l => ApxProofs.apx_rejects_syntax_error (lines bytes) l [] None). Qed.

(* an `arg` line whose name is not an identifier *)
Theorem C13_apx_rejects_bad_arg_name : forall bytes l x, In (Some l) (lines bytes) ->
  all_ws l = false -> match_arg_line l = Some x -> match_ident_ws x = None -> read_apx bytes = RdErr.
Proof. exact (fun bytes l x => ApxProofs.apx_rejects_bad_arg_name (lines bytes) l x [] None). Qed.

(* an `att` line one of whose names is not an identifier (also `att(a,b,c).`: wrong arity) *)
Theorem C13_apx_rejects_bad_att_names : forall bytes l x1 x2, In (Some l) (lines bytes) ->
  all_ws l = false -> match_arg_line l = None -> match_att_line l = Some (x1, x2) ->
  (match_ident_ws x1 = None \/ match_ident_ws x2 = None) -> read_apx bytes = RdErr.
Proof. exact (fun bytes l x1 x2 => ApxProofs.apx_rejects_bad_att_names (lines bytes) l x1 x2 [] None). Qed.

(* an argument declared after an attack *)
Theorem C13_apx_rejects_arg_after_att : forall bytes pre l1 mid l2 post x,
  lines bytes = pre ++ Some l1 :: mid ++ Some l2 :: post ->
  all_ws l1 = false -> match_arg_line l1 = None -> match_att_line l1 <> None ->
  all_ws l2 = false -> match_arg_line l2 = Some x -> read_apx bytes = RdErr.
Proof.
  exact (fun bytes pre l1 mid l2 post x E H1 H2 H3 H4 H5 =>
           eq_trans (f_equal (fun ls => apx_lines ls [] None) E)
                    (ApxProofs.apx_rejects_arg_after_att pre l1 mid l2 post x [] None H1 H2 H3 H4 H5)).
Qed.

(* an `att(a,b).` line naming an argument that no EARLIER `arg` line declared ([declared_labels pre]:
   the identifiers of the `arg(..).` lines among the lines before it, Proofs/ApxProofs.v), for
   arbitrary content before (if that content is itself rejected, the file is rejected as well)
   and after the line *)
Theorem C13_apx_rejects_undeclared_argument : forall bytes pre l post x1 x2 a b,
  lines bytes = pre ++ Some l :: post ->
  all_ws l = false -> match_arg_line l = None -> match_att_line l = Some (x1, x2) ->
  match_ident_ws x1 = Some a -> match_ident_ws x2 = Some b ->
  (~ In a (declared_labels pre) \/ ~ In b (declared_labels pre)) ->
  read_apx bytes = RdErr.
Proof.
  exact (fun bytes pre l post x1 x2 a b E H1 H2 H3 H4 H5 Hun =>
           eq_trans (f_equal (fun ls => apx_lines ls [] None) E)
                    (ApxProofs.apx_rejects_undeclared pre l post x1 x2 a b H1 H2 H3 H4 H5 Hun)).
Qed.

(* (d) read_arg_from_str on the framework the reader returned (C13_apx_faithful): Ok exactly for
   the declared labels, and then the argument (id, label) of [iter_args] with that label; Err
   exactly for every other string; never a panic; [iter_args] repeated for reference *)
Theorem C13_apx_read_arg_exact : forall decls atts s,
  (forall k l, apx_read_arg (apx_result decls atts) s = RdOk (k, l) <->
               l = s /\ In (k, s) (iter_args str (apx_result decls atts))) /\
  (apx_read_arg (apx_result decls atts) s = RdErr <-> ~ In s decls) /\
  apx_read_arg (apx_result decls atts) s <> RdPanic /\
  iter_args str (apx_result decls atts) = numbered 0 (dedup str_eqb [] decls).
Proof. exact ApxProofs.apx_read_arg_exact. Qed.

(* the same on ANY store reachable by any update history (tombstoned ids included): unlike the
   ICCMA'23 read_arg_from_str (observation O-io-1), the Aspartix one is exact on every store *)
Theorem C13_apx_read_arg_any_store : forall (f : fw str) s,
  (exists ls os, f = run_ops str str_eqb (fw_new_with_labels str str_eqb ls) os) ->
  (forall k l, apx_read_arg f s = RdOk (k, l) <-> l = s /\ In (k, s) (iter_args str f)) /\
  (apx_read_arg f s = RdErr <-> ~ In s (map snd (iter_args str f))) /\
  apx_read_arg f s <> RdPanic.
Proof. exact ApxProofs.apx_read_arg_store. Qed.

(* the hypotheses of C13_apx_rejects_undeclared_argument are satisfiable: `arg(a).` then `att(a,b).` *)
Example C13_example_undeclared :
  let bytes := [97; 114; 103; 40; 97; 41; 46; 10; 97; 116; 116; 40; 97; 44; 98; 41; 46; 10]%N in
  lines bytes = [Some [97; 114; 103; 40; 97; 41; 46]%N] ++ Some [97; 116; 116; 40; 97; 44; 98; 41; 46]%N :: [] /\
  declared_labels [Some [97; 114; 103; 40; 97; 41; 46]%N] = [[97%N]] /\
  match_att_line [97; 116; 116; 40; 97; 44; 98; 41; 46]%N = Some ([97%N], [98%N]) /\
  match_ident_ws [98%N] = Some [98%N] /\ read_apx bytes = RdErr.
Proof. vm_compute. repeat split; reflexivity. Qed.

Print Assumptions C13_iccma_total.
Print Assumptions C13_iccma_faithful.
Print Assumptions C13_iccma_framework_shape.
Print Assumptions C13_iccma_rejects_invalid_utf8.
Print Assumptions C13_iccma_rejects_missing_header.
Print Assumptions C13_iccma_rejects_bad_header.
Print Assumptions C13_iccma_rejects_bad_attack_line.
Print Assumptions C13_iccma_rejects_content_after_blank.
Print Assumptions C13_iccma_read_arg_exact.
Print Assumptions C13_apx_total.
Print Assumptions C13_apx_faithful.
Print Assumptions C13_apx_framework_labels.
Print Assumptions C13_apx_framework_attacks.
Print Assumptions C13_apx_rejects_invalid_utf8.
Print Assumptions C13_apx_rejects_syntax_error.
Print Assumptions C13_apx_rejects_bad_arg_name.
Print Assumptions C13_apx_rejects_bad_att_names.
Print Assumptions C13_apx_rejects_arg_after_att.
Print Assumptions C13_apx_rejects_undeclared_argument.
Print Assumptions C13_apx_read_arg_exact.
Print Assumptions C13_apx_read_arg_any_store.
