(* C13 - instance readers are total and faithful (statements only). *)
From Crusta Require Import Model.Readers.

Theorem C13_stub_partial : read_iccma [] = RdErr.
Proof. reflexivity. Qed.

Print Assumptions C13_stub_partial.
