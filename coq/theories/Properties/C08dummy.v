(* C08 / C09 for the recompute-from-scratch wrapper - the FULL functional theorem.
   Statements only; every proof is [exact] of a lemma of Proofs/DummyTop.v.

   The wrapper (DummyDynamicConstraintsEncoder; kind [KDummy sm] of Model/Dynamic.v) keeps the
   framework as a plain store, applies every update to it directly and answers a query by running
   the STATIC solver of semantics [sm] (Model.Solvers.run_query, default aux_var complete encoder
   [AuxCo]) on the current store.  Vocabulary:
     reach (KDummy sm) s os    [s] is a solver state reachable from [dyn_new] by ANY interleaving of
                               update calls (valid, redundant or invalid; [os] lists ALL of them, in
                               order) and of queries that returned - each earlier query under an
                               arbitrary oracle, fuel, threshold and program state (Proofs/DynDefs.v);
     run_ops fresh os          the specification store: the empty store after the history [os]
                               (invalid updates are rejected by [Store.step] and leave no trace);
     af_of f                   the abstract framework of a store: live ids, declared attacks;
     get_argument f l = Some id   the label [l] names the live argument [id] of the store;
     valid_oracle oracle       every answer is correct (Sat m: m satisfies clauses and assumptions;
                               Unsat: nothing does); Unknown is always allowed;
     supported sm q            run_query has an entry point for (sm, q): all but CO-SE, CO-DS, PR-DC;
     enc_ok sm AuxCo           the wrapper's fixed encoder is admissible for sm (all but STG);
     qpol q                    true for QDC (credulous), false for QDS (skeptical);
     query_comps / total_bound / comp_bound   the components the static query works on and the
                               bound on its SAT calls (Proofs/TopMax.v, as in C18).
   Which (sm, q) the wrapper serves is C08_dummy_supported_pairs: for the three semantics the library
   instantiates it with: CO-DC, ST-DC, ST-DS, PR-DS (DC-PR is not an entry point of run_query; the
   library answers it with the complete solver, see C02_credulous_preferred). *)
From Crusta Require Import Spec.AF Sat.Cnf Sat.Prog Model.Store Model.Encoders Model.Graph Model.Solvers Model.Dynamic.
From Crusta Require Import Proofs.DynDefs Proofs.SolverBasics Proofs.TopBase Proofs.TopMax Proofs.SolverTop Proofs.DummyTop.
From Crusta Require Proofs.GroundedProofs Proofs.SolverWholeEx.
Import ListNotations.

Theorem C08_dummy_supported_pairs : forall sm q,
  (q <> QSE /\ supported sm q /\ enc_ok sm AuxCo) <->
  match sm, q with
  | _, QSE => False
  | CO, QDS | PR, QDC => False
  | STG, _ => False
  | _, _ => True
  end.
Proof. exact DummyTop.dummy_supported_cases. Qed.

Section C08dummy.
Variable L : Type.
Variable leqb : L -> L -> bool.
Hypothesis leqb_spec : forall x y, leqb x y = true <-> x = y.

Notation reach := (reach L leqb).
Notation fresh := (fresh_fw L leqb).
Notation run_ops := (run_ops L leqb).
Notation af_of := (GroundedProofs.af_of L).

(* After ANY history, for a valid oracle: a query of the wrapper on a known argument
   - if it returns: leaves the solver state untouched; its status is credulous / skeptical
     acceptance of [id] in the framework built by the whole history; a certificate is returned
     exactly when promised (flag set and status = the witnessed one: credulous YES / skeptical NO),
     and is a duplicate-free extension of that framework, made of its arguments, containing
     (credulous) / omitting (skeptical) [id];
   - never panics;
   - makes at most K SAT calls however it ends, and runs out of fuel only if the fuel is below
     the need of one of the components. *)
Theorem C08_dummy_functional : forall sm s os, reach (KDummy sm) s os ->
  forall oracle thr fuel q cert l id ps,
  valid_oracle oracle -> 1 <= thr ->
  q <> QSE -> supported sm q -> enc_ok sm AuxCo ->
  get_argument L leqb (run_ops fresh os) l = Some id ->
  let F := af_of (run_ops fresh os) in
  let comps := query_comps sm q cert (view_of_fw (run_ops fresh os)) [id] in
  let K := total_bound sm AuxCo comps in
  match dyn_query oracle L leqb thr fuel s q cert l ps with
  | Done (s', (b, c)) ps' =>
      s' = s /\
      (b = true <-> if qpol q then cred sm F [id] else skep sm F [id]) /\
      match c with
      | Some E => cert = true /\ b = qpol q /\ ext sm F E /\ NoDup E /\ incl E (args F) /\
                  (if qpol q then In id E else ~ In id E)
      | None => cert = true -> b = negb (qpol q)
      end /\
      calls ps' <= calls ps + K
  | Abort ps' => calls ps' <= calls ps + K
  | Panic _ => False
  | OutOfFuel ps' =>
      calls ps' <= calls ps + K /\ ~ (forall c, In c comps -> 2 * comp_bound sm AuxCo c + 4 <= fuel)
  end.
Proof. exact (DummyTop.dummy_query_functional L leqb leqb_spec). Qed.

(* C09, "the solver stays usable": whatever updates (also redundant and invalid ones) and queries
   came before, a supported query on a known argument never reaches a panic ... *)
Theorem C09_dummy_query_never_panics : forall sm s os, reach (KDummy sm) s os ->
  forall oracle thr fuel q cert l id ps,
  valid_oracle oracle -> 1 <= thr ->
  q <> QSE -> supported sm q -> enc_ok sm AuxCo ->
  get_argument L leqb (run_ops fresh os) l = Some id ->
  match dyn_query oracle L leqb thr fuel s q cert l ps with
  | Panic _ => False
  | _ => True
  end.
Proof. exact (DummyTop.dummy_query_never_panics L leqb leqb_spec). Qed.

(* ... and with fuel above twice the call bound it returns an answer or aborts on Unknown *)
Theorem C09_dummy_query_terminates : forall sm s os, reach (KDummy sm) s os ->
  forall oracle thr fuel q cert l id ps,
  valid_oracle oracle -> 1 <= thr ->
  q <> QSE -> supported sm q -> enc_ok sm AuxCo ->
  get_argument L leqb (run_ops fresh os) l = Some id ->
  2 * total_bound sm AuxCo (query_comps sm q cert (view_of_fw (run_ops fresh os)) [id]) + 4 <= fuel ->
  match dyn_query oracle L leqb thr fuel s q cert l ps with
  | Panic _ | OutOfFuel _ => False
  | _ => True
  end.
Proof. exact (DummyTop.dummy_query_terminates L leqb leqb_spec). Qed.

End C08dummy.

(* The hypotheses are satisfiable, non-trivially: labels are numbers; the history adds 1, 2, 3,
   the attacks 1 -> 2, 2 -> 3, a redundant argument 2, an invalid attack on the unknown label 9,
   removes the attack 2 -> 3 and adds it again; a brute-force (valid) oracle.  The preferred
   wrapper then says: 3 is skeptically accepted (no certificate), 2 is not (certificate [0; 2],
   the ids of 1 and 3). *)
Definition ex_ops : list (op nat) :=
  [OpNewArg 1; OpNewArg 2; OpNewArg 3; OpNewAtt 1 2; OpNewAtt 2 3; OpNewArg 2; OpNewAtt 1 9;
   OpRemAtt 2 3; OpNewAtt 2 3].
Definition ex_solver (sm : sem) : dsolver nat :=
  fold_left (fun s o => fst (dyn_update nat Nat.eqb s o)) ex_ops
    {| s_kind := KDummy sm; s_af := empty_fw nat Nat.eqb;
       s_buf := {| b_buffer := []; b_next := 0; b_enc := XStd (enc_new DCO); b_shadow := empty_fw nat Nat.eqb |} |}.

Example C08_dummy_example :
  (forall x y, Nat.eqb x y = true <-> x = y) /\
  reach nat Nat.eqb (KDummy PR) (ex_solver PR) ex_ops /\
  valid_oracle SolverWholeEx.bf_oracle /\
  get_argument nat Nat.eqb (run_ops nat Nat.eqb (fresh_fw nat Nat.eqb) ex_ops) 3 = Some 2 /\
  get_argument nat Nat.eqb (run_ops nat Nat.eqb (fresh_fw nat Nat.eqb) ex_ops) 2 = Some 1 /\
  (exists ps', dyn_query SolverWholeEx.bf_oracle nat Nat.eqb 1 100 (ex_solver PR) QDS true 3
                 (init_st CadicalLike) = Done (ex_solver PR, (true, None)) ps') /\
  (exists ps', dyn_query SolverWholeEx.bf_oracle nat Nat.eqb 1 100 (ex_solver PR) QDS true 2
                 (init_st CadicalLike) = Done (ex_solver PR, (false, Some [0; 2])) ps').
Proof.
  split; [exact Nat.eqb_eq|]. split.
  { unfold ex_solver, ex_ops. cbn [fold_left].
    repeat match goal with
           | |- reach _ _ _ (fst (dyn_update _ _ ?s ?o)) (?a :: ?r) =>
               let l := eval cbv [removelast] in (removelast (a :: r)) in
               change (a :: r) with (l ++ [o]); apply reach_update
           end.
    apply (reach_new nat Nat.eqb (KDummy PR) (init_st CadicalLike) (init_st CadicalLike)). reflexivity. }
  split; [exact SolverWholeEx.bf_oracle_valid|].
  split; [vm_compute; reflexivity|]. split; [vm_compute; reflexivity|].
  split; eexists; vm_compute; reflexivity.
Qed.

Print Assumptions C08_dummy_supported_pairs.
Print Assumptions C08_dummy_functional.
Print Assumptions C09_dummy_query_never_panics.
Print Assumptions C09_dummy_query_terminates.
