(* C06 - answers do not depend on encoding, SAT backend, certificate flag or query order.
   Statements only; proofs are [exact].
   PROVED so far, at the level of the model, for every compact component of any size:
     - the complete solver's credulous query gives the same status for any two complete-semantics
       encoders (aux_var, exp, hybrid with any thresholds), any two correct SAT backends (any two
       valid oracles) and both certificate flags;
     - the stable solver's component step gives the same verdict for any two correct backends.
   By construction of the model: a solver object carries no state from one query to the next
   (every query of Model.Solvers opens fresh sessions and the hybrid encoder's table is local to one
   encoding) and a query takes the framework as an immutable value; whether the REAL objects and
   encoders behave like that is exactly what the tie checks on every run (sequences of queries with
   repetitions on one object vs fresh objects, one encoder object reused across encodings).
   NOT YET PROVED: the same independence for the PR / SST / STG / ID loops (it follows from C02 /
   C03 at full strength, which are not yet theorems for those). *)
From Crusta Require Import Spec.AF Sat.Cnf Sat.Prog Model.Encoders Model.Graph Model.Solvers.
From Crusta Require Import Proofs.EncSpec Proofs.SolverBasics Proofs.ConfigIndep.
Open Scope prog_scope.

Theorem C06_complete_query_config_independent_partial :
  forall o1 o2 thr1 thr2, 1 <= thr1 -> 1 <= thr2 -> valid_oracle o1 -> valid_oracle o2 ->
  forall e1 e2 F n la c1 c2 s1 s2,
  enc_base e1 = BCo -> enc_base e2 = BCo ->
  compact_af F n -> (forall a, In a la -> a < n) ->
  cls s1 = [] -> sess_bounded s1 -> cls s2 = [] -> sess_bounded s2 ->
  forall r1 t1 r2 t2,
  (encode_m thr1 e1 false F ;;; guarded_disj o1 e1 (ret la) c1) s1 = Done r1 t1 ->
  (encode_m thr2 e2 false F ;;; guarded_disj o2 e2 (ret la) c2) s2 = Done r2 t2 ->
  is_some r1 = is_some r2.
Proof. exact ConfigIndep.complete_query_config_independent. Qed.

Theorem C06_stable_component_backend_independent_partial :
  forall o1 o2 thr1 thr2, 1 <= thr1 -> 1 <= thr2 -> valid_oracle o1 -> valid_oracle o2 ->
  forall c n la pol s1 s2,
  compact_af (c_af c) n -> (forall a, In a la -> a < n) ->
  forall r1 t1 r2 t2,
  st_cc o1 thr1 c la pol s1 = Done r1 t1 -> st_cc o2 thr2 c la pol s2 = Done r2 t2 ->
  st_verdict r1 = st_verdict r2.
Proof. exact ConfigIndep.stable_component_backend_independent. Qed.

Print Assumptions C06_complete_query_config_independent_partial.
Print Assumptions C06_stable_component_backend_independent_partial.
